/-
Lemmas about the text format and the validating reader of the cache file (used by Props/C36).
-/
import Mathlib.Tactic.SplitIfs
import Mathlib.Data.List.Basic
import TsdateVerif.Model.CacheFS

namespace Tsdate.CacheFS

/-! ### Lines -/

section Text
variable (nl hash : Nat)

theorem lines_line_nl (r rest : Bytes) (hr : nl ∉ r) :
    lines nl (r ++ nl :: rest) = r :: lines nl rest := by
  induction r with
  | nil => simp [lines]
  | cons c cs ih =>
    have hc : c ≠ nl := fun h => hr (h ▸ List.mem_cons_self ..)
    have hcs : nl ∉ cs := fun h => hr (List.mem_cons_of_mem _ h)
    simp [lines, hc, ih hcs]

theorem lines_single (r : Bytes) (hr : nl ∉ r) (hne : r ≠ []) : lines nl r = [r] := by
  induction r with
  | nil => exact absurd rfl hne
  | cons c cs ih =>
    have hc : c ≠ nl := fun h => hr (h ▸ List.mem_cons_self ..)
    have hcs : nl ∉ cs := fun h => hr (List.mem_cons_of_mem _ h)
    cases cs with
    | nil => simp [lines, hc]
    | cons d ds =>
      have := ih hcs (by simp)
      rw [lines, if_neg hc, this]

/-- Every byte of every line is a byte of the text. -/
theorem mem_of_mem_lines (t : Bytes) : ∀ l ∈ lines nl t, ∀ x ∈ l, x ∈ t := by
  induction t with
  | nil => simp [lines]
  | cons c cs ih =>
    intro l hl x hx
    unfold lines at hl
    split_ifs at hl with hc
    · rcases List.mem_cons.mp hl with rfl | hl
      · simp at hx
      · exact List.mem_cons_of_mem _ (ih l hl x hx)
    · cases hls : lines nl cs with
      | nil =>
        rw [hls] at hl
        simp at hl
        subst hl
        simp at hx
        simp [hx]
      | cons l0 ls =>
        rw [hls] at hl
        simp only [List.mem_cons] at hl
        rcases hl with rfl | hl
        · rcases List.mem_cons.mp hx with rfl | hx
          · simp
          · exact List.mem_cons_of_mem _ (ih l0 (by simp [hls]) x hx)
        · exact List.mem_cons_of_mem _ (ih l (by simp [hls, hl]) x hx)

variable {ρ : Type}

/-- The row part of an encoding. -/
def body (fmt : ρ → Bytes) (rows : List ρ) : Bytes := (rows.map (fun r => fmt r ++ [nl])).flatten

theorem encode_eq (footer : Bytes) (fmt : ρ → Bytes) (rows : List ρ) :
    encode nl footer fmt rows = body nl fmt rows ++ (footer ++ [nl]) := by
  simp [encode, encodeChunks, body]

theorem lines_body_append (fmt : ρ → Bytes) (rows : List ρ) (hfmt : ∀ r ∈ rows, nl ∉ fmt r)
    (q : Bytes) : lines nl (body nl fmt rows ++ q) = rows.map fmt ++ lines nl q := by
  induction rows with
  | nil => simp [body]
  | cons r rs ih =>
    have h1 : nl ∉ fmt r := hfmt r (List.mem_cons_self ..)
    have h2 := ih (fun r' hr' => hfmt r' (List.mem_cons_of_mem _ hr'))
    have : body nl fmt (r :: rs) ++ q = fmt r ++ nl :: (body nl fmt rs ++ q) := by
      simp [body]
    rw [this, lines_line_nl nl _ _ h1, h2]
    simp

theorem not_mem_body (x : Nat) (hx : x ≠ nl) (fmt : ρ → Bytes) (rows : List ρ)
    (hfmt : ∀ r ∈ rows, x ∉ fmt r) : x ∉ body nl fmt rows := by
  induction rows with
  | nil => simp [body]
  | cons r rs ih =>
    have h1 := hfmt r (List.mem_cons_self ..)
    have h2 := ih (fun r' hr' => hfmt r' (List.mem_cons_of_mem _ hr'))
    have : body nl fmt (r :: rs) = fmt r ++ nl :: body nl fmt rs := by simp [body]
    rw [this]
    simp [h1, h2, hx]

theorem mapAll_map (parseRow : Bytes → Option ρ) (fmt : ρ → Bytes) (rows : List ρ)
    (hrt : ∀ r ∈ rows, parseRow (fmt r) = some r) : mapAll parseRow (rows.map fmt) = some rows := by
  induction rows with
  | nil => rfl
  | cons r rs ih =>
    have h1 := hrt r (List.mem_cons_self ..)
    have h2 := ih (fun r' hr' => hrt r' (List.mem_cons_of_mem _ hr'))
    simp [mapAll, h1, h2]

/-- Hypotheses on the text format, all decidable on a concrete file:
rows contain neither the line terminator nor the comment character and are not empty; the footer
starts with the comment character and contains no line terminator. -/
structure FormatOK (footer : Bytes) (fmt : ρ → Bytes) (rows : List ρ) : Prop where
  nl_ne_hash : nl ≠ hash
  row_nl : ∀ r ∈ rows, nl ∉ fmt r
  row_hash : ∀ r ∈ rows, hash ∉ fmt r
  row_ne : ∀ r ∈ rows, fmt r ≠ []
  footer_hash : footer.head? = some hash
  footer_nl : nl ∉ footer

theorem stripComment_row (l : Bytes) (h : hash ∉ l) : stripComment hash l = l := by
  unfold stripComment
  induction l with
  | nil => rfl
  | cons c cs ih =>
    have hc : c ≠ hash := fun h' => h (h' ▸ List.mem_cons_self ..)
    have hcs : hash ∉ cs := fun h' => h (List.mem_cons_of_mem _ h')
    rw [List.takeWhile_cons_of_pos (by simpa using hc), ih hcs]

theorem stripComment_footer (footer : Bytes) (h : footer.head? = some hash) :
    stripComment hash footer = [] := by
  cases footer with
  | nil => simp at h
  | cons c cs =>
    simp at h
    subst h
    simp [stripComment]

theorem dataLines_rows_footer (footer : Bytes) (fmt : ρ → Bytes) (rows : List ρ)
    (hf : FormatOK nl hash footer fmt rows) :
    (((rows.map fmt ++ [footer]).map (stripComment hash)).filter (· ≠ [])) = rows.map fmt := by
  rw [List.map_append, List.filter_append]
  have h1 : (rows.map fmt).map (stripComment hash) = rows.map fmt := by
    rw [List.map_map]
    apply List.map_congr_left
    intro r hr
    exact stripComment_row hash _ (hf.row_hash r hr)
  rw [h1]
  have h2 : (rows.map fmt).filter (· ≠ []) = rows.map fmt := by
    rw [List.filter_eq_self]
    intro l hl
    obtain ⟨r, hr, rfl⟩ := List.mem_map.mp hl
    simpa using hf.row_ne r hr
  rw [h2]
  simp [stripComment_footer hash footer hf.footer_hash]

/-- Reading back `body ++ footer` (with or without the final terminator). -/
theorem reader_complete (footer : Bytes) (fmt : ρ → Bytes) (parseRow : Bytes → Option ρ)
    (valid : ρ → Bool) (rows : List ρ) (hf : FormatOK nl hash footer fmt rows)
    (hrt : ∀ r ∈ rows, parseRow (fmt r) = some r) (hn : 2 ≤ rows.length)
    (hv : rows.all valid = true) (t : Bytes)
    (ht : lines nl t = rows.map fmt ++ [footer]) :
    reader nl hash footer parseRow valid rows.length t = some rows := by
  unfold reader lastLine readTable dataLines
  rw [ht]
  simp only [List.getLast?_append, List.getLast?_singleton, Option.or_some, Option.some_or,
    if_true]
  rw [dataLines_rows_footer nl hash footer fmt rows hf, mapAll_map parseRow fmt rows hrt]
  simp [hn, hv]

theorem footer_ne_nil {footer : Bytes} (h : footer.head? = some hash) : footer ≠ [] := by
  intro h'; simp [h'] at h

theorem lines_full (footer : Bytes) (fmt : ρ → Bytes) (rows : List ρ)
    (hf : FormatOK nl hash footer fmt rows) :
    lines nl (encode nl footer fmt rows) = rows.map fmt ++ [footer] := by
  rw [encode_eq, lines_body_append nl fmt rows hf.row_nl, lines_line_nl nl _ _ hf.footer_nl]
  simp [lines]

theorem lines_nofinal (footer : Bytes) (fmt : ρ → Bytes) (rows : List ρ)
    (hf : FormatOK nl hash footer fmt rows) :
    lines nl (body nl fmt rows ++ footer) = rows.map fmt ++ [footer] := by
  rw [lines_body_append nl fmt rows hf.row_nl,
    lines_single nl footer hf.footer_nl (footer_ne_nil hash hf.footer_hash)]

/-- A text without the comment character is rejected (its last line cannot be the footer). -/
theorem reader_no_hash (footer : Bytes) (parseRow : Bytes → Option ρ) (valid : ρ → Bool) (n : Nat)
    (hfoot : footer.head? = some hash) (t : Bytes) (ht : hash ∉ t) :
    reader nl hash footer parseRow valid n t = none := by
  unfold reader
  rw [if_neg]
  intro hl
  unfold lastLine at hl
  have hmem : footer ∈ lines nl t := List.mem_of_getLast? hl
  cases footer with
  | nil => simp at hfoot
  | cons c cs =>
    simp at hfoot
    subst hfoot
    exact ht (mem_of_mem_lines nl t _ hmem c (List.mem_cons_self ..))

theorem prefix_append_cases {α : Type} {p a b : List α} (h : p <+: a ++ b) :
    p <+: a ∨ ∃ q, p = a ++ q ∧ q <+: b := by
  rcases List.prefix_or_prefix_of_prefix h (List.prefix_append a b) with h1 | ⟨q, rfl⟩
  · exact Or.inl h1
  · exact Or.inr ⟨q, rfl, (List.prefix_append_right_inj a).mp h⟩

/-- **Every prefix of an encoding is rejected or read back exactly.** -/
theorem reader_prefix (footer : Bytes) (fmt : ρ → Bytes) (parseRow : Bytes → Option ρ)
    (valid : ρ → Bool) (rows : List ρ) (hf : FormatOK nl hash footer fmt rows)
    (hrt : ∀ r ∈ rows, parseRow (fmt r) = some r) (hn : 2 ≤ rows.length)
    (hv : rows.all valid = true) (p : Bytes) (hp : p <+: encode nl footer fmt rows) :
    reader nl hash footer parseRow valid rows.length p = none ∨
    reader nl hash footer parseRow valid rows.length p = some rows := by
  rw [encode_eq] at hp
  rcases prefix_append_cases hp with h | ⟨q, rfl, hq⟩
  · -- inside the rows: no comment character at all
    left
    apply reader_no_hash nl hash footer parseRow valid _ hf.footer_hash
    intro hh
    exact not_mem_body nl hash (Ne.symm hf.nl_ne_hash) fmt rows hf.row_hash (h.subset hh)
  · rcases prefix_append_cases hq with h | ⟨q', rfl, hq'⟩
    · -- inside (or at the end of) the footer line
      by_cases hqf : q = footer
      · right
        subst hqf
        exact reader_complete nl hash q fmt parseRow valid rows hf hrt hn hv _
          (lines_nofinal nl hash q fmt rows hf)
      · left
        unfold reader
        rw [if_neg]
        unfold lastLine
        rw [lines_body_append nl fmt rows hf.row_nl]
        have hqnl : nl ∉ q := fun hx => hf.footer_nl (h.subset hx)
        by_cases hqe : q = []
        · subst hqe
          simp only [lines, List.append_nil]
          intro hl
          have hmem : footer ∈ rows.map fmt := List.mem_of_getLast? hl
          obtain ⟨r, hr, hrf⟩ := List.mem_map.mp hmem
          have := hf.row_hash r hr
          rw [hrf] at this
          cases footer with
          | nil => exact absurd hf.footer_hash (by simp)
          | cons c cs =>
            have hc := hf.footer_hash
            simp at hc
            subst hc
            exact this (List.mem_cons_self ..)
        · rw [lines_single nl q hqnl hqe]
          simp only [List.getLast?_append, List.getLast?_singleton, Option.or_some, Option.some_or]
          intro hl
          exact hqf (Option.some.inj hl)
    · -- the whole encoding
      right
      have hq'' : q' = [] ∨ q' = [nl] := by
        rcases List.prefix_cons_iff.mp hq' with rfl | ⟨t, rfl, ht⟩
        · exact Or.inl rfl
        · right; simp [List.prefix_nil.mp ht]
      rcases hq'' with rfl | rfl
      · rw [List.append_nil]
        exact reader_complete nl hash footer fmt parseRow valid rows hf hrt hn hv _
          (lines_nofinal nl hash footer fmt rows hf)
      · have := lines_full nl hash footer fmt rows hf
        rw [encode_eq] at this
        exact reader_complete nl hash footer fmt parseRow valid rows hf hrt hn hv _ this

theorem lastLine_full (footer : Bytes) (fmt : ρ → Bytes) (rows : List ρ)
    (hf : FormatOK nl hash footer fmt rows) :
    lastLine nl (encode nl footer fmt rows) = some footer := by
  unfold lastLine
  rw [lines_full nl hash footer fmt rows hf]
  simp

/-- The reader's three looks at the cache name, when the name holds (a) initially nothing or a prefix
of the encoding and (b) at each later look either what it held at the previous look, or nothing, or
the complete encoding. -/
theorem readCache_looks (footer : Bytes) (fmt : ρ → Bytes) (parseRow : Bytes → Option ρ)
    (valid : ρ → Bool) (rows : List ρ) (hf : FormatOK nl hash footer fmt rows)
    (hrt : ∀ r ∈ rows, parseRow (fmt r) = some r) (hn : 2 ≤ rows.length)
    (hv : rows.all valid = true) (v0 v1 v2 : Option Bytes)
    (h0 : v0 = none ∨ ∃ p, p <+: encode nl footer fmt rows ∧ v0 = some p)
    (h1 : v1 = v0 ∨ v1 = none ∨ v1 = some (encode nl footer fmt rows))
    (h2 : v2 = v1 ∨ v2 = none ∨ v2 = some (encode nl footer fmt rows)) :
    readCache nl hash footer parseRow valid rows.length v0 v1 v2 = none ∨
    readCache nl hash footer parseRow valid rows.length v0 v1 v2 = some rows := by
  have p1 : v1 = none ∨ ∃ p, p <+: encode nl footer fmt rows ∧ v1 = some p := by
    rcases h1 with g | g | g
    · rw [g]; exact h0
    · exact Or.inl g
    · exact Or.inr ⟨_, List.prefix_refl _, g⟩
  rcases h0 with rfl | ⟨q0, _, rfl⟩
  · left; rfl
  rcases p1 with rfl | ⟨q1, hq1, rfl⟩
  · left; rfl
  rcases h2 with g | g | g
  · -- one consistent (possibly truncated) file at the last two looks
    subst g
    exact reader_prefix nl hash footer fmt parseRow valid rows hf hrt hn hv q1 hq1
  · subst g; left; rfl
  · -- the footer test saw `q1`, genfromtxt sees the complete encoding
    subst g
    have hfull := reader_complete nl hash footer fmt parseRow valid rows hf hrt hn hv _
      (lines_full nl hash footer fmt rows hf)
    unfold reader at hfull
    rw [lastLine_full nl hash footer fmt rows hf, if_pos rfl] at hfull
    unfold readCache
    by_cases hl : lastLine nl q1 = some footer
    · right
      simp only [hl, if_true]
      exact hfull
    · left; simp [hl]

end Text



end Tsdate.CacheFS
