/-
Lemmas about traversal orders and passes (Model/Order.lean), used by Props/C11, C13, C38.
-/
import Mathlib.Order.Basic
import Mathlib.Order.Lattice
import Mathlib.Data.List.Basic
import Mathlib.Data.List.Perm.Basic
import Mathlib.Data.List.Nodup
import Mathlib.Tactic.SplitIfs
import TsdateVerif.Model.Order

namespace Tsdate.Order
open Tsdate
set_option linter.unusedSectionVars false
set_option linter.unusedVariables false

/-! ### `itertools.groupby` -/

section Runs
variable {ε : Type}

/-- key of the first element of a group -/
def ghead (key : ε → Nat) : List ε → Nat
  | [] => 0
  | e :: _ => key e

theorem runsBy_cons_cases (key : ε → Nat) (e : ε) (es : List ε) :
    (runsBy key es = [] ∧ runsBy key (e :: es) = [[e]]) ∨
    (∃ g gs, runsBy key es = g :: gs ∧ g ≠ [] ∧ ghead key g = key e ∧
        runsBy key (e :: es) = (e :: g) :: gs) ∨
    (∃ g gs, runsBy key es = g :: gs ∧ (g = [] ∨ ghead key g ≠ key e) ∧
        runsBy key (e :: es) = [e] :: (if g = [] then gs else g :: gs)) := by
  cases h : runsBy key es with
  | nil => left; exact ⟨rfl, by simp [runsBy, h]⟩
  | cons g gs =>
    cases g with
    | nil =>
      right; right
      exact ⟨[], gs, rfl, Or.inl rfl, by simp [runsBy, h]⟩
    | cons e' g' =>
      by_cases hk : key e = key e'
      · right; left
        exact ⟨e' :: g', gs, rfl, by simp, by simp [ghead, hk], by simp [runsBy, h, hk]⟩
      · right; right
        exact ⟨e' :: g', gs, rfl, Or.inr (by simp [ghead]; exact fun h' => hk h'.symm),
          by simp [runsBy, h, hk]⟩

theorem runsBy_ne_nil (key : ε → Nat) (es : List ε) : ∀ g ∈ runsBy key es, g ≠ [] := by
  induction es with
  | nil => intro g hg; simp [runsBy] at hg
  | cons e es ih =>
    intro g hg
    rcases runsBy_cons_cases key e es with ⟨_, h2⟩ | ⟨g0, gs, h1, _, _, h2⟩ | ⟨g0, gs, h1, _, h2⟩
    · rw [h2] at hg; simp at hg; rw [hg]; simp
    · rw [h2] at hg
      rcases List.mem_cons.mp hg with rfl | hg'
      · simp
      · exact ih g (by rw [h1]; exact List.mem_cons_of_mem _ hg')
    · rw [h2] at hg
      rcases List.mem_cons.mp hg with rfl | hg'
      · simp
      · apply ih g
        rw [h1]
        split_ifs at hg' with h0
        · exact List.mem_cons_of_mem _ hg'
        · exact hg'

theorem runsBy_flatten (key : ε → Nat) (es : List ε) : (runsBy key es).flatten = es := by
  induction es with
  | nil => simp [runsBy]
  | cons e es ih =>
    rcases runsBy_cons_cases key e es with ⟨h1, h2⟩ | ⟨g0, gs, h1, _, _, h2⟩ | ⟨g0, gs, h1, h0, h2⟩
    · rw [h2]; rw [h1] at ih; simp at ih; simp [← ih]
    · rw [h2]; rw [h1] at ih; simp at ih; simp [← ih]
    · rw [h2]; rw [h1] at ih
      have hne := runsBy_ne_nil key es g0 (by rw [h1]; exact List.mem_cons_self ..)
      simp [hne]; simp at ih; exact ih

/-- all elements of a run have the key of its head -/
theorem runsBy_homog (key : ε → Nat) (es : List ε) :
    ∀ g ∈ runsBy key es, ∀ e ∈ g, key e = ghead key g := by
  induction es with
  | nil => intro g hg; simp [runsBy] at hg
  | cons e es ih =>
    intro g hg x hx
    rcases runsBy_cons_cases key e es with ⟨_, h2⟩ | ⟨g0, gs, h1, hne, hk, h2⟩ | ⟨g0, gs, h1, _, h2⟩
    · rw [h2] at hg; simp at hg; subst hg; simp at hx; subst hx; rfl
    · rw [h2] at hg
      rcases List.mem_cons.mp hg with rfl | hg'
      · rcases List.mem_cons.mp hx with rfl | hx'
        · rfl
        · have := ih g0 (by rw [h1]; exact List.mem_cons_self ..) x hx'
          rw [this, hk]; rfl
      · exact ih g (by rw [h1]; exact List.mem_cons_of_mem _ hg') x hx
    · rw [h2] at hg
      rcases List.mem_cons.mp hg with rfl | hg'
      · simp at hx; subst hx; rfl
      · apply ih g _ x hx
        rw [h1]
        split_ifs at hg' with h0
        · exact List.mem_cons_of_mem _ hg'
        · exact hg'

/-- sources are complete before they are read: no group, from the current one on, is about a
node that the current group reads -/
def SrcDone (key src : ε → Nat) : List (List ε) → Prop
  | [] => True
  | g :: rest => (∀ e ∈ g, ∀ g' ∈ g :: rest, ghead key g' ≠ src e) ∧ SrcDone key src rest

/-- the flat form of `SrcDone`: no edge's destination is the source of itself or of an earlier
edge -/
def FlatDone (key src : ε → Nat) (es : List ε) : Prop :=
  es.Pairwise (fun e e' => key e' ≠ src e) ∧ ∀ e ∈ es, key e ≠ src e

theorem srcDone_of_flat (key src : ε → Nat) (gs : List (List ε)) (hne : ∀ g ∈ gs, g ≠ [])
    (hhom : ∀ g ∈ gs, ∀ e ∈ g, key e = ghead key g) (hflat : FlatDone key src gs.flatten) :
    SrcDone key src gs := by
  induction gs with
  | nil => trivial
  | cons g gs ih =>
    obtain ⟨hpw, hnl⟩ := hflat
    rw [List.flatten_cons, List.pairwise_append] at hpw
    obtain ⟨_, hpw2, hcross⟩ := hpw
    refine ⟨?_, ih (fun g' hg' => hne g' (List.mem_cons_of_mem _ hg'))
      (fun g' hg' => hhom g' (List.mem_cons_of_mem _ hg'))
      ⟨hpw2, fun e he => hnl e (by simp only [List.flatten_cons, List.mem_append]; exact Or.inr he)⟩⟩
    intro e he g' hg'
    rcases List.mem_cons.mp hg' with rfl | hin
    · rw [← hhom g' (List.mem_cons_self ..) e he]
      exact hnl e (by simp only [List.flatten_cons, List.mem_append]; exact Or.inl he)
    · obtain ⟨y, ys, hy⟩ := List.exists_cons_of_ne_nil (hne g' (List.mem_cons_of_mem _ hin))
      have hymem : y ∈ gs.flatten := List.mem_flatten.mpr ⟨g', hin, by rw [hy]; exact List.mem_cons_self ..⟩
      have : ghead key g' = key y := by rw [hy]; rfl
      rw [this]
      exact hcross e he y hymem

theorem srcDone_runsBy (key src : ε → Nat) (es : List ε) (h : FlatDone key src es) :
    SrcDone key src (runsBy key es) :=
  srcDone_of_flat key src _ (runsBy_ne_nil key es) (runsBy_homog key es)
    (by rw [runsBy_flatten]; exact h)

end Runs

/-! ### acyclicity from node times -/

section Rank
variable {α : Type} [LinearOrder α]

theorem countP_lt_of_imp {γ : Type} (p q : γ → Bool) (l : List γ) (himp : ∀ x ∈ l, p x = true → q x = true)
    (x : γ) (hx : x ∈ l) (hq : q x = true) (hp : p x = false) : l.countP p < l.countP q := by
  induction l with
  | nil => cases hx
  | cons y l ih =>
    have hle : l.countP p ≤ l.countP q :=
      List.countP_mono_left (fun z hz => himp z (List.mem_cons_of_mem _ hz))
    rw [List.countP_cons, List.countP_cons]
    rcases List.mem_cons.mp hx with rfl | hxl
    · simp only [hq, hp, if_true]
      simp
      omega
    · have := ih (fun z hz => himp z (List.mem_cons_of_mem _ hz)) hxl
      by_cases hpy : p y = true
      · have hqy := himp y (List.mem_cons_self ..) hpy
        simp only [hpy, hqy, if_true]; omega
      · have hpy' : p y = false := by simpa using hpy
        rw [hpy']
        have h0 : (if false = true then 1 else 0) = 0 := by simp
        rw [h0]
        split_ifs <;> omega

/-- strictly increasing node times along every edge give a natural-number rank (the number of
edge sources that are strictly younger) that increases along every edge: the graph is acyclic -/
theorem exists_rank (time : Nat → α) (es : List DEdge) (hval : ∀ e ∈ es, time e.src < time e.dst) :
    ∃ rank : Nat → Nat, ∀ e ∈ es, rank e.src < rank e.dst := by
  refine ⟨fun u => (es.map (fun e => time e.src)).countP (fun t => decide (t < time u)), ?_⟩
  intro e he
  apply countP_lt_of_imp _ _ _ _ (time e.src) (List.mem_map.mpr ⟨e, he, rfl⟩)
  · simpa using hval e he
  · simp
  · intro t _ ht
    have : t < time e.src := by simpa using ht
    simpa using lt_trans this (hval e he)

end Rank

/-! ### a pass along groups -/

section PassLemmas
variable {β : Type} [Inhabited β]

theorem gkey_eq (g : List DEdge) : gkey g = ghead (·.dst) g := by cases g <;> rfl

theorem passGroup_size (ops : PassOps β) (st : Array β) (g : List DEdge) :
    (passGroup ops st g).size = st.size := by
  unfold passGroup
  split
  · rfl
  · split_ifs <;> simp

theorem passGroup_other (ops : PassOps β) (st : Array β) (g : List DEdge) (u : Nat)
    (h : gkey g ≠ u) : aget (passGroup ops st g) u = aget st u := by
  unfold passGroup
  split
  · rfl
  · rename_i e0 rest
    split_ifs
    · rfl
    · exact aget_aset_other _ _ _ _ (fun h' => h (by rw [h']; rfl))

theorem passGroups_size (ops : PassOps β) (gs : List (List DEdge)) (st : Array β) :
    (passGroups ops st gs).size = st.size := by
  induction gs generalizing st with
  | nil => rfl
  | cons g gs ih =>
    show (passGroups ops (passGroup ops st g) gs).size = st.size
    rw [ih, passGroup_size]

theorem passGroups_cons (ops : PassOps β) (g : List DEdge) (gs : List (List DEdge)) (st : Array β) :
    passGroups ops st (g :: gs) = passGroups ops (passGroup ops st g) gs := rfl

/-- a node that no (non-skipped) group is about keeps its value -/
theorem passGroups_unchanged (ops : PassOps β) (gs : List (List DEdge)) (st : Array β) (u : Nat)
    (h : ∀ g ∈ gs, g = [] ∨ ops.skip (gkey g) = true ∨ gkey g ≠ u) :
    aget (passGroups ops st gs) u = aget st u := by
  induction gs generalizing st with
  | nil => rfl
  | cons g gs ih =>
    rw [passGroups_cons, ih _ (fun g' hg' => h g' (List.mem_cons_of_mem _ hg'))]
    rcases h g (List.mem_cons_self ..) with h1 | h1 | h1
    · subst h1; rfl
    · cases g with
      | nil => rfl
      | cons e0 rest =>
        have : ops.skip e0.dst = true := h1
        simp [passGroup, this]
    · exact passGroup_other ops st g u h1

theorem groupVal_congr (ops : PassOps β) (look look' : Nat → β) (g : List DEdge)
    (h : ∀ e ∈ g, look e.src = look' e.src) : groupVal ops look g = groupVal ops look' g := by
  unfold groupVal
  congr 1
  apply List.foldl_ext
  intro v e he
  rw [h e he]

/-- every destination has one group, groups are non-empty -/
structure GroupsOK (gs : List (List DEdge)) : Prop where
  nonempty : ∀ g ∈ gs, g ≠ []
  nodup : (gs.map gkey).Nodup

/-- **Characterisation of a pass**: the value of every (non-skipped) destination is the group's
value computed from the *final* values of its sources. -/
theorem passGroups_char (ops : PassOps β) (gs : List (List DEdge)) (st : Array β)
    (hok : GroupsOK gs) (hsd : SrcDone (·.dst) (·.src) gs) (hr : ∀ g ∈ gs, gkey g < st.size)
    (g : List DEdge) (hg : g ∈ gs) (hskip : ops.skip (gkey g) = false) :
    aget (passGroups ops st gs) (gkey g) = groupVal ops (aget (passGroups ops st gs)) g := by
  induction gs generalizing st with
  | nil => cases hg
  | cons g0 gs ih =>
    have hok' : GroupsOK gs :=
      ⟨fun g' hg' => hok.nonempty g' (List.mem_cons_of_mem _ hg'), (List.nodup_cons.mp hok.nodup).2⟩
    have hnot : gkey g0 ∉ gs.map gkey := (List.nodup_cons.mp hok.nodup).1
    rw [passGroups_cons]
    rcases List.mem_cons.mp hg with heq | hin
    · subst heq
      have hlater : ∀ u, (∀ g' ∈ gs, gkey g' ≠ u) →
          aget (passGroups ops (passGroup ops st g) gs) u = aget (passGroup ops st g) u :=
        fun u hu => passGroups_unchanged ops gs _ u (fun g' hg' => Or.inr (Or.inr (hu g' hg')))
      have hc : ∀ g' ∈ gs, gkey g' ≠ gkey g := by
        intro g' hg' heq
        exact hnot (List.mem_map.mpr ⟨g', hg', heq⟩)
      rw [hlater _ hc]
      obtain ⟨e0, rest, hg0⟩ := List.exists_cons_of_ne_nil (hok.nonempty g (List.mem_cons_self ..))
      have hsz : gkey g < st.size := hr _ (List.mem_cons_self ..)
      have hstep : aget (passGroup ops st g) (gkey g) = groupVal ops (aget st) g := by
        subst hg0
        have hs : ops.skip e0.dst = false := hskip
        simp only [passGroup, hs, Bool.false_eq_true, if_false]
        exact aget_aset_same _ _ _ hsz
      rw [hstep]
      apply groupVal_congr
      intro e he
      have hp := hsd.1 e he
      simp only [← gkey_eq] at hp
      rw [hlater e.src (fun g' hg' => hp g' (List.mem_cons_of_mem _ hg')),
        passGroup_other ops st _ e.src (hp _ (List.mem_cons_self ..))]
    · exact ih _ hok' hsd.2 (fun g' hg' => by
        rw [passGroup_size]; exact hr g' (List.mem_cons_of_mem _ hg')) hin

/-! #### order independence -/

/-- the messages of different edges can be folded in in any order -/
def StepComm (ops : PassOps β) : Prop :=
  ∀ e1 e2 x1 x2 v, ops.step e1 x1 (ops.step e2 x2 v) = ops.step e2 x2 (ops.step e1 x1 v)

/-- all edges of a group have the group's destination -/
def Homog (gs : List (List DEdge)) : Prop := ∀ g ∈ gs, ∀ e ∈ g, e.dst = gkey g

theorem mem_group_of_mem_flatten (gs : List (List DEdge)) (hhom : Homog gs) (e : DEdge)
    (he : e ∈ gs.flatten) : ∃ g ∈ gs, e ∈ g ∧ gkey g = e.dst := by
  obtain ⟨g, hg, heg⟩ := List.mem_flatten.mp he
  exact ⟨g, hg, heg, (hhom g hg e heg).symm⟩

/-- with one group per destination, a group is exactly the edges into its destination -/
theorem group_eq_filter (gs : List (List DEdge)) (hok : GroupsOK gs) (hhom : Homog gs)
    (g : List DEdge) (hg : g ∈ gs) :
    g = gs.flatten.filter (fun e => e.dst == gkey g) := by
  induction gs with
  | nil => cases hg
  | cons g0 gs ih =>
    have hok' : GroupsOK gs :=
      ⟨fun g' hg' => hok.nonempty g' (List.mem_cons_of_mem _ hg'), (List.nodup_cons.mp hok.nodup).2⟩
    have hhom' : Homog gs := fun g' hg' => hhom g' (List.mem_cons_of_mem _ hg')
    have hnot : gkey g0 ∉ gs.map gkey := (List.nodup_cons.mp hok.nodup).1
    rw [List.flatten_cons, List.filter_append]
    rcases List.mem_cons.mp hg with heq | hin
    · subst heq
      have h1 : g.filter (fun e => e.dst == gkey g) = g := by
        rw [List.filter_eq_self]
        intro e he
        simp [hhom g (List.mem_cons_self ..) e he]
      have h2 : gs.flatten.filter (fun e => e.dst == gkey g) = [] := by
        rw [List.filter_eq_nil_iff]
        intro e he
        obtain ⟨g', hg', _, hk⟩ := mem_group_of_mem_flatten gs hhom' e he
        intro hcon
        have : e.dst = gkey g := by simpa using hcon
        exact hnot (List.mem_map.mpr ⟨g', hg', by rw [hk, this]⟩)
      rw [h1, h2, List.append_nil]
    · have h1 : g0.filter (fun e => e.dst == gkey g) = [] := by
        rw [List.filter_eq_nil_iff]
        intro e he hcon
        have h3 : e.dst = gkey g := by simpa using hcon
        have h4 : e.dst = gkey g0 := hhom g0 (List.mem_cons_self ..) e he
        exact hnot (List.mem_map.mpr ⟨g, hin, by rw [← h3, h4]⟩)
      rw [h1, List.nil_append]
      exact ih hok' hhom' hin

/-- the hypotheses on a grouped order, bundled -/
structure ValidGroups (gs : List (List DEdge)) (n : Nat) : Prop where
  ok : GroupsOK gs
  homog : Homog gs
  srcDone : SrcDone (·.dst) (·.src) gs
  inRange : ∀ g ∈ gs, gkey g < n

theorem eq_of_rank_step {γ : Type} (rank : Nat → Nat) (r r' : Nat → γ)
    (h : ∀ u, (∀ v, rank v < rank u → r v = r' v) → r u = r' u) : ∀ u, r u = r' u := by
  have : ∀ n u, rank u < n → r u = r' u := by
    intro n
    induction n with
    | zero => intro u hu; omega
    | succ n ih =>
      intro u hu
      apply h
      intro v hv
      exact ih v (by omega)
  intro u
  exact this (rank u + 1) u (by omega)

/-- **Order independence of a pass.**  Two grouped orders of the same edges (any permutation),
each of which finishes sources before reading them and keeps the edges of a destination together,
give the same value at every node, provided messages commute and the graph is acyclic (`rank`). -/
theorem passGroups_perm (ops : PassOps β) (hcomm : StepComm ops) (gs gs' : List (List DEdge))
    (st : Array β) (hv : ValidGroups gs st.size) (hv' : ValidGroups gs' st.size)
    (hperm : gs.flatten.Perm gs'.flatten)
    (rank : Nat → Nat) (hrank : ∀ e ∈ gs.flatten, rank e.src < rank e.dst) :
    ∀ u, aget (passGroups ops st gs) u = aget (passGroups ops st gs') u := by
  apply eq_of_rank_step rank
  intro u ih
  by_cases hskip : ops.skip u = true
  · rw [passGroups_unchanged ops gs st u, passGroups_unchanged ops gs' st u]
    · intro g _
      by_cases hk : gkey g = u
      · right; left; rw [hk]; exact hskip
      · right; right; exact hk
    · intro g _
      by_cases hk : gkey g = u
      · right; left; rw [hk]; exact hskip
      · right; right; exact hk
  · have hskip' : ops.skip u = false := by simpa using hskip
    by_cases hex : ∃ e ∈ gs.flatten, e.dst = u
    · obtain ⟨e, he, hed⟩ := hex
      obtain ⟨g, hg, heg, hgk⟩ := mem_group_of_mem_flatten gs hv.homog e he
      have he' : e ∈ gs'.flatten := hperm.mem_iff.mp he
      obtain ⟨g', hg', heg', hgk'⟩ := mem_group_of_mem_flatten gs' hv'.homog e he'
      have hku : gkey g = u := by rw [hgk, hed]
      have hku' : gkey g' = u := by rw [hgk', hed]
      have hgf := group_eq_filter gs hv.ok hv.homog g hg
      have hgf' := group_eq_filter gs' hv'.ok hv'.homog g' hg'
      have hpg : g.Perm g' := by
        rw [hgf, hgf', hku, hku']
        exact hperm.filter _
      have h1 := passGroups_char ops gs st hv.ok hv.srcDone hv.inRange g hg (by rw [hku]; exact hskip')
      have h2 := passGroups_char ops gs' st hv'.ok hv'.srcDone hv'.inRange g' hg' (by rw [hku']; exact hskip')
      rw [hku] at h1
      rw [hku'] at h2
      rw [h1, h2]
      unfold groupVal
      rw [hku, hku']
      congr 1
      have hstep : g.foldl (fun v e => ops.step e (aget (passGroups ops st gs) e.src) v) (ops.init u)
          = g.foldl (fun v e => ops.step e (aget (passGroups ops st gs') e.src) v) (ops.init u) := by
        apply List.foldl_ext
        intro v e1 he1
        have hdst : e1.dst = u := by rw [hv.homog g hg e1 he1, hku]
        have hr1 := hrank e1 (List.mem_flatten.mpr ⟨g, hg, he1⟩)
        rw [hdst] at hr1
        rw [ih e1.src hr1]
      rw [hstep]
      apply List.Perm.foldl_eq' hpg
      intro x _ y _ z
      exact hcomm y x _ _ z
    · have hno : ∀ e ∈ gs.flatten, e.dst ≠ u := fun e he hd => hex ⟨e, he, hd⟩
      have hno' : ∀ e ∈ gs'.flatten, e.dst ≠ u := fun e he => hno e (hperm.mem_iff.mpr he)
      rw [passGroups_unchanged ops gs st u, passGroups_unchanged ops gs' st u]
      · intro g hg
        right; right
        obtain ⟨e0, rest, rfl⟩ := List.exists_cons_of_ne_nil (hv'.ok.nonempty g hg)
        exact hno' e0 (List.mem_flatten.mpr ⟨_, hg, List.mem_cons_self ..⟩)
      · intro g hg
        right; right
        obtain ⟨e0, rest, rfl⟩ := List.exists_cons_of_ne_nil (hv.ok.nonempty g hg)
        exact hno e0 (List.mem_flatten.mpr ⟨_, hg, List.mem_cons_self ..⟩)

/-! #### renumbering the nodes -/

/-- an edge with its endpoints renumbered by `π` and its row number by `σ` -/
def relabelE (π σ : Nat → Nat) (e : DEdge) : DEdge := ⟨π e.src, π e.dst, σ e.id⟩

/-- `ops'` is `ops` transported along the renumbering (on the nodes `< n`) -/
structure OpsRelabel (π σ : Nat → Nat) (n : Nat) (ops ops' : PassOps β) : Prop where
  init : ∀ u, u < n → ops'.init (π u) = ops.init u
  step : ∀ e, e.src < n → e.dst < n → ops'.step (relabelE π σ e) = ops.step e
  finish : ∀ u, u < n → ops'.finish (π u) = ops.finish u
  skip : ∀ u, u < n → ops'.skip (π u) = ops.skip u

/-- **A pass commutes with renumbering the nodes**, along the correspondingly renumbered order. -/
theorem passGroups_relabel (π σ : Nat → Nat) (n : Nat)
    (hinj : ∀ u v, u < n → v < n → π u = π v → u = v) (hlt : ∀ u, u < n → π u < n)
    (ops ops' : PassOps β) (hrel : OpsRelabel π σ n ops ops') (gs : List (List DEdge))
    (hr : ∀ g ∈ gs, ∀ e ∈ g, e.src < n ∧ e.dst < n)
    (st st' : Array β) (hsz : st.size = n) (hsz' : st'.size = n)
    (hst : ∀ u, u < n → aget st' (π u) = aget st u) :
    ∀ u, u < n → aget (passGroups ops' st' (gs.map (List.map (relabelE π σ)))) (π u)
      = aget (passGroups ops st gs) u := by
  induction gs generalizing st st' with
  | nil => exact hst
  | cons g gs ih =>
    rw [List.map_cons, passGroups_cons, passGroups_cons]
    apply ih (fun g' hg' => hr g' (List.mem_cons_of_mem _ hg'))
    · rw [passGroup_size]; exact hsz
    · rw [passGroup_size]; exact hsz'
    · intro u hu
      cases g with
      | nil => exact hst u hu
      | cons e0 rest =>
        have hr0 := hr _ (List.mem_cons_self ..)
        have hd : e0.dst < n := (hr0 e0 (List.mem_cons_self ..)).2
        simp only [passGroup, List.map_cons]
        have hsk : ops'.skip (relabelE π σ e0).dst = ops.skip e0.dst := hrel.skip e0.dst hd
        rw [hsk]
        split_ifs with hs
        · exact hst u hu
        · have hval : groupVal ops' (aget st') (relabelE π σ e0 :: rest.map (relabelE π σ))
              = groupVal ops (aget st) (e0 :: rest) := by
            unfold groupVal
            have hk : gkey (relabelE π σ e0 :: rest.map (relabelE π σ)) = π (gkey (e0 :: rest)) := rfl
            have hk0 : gkey (e0 :: rest) = e0.dst := rfl
            rw [hk, hk0, hrel.finish _ hd, hrel.init _ hd]
            congr 1
            rw [← List.map_cons, List.foldl_map]
            apply List.foldl_ext
            intro v e he
            rw [hrel.step e (hr0 e he).1 (hr0 e he).2]
            have : (relabelE π σ e).src = π e.src := rfl
            rw [this, hst e.src (hr0 e he).1]
          rw [hval]
          have hdst : (relabelE π σ e0).dst = π e0.dst := rfl
          rw [hdst]
          by_cases hud : u = e0.dst
          · subst hud
            rw [aget_aset_same _ _ _ (by rw [hsz']; exact hlt _ hu),
              aget_aset_same _ _ _ (by rw [hsz]; exact hu)]
          · have hne : π u ≠ π e0.dst := fun h => hud (hinj u e0.dst hu hd h)
            rw [aget_aset_other _ _ _ _ hne, aget_aset_other _ _ _ _ hud]
            exact hst u hu

theorem gkey_map_relabel (π σ : Nat → Nat) (g : List DEdge) (hne : g ≠ []) :
    gkey (g.map (relabelE π σ)) = π (gkey g) := by
  cases g with
  | nil => exact absurd rfl hne
  | cons e rest => rfl

theorem srcDone_relabel (π σ : Nat → Nat) (n : Nat)
    (hinj : ∀ u v, u < n → v < n → π u = π v → u = v) (gs : List (List DEdge))
    (hne : ∀ g ∈ gs, g ≠ []) (hkr : ∀ g ∈ gs, gkey g < n)
    (hr : ∀ g ∈ gs, ∀ e ∈ g, e.src < n ∧ e.dst < n) (hsd : SrcDone (·.dst) (·.src) gs) :
    SrcDone (·.dst) (·.src) (gs.map (List.map (relabelE π σ))) := by
  induction gs with
  | nil => trivial
  | cons g gs ih =>
    refine ⟨?_, ih (fun g' hg' => hne g' (List.mem_cons_of_mem _ hg'))
      (fun g' hg' => hkr g' (List.mem_cons_of_mem _ hg'))
      (fun g' hg' => hr g' (List.mem_cons_of_mem _ hg')) hsd.2⟩
    intro e' he' g'' hg''
    obtain ⟨e, he, rfl⟩ := List.mem_map.mp he'
    rw [← List.map_cons] at hg''
    obtain ⟨g', hg', rfl⟩ := List.mem_map.mp hg''
    rw [← gkey_eq, gkey_map_relabel π σ g' (hne g' hg')]
    intro hcon
    have h1 := hsd.1 e he g' hg'
    rw [← gkey_eq] at h1
    exact h1 (hinj _ _ (hkr g' hg') (hr g (List.mem_cons_self ..) e he).1 hcon)

/-- the renumbered order is as valid as the original one -/
theorem validGroups_relabel (π σ : Nat → Nat) (n : Nat)
    (hinj : ∀ u v, u < n → v < n → π u = π v → u = v) (hlt : ∀ u, u < n → π u < n)
    (gs : List (List DEdge)) (hv : ValidGroups gs n)
    (hr : ∀ g ∈ gs, ∀ e ∈ g, e.src < n ∧ e.dst < n) :
    ValidGroups (gs.map (List.map (relabelE π σ))) n := by
  refine ⟨⟨?_, ?_⟩, ?_, ?_, ?_⟩
  · intro g' hg'
    obtain ⟨g, hg, rfl⟩ := List.mem_map.mp hg'
    have := hv.ok.nonempty g hg
    intro hcon
    exact this (List.map_eq_nil_iff.mp hcon)
  · have : (gs.map (List.map (relabelE π σ))).map gkey = (gs.map gkey).map π := by
      rw [List.map_map, List.map_map]
      apply List.map_congr_left
      intro g hg
      exact gkey_map_relabel π σ g (hv.ok.nonempty g hg)
    rw [this]
    refine List.Nodup.map_on ?_ hv.ok.nodup
    intro x hx y hy hxy
    obtain ⟨g1, hg1, rfl⟩ := List.mem_map.mp hx
    obtain ⟨g2, hg2, rfl⟩ := List.mem_map.mp hy
    exact hinj _ _ (hv.inRange g1 hg1) (hv.inRange g2 hg2) hxy
  · intro g' hg' e' he'
    obtain ⟨g, hg, rfl⟩ := List.mem_map.mp hg'
    obtain ⟨e, he, rfl⟩ := List.mem_map.mp he'
    rw [gkey_map_relabel π σ g (hv.ok.nonempty g hg)]
    show π e.dst = π (gkey g)
    rw [hv.homog g hg e he]
  · exact srcDone_relabel π σ n hinj gs hv.ok.nonempty hv.inRange hr hv.srcDone
  · intro g' hg'
    obtain ⟨g, hg, rfl⟩ := List.mem_map.mp hg'
    rw [gkey_map_relabel π σ g (hv.ok.nonempty g hg)]
    exact hlt _ (hv.inRange g hg)

/-- the runs of a flat edge order that keeps destinations together and finishes sources first -/
theorem validGroups_runsBy (es : List DEdge) (n : Nat)
    (hg : ((runsBy (·.dst) es).map gkey).Nodup) (hf : FlatDone (·.dst) (·.src) es)
    (hr : ∀ e ∈ es, e.dst < n) : ValidGroups (runsBy (·.dst) es) n := by
  refine ⟨⟨runsBy_ne_nil _ es, hg⟩, ?_, srcDone_runsBy _ _ es hf, ?_⟩
  · intro g hgm e he
    rw [gkey_eq]
    exact runsBy_homog (·.dst) es g hgm e he
  · intro g hgm
    obtain ⟨e0, rest, rfl⟩ := List.exists_cons_of_ne_nil (runsBy_ne_nil _ es g hgm)
    apply hr
    rw [← runsBy_flatten (·.dst) es]
    exact List.mem_flatten.mpr ⟨_, hgm, List.mem_cons_self ..⟩

/-- **Renumbering invariance of a pass.**  `π` renumbers the nodes `< n` (injective, into `< n`),
`σ` the edge rows; `ops'`, `st'` are the transported operations and start state; `gs'` is ANY valid
grouped order of the renumbered edges.  Then every node's result is unchanged. -/
theorem passGroups_renumber {α : Type} [LinearOrder α] (π σ : Nat → Nat) (n : Nat)
    (hinj : ∀ u v, u < n → v < n → π u = π v → u = v) (hlt : ∀ u, u < n → π u < n)
    (ops ops' : PassOps β) (hrel : OpsRelabel π σ n ops ops') (hcomm : StepComm ops')
    (gs : List (List DEdge)) (hv : ValidGroups gs n)
    (hr : ∀ g ∈ gs, ∀ e ∈ g, e.src < n ∧ e.dst < n)
    (gs' : List (List DEdge)) (hv' : ValidGroups gs' n)
    (hperm : gs'.flatten.Perm (gs.map (List.map (relabelE π σ))).flatten)
    (time' : Nat → α) (hval' : ∀ e ∈ gs'.flatten, time' e.src < time' e.dst)
    (st st' : Array β) (hsz : st.size = n) (hsz' : st'.size = n)
    (hst : ∀ u, u < n → aget st' (π u) = aget st u) :
    ∀ u, u < n → aget (passGroups ops' st' gs') (π u) = aget (passGroups ops st gs) u := by
  intro u hu
  obtain ⟨rank, hrank⟩ := exists_rank time' gs'.flatten hval'
  have hv1 := validGroups_relabel π σ n hinj hlt gs hv hr
  rw [passGroups_perm ops' hcomm gs' (gs.map (List.map (relabelE π σ))) st'
    (by rw [hsz']; exact hv') (by rw [hsz']; exact hv1) hperm rank hrank (π u)]
  exact passGroups_relabel π σ n hinj hlt _ _ hrel gs hr st st' hsz hsz' hst u hu

end PassLemmas


end Tsdate.Order
