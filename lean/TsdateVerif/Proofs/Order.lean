/-
Lemmas about traversal orders and passes (Model/Order.lean), used by Props/C11, C13, C38.
-/
import Mathlib.Order.Basic
import Mathlib.Order.Lattice
import Mathlib.Data.List.Basic
import Mathlib.Data.List.Perm.Basic
import Mathlib.Tactic.SplitIfs
import TsdateVerif.Model.Order

namespace Tsdate.Order
open Tsdate
set_option linter.unusedSectionVars false
set_option linter.unusedVariables false

/-! ### `itertools.groupby` -/

section Runs
variable {ε : Type}

/-- key of the first element of a group -/
def ghead (key : ε → Nat) : List ε → Nat
  | [] => 0
  | e :: _ => key e

theorem runsBy_cons_cases (key : ε → Nat) (e : ε) (es : List ε) :
    (runsBy key es = [] ∧ runsBy key (e :: es) = [[e]]) ∨
    (∃ g gs, runsBy key es = g :: gs ∧ g ≠ [] ∧ ghead key g = key e ∧
        runsBy key (e :: es) = (e :: g) :: gs) ∨
    (∃ g gs, runsBy key es = g :: gs ∧ (g = [] ∨ ghead key g ≠ key e) ∧
        runsBy key (e :: es) = [e] :: (if g = [] then gs else g :: gs)) := by
  cases h : runsBy key es with
  | nil => left; exact ⟨rfl, by simp [runsBy, h]⟩
  | cons g gs =>
    cases g with
    | nil =>
      right; right
      exact ⟨[], gs, rfl, Or.inl rfl, by simp [runsBy, h]⟩
    | cons e' g' =>
      by_cases hk : key e = key e'
      · right; left
        exact ⟨e' :: g', gs, rfl, by simp, by simp [ghead, hk], by simp [runsBy, h, hk]⟩
      · right; right
        exact ⟨e' :: g', gs, rfl, Or.inr (by simp [ghead]; exact fun h' => hk h'.symm),
          by simp [runsBy, h, hk]⟩

theorem runsBy_ne_nil (key : ε → Nat) (es : List ε) : ∀ g ∈ runsBy key es, g ≠ [] := by
  induction es with
  | nil => intro g hg; simp [runsBy] at hg
  | cons e es ih =>
    intro g hg
    rcases runsBy_cons_cases key e es with ⟨_, h2⟩ | ⟨g0, gs, h1, _, _, h2⟩ | ⟨g0, gs, h1, _, h2⟩
    · rw [h2] at hg; simp at hg; rw [hg]; simp
    · rw [h2] at hg
      rcases List.mem_cons.mp hg with rfl | hg'
      · simp
      · exact ih g (by rw [h1]; exact List.mem_cons_of_mem _ hg')
    · rw [h2] at hg
      rcases List.mem_cons.mp hg with rfl | hg'
      · simp
      · apply ih g
        rw [h1]
        split_ifs at hg' with h0
        · exact List.mem_cons_of_mem _ hg'
        · exact hg'

theorem runsBy_flatten (key : ε → Nat) (es : List ε) : (runsBy key es).flatten = es := by
  induction es with
  | nil => simp [runsBy]
  | cons e es ih =>
    rcases runsBy_cons_cases key e es with ⟨h1, h2⟩ | ⟨g0, gs, h1, _, _, h2⟩ | ⟨g0, gs, h1, h0, h2⟩
    · rw [h2]; rw [h1] at ih; simp at ih; simp [← ih]
    · rw [h2]; rw [h1] at ih; simp at ih; simp [← ih]
    · rw [h2]; rw [h1] at ih
      have hne := runsBy_ne_nil key es g0 (by rw [h1]; exact List.mem_cons_self ..)
      simp [hne]; simp at ih; exact ih

/-- all elements of a run have the key of its head -/
theorem runsBy_homog (key : ε → Nat) (es : List ε) :
    ∀ g ∈ runsBy key es, ∀ e ∈ g, key e = ghead key g := by
  induction es with
  | nil => intro g hg; simp [runsBy] at hg
  | cons e es ih =>
    intro g hg x hx
    rcases runsBy_cons_cases key e es with ⟨_, h2⟩ | ⟨g0, gs, h1, hne, hk, h2⟩ | ⟨g0, gs, h1, _, h2⟩
    · rw [h2] at hg; simp at hg; subst hg; simp at hx; subst hx; rfl
    · rw [h2] at hg
      rcases List.mem_cons.mp hg with rfl | hg'
      · rcases List.mem_cons.mp hx with rfl | hx'
        · rfl
        · have := ih g0 (by rw [h1]; exact List.mem_cons_self ..) x hx'
          rw [this, hk]; rfl
      · exact ih g (by rw [h1]; exact List.mem_cons_of_mem _ hg') x hx
    · rw [h2] at hg
      rcases List.mem_cons.mp hg with rfl | hg'
      · simp at hx; subst hx; rfl
      · apply ih g _ x hx
        rw [h1]
        split_ifs at hg' with h0
        · exact List.mem_cons_of_mem _ hg'
        · exact hg'

/-- sources are complete before they are read: no group, from the current one on, is about a
node that the current group reads -/
def SrcDone (key src : ε → Nat) : List (List ε) → Prop
  | [] => True
  | g :: rest => (∀ e ∈ g, ∀ g' ∈ g :: rest, ghead key g' ≠ src e) ∧ SrcDone key src rest

/-- the flat form of `SrcDone`: no edge's destination is the source of itself or of an earlier
edge -/
def FlatDone (key src : ε → Nat) (es : List ε) : Prop :=
  es.Pairwise (fun e e' => key e' ≠ src e) ∧ ∀ e ∈ es, key e ≠ src e

theorem srcDone_of_flat (key src : ε → Nat) (gs : List (List ε)) (hne : ∀ g ∈ gs, g ≠ [])
    (hhom : ∀ g ∈ gs, ∀ e ∈ g, key e = ghead key g) (hflat : FlatDone key src gs.flatten) :
    SrcDone key src gs := by
  induction gs with
  | nil => trivial
  | cons g gs ih =>
    obtain ⟨hpw, hnl⟩ := hflat
    rw [List.flatten_cons, List.pairwise_append] at hpw
    obtain ⟨_, hpw2, hcross⟩ := hpw
    refine ⟨?_, ih (fun g' hg' => hne g' (List.mem_cons_of_mem _ hg'))
      (fun g' hg' => hhom g' (List.mem_cons_of_mem _ hg'))
      ⟨hpw2, fun e he => hnl e (by simp only [List.flatten_cons, List.mem_append]; exact Or.inr he)⟩⟩
    intro e he g' hg'
    rcases List.mem_cons.mp hg' with rfl | hin
    · rw [← hhom g' (List.mem_cons_self ..) e he]
      exact hnl e (by simp only [List.flatten_cons, List.mem_append]; exact Or.inl he)
    · obtain ⟨y, ys, hy⟩ := List.exists_cons_of_ne_nil (hne g' (List.mem_cons_of_mem _ hin))
      have hymem : y ∈ gs.flatten := List.mem_flatten.mpr ⟨g', hin, by rw [hy]; exact List.mem_cons_self ..⟩
      have : ghead key g' = key y := by rw [hy]; rfl
      rw [this]
      exact hcross e he y hymem

theorem srcDone_runsBy (key src : ε → Nat) (es : List ε) (h : FlatDone key src es) :
    SrcDone key src (runsBy key es) :=
  srcDone_of_flat key src _ (runsBy_ne_nil key es) (runsBy_homog key es)
    (by rw [runsBy_flatten]; exact h)

end Runs

/-! ### a pass along groups -/

section PassLemmas
variable {β : Type} [Inhabited β]

theorem gkey_eq (g : List DEdge) : gkey g = ghead (·.dst) g := by cases g <;> rfl

theorem passGroup_size (ops : PassOps β) (st : Array β) (g : List DEdge) :
    (passGroup ops st g).size = st.size := by
  unfold passGroup
  split
  · rfl
  · split_ifs <;> simp

theorem passGroup_other (ops : PassOps β) (st : Array β) (g : List DEdge) (u : Nat)
    (h : gkey g ≠ u) : aget (passGroup ops st g) u = aget st u := by
  unfold passGroup
  split
  · rfl
  · rename_i e0 rest
    split_ifs
    · rfl
    · exact aget_aset_other _ _ _ _ (fun h' => h (by rw [h']; rfl))

theorem passGroups_size (ops : PassOps β) (gs : List (List DEdge)) (st : Array β) :
    (passGroups ops st gs).size = st.size := by
  induction gs generalizing st with
  | nil => rfl
  | cons g gs ih =>
    show (passGroups ops (passGroup ops st g) gs).size = st.size
    rw [ih, passGroup_size]

theorem passGroups_cons (ops : PassOps β) (g : List DEdge) (gs : List (List DEdge)) (st : Array β) :
    passGroups ops st (g :: gs) = passGroups ops (passGroup ops st g) gs := rfl

/-- a node that no (non-skipped) group is about keeps its value -/
theorem passGroups_unchanged (ops : PassOps β) (gs : List (List DEdge)) (st : Array β) (u : Nat)
    (h : ∀ g ∈ gs, g = [] ∨ ops.skip (gkey g) = true ∨ gkey g ≠ u) :
    aget (passGroups ops st gs) u = aget st u := by
  induction gs generalizing st with
  | nil => rfl
  | cons g gs ih =>
    rw [passGroups_cons, ih _ (fun g' hg' => h g' (List.mem_cons_of_mem _ hg'))]
    rcases h g (List.mem_cons_self ..) with h1 | h1 | h1
    · subst h1; rfl
    · cases g with
      | nil => rfl
      | cons e0 rest =>
        have : ops.skip e0.dst = true := h1
        simp [passGroup, this]
    · exact passGroup_other ops st g u h1

theorem groupVal_congr (ops : PassOps β) (look look' : Nat → β) (g : List DEdge)
    (h : ∀ e ∈ g, look e.src = look' e.src) : groupVal ops look g = groupVal ops look' g := by
  unfold groupVal
  congr 1
  apply List.foldl_ext
  intro v e he
  rw [h e he]

/-- every destination has one group, groups are non-empty -/
structure GroupsOK (gs : List (List DEdge)) : Prop where
  nonempty : ∀ g ∈ gs, g ≠ []
  nodup : (gs.map gkey).Nodup

/-- **Characterisation of a pass**: the value of every (non-skipped) destination is the group's
value computed from the *final* values of its sources. -/
theorem passGroups_char (ops : PassOps β) (gs : List (List DEdge)) (st : Array β)
    (hok : GroupsOK gs) (hsd : SrcDone (·.dst) (·.src) gs) (hr : ∀ g ∈ gs, gkey g < st.size)
    (g : List DEdge) (hg : g ∈ gs) (hskip : ops.skip (gkey g) = false) :
    aget (passGroups ops st gs) (gkey g) = groupVal ops (aget (passGroups ops st gs)) g := by
  induction gs generalizing st with
  | nil => cases hg
  | cons g0 gs ih =>
    have hok' : GroupsOK gs :=
      ⟨fun g' hg' => hok.nonempty g' (List.mem_cons_of_mem _ hg'), (List.nodup_cons.mp hok.nodup).2⟩
    have hnot : gkey g0 ∉ gs.map gkey := (List.nodup_cons.mp hok.nodup).1
    rw [passGroups_cons]
    rcases List.mem_cons.mp hg with heq | hin
    · subst heq
      have hlater : ∀ u, (∀ g' ∈ gs, gkey g' ≠ u) →
          aget (passGroups ops (passGroup ops st g) gs) u = aget (passGroup ops st g) u :=
        fun u hu => passGroups_unchanged ops gs _ u (fun g' hg' => Or.inr (Or.inr (hu g' hg')))
      have hc : ∀ g' ∈ gs, gkey g' ≠ gkey g := by
        intro g' hg' heq
        exact hnot (List.mem_map.mpr ⟨g', hg', heq⟩)
      rw [hlater _ hc]
      obtain ⟨e0, rest, hg0⟩ := List.exists_cons_of_ne_nil (hok.nonempty g (List.mem_cons_self ..))
      have hsz : gkey g < st.size := hr _ (List.mem_cons_self ..)
      have hstep : aget (passGroup ops st g) (gkey g) = groupVal ops (aget st) g := by
        subst hg0
        have hs : ops.skip e0.dst = false := hskip
        simp only [passGroup, hs, Bool.false_eq_true, if_false]
        exact aget_aset_same _ _ _ hsz
      rw [hstep]
      apply groupVal_congr
      intro e he
      have hp := hsd.1 e he
      simp only [← gkey_eq] at hp
      rw [hlater e.src (fun g' hg' => hp g' (List.mem_cons_of_mem _ hg')),
        passGroup_other ops st _ e.src (hp _ (List.mem_cons_self ..))]
    · exact ih _ hok' hsd.2 (fun g' hg' => by
        rw [passGroup_size]; exact hr g' (List.mem_cons_of_mem _ hg')) hin

end PassLemmas

end Tsdate.Order
