/-
C07 for `_count_mutations` (plain variant), derived from the committed correctness theorem of the sweep
(`CountMut.countWith_correct`): with every coordinate multiplied by `c > 0` the kernel still terminates
normally, assigns every mutation to the same edge, counts the same mutations per edge, and returns spans
`c` times larger.  The sweep only *compares* positions (and takes differences for the spans).
-/
import TsdateVerif.Proofs.CountMutMain

namespace Tsdate.Scale
open Tsdate Tsdate.Sweep Tsdate.CountMut
set_option linter.unusedSectionVars false
set_option linter.unusedVariables false

variable {α : Type} [Inhabited α] [Field α] [LinearOrder α] [IsStrictOrderedRing α]

/-- edge table, indexes and sequence length with every coordinate multiplied by `c` -/
def scaleTables (c : α) (T : Tables α) : Tables α :=
  { edges := T.edges.map (fun e => { e with left := c * e.left, right := c * e.right })
    ins := T.ins, rem := T.rem, seqLen := c * T.seqLen }

/-- mutation table with every site position multiplied by `c` -/
def scaleMuts (c : α) (M : Muts α) : Muts α := { node := M.node, pos := M.pos.map (fun x => c * x) }

theorem aget_map_lt {β γ : Type} [Inhabited β] [Inhabited γ] (f : β → γ) (a : Array β) (i : Nat)
    (h : i < a.size) : aget (a.map f) i = f (aget a i) := by
  simp [aget, h]

@[simp] theorem scaleTables_numEdges (c : α) (T : Tables α) : (scaleTables c T).numEdges = T.numEdges := by
  simp [scaleTables, Tables.numEdges]

theorem scaleTables_l (c : α) (T : Tables α) (e : Nat) (h : e < T.numEdges) :
    (scaleTables c T).l e = c * T.l e := by
  simp only [Tables.l, scaleTables]
  rw [aget_map_lt _ _ _ h]

theorem scaleTables_r (c : α) (T : Tables α) (e : Nat) (h : e < T.numEdges) :
    (scaleTables c T).r e = c * T.r e := by
  simp only [Tables.r, scaleTables]
  rw [aget_map_lt _ _ _ h]

theorem scaleTables_chi (c : α) (T : Tables α) (e : Nat) (h : e < T.numEdges) :
    (scaleTables c T).chi e = T.chi e := by
  simp only [Tables.chi, scaleTables]
  rw [aget_map_lt _ _ _ h]

theorem scaleMuts_pos (c : α) (M : Muts α) (m : Nat) (h : m < M.pos.size) :
    aget (scaleMuts c M).pos m = c * aget M.pos m := by
  simp only [scaleMuts]
  rw [aget_map_lt _ _ _ h]

theorem valid_scale (c : α) (hc : 0 < c) (T : Tables α) (hV : Valid T) : Valid (scaleTables c T) := by
  have hmemI : ∀ e ∈ T.ins, e < T.numEdges := fun e he => hV.mem_ins.mp he
  have hmemR : ∀ e ∈ T.rem, e < T.numEdges := fun e he => hV.mem_rem.mp he
  have hpI : (scaleTables c T).ins.Perm (List.range (scaleTables c T).numEdges) := by
    rw [scaleTables_numEdges]; exact hV.insPerm
  have hpR : (scaleTables c T).rem.Perm (List.range (scaleTables c T).numEdges) := by
    rw [scaleTables_numEdges]; exact hV.remPerm
  refine ⟨hpI, hpR, ?_, ?_, ?_, ?_⟩
  · show T.ins.Pairwise _
    refine hV.insSorted.imp_of_mem ?_
    intro a b ha hb hab
    rw [scaleTables_l c T a (hmemI a ha), scaleTables_l c T b (hmemI b hb)]
    exact (mul_le_mul_iff_right₀ hc).mpr hab
  · show T.rem.Pairwise _
    refine hV.remSorted.imp_of_mem ?_
    intro a b ha hb hab
    rw [scaleTables_r c T a (hmemR a ha), scaleTables_r c T b (hmemR b hb)]
    exact (mul_le_mul_iff_right₀ hc).mpr hab
  · intro e he
    rw [scaleTables_numEdges] at he
    obtain ⟨h1, h2, h3⟩ := hV.geom e he
    rw [scaleTables_l c T e he, scaleTables_r c T e he]
    exact ⟨mul_nonneg (le_of_lt hc) h1, (mul_lt_mul_iff_right₀ hc).mpr h2,
      (mul_le_mul_iff_right₀ hc).mpr h3⟩
  · exact mul_nonneg (le_of_lt hc) hV.lenNonneg

theorem noOverlap_scale (c : α) (hc : 0 < c) (T : Tables α) (h : NoOverlap T) :
    NoOverlap (scaleTables c T) := by
  intro e e' he he' hne hch
  rw [scaleTables_numEdges] at he he'
  rw [scaleTables_chi c T e he, scaleTables_chi c T e' he'] at hch
  rw [scaleTables_l c T e he, scaleTables_r c T e he, scaleTables_l c T e' he', scaleTables_r c T e' he']
  rcases h e e' he he' hne hch with h1 | h1
  · exact Or.inl ((mul_le_mul_iff_right₀ hc).mpr h1)
  · exact Or.inr ((mul_le_mul_iff_right₀ hc).mpr h1)

theorem mutsValid_scale (c : α) (hc : 0 < c) (M : Muts α) (N : Nat) (order : List Nat)
    (hsz : M.pos.size = M.node.size) (h : MutsValid M N order) : MutsValid (scaleMuts c M) N order := by
  have hmem : ∀ m ∈ order, m < M.pos.size := fun m hm => by
    rw [hsz]; exact List.mem_range.mp (h.perm.mem_iff.mp hm)
  refine ⟨h.perm, ?_, h.node, ?_⟩
  · refine h.sorted.imp_of_mem ?_
    intro a b ha hb hab
    rw [scaleMuts_pos c M a (hmem a ha), scaleMuts_pos c M b (hmem b hb)]
    exact (mul_le_mul_iff_right₀ hc).mpr hab
  · intro m hm
    have hm' : m < M.pos.size := by rw [hsz]; exact hm
    rw [scaleMuts_pos c M m hm']
    exact mul_nonneg (le_of_lt hc) (h.pos m hm)

/-- "edge `e` is above mutation `m`" is a statement about order only -/
theorem above_scale (c : α) (hc : 0 < c) (T : Tables α) (M : Muts α) (hsz : M.pos.size = M.node.size)
    (m e : Nat) (hm : m < M.node.size) : Above (scaleTables c T) (scaleMuts c M) m e ↔ Above T M m e := by
  unfold Above
  rw [scaleTables_numEdges]
  constructor
  · rintro ⟨he, h1, h2, h3⟩
    rw [scaleTables_chi c T e he] at h1
    rw [scaleTables_l c T e he, scaleMuts_pos c M m (by rw [hsz]; exact hm)] at h2
    rw [scaleTables_r c T e he, scaleMuts_pos c M m (by rw [hsz]; exact hm)] at h3
    exact ⟨he, h1, (mul_le_mul_iff_right₀ hc).mp h2, (mul_lt_mul_iff_right₀ hc).mp h3⟩
  · rintro ⟨he, h1, h2, h3⟩
    refine ⟨he, ?_, ?_, ?_⟩
    · rw [scaleTables_chi c T e he]; exact h1
    · rw [scaleTables_l c T e he, scaleMuts_pos c M m (by rw [hsz]; exact hm)]
      exact (mul_le_mul_iff_right₀ hc).mpr h2
    · rw [scaleTables_r c T e he, scaleMuts_pos c M m (by rw [hsz]; exact hm)]
      exact (mul_lt_mul_iff_right₀ hc).mpr h3

theorem static_scale (c : α) (hc : 0 < c) (T : Tables α) (N : Nat) (sb : Bool) (time : Nat → α)
    (h : Static T N sb time) : Static (scaleTables c T) N sb time := by
  have hpar : ∀ e, e < T.numEdges → (scaleTables c T).par e = T.par e := by
    intro e he
    simp only [Tables.par, scaleTables]
    rw [aget_map_lt _ _ _ he]
  refine ⟨valid_scale c hc T h.valid, noOverlap_scale c hc T h.noOverlap, ?_, ?_, ?_⟩
  · intro e he
    rw [scaleTables_numEdges] at he
    rw [scaleTables_chi c T e he]; exact h.chi e he
  · intro e he
    rw [scaleTables_numEdges] at he
    rw [hpar e he]; exact h.par e he
  · intro hsb e he
    rw [scaleTables_numEdges] at he
    rw [scaleTables_chi c T e he, hpar e he]; exact h.older hsb e he

/-- **`_count_mutations` under a change of genome unit** (plain variant): on valid tables both runs
return normally, every mutation is mapped to the same edge, every edge gets the same mutation count, and
every edge span is multiplied by `c`. -/
theorem countMutations_coord (c : α) (hc : 0 < c) (T : Tables α) (M : Muts α) (mask : Array Bool)
    (order : List Nat) (time : Nat → α) (hS : Static T mask.size false time)
    (hsz : M.pos.size = M.node.size) (hM : MutsValid M mask.size order) :
    ∃ s s', countWith T M mask false order = some s ∧
      countWith (scaleTables c T) (scaleMuts c M) mask false order = some s' ∧
      s.err = false ∧ s'.err = false ∧
      (∀ m, m < M.node.size → aget s'.mutEdge m = aget s.mutEdge m) ∧
      (∀ e, e < T.numEdges → aget s'.edgeMuts e = aget s.edgeMuts e ∧
        aget s'.edgeSpan e = c * aget s.edgeSpan e) := by
  obtain ⟨s, hs, _, herr, hme, hcnt, hsp⟩ := countWith_correct T M mask false order time [] hS hM
  obtain ⟨s', hs', _, herr', hme', hcnt', hsp'⟩ := countWith_correct (scaleTables c T) (scaleMuts c M) mask false
    order time [] (static_scale c hc T _ false time hS) (mutsValid_scale c hc M _ order hsz hM)
  refine ⟨s, s', hs, hs', herr, herr', ?_, ?_⟩
  · intro m hm
    have key : ∀ e, aget s'.mutEdge m = some e ↔ aget s.mutEdge m = some e := by
      intro e
      rw [hme' m (by simpa [scaleMuts] using hm) e, hme m hm e, above_scale c hc T M hsz m e hm]
    cases h1 : aget s'.mutEdge m with
    | none =>
      cases h2 : aget s.mutEdge m with
      | none => rfl
      | some e => exact absurd ((key e).mpr h2) (by rw [h1]; simp)
    | some e => exact ((key e).mp h1).symm
  · intro e he
    refine ⟨?_, ?_⟩
    · rw [hcnt e he, hcnt' e (by rw [scaleTables_numEdges]; exact he)]
      show ((List.range M.node.size).map _).sum = ((List.range M.node.size).map _).sum
      congr 1
      apply List.map_congr_left
      intro m hm
      have hm' : m < M.node.size := List.mem_range.mp hm
      simp only [wt, Bool.false_eq_true, if_false]
      by_cases hA : Above T M m e
      · rw [if_pos hA, if_pos ((above_scale c hc T M hsz m e hm').mpr hA)]
      · rw [if_neg hA, if_neg (fun h => hA ((above_scale c hc T M hsz m e hm').mp h))]
    · rw [hsp rfl e he, hsp' rfl e (by rw [scaleTables_numEdges]; exact he),
        scaleTables_l c T e he, scaleTables_r c T e he, mul_sub]

end Tsdate.Scale
