/-
C05, second half (end): one loop body, the sweeps and un-regularised iterations keep `Good` and pass every assert
when the projections are valid-or-skip.
-/
import TsdateVerif.Proofs.EPNoAssert2

namespace Tsdate.EP
set_option linter.unusedSectionVars false
set_option linter.unusedVariables false

variable {α : Type} [Inhabited α] [Field α] [LinearOrder α] [IsStrictOrderedRing α]

/-- At one end under `Good`: `_damp`'s asserts hold and its step is positive. -/
theorem end_facts (cfg : Cfg α) (net : Net α) (N : Nat) (s : State α) (hg : Good cfg net s N) (u : Bool)
    (i : Nat) (hi : i < (facOf u s).size) (n : Nat) (hn : n < N) (slotL : Bool)
    (haddr : (if slotL then aget (chiOf u net) i else aget (parOf u net) i) = n)
    (hs0 : 0 < cfg.minStep) (hs1 : cfg.minStep < 1) :
    dampOk (aget s.post n)
        (message (if slotL then (aget (facOf u s) i).l else (aget (facOf u s) i).r) (aget s.scale n))
        cfg.minStep = true ∧
      0 < damp (aget s.post n)
        (message (if slotL then (aget (facOf u s) i).l else (aget (facOf u s) i).r) (aget s.scale n))
        cfg.minStep := by
  have h := good_end cfg net N s hg u i hi n hn slotL haddr
  exact ⟨dampOk_of_proper _ _ _ hs0 hs1 h, damp_pos_of _ _ _ hs0 hs1 h⟩

/-- **One loop body never trips an assert and keeps the invariant** (valid-or-skip projection). -/
theorem stepEdge_good (proj : Req α → Res α) (hvos : VOS proj) (cfg : Cfg α) (net : Net α) (N : Nat)
    (u : Bool) (s : State α) (i : Nat) (hg : Good cfg net s N) (hnet : NetOK net N)
    (hi : i < (parOf u net).size) (hs0 : 0 < cfg.minStep) (hs1 : cfg.minStep < 1) (hms : 1 < cfg.maxShape) :
    stepOk proj cfg net u s i = true ∧ Good cfg net (stepEdge proj cfg net u s i) N := by
  unfold stepOk stepEdge
  dsimp only
  have hg1 := tinyCheck_good cfg net N u i s hg
  generalize tinyCheck cfg net u i s = s1 at hg1 ⊢
  have hfi : i < (facOf u s1).size := by rw [facOf_size net s1 N hg1.sizes]; exact hi
  obtain ⟨hp, hc⟩ := netOK_par net N hnet u i hi
  have hu := prep_unphased cfg net u i s1
  have hv := hvos (prep cfg net u i s1)
  unfold VOSres at hv
  unfold stepApply resOk
  cases hbr : branchOf net.fixed (aget (parOf u net) i) (aget (chiOf u net) i)
  · -- both fixed
    obtain ⟨h1, h2⟩ := prep_of_skip cfg net u i s1 hbr
    simp only [h1, h2, Bool.and_self]
    exact ⟨trivial, hg1⟩
  · -- fixed parent, free child
    have hrq := prep_of_leaf cfg net u i s1 hbr
    obtain ⟨hok, hd0⟩ := end_facts cfg net N s1 hg1 u i hfi _ hc true (by simp) hs0 hs1
    simp only [if_true] at hok hd0
    have hb : (prep cfg net u i s1).branch = .leaf := by rw [hrq]
    have hcc : (prep cfg net u i s1).c = aget (chiOf u net) i := by rw [hrq]
    have hdC : (prep cfg net u i s1).dC = damp (aget s1.post (aget (chiOf u net) i))
        (message (aget (facOf u s1) i).l (aget s1.scale (aget (chiOf u net) i))) cfg.minStep := by rw [hrq]
    have hcav : (prep cfg net u i s1).cavC = cavity (aget s1.post (aget (chiOf u net) i))
        (message (aget (facOf u s1) i).l (aget s1.scale (aget (chiOf u net) i)))
        (prep cfg net u i s1).dC := by rw [hrq]
    have hokq : (prep cfg net u i s1).ok = dampOk (aget s1.post (aget (chiOf u net) i))
        (message (aget (facOf u s1) i).l (aget s1.scale (aget (chiOf u net) i))) cfg.minStep := by rw [hrq]
    simp only [hb] at hv ⊢
    rw [hu, hcc, hokq, hok]
    obtain ⟨ha, hb'⟩ := applyEnd_good cfg net N u i true (aget (chiOf u net) i) (prep cfg net u i s1).dC
      (aget (facOf u s1) i).l (prep cfg net u i s1).cavC (proj (prep cfg net u i s1)).postC s1 hg1 hfi hc hs0
      hs1 hms (by simp) (by simp) hcav (by rw [hdC]; exact hd0) (by rw [hdC]) hv
    exact ⟨by rw [ha]; rfl, hb'⟩
  · -- fixed child, free parent
    have hrq := prep_of_root cfg net u i s1 hbr
    obtain ⟨hok, hd0⟩ := end_facts cfg net N s1 hg1 u i hfi _ hp false (by simp) hs0 hs1
    simp only [Bool.false_eq_true, if_false] at hok hd0
    have hb : (prep cfg net u i s1).branch = .root := by rw [hrq]
    have hpp : (prep cfg net u i s1).p = aget (parOf u net) i := by rw [hrq]
    have hdP : (prep cfg net u i s1).dP = damp (aget s1.post (aget (parOf u net) i))
        (message (aget (facOf u s1) i).r (aget s1.scale (aget (parOf u net) i))) cfg.minStep := by rw [hrq]
    have hcav : (prep cfg net u i s1).cavP = cavity (aget s1.post (aget (parOf u net) i))
        (message (aget (facOf u s1) i).r (aget s1.scale (aget (parOf u net) i)))
        (prep cfg net u i s1).dP := by rw [hrq]
    have hokq : (prep cfg net u i s1).ok = dampOk (aget s1.post (aget (parOf u net) i))
        (message (aget (facOf u s1) i).r (aget s1.scale (aget (parOf u net) i))) cfg.minStep := by rw [hrq]
    simp only [hb] at hv ⊢
    rw [hu, hpp, hokq, hok]
    obtain ⟨ha, hb'⟩ := applyEnd_good cfg net N u i false (aget (parOf u net) i) (prep cfg net u i s1).dP
      (aget (facOf u s1) i).r (prep cfg net u i s1).cavP (proj (prep cfg net u i s1)).postP s1 hg1 hfi hp hs0
      hs1 hms (by simp) (by simp) hcav (by rw [hdP]; exact hd0) (by rw [hdP]) hv
    exact ⟨by rw [ha]; rfl, hb'⟩
  · -- twin block
    have hrq := prep_of_twin cfg net u i s1 hbr
    obtain ⟨hok, hd0⟩ := end_facts cfg net N s1 hg1 u i hfi _ hp false (by simp) hs0 hs1
    simp only [Bool.false_eq_true, if_false] at hok hd0
    have hb : (prep cfg net u i s1).branch = .twin := by rw [hrq]
    have hpp : (prep cfg net u i s1).p = aget (parOf u net) i := by rw [hrq]
    have hdP : (prep cfg net u i s1).dP = damp (aget s1.post (aget (parOf u net) i))
        (message (aget (facOf u s1) i).r (aget s1.scale (aget (parOf u net) i))) cfg.minStep := by rw [hrq]
    have hcav : (prep cfg net u i s1).cavP = cavity (aget s1.post (aget (parOf u net) i))
        (message (aget (facOf u s1) i).r (aget s1.scale (aget (parOf u net) i)))
        (prep cfg net u i s1).dP := by rw [hrq]
    have hokq : (prep cfg net u i s1).ok = dampOk (aget s1.post (aget (parOf u net) i))
        (message (aget (facOf u s1) i).r (aget s1.scale (aget (parOf u net) i))) cfg.minStep := by rw [hrq]
    simp only [hb] at hv ⊢
    rw [hu, hpp, hokq, hok]
    obtain ⟨ha, hb'⟩ := applyEnd_good cfg net N u i false (aget (parOf u net) i) (prep cfg net u i s1).dP
      (aget (facOf u s1) i).r (prep cfg net u i s1).cavP (proj (prep cfg net u i s1)).postP s1 hg1 hfi hp hs0
      hs1 hms (by simp) (by simp) hcav (by rw [hdP]; exact hd0) (by rw [hdP]) hv
    exact ⟨by rw [ha]; rfl, hb'⟩
  · -- two free ends
    have hrq := prep_of_both cfg net u i s1 hbr
    have hne : aget (parOf u net) i ≠ aget (chiOf u net) i := (branchOf_both _ _ _ hbr).2.2
    obtain ⟨hokP, hdP0⟩ := end_facts cfg net N s1 hg1 u i hfi _ hp false (by simp) hs0 hs1
    obtain ⟨hokC, hdC0⟩ := end_facts cfg net N s1 hg1 u i hfi _ hc true (by simp) hs0 hs1
    simp only [Bool.false_eq_true, if_false] at hokP hdP0
    simp only [if_true] at hokC hdC0
    have hb : (prep cfg net u i s1).branch = .both := by rw [hrq]
    have hpp : (prep cfg net u i s1).p = aget (parOf u net) i := by rw [hrq]
    have hcc : (prep cfg net u i s1).c = aget (chiOf u net) i := by rw [hrq]
    have hdP : (prep cfg net u i s1).dP = bothStep cfg net u i s1 := by rw [hrq]
    have hdC : (prep cfg net u i s1).dC = bothStep cfg net u i s1 := by rw [hrq]
    have hcavP : (prep cfg net u i s1).cavP = cavity (aget s1.post (aget (parOf u net) i))
        (message (aget (facOf u s1) i).r (aget s1.scale (aget (parOf u net) i)))
        (prep cfg net u i s1).dP := by rw [hrq]
    have hcavC : (prep cfg net u i s1).cavC = cavity (aget s1.post (aget (chiOf u net) i))
        (message (aget (facOf u s1) i).l (aget s1.scale (aget (chiOf u net) i)))
        (prep cfg net u i s1).dC := by rw [hrq]
    have hokq : (prep cfg net u i s1).ok =
        (dampOk (aget s1.post (aget (parOf u net) i))
            (message (aget (facOf u s1) i).r (aget s1.scale (aget (parOf u net) i))) cfg.minStep &&
          dampOk (aget s1.post (aget (chiOf u net) i))
            (message (aget (facOf u s1) i).l (aget s1.scale (aget (chiOf u net) i))) cfg.minStep) := by
      rw [hrq]
    -- the common step is positive and below each end's own step
    have hstep0 : 0 < bothStep cfg net u i s1 := by
      unfold bothStep; split_ifs
      · exact hdC0
      · exact hdP0
    have hstepP : bothStep cfg net u i s1 ≤ damp (aget s1.post (aget (parOf u net) i))
        (message (aget (facOf u s1) i).r (aget s1.scale (aget (parOf u net) i))) cfg.minStep := by
      unfold bothStep; split_ifs with h
      · exact h.le
      · exact le_rfl
    have hstepC : bothStep cfg net u i s1 ≤ damp (aget s1.post (aget (chiOf u net) i))
        (message (aget (facOf u s1) i).l (aget s1.scale (aget (chiOf u net) i))) cfg.minStep := by
      unfold bothStep; split_ifs with h
      · exact le_rfl
      · exact not_lt.mp h
    simp only [hb] at hv ⊢
    rw [hu, hpp, hcc, hokq, hokP, hokC]
    obtain ⟨ha, hg2⟩ := applyEnd_good cfg net N u i false (aget (parOf u net) i) (prep cfg net u i s1).dP
      (aget (facOf u s1) i).r (prep cfg net u i s1).cavP (proj (prep cfg net u i s1)).postP s1 hg1 hfi hp hs0
      hs1 hms (by simp) (by simp) hcavP (by rw [hdP]; exact hstep0) (by rw [hdP]; exact hstepP) hv.1
    -- the child end, on the state after the parent end
    have hpostc := applyEnd_post_other cfg u i false (aget (parOf u net) i) (prep cfg net u i s1).dP
      (prep cfg net u i s1).cavP (proj (prep cfg net u i s1)).postP s1 (aget (chiOf u net) i) hne.symm
    have hscalec := applyEnd_scale_other cfg u i false (aget (parOf u net) i) (prep cfg net u i s1).dP
      (prep cfg net u i s1).cavP (proj (prep cfg net u i s1)).postP s1 (aget (chiOf u net) i) hne.symm
    have hfacl := applyEnd_fac_r cfg u i (aget (parOf u net) i) (prep cfg net u i s1).dP
      (prep cfg net u i s1).cavP (proj (prep cfg net u i s1)).postP s1 hfi
    obtain ⟨hc', hg3⟩ := applyEnd_good cfg net N u i true (aget (chiOf u net) i) (prep cfg net u i s1).dC
      (aget (facOf u s1) i).l (prep cfg net u i s1).cavC (proj (prep cfg net u i s1)).postC _ hg2
      (by rw [applyEnd_fac_size]; exact hfi) hc hs0 hs1 hms (by simp)
      (by simp only [if_true]; exact hfacl.symm)
      (by rw [hpostc, hscalec]; exact hcavC)
      (by rw [hdC]; exact hstep0)
      (by rw [hpostc, hscalec, hdC]; exact hstepC) hv.2
    exact ⟨by rw [ha, hc']; rfl, hg3⟩

/-- **`propagate_likelihood` never trips an assert** when the projections are valid-or-skip, and keeps `Good`. -/
theorem sweep_good (proj : Req α → Res α) (hvos : VOS proj) (cfg : Cfg α) (net : Net α) (N : Nat) (u : Bool)
    (order : List Nat) (s : State α) (hg : Good cfg net s N) (hnet : NetOK net N)
    (hord : ∀ i ∈ order, i < (parOf u net).size) (hs0 : 0 < cfg.minStep) (hs1 : cfg.minStep < 1)
    (hms : 1 < cfg.maxShape) :
    sweepOk proj cfg net u order s = true ∧ Good cfg net (sweep proj cfg net u order s) N := by
  unfold sweep
  induction order generalizing s with
  | nil => exact ⟨rfl, hg⟩
  | cons i rest ih =>
    rw [List.foldl_cons]
    obtain ⟨h1, h2⟩ := stepEdge_good proj hvos cfg net N u s i hg hnet (hord i (List.mem_cons_self ..)) hs0 hs1 hms
    obtain ⟨h3, h4⟩ := ih _ h2 (fun j hj => hord j (List.mem_cons_of_mem _ hj))
    refine ⟨?_, h4⟩
    simp only [sweepOk, h1, h3, Bool.and_self]

theorem init_good (cfg : Cfg α) (net : Net α) (N : Nat) :
    Good cfg net (initState N net.ep.size net.bj.size) N := by
  refine ⟨(init_inv net N).sizes, init_postOK cfg N _ _, ?_⟩
  intro n hn _ u i hi
  cases u
  · simp only [facOf, Bool.false_eq_true, if_false, initState, Array.size_replicate] at hi ⊢
    rw [aget_replicate _ _ _ hi]
    exact ⟨fun _ => rfl, fun _ => rfl⟩
  · simp only [facOf, if_true, initState, Array.size_replicate] at hi ⊢
    rw [aget_replicate _ _ _ hi]
    exact ⟨fun _ => rfl, fun _ => rfl⟩

/-- Un-regularised iterations: no assert, invariant kept. -/
theorem iterate_good (proj : Req α → Res α) (hvos : VOS proj) (cfg : Cfg α) (net : Net α) (sch : Sched α)
    (N : Nat) (s : State α) (hg : Good cfg net s N) (hok : SchedOK net sch N) (hreg : sch.regularise = false)
    (hs0 : 0 < cfg.minStep) (hs1 : cfg.minStep < 1) (hms : 1 < cfg.maxShape) :
    iterateOk proj cfg net sch s = true ∧ Good cfg net (iterate proj cfg net sch s) N := by
  obtain ⟨h1, g1⟩ := sweep_good proj hvos cfg net N true sch.blockOrder s hg hok.netok hok.border hs0 hs1 hms
  obtain ⟨h2, g2⟩ := sweep_good proj hvos cfg net N false sch.edgeOrder _ g1 hok.netok hok.eorder hs0 hs1 hms
  unfold iterateOk iterate
  simp only [hreg, h1, h2, Bool.and_self, Bool.not_false, Bool.true_or, Bool.false_eq_true, if_false]
  exact ⟨trivial, rescaleFactors_good cfg net N _ g2⟩

theorem iterateN_good (proj : Req α → Res α) (hvos : VOS proj) (cfg : Cfg α) (net : Net α) (sch : Sched α)
    (N : Nat) (k : Nat) (s : State α) (hg : Good cfg net s N) (hok : SchedOK net sch N)
    (hreg : sch.regularise = false) (hs0 : 0 < cfg.minStep) (hs1 : cfg.minStep < 1) (hms : 1 < cfg.maxShape) :
    iterateNOk proj cfg net sch k s = true ∧ Good cfg net (iterateN proj cfg net sch k s) N := by
  induction k generalizing s with
  | zero => exact ⟨rfl, hg⟩
  | succ k ih =>
    obtain ⟨h1, g1⟩ := iterate_good proj hvos cfg net sch N s hg hok hreg hs0 hs1 hms
    obtain ⟨h2, g2⟩ := ih _ g1
    refine ⟨?_, g2⟩
    simp only [iterateNOk, h1, h2, Bool.and_self]

end Tsdate.EP
