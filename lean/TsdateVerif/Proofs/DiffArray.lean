/-
Lemmas for C25, difference-array part of `mutational_area`: the running sum of the difference array
at epoch `k` equals the direct sum over the edges that span epoch `k`.
-/
import Mathlib.Algebra.Order.Field.Basic
import Mathlib.Algebra.BigOperators.Group.List.Basic
import Mathlib.Tactic.Ring
import Mathlib.Tactic.Linarith
import Mathlib.Tactic.Abel
import TsdateVerif.Model.Rescale

namespace Tsdate.Rescale
set_option linter.unusedSectionVars false

variable {α : Type} [Inhabited α] [Field α] [LinearOrder α] [IsStrictOrderedRing α]

theorem lget_eq_getElem {β : Type} [Inhabited β] (l : List β) (i : Nat) (h : i < l.length) :
    lget l i = l[i] := by
  simp [lget, h]

/-! ### prefix sums under a point update -/

theorem sum_take_set (l : List α) (i m : Nat) (v : α) (hi : i < l.length) :
    ((l.set i v).take m).sum = (l.take m).sum + (if i < m then v - l[i] else 0) := by
  induction l generalizing i m with
  | nil => simp at hi
  | cons a t ih =>
    cases m with
    | zero => simp
    | succ m =>
      cases i with
      | zero => simp; ring
      | succ i =>
        have hi' : i < t.length := by simpa using hi
        simp only [List.set_cons_succ, List.take_succ_cons, List.sum_cons, List.getElem_cons_succ]
        rw [ih i m hi']
        have : (i + 1 < m + 1) = (i < m) := by simp
        simp only [this]
        ring

theorem length_addAt (l : List α) (i : Nat) (v : α) : (addAt l i v).length = l.length := by
  unfold addAt; split_ifs <;> simp

theorem length_subAt (l : List α) (i : Nat) (v : α) : (subAt l i v).length = l.length := by
  unfold subAt; split_ifs <;> simp

theorem sum_take_addAt (l : List α) (i m : Nat) (v : α) :
    ((addAt l i v).take m).sum = (l.take m).sum + (if i < m ∧ i < l.length then v else 0) := by
  unfold addAt
  by_cases hi : i < l.length
  · rw [if_pos hi, sum_take_set l i m _ hi, lget_eq_getElem l i hi]
    by_cases hm : i < m <;> simp [hm, hi]
  · simp [hi]

theorem sum_take_subAt (l : List α) (i m : Nat) (v : α) :
    ((subAt l i v).take m).sum = (l.take m).sum - (if i < m ∧ i < l.length then v else 0) := by
  unfold subAt
  by_cases hi : i < l.length
  · rw [if_pos hi, sum_take_set l i m _ hi, lget_eq_getElem l i hi]
    by_cases hm : i < m <;> simp [hm, hi, sub_eq_add_neg]
  · simp [hi]

theorem length_diffUpdate (n : Nat) (col : List α) (a b : Nat) (v : α) :
    (diffUpdate n col a b v).length = col.length := by
  unfold diffUpdate
  split_ifs <;> simp [length_addAt, length_subAt]

/-- one edge changes the prefix sum up to epoch `k < n` by `[a ≤ k]·v − [b ≤ k]·v` -/
theorem sum_take_diffUpdate (n : Nat) (col : List α) (a b : Nat) (v : α) (k : Nat)
    (hlen : col.length = n) (hk : k < n) :
    ((diffUpdate n col a b v).take (k + 1)).sum =
      (col.take (k + 1)).sum + ((if a ≤ k then v else 0) - (if b ≤ k then v else 0)) := by
  unfold diffUpdate
  have ha : (a < k + 1 ∧ a < n) ↔ a ≤ k := by omega
  have hb : (b < k + 1 ∧ b < n) ↔ b ≤ k := by omega
  by_cases h1 : a < n <;> by_cases h2 : b < n
  · simp only [h1, h2, if_true]
    rw [sum_take_subAt, sum_take_addAt, length_addAt, hlen]
    simp only [ha, hb]; ring
  · simp only [h1, h2, if_true, if_false]
    rw [sum_take_addAt, hlen]
    have : ¬ b ≤ k := by omega
    simp only [ha, this, if_false]; ring
  · simp only [h1, h2, if_true, if_false]
    rw [sum_take_subAt, hlen]
    have : ¬ a ≤ k := by omega
    simp only [hb, this, if_false]; ring
  · simp only [h1, h2, if_false]
    have h3 : ¬ a ≤ k := by omega
    have h4 : ¬ b ≤ k := by omega
    simp [h3, h4]

/-- the contribution of one update to the prefix sum at epoch `k` -/
def contrib (k : Nat) (u : Nat × Nat × α) : α :=
  (if u.1 ≤ k then u.2.2 else 0) - (if u.2.1 ≤ k then u.2.2 else 0)

theorem foldl_diffUpdate (n : Nat) (ups : List (Nat × Nat × α)) (col : List α) (k : Nat)
    (hlen : col.length = n) (hk : k < n) :
    (ups.foldl (fun col u => diffUpdate n col u.1 u.2.1 u.2.2) col).length = n ∧
    ((ups.foldl (fun col u => diffUpdate n col u.1 u.2.1 u.2.2) col).take (k + 1)).sum =
      (col.take (k + 1)).sum + (ups.map (contrib k)).sum := by
  induction ups generalizing col with
  | nil => simp [hlen]
  | cons u rest ih =>
    simp only [List.foldl_cons, List.map_cons, List.sum_cons]
    have hl : (diffUpdate n col u.1 u.2.1 u.2.2).length = n := by rw [length_diffUpdate, hlen]
    obtain ⟨h1, h2⟩ := ih _ hl
    refine ⟨h1, ?_⟩
    rw [h2, sum_take_diffUpdate n col _ _ _ k hlen hk]
    unfold contrib
    ring

theorem sum_take_replicate_zero (n m : Nat) : ((List.replicate n (0 : α)).take m).sum = 0 := by
  rw [List.take_replicate]
  simp

theorem foldl_diffUpdate_length (n : Nat) (ups : List (Nat × Nat × α)) (col : List α) :
    (ups.foldl (fun col u => diffUpdate n col u.1 u.2.1 u.2.2) col).length = col.length := by
  induction ups generalizing col with
  | nil => rfl
  | cons u rest ih => simp only [List.foldl_cons]; rw [ih, length_diffUpdate]

theorem diffArray_length (n : Nat) (ups : List (Nat × Nat × α)) : (diffArray n ups).length = n := by
  unfold diffArray
  rw [foldl_diffUpdate_length]; simp

/-- prefix sums of the difference array -/
theorem diffArray_prefix (n : Nat) (ups : List (Nat × Nat × α)) (k : Nat) (hk : k < n) :
    ((diffArray n ups).take (k + 1)).sum = (ups.map (contrib k)).sum := by
  unfold diffArray
  rw [(foldl_diffUpdate n ups (List.replicate n 0) k (by simp) hk).2, sum_take_replicate_zero]
  simp

/-! ### `np.cumsum` -/

theorem cumsum_cons_cons (x y : α) (rest : List α) :
    cumsum (x :: y :: rest) = x :: cumsum ((x + y) :: rest) := rfl

theorem cumsum_singleton (x : α) : cumsum [x] = [x] := rfl

theorem cumsum_length (l : List α) : (cumsum l).length = l.length := by
  cases l with
  | nil => rfl
  | cons x rest =>
    induction rest generalizing x with
    | nil => rfl
    | cons y r ih => rw [cumsum_cons_cons]; simp [ih]

theorem cumsum_get (x : α) (rest : List α) (k : Nat) (hk : k ≤ rest.length) :
    lget (cumsum (x :: rest)) k = x + (rest.take k).sum := by
  induction rest generalizing x k with
  | nil =>
    have : k = 0 := by simpa using hk
    subst this; simp [cumsum_singleton, lget]
  | cons y r ih =>
    rw [cumsum_cons_cons]
    cases k with
    | zero => simp [lget]
    | succ k =>
      have hk' : k ≤ r.length := by simpa using hk
      have := ih (x + y) k hk'
      simp only [lget, List.getElem?_cons_succ] at this ⊢
      rw [this]
      simp [List.take_succ_cons, add_assoc]

/-- entry `k` of `np.cumsum(l)` is the sum of the first `k+1` entries -/
theorem cumsum_prefix (l : List α) (k : Nat) (hk : k < l.length) :
    lget (cumsum l) k = (l.take (k + 1)).sum := by
  cases l with
  | nil => simp at hk
  | cons x rest =>
    rw [cumsum_get x rest k (by simpa using Nat.lt_succ_iff.mp hk)]
    simp [List.take_succ_cons]

/-- **`cumsum` of the difference array = direct sum over the updates.** -/
theorem cumsum_diffArray (n : Nat) (ups : List (Nat × Nat × α)) (k : Nat) (hk : k < n) :
    lget (cumsum (diffArray n ups)) k = (ups.map (contrib k)).sum := by
  rw [cumsum_prefix _ k (by rw [diffArray_length]; exact hk), diffArray_prefix n ups k hk]

/-- for `a ≤ b` the contribution is the indicator of `a ≤ k < b` -/
theorem contrib_of_le (k : Nat) (u : Nat × Nat × α) (h : u.1 ≤ u.2.1) :
    contrib k u = if u.1 ≤ k ∧ k < u.2.1 then u.2.2 else 0 := by
  unfold contrib
  by_cases h1 : u.1 ≤ k <;> by_cases h2 : u.2.1 ≤ k
  · have : ¬ k < u.2.1 := by omega
    simp [h1, h2, this]
  · have : k < u.2.1 := by omega
    simp [h1, h2, this]
  · omega
  · simp [h1, h2]

/-! ### dense ranks are monotone in the time -/

theorem nodeIndex_mono (d : List α) (s t : α) (h : s ≤ t) : nodeIndex d s ≤ nodeIndex d t := by
  unfold nodeIndex
  apply List.countP_mono_left
  intro x _ hx
  simp only [decide_eq_true_eq] at hx ⊢
  exact lt_of_lt_of_le hx h

end Tsdate.Rescale
