/-
The guards of `pass_log_eq_lin` are decidable on a concrete linear run over `Rat` (used for the
non-vacuity examples of Props/C12; the harness evaluates the same conditions on real runs).
-/
import TsdateVerif.Proofs.DiscreteHomPass

namespace Tsdate.Discrete
open Tsdate

section
variable (Pn : Rat → Prop) [DecidablePred Pn] (on : Ops Rat) (inpN : Input Rat)

instance (std : Bool) (s : InsideState Rat) (g : Nat × List DEdge) :
    Decidable (insideGuard Pn on inpN std s g) := by
  unfold insideGuard; infer_instance

def insideGuardsDec (std : Bool) : (gs : List (Nat × List DEdge)) → (s : InsideState Rat) →
    Decidable (insideGuards Pn on inpN std gs s)
  | [], _ => isTrue trivial
  | g :: rest, s =>
    have := insideGuardsDec std rest (insideGroup on inpN std s g)
    by unfold insideGuards; infer_instance

instance (std : Bool) (gs : List (Nat × List DEdge)) (s : InsideState Rat) :
    Decidable (insideGuards Pn on inpN std gs s) := insideGuardsDec Pn on inpN std gs s

instance (sN : InsideState Rat) (std ign : Bool) (outside : Array (Array Rat)) (e : DEdge) :
    Decidable (outsideEdgeGuard Pn on inpN sN std ign outside e) := by
  unfold outsideEdgeGuard; infer_instance

instance (sN : InsideState Rat) (std ign : Bool) (outside : Array (Array Rat)) (g : Nat × List DEdge) :
    Decidable (outsideGroupGuard Pn on inpN sN std ign outside g) := by
  unfold outsideGroupGuard; infer_instance

def outsideGuardsDec (sN : InsideState Rat) (std ign : Bool) : (gs : List (Nat × List DEdge)) →
    (out : Array (Array Rat)) → Decidable (outsideGuards Pn on inpN sN std ign gs out)
  | [], _ => isTrue trivial
  | g :: rest, out =>
    have := outsideGuardsDec sN std ign rest (outsideGroup on inpN sN std ign out g)
    by unfold outsideGuards; infer_instance

instance (sN : InsideState Rat) (std ign : Bool) (gs : List (Nat × List DEdge))
    (out : Array (Array Rat)) : Decidable (outsideGuards Pn on inpN sN std ign gs out) :=
  outsideGuardsDec Pn on inpN sN std ign gs out

end
end Tsdate.Discrete
