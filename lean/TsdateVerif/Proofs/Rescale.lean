/-
Lemmas for C25/C37, piecewise-linear part: `piecewise_scale_point_estimate`'s index/slope formula is the
piecewise-linear interpolant through the breakpoints (constant after the last one); it is monotone,
interpolates the breakpoints (hence continuous and fixes 0), and is Lipschitz.
-/
import Mathlib.Algebra.Order.Field.Basic
import Mathlib.Tactic.FieldSimp
import Mathlib.Tactic.Ring
import Mathlib.Tactic.Linarith
import Mathlib.Tactic.Positivity
import TsdateVerif.Model.Rescale

namespace Tsdate.Rescale
set_option linter.unusedSectionVars false
set_option linter.unusedVariables false

variable {α : Type} [Inhabited α] [Field α] [LinearOrder α] [IsStrictOrderedRing α]

/-! ### specification: the interpolant, on the zipped list of `(original, rescaled)` breakpoints -/

/-- piecewise-linear interpolation through the points, constant after the last one -/
def pwlRec : List (α × α) → α → α
  | [], _ => 0
  | [(_, r)], _ => r
  | (o, r) :: (o', r') :: rest, x =>
      if x < o' then r + (r' - r) / (o' - o) * (x - o) else pwlRec ((o', r') :: rest) x

/-- both coordinates strictly increase along the list -/
def IncZ : List (α × α) → Prop
  | (o, r) :: (o', r') :: rest => o < o' ∧ r < r' ∧ IncZ ((o', r') :: rest)
  | _ => True

/-- strictly increasing list -/
def Inc : List α → Prop
  | a :: b :: rest => a < b ∧ Inc (b :: rest)
  | _ => True

theorem inc_iff (l : List α) : strictlyIncreasing l = true ↔ Inc l := by
  induction l with
  | nil => simp [strictlyIncreasing, diffs, Inc]
  | cons a t ih =>
    cases t with
    | nil => simp [strictlyIncreasing, diffs, Inc]
    | cons b r =>
      simp only [strictlyIncreasing, diffs, List.all_cons, Bool.and_eq_true, decide_eq_true_eq, Inc,
        sub_pos] at ih ⊢
      rw [ih]

theorem incZ_of_inc (ob rb : List α) (hlen : ob.length = rb.length) (ho : Inc ob) (hr : Inc rb) :
    IncZ (ob.zip rb) := by
  induction ob generalizing rb with
  | nil => simp [IncZ]
  | cons a t ih =>
    match rb, hlen with
    | b :: u, hlen =>
      cases t with
      | nil => simp [IncZ]
      | cons a' t' =>
        match u, hlen with
        | b' :: u', hlen =>
          simp only [List.zip_cons_cons, IncZ]
          exact ⟨ho.1, hr.1, by simpa using ih (b' :: u') (by simpa using hlen) ho.2 hr.2⟩

theorem IncZ.tail {s : α × α} {rest : List (α × α)} (h : IncZ (s :: rest)) : IncZ rest := by
  obtain ⟨o, r⟩ := s
  cases rest with
  | nil => trivial
  | cons s' t => obtain ⟨o', r'⟩ := s'; exact h.2.2

theorem IncZ.head_lt {o r : α} {rest : List (α × α)} (h : IncZ ((o, r) :: rest)) :
    ∀ s ∈ rest, o < s.1 ∧ r < s.2 := by
  induction rest generalizing o r with
  | nil => intro s hs; cases hs
  | cons s' t ih =>
    obtain ⟨o', r'⟩ := s'
    obtain ⟨h1, h2, h3⟩ := h
    intro s hs
    rcases List.mem_cons.mp hs with rfl | hs
    · exact ⟨h1, h2⟩
    · exact ⟨lt_trans h1 (ih h3 s hs).1, lt_trans h2 (ih h3 s hs).2⟩

/-! ### searchsorted -/

theorem searchRight_cons (b : α) (bs : List α) (t : α) :
    searchRight (b :: bs) t = searchRight bs t + (if b ≤ t then 1 else 0) := by
  unfold searchRight
  rw [List.countP_cons]
  simp

theorem searchRight_eq_zero (bs : List α) (t : α) (h : ∀ b ∈ bs, t < b) : searchRight bs t = 0 := by
  unfold searchRight
  rw [List.countP_eq_zero]
  intro b hb
  simpa using h b hb

theorem lget_cons_succ {β : Type} [Inhabited β] (a : β) (l : List β) (i : Nat) :
    lget (a :: l) (i + 1) = lget l i := by
  simp [lget]

theorem lget_cons_zero {β : Type} [Inhabited β] (a : β) (l : List β) : lget (a :: l) 0 = a := by
  simp [lget]

/-! ### the code's formula is the interpolant -/

/-- `scalings` on the zipped list -/
def scalingsZ : List (α × α) → List α
  | (o, r) :: (o', r') :: rest => (r' - r) / (o' - o) :: scalingsZ ((o', r') :: rest)
  | _ => [0]

theorem scalings_zip (segs : List (α × α)) :
    scalings (segs.map (·.1)) (segs.map (·.2)) = scalingsZ segs := by
  induction segs with
  | nil => simp [scalings, diffs, scalingsZ]
  | cons s rest ih =>
    obtain ⟨o, r⟩ := s
    cases rest with
    | nil => simp [scalings, diffs, scalingsZ]
    | cons s' t =>
      obtain ⟨o', r'⟩ := s'
      simp only [scalings, List.map_cons, diffs, List.zipWith_cons_cons, List.cons_append,
        scalingsZ] at ih ⊢
      rw [ih]

/-- **Index + slope = interpolant.** -/
theorem pwlAt_zip (segs : List (α × α)) (x : α) (hi : IncZ segs) (hne : segs ≠ [])
    (hx : (segs.head hne).1 ≤ x) :
    pwlAt (segs.map (·.1)) (segs.map (·.2)) x = pwlRec segs x := by
  unfold pwlAt
  rw [scalings_zip]
  induction segs with
  | nil => exact absurd rfl hne
  | cons s rest ih =>
    obtain ⟨o, r⟩ := s
    simp only [List.head_cons] at hx
    cases rest with
    | nil =>
      simp only [List.map_cons, List.map_nil, searchRight_cons, if_pos hx, scalingsZ, pwlRec]
      have : searchRight ([] : List α) x = 0 := rfl
      simp [this, lget_cons_zero]
    | cons s' t =>
      obtain ⟨o', r'⟩ := s'
      obtain ⟨h1, h2, h3⟩ := hi
      by_cases h : x < o'
      · have hz : searchRight (o' :: t.map (·.1)) x = 0 := by
          apply searchRight_eq_zero
          intro y hy
          rcases List.mem_cons.mp hy with rfl | hy
          · exact h
          · obtain ⟨sy, hsy, rfl⟩ := List.mem_map.mp hy
            exact lt_trans h (h3.head_lt sy hsy).1
        simp only [List.map_cons, pwlRec, if_pos h, scalingsZ]
        rw [searchRight_cons, if_pos hx, hz]
        simp [lget_cons_zero]
      · have hge : o' ≤ x := not_lt.mp h
        have hpos : 0 < searchRight (o' :: t.map (·.1)) x := by
          rw [searchRight_cons, if_pos hge]; omega
        simp only [List.map_cons, pwlRec, if_neg h, scalingsZ]
        rw [searchRight_cons o, if_pos hx]
        have e : searchRight (o' :: t.map (·.1)) x + 1 - 1
            = (searchRight (o' :: t.map (·.1)) x - 1) + 1 := by omega
        rw [e]
        simp only [lget_cons_succ]
        have := ih h3 (by simp) (by simpa using hge)
        simpa using this

/-! ### properties of the interpolant -/

theorem pwlRec_ge_head (o r : α) (rest : List (α × α)) (x : α) (hi : IncZ ((o, r) :: rest))
    (hx : o ≤ x) : r ≤ pwlRec ((o, r) :: rest) x := by
  induction rest generalizing o r with
  | nil => simp [pwlRec]
  | cons s' t ih =>
    obtain ⟨o', r'⟩ := s'
    obtain ⟨h1, h2, h3⟩ := hi
    simp only [pwlRec]
    split_ifs with h
    · have hs : 0 ≤ (r' - r) / (o' - o) := div_nonneg (sub_nonneg.mpr h2.le) (sub_nonneg.mpr h1.le)
      have : 0 ≤ (r' - r) / (o' - o) * (x - o) := mul_nonneg hs (sub_nonneg.mpr hx)
      linarith
    · exact le_trans h2.le (ih o' r' h3 (not_lt.mp h))

/-- the interpolant passes through the first point -/
theorem pwlRec_head (o r : α) (rest : List (α × α)) (hi : IncZ ((o, r) :: rest)) :
    pwlRec ((o, r) :: rest) o = r := by
  cases rest with
  | nil => simp [pwlRec]
  | cons s' t =>
    obtain ⟨o', r'⟩ := s'
    simp [pwlRec, hi.1]

/-- inside the first interval the value stays below the next rescaled break -/
theorem first_piece_le (o r o' r' x : α) (h1 : o < o') (h2 : r < r') (hx : o ≤ x) (hx' : x ≤ o') :
    r + (r' - r) / (o' - o) * (x - o) ≤ r' := by
  have hd : 0 < o' - o := sub_pos.mpr h1
  have hs : 0 ≤ (r' - r) / (o' - o) := div_nonneg (sub_nonneg.mpr h2.le) hd.le
  have : (r' - r) / (o' - o) * (x - o) ≤ (r' - r) / (o' - o) * (o' - o) :=
    mul_le_mul_of_nonneg_left (by linarith) hs
  have e : (r' - r) / (o' - o) * (o' - o) = r' - r := by field_simp
  linarith

/-- **Monotone.** -/
theorem pwlRec_mono (segs : List (α × α)) (x y : α) (hi : IncZ segs) (hne : segs ≠ [])
    (hx : (segs.head hne).1 ≤ x) (hxy : x ≤ y) : pwlRec segs x ≤ pwlRec segs y := by
  induction segs with
  | nil => exact absurd rfl hne
  | cons s rest ih =>
    obtain ⟨o, r⟩ := s
    simp only [List.head_cons] at hx
    cases rest with
    | nil => simp [pwlRec]
    | cons s' t =>
      obtain ⟨o', r'⟩ := s'
      obtain ⟨h1, h2, h3⟩ := hi
      have hd : 0 < o' - o := sub_pos.mpr h1
      have hs : 0 ≤ (r' - r) / (o' - o) := div_nonneg (sub_nonneg.mpr h2.le) hd.le
      simp only [pwlRec]
      by_cases hy : y < o'
      · have hx' : x < o' := lt_of_le_of_lt hxy hy
        rw [if_pos hy, if_pos hx']
        have : (r' - r) / (o' - o) * (x - o) ≤ (r' - r) / (o' - o) * (y - o) :=
          mul_le_mul_of_nonneg_left (by linarith) hs
        linarith
      · rw [if_neg hy]
        by_cases hx' : x < o'
        · rw [if_pos hx']
          exact le_trans (first_piece_le o r o' r' x h1 h2 hx hx'.le)
            (pwlRec_ge_head o' r' t y h3 (not_lt.mp hy))
        · rw [if_neg hx']
          exact ih h3 (by simp) (by simpa using not_lt.mp hx')

/-- **Lipschitz**: between `x ≤ y` the interpolant grows by at most `L (y - x)` when every slope is at
most `L` (and `L ≥ 0`); together with `pwlRec_mono` this is continuity, quantitatively. -/
theorem pwlRec_lipschitz (segs : List (α × α)) (x y L : α) (hi : IncZ segs) (hne : segs ≠ [])
    (hx : (segs.head hne).1 ≤ x) (hxy : x ≤ y) (hL : 0 ≤ L) (hs : ∀ s ∈ scalingsZ segs, s ≤ L) :
    pwlRec segs y - pwlRec segs x ≤ L * (y - x) := by
  induction segs generalizing x with
  | nil => exact absurd rfl hne
  | cons s rest ih =>
    obtain ⟨o, r⟩ := s
    simp only [List.head_cons] at hx
    cases rest with
    | nil =>
      simp only [pwlRec, sub_self]
      exact mul_nonneg hL (sub_nonneg.mpr hxy)
    | cons s' t =>
      obtain ⟨o', r'⟩ := s'
      obtain ⟨h1, h2, h3⟩ := hi
      have hd : 0 < o' - o := sub_pos.mpr h1
      have hsl : (r' - r) / (o' - o) ≤ L := hs _ (by simp [scalingsZ])
      have hs' : ∀ s ∈ scalingsZ ((o', r') :: t), s ≤ L := fun s hm => hs s (by simp [scalingsZ, hm])
      simp only [pwlRec]
      by_cases hy : y < o'
      · have hx' : x < o' := lt_of_le_of_lt hxy hy
        rw [if_pos hy, if_pos hx']
        have : (r' - r) / (o' - o) * (y - x) ≤ L * (y - x) :=
          mul_le_mul_of_nonneg_right hsl (sub_nonneg.mpr hxy)
        have e : r + (r' - r) / (o' - o) * (y - o) - (r + (r' - r) / (o' - o) * (x - o))
            = (r' - r) / (o' - o) * (y - x) := by ring
        rw [e]; exact this
      · rw [if_neg hy]
        have hy' : o' ≤ y := not_lt.mp hy
        by_cases hx' : x < o'
        · rw [if_pos hx']
          -- split at o'
          have hI := ih o' h3 (by simp) (by simp) hy' hs'
          rw [pwlRec_head o' r' t h3] at hI
          have e : r' - (r + (r' - r) / (o' - o) * (x - o)) = (r' - r) / (o' - o) * (o' - x) := by
            field_simp; ring
          have h4 : (r' - r) / (o' - o) * (o' - x) ≤ L * (o' - x) :=
            mul_le_mul_of_nonneg_right hsl (by linarith)
          have : L * (y - x) = L * (y - o') + L * (o' - x) := by ring
          rw [this]
          linarith
        · rw [if_neg hx']
          exact ih x h3 (by simp) (by simpa using not_lt.mp hx') hxy hs'

/-- the interpolant passes through every breakpoint -/
theorem pwlRec_at_break (segs : List (α × α)) (hi : IncZ segs) (s : α × α) (hs : s ∈ segs) :
    pwlRec segs s.1 = s.2 := by
  induction segs with
  | nil => cases hs
  | cons s0 rest ih =>
    obtain ⟨o, r⟩ := s0
    rcases List.mem_cons.mp hs with rfl | hs
    · exact pwlRec_head o r rest hi
    · cases rest with
      | nil => cases hs
      | cons s' t =>
        obtain ⟨o', r'⟩ := s'
        obtain ⟨h1, h2, h3⟩ := hi
        have hge : o' ≤ s.1 := by
          rcases List.mem_cons.mp hs with rfl | hs'
          · exact le_rfl
          · exact (h3.head_lt s hs').1.le
        simp only [pwlRec, if_neg (not_lt.mpr hge)]
        exact ih h3 hs

/-- beyond the last break the interpolant is constant (`scalings[-1] = 0`) -/
theorem pwlRec_after_last (segs : List (α × α)) (hi : IncZ segs) (hne : segs ≠ []) (x : α)
    (hx : (segs.getLast hne).1 ≤ x) : pwlRec segs x = (segs.getLast hne).2 := by
  induction segs with
  | nil => exact absurd rfl hne
  | cons s0 rest ih =>
    obtain ⟨o, r⟩ := s0
    cases rest with
    | nil => simp [pwlRec]
    | cons s' t =>
      obtain ⟨o', r'⟩ := s'
      obtain ⟨h1, h2, h3⟩ := hi
      have hlast : ((o, r) :: (o', r') :: t).getLast hne = ((o', r') :: t).getLast (by simp) := by
        simp [List.getLast_cons]
      rw [hlast] at hx ⊢
      have hge : o' ≤ x := by
        have hm : ((o', r') :: t).getLast (by simp) ∈ (o', r') :: t := List.getLast_mem _
        rcases List.mem_cons.mp hm with e | hm'
        · rw [e] at hx; exact hx
        · exact le_trans (h3.head_lt _ hm').1.le hx
      simp only [pwlRec, if_neg (not_lt.mpr hge)]
      exact ih h3 (by simp) hx

end Tsdate.Rescale
