/-
Refinement of the mutation sweep `_relabel_mutations_node`:  for sorted indexes the two-pointer loop
(`relabelMutations`) computes, for every mutation, `assign` of the map obtained by inserting — in
insertion order — exactly the edges whose left coordinate is `≤` the mutation's position
(`relabelSpec`), and the fuel never runs out.
-/
import Mathlib.Tactic.Set
import TsdateVerif.Proofs.SweepLists

namespace Tsdate.Split
set_option linter.unusedSectionVars false
set_option linter.unusedVariables false

variable {α : Type} [LinearOrder α]

/-- `nodes_map` after inserting, in order, the edges of `ins` with `left ≤ x`. -/
def mapUpTo (order : Array Nat) (ins : List (InsEv α)) (x : α) : Array (Option Nat) :=
  (ins.filter (fun i => decide (i.pos ≤ x))).foldl (insertEdge order) (Array.replicate order.size none)

/-- The readable specification of `_relabel_mutations_node`. -/
def relabelSpec (order : Array Nat) (ins : List (InsEv α)) (muts : List (α × Nat)) : List Nat :=
  muts.map (fun m => assign (mapUpTo order ins m.1) m.2)

/-- What the theorem needs of the indexes (true of tskit's insertion/removal orders and of the
mutation table of any tree sequence). -/
structure SweepOK (zero : α) (ins : List (InsEv α)) (rem : List α) (muts : List (α × Nat)) : Prop where
  insSorted : ins.Pairwise (fun a b => a.pos ≤ b.pos)
  remSorted : rem.Pairwise (· ≤ ·)
  mutsSorted : muts.Pairwise (fun a b => a.1 ≤ b.1)
  ins0 : ∀ i ∈ ins, zero ≤ i.pos
  rem0 : ∀ r ∈ rem, zero ≤ r
  muts0 : ∀ m ∈ muts, zero ≤ m.1
  insLt : ∀ s, rem.getLast? = some s → ∀ i ∈ ins, i.pos < s
  remNil : rem = [] → ins = []

section Inv
variable (order : Array Nat) (seqlen : α) (ins : List (InsEv α)) (muts : List (α × Nat))

/-- Loop invariant at the top of the outer `while`. -/
structure SwInv (st : SwSt α) : Prop where
  insSplit : ∃ done, ins = done ++ st.ins ∧ (∀ i ∈ done, i.pos < st.left) ∧
    st.map = done.foldl (insertEdge order) (Array.replicate order.size none)
  insGe : ∀ i ∈ st.ins, st.left ≤ i.pos
  remGe : ∀ r ∈ st.rem, st.left ≤ r
  remLast : st.rem.getLast? = some seqlen
  remSorted : st.rem.Pairwise (· ≤ ·)
  mutsSplit : ∃ mdone, muts = mdone ++ st.muts ∧ st.out = relabelSpec order ins mdone
  mutsGe : ∀ m ∈ st.muts, st.left ≤ m.1

/-- The current `left` is one of the pending breakpoints (true from the second round on). -/
def Fresh (st : SwSt α) : Prop :=
  st.rem.head? = some st.left ∨ st.ins.head?.map (·.pos) = some st.left

end Inv

theorem suffix_pairwise {β : Type} {R : β → β → Prop} {a b : List β} (h : (a ++ b).Pairwise R) :
    b.Pairwise R := (List.pairwise_append.mp h).2.1

/-- One round of the loop keeps the invariant, advances `left`, and makes progress. -/
theorem sweepRound_inv (order : Array Nat) (seqlen : α) (ins : List (InsEv α)) (muts : List (α × Nat))
    (hins : ins.Pairwise (fun a b => a.pos ≤ b.pos)) (hmuts : muts.Pairwise (fun a b => a.1 ≤ b.1))
    (st : SwSt α) (h : SwInv order seqlen ins muts st) (hlt : st.left < seqlen) :
    SwInv order seqlen ins muts (sweepRound order seqlen st) ∧
    ((sweepRound order seqlen st).left < seqlen → Fresh (sweepRound order seqlen st)) ∧
    (sweepRound order seqlen st).ins.length ≤ st.ins.length ∧
    (sweepRound order seqlen st).rem.length ≤ st.rem.length ∧
    (Fresh st → (sweepRound order seqlen st).ins.length + (sweepRound order seqlen st).rem.length
      < st.ins.length + st.rem.length) := by
  obtain ⟨done, hdone, hdlt, hmap⟩ := h.insSplit
  obtain ⟨mdone, hmdone, hout⟩ := h.mutsSplit
  -- abbreviations
  set ℓ := st.left with hℓ
  set pr : α → Bool := fun r => decide (r = ℓ) with hpr
  set pi : InsEv α → Bool := fun i => decide (i.pos = ℓ) with hpi
  set rem' := st.rem.dropWhile pr with hrem'
  set insNow := st.ins.takeWhile pi with hinsNow
  set ins' := st.ins.dropWhile pi with hins'
  set map' := insNow.foldl (insertEdge order) st.map with hmap'
  set right : α := minOpt (minOpt seqlen rem'.head?) (ins'.head?.map (·.pos)) with hright
  set pm : α × Nat → Bool := fun m => decide (m.1 < right) with hpm
  set mNow := st.muts.takeWhile pm with hmNow
  set muts' := st.muts.dropWhile pm with hmuts'
  have hround : sweepRound order seqlen st =
      { left := right, ins := ins', rem := rem', muts := muts', map := map',
        out := st.out ++ mNow.map (fun m => assign map' m.2) } := rfl
  -- sortedness of the pending suffixes
  have hinsS : st.ins.Pairwise (fun a b => a.pos ≤ b.pos) := by
    rw [hdone] at hins; exact suffix_pairwise hins
  have hmutsS : st.muts.Pairwise (fun a b => a.1 ≤ b.1) := by
    rw [hmdone] at hmuts; exact suffix_pairwise hmuts
  have hsplitIns : st.ins = insNow ++ ins' := (List.takeWhile_append_dropWhile).symm
  have hsplitMuts : st.muts = mNow ++ muts' := (List.takeWhile_append_dropWhile).symm
  -- the edges inserted now are exactly at `ℓ`, the remaining ones strictly right of it
  have hNow : ∀ i ∈ insNow, i.pos = ℓ := by
    intro i hi; simpa [hpi] using takeWhile_all pi st.ins i hi
  have hins'gt : ∀ i ∈ ins', ℓ < i.pos := by
    intro i hi
    have hmem : i ∈ st.ins := (List.dropWhile_sublist pi).subset hi
    have := dropWhile_all_not (R := fun a b : InsEv α => a.pos ≤ b.pos) (p := pi) hinsS
      (by
        intro a ha b hb hab hb'
        simp only [hpi, decide_eq_true_eq] at hb' ⊢
        exact le_antisymm (hb' ▸ hab) (h.insGe a ha)) i hi
    simp only [hpi, decide_eq_false_iff_not] at this
    exact lt_of_le_of_ne (h.insGe i hmem) (Ne.symm this)
  have hrem'gt : ∀ r ∈ rem', ℓ < r := by
    intro r hr
    have hmem : r ∈ st.rem := (List.dropWhile_sublist pr).subset hr
    have := dropWhile_all_not (R := fun a b : α => a ≤ b) (p := pr) h.remSorted
      (by
        intro a ha b hb hab hb'
        simp only [hpr, decide_eq_true_eq] at hb' ⊢
        exact le_antisymm (hb' ▸ hab) (h.remGe a ha)) r hr
    simp only [hpr, decide_eq_false_iff_not] at this
    exact lt_of_le_of_ne (h.remGe r hmem) (Ne.symm this)
  have hrem'S : rem'.Pairwise (· ≤ ·) := h.remSorted.sublist (List.dropWhile_sublist pr)
  have hins'S : ins'.Pairwise (fun a b => a.pos ≤ b.pos) := hinsS.sublist (List.dropWhile_sublist pi)
  have hrem'last : rem'.getLast? = some seqlen :=
    getLast?_dropWhile h.remLast (by simp only [hpr, decide_eq_false_iff_not]; exact ne_of_gt hlt)
  -- `right`
  have hright_gt : ℓ < right := by
    apply lt_minOpt
    · apply lt_minOpt hlt
      intro x hx; exact hrem'gt x (List.mem_of_mem_head? hx)
    · intro x hx
      obtain ⟨i, hi, rfl⟩ := Option.map_eq_some_iff.mp hx
      exact hins'gt i (List.mem_of_mem_head? hi)
  have hright_le_seq : right ≤ seqlen := le_trans (minOpt_le_left _ _) (minOpt_le_left _ _)
  have hright_le_rem : ∀ r ∈ rem', right ≤ r := by
    intro r hr
    cases hh : rem'.head? with
    | none => rw [List.head?_eq_none_iff] at hh; rw [hh] at hr; simp at hr
    | some x =>
      have h1 : right ≤ x := by
        rw [hright, hh]; exact le_trans (minOpt_le_left _ _) (minOpt_le_some _ _)
      exact le_trans h1 (head_le_all (R := fun a b : α => a ≤ b) (fun _ => le_rfl) hrem'S hh r hr)
  have hright_le_ins : ∀ i ∈ ins', right ≤ i.pos := by
    intro i hi
    cases hh : ins'.head? with
    | none => rw [List.head?_eq_none_iff] at hh; rw [hh] at hi; simp at hi
    | some x =>
      have h1 : right ≤ x.pos := by
        rw [hright, hh]; exact minOpt_le_some _ _
      exact le_trans h1 (head_le_all (R := fun a b : InsEv α => a.pos ≤ b.pos) (fun _ => le_rfl) hins'S hh i hi)
  -- mutations handled now
  have hmNow : ∀ m ∈ mNow, m.1 < right := by
    intro m hm; simpa [hpm] using takeWhile_all pm st.muts m hm
  have hmuts'ge : ∀ m ∈ muts', right ≤ m.1 := by
    intro m hm
    have := dropWhile_all_not (R := fun a b : α × Nat => a.1 ≤ b.1) (p := pm) hmutsS
      (by
        intro a ha b hb hab hb'
        simp only [hpm, decide_eq_true_eq] at hb' ⊢
        exact lt_of_le_of_lt hab hb') m hm
    simpa [hpm] using this
  -- the map used for the mutations handled now is the map of the spec
  have hmap'eq : map' = (done ++ insNow).foldl (insertEdge order) (Array.replicate order.size none) := by
    rw [List.foldl_append, ← hmap]
  have hfilter : ∀ x, ℓ ≤ x → x < right →
      ins.filter (fun i => decide (i.pos ≤ x)) = done ++ insNow := by
    intro x hx1 hx2
    rw [hdone, hsplitIns, List.filter_append, List.filter_append]
    have e1 : done.filter (fun i => decide (i.pos ≤ x)) = done :=
      List.filter_eq_self.mpr (fun i hi => by
        simp only [decide_eq_true_eq]; exact le_trans (le_of_lt (hdlt i hi)) hx1)
    have e2 : insNow.filter (fun i => decide (i.pos ≤ x)) = insNow :=
      List.filter_eq_self.mpr (fun i hi => by
        simp only [decide_eq_true_eq]; rw [hNow i hi]; exact hx1)
    have e3 : ins'.filter (fun i => decide (i.pos ≤ x)) = [] :=
      List.filter_eq_nil_iff.mpr (fun i hi => by
        simp only [decide_eq_true_eq, not_le]; exact lt_of_lt_of_le hx2 (hright_le_ins i hi))
    rw [e1, e2, e3, List.append_nil]
  have hspecNow : mNow.map (fun m => assign map' m.2) = relabelSpec order ins mNow := by
    unfold relabelSpec
    apply List.map_congr_left
    intro m hm
    have hmem : m ∈ st.muts := (List.takeWhile_sublist pm).subset hm
    unfold mapUpTo
    rw [hfilter m.1 (h.mutsGe m hmem) (hmNow m hm), ← hmap'eq]
  rw [hround]
  refine ⟨?_, ?_, ?_, ?_, ?_⟩
  · refine ⟨⟨done ++ insNow, ?_, ?_, hmap'eq⟩, hright_le_ins, hright_le_rem, hrem'last, hrem'S,
      ⟨mdone ++ mNow, ?_, ?_⟩, hmuts'ge⟩
    · rw [List.append_assoc, ← hsplitIns]; exact hdone
    · intro i hi
      rcases List.mem_append.mp hi with hi | hi
      · exact lt_trans (hdlt i hi) hright_gt
      · show i.pos < right; rw [hNow i hi]; exact hright_gt
    · rw [List.append_assoc, ← hsplitMuts]; exact hmdone
    · show st.out ++ mNow.map (fun m => assign map' m.2) = relabelSpec order ins (mdone ++ mNow)
      rw [hout, hspecNow]; simp [relabelSpec]
  · intro hlt'
    show rem'.head? = some right ∨ ins'.head?.map (·.pos) = some right
    rcases minOpt_cases (minOpt seqlen rem'.head?) (ins'.head?.map (·.pos)) with h1 | h1
    · rcases minOpt_cases seqlen rem'.head? with h2 | h2
      · exfalso; rw [hright, h1, h2] at hlt'; exact lt_irrefl _ hlt'
      · left; rw [hright, h1]; exact h2
    · right; exact h1
  · exact length_dropWhile_le pi st.ins
  · exact length_dropWhile_le pr st.rem
  · intro hf
    show ins'.length + rem'.length < st.ins.length + st.rem.length
    have l1 : ins'.length ≤ st.ins.length := length_dropWhile_le pi st.ins
    have l2 : rem'.length ≤ st.rem.length := length_dropWhile_le pr st.rem
    rcases hf with hf | hf
    · have : rem'.length < st.rem.length :=
        length_dropWhile_lt (p := pr) hf (by show decide (ℓ = ℓ) = true; simp)
      omega
    · obtain ⟨i, hi, hip⟩ := Option.map_eq_some_iff.mp hf
      have : ins'.length < st.ins.length :=
        length_dropWhile_lt (p := pi) hi (by show decide (i.pos = ℓ) = true; rw [hip]; simp [hℓ])
      omega

/-- The outer loop computes the specification, given enough fuel. -/
theorem sweepGo_spec (order : Array Nat) (seqlen : α) (ins : List (InsEv α)) (muts : List (α × Nat))
    (hins : ins.Pairwise (fun a b => a.pos ≤ b.pos)) (hmuts : muts.Pairwise (fun a b => a.1 ≤ b.1))
    (hlt : ∀ i ∈ ins, i.pos < seqlen) :
    ∀ (fuel : Nat) (st : SwSt α), SwInv order seqlen ins muts st →
      1 ≤ fuel →
      (st.left < seqlen → (Fresh st ∧ st.ins.length + st.rem.length + 1 ≤ fuel) ∨
        st.ins.length + st.rem.length + 2 ≤ fuel) →
      sweepGo order seqlen fuel st = some (relabelSpec order ins muts) := by
  intro fuel
  induction fuel with
  | zero => intro st _ h1; omega
  | succ fuel ih =>
    intro st hinv _ hfuel
    unfold sweepGo
    by_cases hl : st.left < seqlen
    · rw [if_pos hl]
      obtain ⟨hinv', hfresh', hli, hlr, hprog⟩ := sweepRound_inv order seqlen ins muts hins hmuts st hinv hl
      have hrem1 : 1 ≤ st.rem.length := by
        have := List.mem_of_getLast? hinv.remLast
        exact List.length_pos_of_mem this
      apply ih _ hinv'
      · rcases hfuel hl with ⟨_, h⟩ | h <;> omega
      · intro hl'
        left
        refine ⟨hfresh' hl', ?_⟩
        rcases hfuel hl with ⟨hf, h⟩ | h
        · have := hprog hf; omega
        · omega
    · rw [if_neg hl]
      obtain ⟨done, hdone, hdlt, hmap⟩ := hinv.insSplit
      obtain ⟨mdone, hmdone, hout⟩ := hinv.mutsSplit
      have hle : seqlen ≤ st.left := le_of_not_gt hl
      have hnil : st.ins = [] := by
        apply List.eq_nil_iff_forall_not_mem.mpr
        intro i hi
        have h1 := hinv.insGe i hi
        have h2 := hlt i (by rw [hdone]; exact List.mem_append_right _ hi)
        exact absurd (lt_of_lt_of_le h2 (le_trans hle h1)) (lt_irrefl _)
      have hdone' : ins = done := by rw [hdone, hnil, List.append_nil]
      have hrest : st.muts.map (fun m => assign st.map m.2) = relabelSpec order ins st.muts := by
        unfold relabelSpec
        apply List.map_congr_left
        intro m hm
        unfold mapUpTo
        have : ins.filter (fun i => decide (i.pos ≤ m.1)) = ins :=
          List.filter_eq_self.mpr (fun i hi => by
            simp only [decide_eq_true_eq]
            exact le_trans (le_of_lt (hlt i hi)) (le_trans hle (hinv.mutsGe m hm)))
        rw [this, hmap, ← hdone']
      rw [hrest, hout, hmdone]
      simp [relabelSpec]

/-- **`_relabel_mutations_node` refines its specification.** -/
theorem relabel_refines (zero : α) (order : Array Nat) (ins : List (InsEv α)) (rem : List α)
    (muts : List (α × Nat)) (hok : SweepOK zero ins rem muts) :
    relabelMutations zero order ins rem muts = some (relabelSpec order ins muts) := by
  unfold relabelMutations
  cases hlast : rem.getLast? with
  | none =>
    have hrem : rem = [] := List.getLast?_eq_none_iff.mp hlast
    have hins := hok.remNil hrem
    subst hins
    simp only [relabelSpec, mapUpTo, List.filter_nil, List.foldl_nil, assign_replicate]
  | some seqlen =>
    simp only
    apply sweepGo_spec order seqlen ins muts hok.insSorted hok.mutsSorted (hok.insLt seqlen hlast)
    · exact ⟨⟨[], rfl, fun i hi => by simp at hi, rfl⟩, hok.ins0, hok.rem0, hlast, hok.remSorted,
        ⟨[], rfl, rfl⟩, hok.muts0⟩
    · omega
    · intro _; right; exact le_rfl

end Tsdate.Split
