/-
`_split_disjoint_nodes`: the pieces.  Two edges of one input node get the same new id iff they
carry the same label; labels are separated by gaps; a piece's coverage is convex; the leftmost piece
keeps the id; an input whose non-excluded nodes are already contiguous is returned unchanged.
-/
import TsdateVerif.Proofs.Split

namespace Tsdate.Split
set_option linter.unusedSectionVars false
set_option linter.unusedVariables false

variable {α : Type} [Inhabited α] [LinearOrder α]

section Pieces
variable {N : Nat} (excl : Array Bool) {es : Array (SEdge α)} {ord : List Nat}

theorem newNode_of_excl (hv : Valid N es ord) (e : Nat) (he : e < es.size) (role : Bool)
    (hx : aget excl (oldNode es e role) = true) :
    newNode (splitDisjoint N excl es ord) e role = oldNode es e role := by
  rw [newNode_eq N excl es ord e he role, (label_range excl hv e he role).1 hx]
  exact newId_nonpos _ _ _ (by decide)

theorem newNode_of_label_zero (hv : Valid N es ord) (e : Nat) (he : e < es.size) (role : Bool)
    (hl : labelOf N excl es ord e role = 0) :
    newNode (splitDisjoint N excl es ord) e role = oldNode es e role := by
  rw [newNode_eq N excl es ord e he role, hl]
  exact newId_nonpos _ _ _ (by decide)

/-- For two endpoints that are the same input node: same output node iff same label. -/
theorem newNode_eq_iff (hv : Valid N es ord) (e e' : Nat) (he : e < es.size) (he' : e' < es.size)
    (r r' : Bool) (hsame : oldNode es e r = oldNode es e' r') :
    newNode (splitDisjoint N excl es ord) e r = newNode (splitDisjoint N excl es ord) e' r' ↔
      labelOf N excl es ord e r = labelOf N excl es ord e' r' := by
  obtain ⟨hinv, hsz⟩ := st1_facts excl hv
  have h1 := label_range excl hv e he r
  have h2 := label_range excl hv e' he' r'
  rw [newNode_eq N excl es ord e he r, newNode_eq N excl es ord e' he' r', ← hsame]
  constructor
  · intro h
    cases hx : aget excl (oldNode es e r)
    · have a1 := h1.2 hx
      have a2 := h2.2 (by rw [← hsame]; exact hx)
      rw [← hsame] at a2
      exact newId_inj N _ hsz.seg _ (oldNode_lt hv e he r) _ _ a1.1 a2.1 a1.2 a2.2 h
    · rw [h1.1 hx, h2.1 (by rw [← hsame]; exact hx)]
  · intro h; rw [h]

/-- A smaller label lies entirely to the left, with a gap. -/
theorem label_sep (hv : Valid N es ord) (e e' : Nat) (he : e < es.size) (he' : e' < es.size)
    (r r' : Bool) (hsame : oldNode es e r = oldNode es e' r')
    (hx : aget excl (oldNode es e r) = false)
    (hlt : labelOf N excl es ord e r < labelOf N excl es ord e' r') :
    (aget es e).right < (aget es e').left := by
  obtain ⟨hinv, hsz⟩ := st1_facts excl hv
  exact hinv.sep _ (mem_events_of_lt hv e he r) _ (mem_events_of_lt hv e' he' r') hsame hx hlt

/-- Two different pieces of one input node are separated by a gap. -/
theorem pieces_separated (hv : Valid N es ord) (e e' : Nat) (he : e < es.size) (he' : e' < es.size)
    (r r' : Bool) (hsame : oldNode es e r = oldNode es e' r')
    (hne : newNode (splitDisjoint N excl es ord) e r ≠ newNode (splitDisjoint N excl es ord) e' r') :
    (aget es e).right < (aget es e').left ∨ (aget es e').right < (aget es e).left := by
  have hne' : labelOf N excl es ord e r ≠ labelOf N excl es ord e' r' :=
    fun h => hne ((newNode_eq_iff excl hv e e' he he' r r' hsame).mpr h)
  cases hx : aget excl (oldNode es e r)
  · rcases lt_or_gt_of_ne hne' with h | h
    · exact Or.inl (label_sep excl hv e e' he he' r r' hsame hx h)
    · exact Or.inr (label_sep excl hv e' e he' he r' r hsame.symm (by rw [← hsame]; exact hx) h)
  · exfalso; apply hne'
    rw [(label_range excl hv e he r).1 hx,
      (label_range excl hv e' he' r').1 (by rw [← hsame]; exact hx)]

/-- Edges of one input node that are in the same local tree belong to the same piece. -/
theorem same_piece_of_overlap (hv : Valid N es ord) (e e' : Nat) (he : e < es.size)
    (he' : e' < es.size) (r r' : Bool) (hsame : oldNode es e r = oldNode es e' r') (x : α)
    (hc : covers es e x) (hc' : covers es e' x) :
    newNode (splitDisjoint N excl es ord) e r = newNode (splitDisjoint N excl es ord) e' r' := by
  by_contra hne
  rcases pieces_separated excl hv e e' he he' r r' hsame hne with h | h
  · exact absurd (lt_of_lt_of_le h hc'.1) (not_lt.mpr (le_of_lt hc.2))
  · exact absurd (lt_of_lt_of_le h hc.1) (not_lt.mpr (le_of_lt hc'.2))

/-- The positions at which a non-sample output node is present form an interval. -/
theorem piece_convex (hv : Valid N es ord) (e e' : Nat) (he : e < es.size) (he' : e' < es.size)
    (r r' : Bool)
    (hv' : newNode (splitDisjoint N excl es ord) e r = newNode (splitDisjoint N excl es ord) e' r')
    (hx : aget excl (oldNode es e r) = false) (y : α)
    (hy1 : (aget es e).left ≤ y) (hy2 : y < (aget es e').right) :
    ∃ e'' r'', e'' < es.size ∧
      newNode (splitDisjoint N excl es ord) e'' r'' = newNode (splitDisjoint N excl es ord) e r ∧
      covers es e'' y := by
  obtain ⟨hinv, hsz⟩ := st1_facts excl hv
  have hsame : oldNode es e r = oldNode es e' r' := by
    rw [← orig_newNode excl hv e he r, ← orig_newNode excl hv e' he' r', hv']
  have hl := (newNode_eq_iff excl hv e e' he he' r r' hsame).mp hv'
  obtain ⟨ev, hev, hn, hlab, hc⟩ := hinv.convex _ (mem_events_of_lt hv e he r) _
    (mem_events_of_lt hv e' he' r') hsame hx hl y hy1 hy2
  obtain ⟨e'', he'', r'', rfl⟩ := (mem_eventsOf es ord ev).mp hev
  have he''' := hv.ordLt e'' he''
  refine ⟨e'', r'', he''', ?_, hc⟩
  exact (newNode_eq_iff excl hv e'' e he''' he r'' r hn).mpr hlab

/-- Every edge whose endpoint was renumbered has, strictly to its left, an edge of the same input
node that kept the id. -/
theorem leftmost (hv : Valid N es ord) (e : Nat) (he : e < es.size) (r : Bool)
    (hne : newNode (splitDisjoint N excl es ord) e r ≠ oldNode es e r) :
    ∃ e0 r0, e0 < es.size ∧ oldNode es e0 r0 = oldNode es e r ∧
      newNode (splitDisjoint N excl es ord) e0 r0 = oldNode es e r ∧
      (aget es e0).right < (aget es e).left := by
  obtain ⟨hinv, hsz⟩ := st1_facts excl hv
  cases hx : aget excl (oldNode es e r)
  · have hr := (label_range excl hv e he r).2 hx
    have hpos : 0 < labelOf N excl es ord e r := by
      rcases lt_or_eq_of_le hr.1 with h | h
      · exact h
      · exact absurd (newNode_of_label_zero excl hv e he r h.symm) hne
    obtain ⟨rr, hrr, _⟩ := hinv.rightBd _ (mem_events_of_lt hv e he r) hx
    obtain ⟨ev, hev, hn, hlab⟩ := hinv.zeroAtt _ _ hrr
    obtain ⟨e0, he0, r0, rfl⟩ := (mem_eventsOf es ord ev).mp hev
    have he0' := hv.ordLt e0 he0
    have hn : oldNode es e0 r0 = oldNode es e r := hn
    refine ⟨e0, r0, he0', hn, ?_, ?_⟩
    · rw [newNode_of_label_zero excl hv e0 he0' r0 hlab]; exact hn
    · exact label_sep excl hv e0 e he0' he r0 r hn (by rw [hn]; exact hx)
        (by show labelOf N excl es ord e0 r0 < _; unfold labelOf; rw [lab_eq_abs, hlab]; exact hpos)
  · exact absurd (newNode_of_excl excl hv e he r hx) hne

end Pieces

end Tsdate.Split
