/-
Lemmas about the `preprocess_ts` interval model (used by Props/C28).
-/
import Mathlib.Algebra.Order.Field.Basic
import Mathlib.Tactic.Linarith
import Mathlib.Tactic.SplitIfs
import TsdateVerif.Model.Preprocess

namespace Tsdate.Preprocess
set_option linter.unusedSectionVars false
set_option linter.unusedVariables false

variable {α : Type} [Field α] [LinearOrder α] [IsStrictOrderedRing α]

/-- `s, s'` are adjacent entries of `sites`. -/
def Adjacent (sites : List α) (s s' : α) : Prop := ∃ pre post, sites = pre ++ s :: s' :: post

theorem adjacent_cons {c : α} {sites : List α} {s s' : α} (h : Adjacent sites s s') :
    Adjacent (c :: sites) s s' := by
  obtain ⟨pre, post, rfl⟩ := h
  exact ⟨c :: pre, post, rfl⟩

/-- Membership in `gapIntervals`. -/
theorem mem_gapIntervals (mg : α) (sites : List α) (iv : α × α) :
    iv ∈ gapIntervals mg sites ↔
      ∃ s s', Adjacent sites s s' ∧ mg ≤ s' - s ∧ s + 1 < s' - 1 ∧ iv = (s + 1, s' - 1) := by
  induction sites with
  | nil => simp [gapIntervals, Adjacent]
  | cons a rest ih =>
    cases rest with
    | nil =>
      simp only [gapIntervals, List.not_mem_nil, false_iff]
      rintro ⟨s, s', ⟨pre, post, h⟩, _⟩
      have := congrArg List.length h
      simp at this; omega
    | cons b rest =>
      simp only [gapIntervals, List.mem_append]
      rw [ih]
      constructor
      · rintro (h | ⟨s, s', hadj, h⟩)
        · split_ifs at h with hc
          · simp only [List.mem_singleton] at h
            exact ⟨a, b, ⟨[], rest, rfl⟩, hc.1, hc.2, h⟩
          · simp at h
        · exact ⟨s, s', adjacent_cons hadj, h⟩
      · rintro ⟨s, s', ⟨pre, post, h⟩, hmg, hlt, hiv⟩
        cases pre with
        | nil =>
          simp only [List.nil_append, List.cons.injEq] at h
          obtain ⟨rfl, rfl, rfl⟩ := h
          left; rw [if_pos ⟨hmg, hlt⟩]; simp [hiv]
        | cons c pre =>
          simp only [List.cons_append, List.cons.injEq] at h
          right; exact ⟨s, s', ⟨pre, post, h.2⟩, hmg, hlt, hiv⟩

/-- Membership in `flankIntervals`. -/
theorem mem_flankIntervals (sites : List α) (L : α) (iv : α × α) :
    iv ∈ flankIntervals sites L ↔
      (∃ s0, sites.head? = some s0 ∧ 0 < s0 - 1 ∧ iv = (0, s0 - 1)) ∨
      (∃ sN, sites.getLast? = some sN ∧ sN + 1 < L ∧ iv = (sN + 1, L)) := by
  unfold flankIntervals
  cases sites with
  | nil => simp
  | cons a rest =>
    obtain ⟨sN, hN⟩ : ∃ sN, (a :: rest).getLast? = some sN := ⟨_, List.getLast?_eq_some_getLast (by simp)⟩
    rw [hN]
    simp only [List.head?_cons, List.mem_append, Option.some.injEq, exists_eq_left']
    constructor
    · rintro (h | h)
      · split_ifs at h with hc
        · left; exact ⟨hc, by simpa using h⟩
        · simp at h
      · split_ifs at h with hc
        · right; exact ⟨hc, by simpa using h⟩
        · simp at h
    · rintro (⟨hc, h⟩ | ⟨hc, h⟩)
      · left; rw [if_pos hc]; simp [h]
      · right; rw [if_pos hc]; simp [h]

/-- `sorted(…)` keeps the same intervals. -/
theorem mem_sortByStart (ivs : List (α × α)) (iv : α × α) : iv ∈ sortByStart ivs ↔ iv ∈ ivs :=
  (List.mergeSort_perm ivs _).mem_iff

theorem sortByStart_sorted (ivs : List (α × α)) :
    (sortByStart ivs).Pairwise (fun x y => x.1 ≤ y.1) := by
  have := List.pairwise_mergeSort (le := fun (x y : α × α) => !decide (y.1 < x.1))
    (by
      intro a b c hab hbc
      simp only [Bool.not_eq_eq_eq_not, Bool.not_true, decide_eq_false_iff_not, not_lt] at hab hbc ⊢
      exact le_trans hab hbc)
    (by
      intro a b
      simp only [Bool.or_eq_true, Bool.not_eq_eq_eq_not, Bool.not_true, decide_eq_false_iff_not, not_lt]
      exact le_total _ _) ivs
  refine this.imp ?_
  intro a b h
  simpa using h

/-! ### Sorted sites -/

theorem head_le_of_sorted {sites : List α} (hs : sites.Pairwise (· < ·)) {s0 s : α}
    (h0 : sites.head? = some s0) (hm : s ∈ sites) : s0 ≤ s := by
  cases sites with
  | nil => simp at h0
  | cons a rest =>
    simp only [List.head?_cons, Option.some.injEq] at h0; subst h0
    rcases List.mem_cons.mp hm with rfl | hm
    · exact le_rfl
    · exact le_of_lt ((List.pairwise_cons.mp hs).1 s hm)

theorem le_last_of_sorted {sites : List α} (hs : sites.Pairwise (· < ·)) {sN s : α}
    (hN : sites.getLast? = some sN) (hm : s ∈ sites) : s ≤ sN := by
  obtain ⟨ini, rfl⟩ : ∃ ini, sites = ini ++ [sN] := by
    rcases List.eq_nil_or_concat sites with h | ⟨ini, x, h⟩
    · subst h; simp at hN
    · subst h
      simp only [List.concat_eq_append, List.getLast?_append, List.getLast?_singleton,
        Option.some_or, Option.some.injEq] at hN
      subst hN; exact ⟨ini, by simp⟩
  rcases List.mem_append.mp hm with hm | hm
  · exact le_of_lt ((List.pairwise_append.mp hs).2.2 s hm sN (by simp))
  · simp only [List.mem_singleton] at hm; subst hm; exact le_rfl

/-- Around an adjacent pair every site is at or left of the first, or at or right of the second. -/
theorem adjacent_split {sites : List α} (hs : sites.Pairwise (· < ·)) {s s' : α}
    (h : Adjacent sites s s') : s < s' ∧ ∀ t ∈ sites, t ≤ s ∨ s' ≤ t := by
  obtain ⟨pre, post, rfl⟩ := h
  have h1 := List.pairwise_append.mp hs
  have h2 := List.pairwise_cons.mp h1.2.1
  have h3 := List.pairwise_cons.mp h2.2
  refine ⟨h2.1 s' (List.mem_cons_self ..), ?_⟩
  intro t ht
  rcases List.mem_append.mp ht with ht | ht
  · left; exact le_of_lt (h1.2.2 t ht s (List.mem_cons_self ..))
  · rcases List.mem_cons.mp ht with rfl | ht
    · left; exact le_rfl
    · rcases List.mem_cons.mp ht with rfl | ht
      · right; exact le_rfl
      · right; exact le_of_lt (h3.1 t ht)

theorem adjacent_mem {sites : List α} {s s' : α} (h : Adjacent sites s s') : s ∈ sites ∧ s' ∈ sites := by
  obtain ⟨pre, post, rfl⟩ := h
  simp

/-! ### Separation of the generated intervals -/

/-- Two intervals with a gap between them, in either order. -/
def Sep (i j : α × α) : Prop := i.2 < j.1 ∨ j.2 < i.1

theorem sep_symm {i j : α × α} (h : Sep i j) : Sep j i := Or.symm h

theorem gapIntervals_pairwise (mg : α) {sites : List α} (hs : sites.Pairwise (· < ·)) :
    (gapIntervals mg sites).Pairwise Sep := by
  induction sites with
  | nil => simp [gapIntervals]
  | cons a rest ih =>
    cases rest with
    | nil => simp [gapIntervals]
    | cons b rest =>
      simp only [gapIntervals]
      have hs' := (List.pairwise_cons.mp hs).2
      rw [List.pairwise_append]
      refine ⟨?_, ih hs', ?_⟩
      · split_ifs <;> simp
      · intro x hx y hy
        split_ifs at hx with hc
        · simp only [List.mem_singleton] at hx; subst hx
          obtain ⟨s, s', hadj, _, _, rfl⟩ := (mem_gapIntervals mg (b :: rest) y).mp hy
          have hb : b ≤ s := head_le_of_sorted hs' rfl (adjacent_mem hadj).1
          left; show b - 1 < s + 1; linarith
        · simp at hx

theorem flank_gap_pairwise (mg : α) {sites : List α} (L : α) (hs : sites.Pairwise (· < ·)) :
    (flankIntervals sites L ++ gapIntervals mg sites).Pairwise Sep := by
  rw [List.pairwise_append]
  refine ⟨?_, gapIntervals_pairwise mg hs, ?_⟩
  · -- the two flanks
    unfold flankIntervals
    cases sites with
    | nil => simp
    | cons a rest =>
      obtain ⟨sN, hN⟩ : ∃ sN, (a :: rest).getLast? = some sN := ⟨_, List.getLast?_eq_some_getLast (by simp)⟩
      rw [hN]
      simp only [List.head?_cons]
      have hle : a ≤ sN := le_last_of_sorted hs hN (List.mem_cons_self ..)
      rw [List.pairwise_append]
      refine ⟨by split_ifs <;> simp, by split_ifs <;> simp, ?_⟩
      intro x hx y hy
      split_ifs at hx with h1
      · split_ifs at hy with h2
        · simp only [List.mem_singleton] at hx hy; subst hx; subst hy
          left; show a - 1 < sN + 1; linarith
        · simp at hy
      · simp at hx
  · intro x hx y hy
    obtain ⟨s, s', hadj, _, _, rfl⟩ := (mem_gapIntervals mg sites y).mp hy
    have hm := adjacent_mem hadj
    have hlt := (adjacent_split hs hadj).1
    rcases (mem_flankIntervals sites L x).mp hx with ⟨s0, h0, _, rfl⟩ | ⟨sN, hN, _, rfl⟩
    · have := head_le_of_sorted hs h0 hm.1
      left; show s0 - 1 < s + 1; linarith
    · have := le_last_of_sorted hs hN hm.2
      right; show s' - 1 < sN + 1; linarith

end Tsdate.Preprocess
