/-
Scale lemmas for the discrete-time pipeline (prior grid, likelihood tables, posterior moments).
-/
import TsdateVerif.Proofs.Scale

namespace Tsdate.Scale
set_option linter.unusedSectionVars false
set_option linter.unusedVariables false

variable {α : Type} [Field α] [LinearOrder α] [IsStrictOrderedRing α]

/-! ### posterior mean and variance on a grid -/

theorem zipWith_mul_smul_right (c : α) (ps ts : List α) :
    List.zipWith (· * ·) ps (smul c ts) = smul c (List.zipWith (· * ·) ps ts) := by
  have := zipWith_mul_smul 1 c ps ts
  rwa [smul_one, one_mul] at this

theorem zipWith_sq_smul (c mn sp : α) (ps ts : List α) :
    List.zipWith (fun p t => (c * mn - t) * (c * mn - t) * (p / sp)) ps (smul c ts)
      = smul (c * c) (List.zipWith (fun p t => (mn - t) * (mn - t) * (p / sp)) ps ts) := by
  induction ps generalizing ts with
  | nil => simp
  | cons p ps ih =>
    cases ts with
    | nil => simp
    | cons t ts =>
      simp only [smul_cons, List.zipWith_cons_cons, ih]
      congr 1
      ring

/-- **Posterior moments are equivariant**: on a grid in a unit `c` times smaller the mean is
multiplied by `c` and the variance by `c²` (same probabilities). -/
theorem meanVar_equivariant (c : α) (probs times : List α) :
    meanVar probs (smul c times) = (c * (meanVar probs times).1, c * c * (meanVar probs times).2) := by
  simp only [meanVar, zipWith_mul_smul_right, sumL_smul, mul_div_assoc, zipWith_sq_smul]

/-- The probabilities enter only through their ratios: a common factor (unnormalised posterior)
does not change the moments. -/
theorem meanVar_probs_homogeneous (k : α) (hk : k ≠ 0) (probs times : List α) :
    meanVar (smul k probs) times = meanVar probs times := by
  have h1 : List.zipWith (· * ·) (smul k probs) times = smul k (List.zipWith (· * ·) probs times) := by
    have := zipWith_mul_smul k 1 probs times
    rwa [smul_one, mul_one] at this
  have h2 : ∀ (m s : α) (ps ts : List α),
      List.zipWith (fun p t => (m - t) * (m - t) * (p / (k * s))) (smul k ps) ts
        = List.zipWith (fun p t => (m - t) * (m - t) * (p / s)) ps ts := by
    intro m s ps
    induction ps with
    | nil => intro ts; simp
    | cons p ps ih =>
      intro ts
      cases ts with
      | nil => simp
      | cons t ts =>
        simp only [smul_cons, List.zipWith_cons_cons, ih]
        rw [mul_div_mul_left _ _ hk]
  simp only [meanVar, h1, sumL_smul, mul_div_mul_left _ _ hk, h2]

/-! ### mixture prior weights (C07) -/

theorem zipWith_mul_smul_right' (c : α) (f : α → α) (ms ws : List α) :
    List.zipWith (fun m w => f m * w) ms (smul c ws) = smul c (List.zipWith (fun m w => f m * w) ms ws) := by
  induction ms generalizing ws with
  | nil => simp
  | cons m ms ih =>
    cases ws with
    | nil => simp
    | cons w ws =>
      simp only [smul_cons, List.zipWith_cons_cons, ih]
      congr 1
      ring

/-- **The span-weighted mixture prior depends on span *ratios* only.** -/
theorem mixtureMeanVar_invariant (c : α) (hc : c ≠ 0) (means vars weights : List α) :
    mixtureMeanVar means vars (smul c weights) = mixtureMeanVar means vars weights := by
  have h := zipWith_mul_smul_right' c (fun m => m * m) means weights
  simp only [mixtureMeanVar, zipWith_mul_smul_right, sumL_smul, h, ← mul_add, mul_div_mul_left _ _ hc]

/-! ### prior grid -/

theorem mkPopHist_smul (two c : α) (hc : c ≠ 0) (ps tb : List α) :
    mkPopHist two (smul c ps) (smul c tb) =
      { timeBreaks := smul c (mkPopHist two ps tb).timeBreaks
        popSize2 := smul c (mkPopHist two ps tb).popSize2
        coalBreaks := (mkPopHist two ps tb).coalBreaks
        coalRate := smul (1 / c) (mkPopHist two ps tb).coalRate } := by
  have h1 : (smul c ps).map (fun n => two * n) = smul c (ps.map (fun n => two * n)) := by
    simp only [smul, List.map_map]
    apply List.map_congr_left
    intro n _
    simp only [Function.comp]
    ring
  have h2 : (0 : α) :: smul c tb = smul c (0 :: tb) := by simp
  simp only [mkPopHist, h1, h2, ctmBreaks_smul c c hc, ctmMeasure_smul, div_self hc, smul_one]

/-- user timepoints (generations) and the population-size history in a unit `c` times smaller give the
*same* coalescent-scale timepoints: `t/(2N) = (c t)/(2 c N)`. -/
theorem toCoalescent_invariant (two c : α) (hc : 0 < c) (ps tb tp : List α) :
    toCoalescent (mkPopHist two (smul c ps) (smul c tb)) (smul c tp)
      = toCoalescent (mkPopHist two ps tb) tp := by
  rw [mkPopHist_smul two c (ne_of_gt hc)]
  simp only [toCoalescent]
  rw [ctmTimes_smul c c hc (ne_of_gt hc), div_self (ne_of_gt hc), smul_one]

/-- … and a time grid on the generational scale that is `c` times the original one. -/
theorem toNatural_smul (two c : α) (hc : 0 < c) (ps tb coal : List α) :
    toNatural (mkPopHist two (smul c ps) (smul c tb)) coal
      = smul c (toNatural (mkPopHist two ps tb) coal) := by
  rw [mkPopHist_smul two c (ne_of_gt hc)]
  simp only [toNatural]
  have h := ctmTimes_smul (1 : α) (1 / c) one_pos (one_div_ne_zero (ne_of_gt hc)) coal
    (mkPopHist two ps tb).coalBreaks (mkPopHist two ps tb).coalRate
  rw [smul_one, smul_one] at h
  rw [h, one_div_one_div]

/-! ### the whole unit-carrying view of a discrete run -/

/-- the C06 transformation of the inputs: times ×c, rate ÷c -/
def DiscreteIn.scaleTime (c : α) (inp : DiscreteIn α) : DiscreteIn α :=
  { inp with
    popSize := smul c inp.popSize
    timeBreaks := smul c inp.timeBreaks
    userTimepoints := inp.userTimepoints.map (smul c)
    eps := c * inp.eps
    mu := inp.mu / c }

/-- the C07 transformation of the inputs: spans ×c, rate ÷c -/
def DiscreteIn.scaleCoord (c : α) (inp : DiscreteIn α) : DiscreteIn α :=
  { inp with
    mu := inp.mu / c
    edges := inp.edges.map (fun e => (e.1, e.2.1, c * e.2.2))
    roots := inp.roots.map (fun r => (r.1, c * r.2)) }

theorem coalTimepoints_scaleTime (two c : α) (hc : 0 < c) (inp : DiscreteIn α) :
    coalTimepoints two (inp.scaleTime c) = coalTimepoints two inp := by
  simp only [coalTimepoints, DiscreteIn.scaleTime]
  cases inp.userTimepoints with
  | none => rfl
  | some tp => simp only [Option.map_some, toCoalescent_invariant two c hc]

theorem gridOf_scaleTime (two c : α) (hc : 0 < c) (inp : DiscreteIn α) :
    gridOf two (inp.scaleTime c) = smul c (gridOf two inp) := by
  have h := coalTimepoints_scaleTime two c hc inp
  unfold gridOf
  rw [h]
  exact toNatural_smul two c hc inp.popSize inp.timeBreaks _

/-- C06 at the level of the view: grid ×c, `eps` ×c, rate ÷c leaves the unit-free part unchanged. -/
theorem viewOf_time {β : Type} (c : α) (hc : c ≠ 0) (pmf : Nat → α → β) (cdfs : List (α → α))
    (grid coal : List α) (eps mu : α) (edges : List (Nat × Nat × α)) (roots : List (Nat × α)) :
    (viewOf pmf cdfs (smul c grid) coal (c * eps) (mu / c) edges roots).free
      = (viewOf pmf cdfs grid coal eps mu edges roots).free := by
  apply DiscreteFree.ext
  · rfl
  · show edges.map _ = edges.map _
    apply List.map_congr_left
    intro e _
    simp only [likTable, timediffLowerTri_smul, likArgs_time_invariant c hc]
  · show edges.map _ = edges.map _
    apply List.map_congr_left
    intro e _
    simp only [likTable, timediff_smul, likArgs_time_invariant c hc]
  · rfl
  · rfl
  · funext ei pi yi
    simp only [DiscreteView.free, viewOf]
    cases edges[ei]? with
    | none => rfl
    | some e => simp only [likTable, maxDts_smul, likArgs_time_invariant c hc]

theorem filter_map_edges (c : α) (u : Nat) (es : List (Nat × Nat × α)) :
    ((es.map (fun e => (e.1, e.2.1, c * e.2.2))).filter (fun e => e.2.1 == u)).map (fun e => e.2.2)
      = smul c ((es.filter (fun e => e.2.1 == u)).map (fun e => e.2.2)) := by
  induction es with
  | nil => rfl
  | cons e es ih =>
    simp only [List.map_cons, List.filter_cons]
    by_cases h : (e.2.1 == u) = true
    · simp only [h, if_true, List.map_cons, smul_cons, ih]
    · simp only [h, Bool.false_eq_true, if_false, ih]

theorem filter_map_roots (c : α) (u : Nat) (rs : List (Nat × α)) :
    ((rs.map (fun r => (r.1, c * r.2))).filter (fun r => r.1 == u)).map (fun r => r.2)
      = smul c ((rs.filter (fun r => r.1 == u)).map (fun r => r.2)) := by
  induction rs with
  | nil => rfl
  | cons r rs ih =>
    simp only [List.map_cons, List.filter_cons]
    by_cases h : (r.1 == u) = true
    · simp only [h, if_true, List.map_cons, smul_cons, ih]
    · simp only [h, Bool.false_eq_true, if_false, ih]

/-- node spans have coordinate degree +1 -/
theorem nodeSpan_scaleCoord (c : α) (es : List (Nat × Nat × α)) (rs : List (Nat × α)) (u : Nat) :
    nodeSpan (es.map (fun e => (e.1, e.2.1, c * e.2.2))) (rs.map (fun r => (r.1, c * r.2))) u
      = c * nodeSpan es rs u := by
  simp only [nodeSpan, filter_map_edges, filter_map_roots, sumL_smul, mul_add]

theorem rootSpan_scaleCoord (c : α) (rs : List (Nat × α)) (u : Nat) :
    rootSpan (rs.map (fun r => (r.1, c * r.2))) u = c * rootSpan rs u := by
  simp only [rootSpan, filter_map_roots, sumL_smul]

/-- C07 at the level of the view: spans ×c, rate ÷c leaves grid and unit-free part unchanged. -/
theorem viewOf_coord {β : Type} (c : α) (hc : c ≠ 0) (pmf : Nat → α → β) (cdfs : List (α → α))
    (grid coal : List α) (eps mu : α) (edges : List (Nat × Nat × α)) (roots : List (Nat × α)) :
    (viewOf pmf cdfs grid coal eps (mu / c) (edges.map (fun e => (e.1, e.2.1, c * e.2.2)))
        (roots.map (fun r => (r.1, c * r.2)))).free
      = (viewOf pmf cdfs grid coal eps mu edges roots).free := by
  apply DiscreteFree.ext
  · rfl
  · show (edges.map _).map _ = edges.map _
    rw [List.map_map]
    apply List.map_congr_left
    intro e _
    simp only [Function.comp, likTable, likArgs_coord_invariant c hc]
  · show (edges.map _).map _ = edges.map _
    rw [List.map_map]
    apply List.map_congr_left
    intro e _
    simp only [Function.comp, likTable, likArgs_coord_invariant c hc]
  · show (edges.map _).map _ = edges.map _
    rw [List.map_map]
    apply List.map_congr_left
    intro e _
    simp only [Function.comp, nodeSpan_scaleCoord, spanFrac_invariant c hc]
  · show (roots.map _).map _ = roots.map _
    rw [List.map_map]
    apply List.map_congr_left
    intro r _
    simp only [Function.comp, nodeSpan_scaleCoord, rootSpan_scaleCoord, spanFrac_invariant c hc]
  · funext ei pi yi
    simp only [DiscreteView.free, viewOf, List.getElem?_map]
    cases edges[ei]? with
    | none => rfl
    | some e => simp only [Option.map_some, likTable, likArgs_coord_invariant c hc]

end Tsdate.Scale
