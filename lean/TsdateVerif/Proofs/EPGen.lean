/-
The hand-written scalar pieces of `Model/EP.lean` coincide with the kernels *regenerated from the source* by the
T1 translator (`Gen/Kernels.lean`): `_damp`, `_rescale` (values and assert predicates), `approximate_gamma_mom`,
and `rootward_projection` at child age 0.  Because `Gen/Kernels.lean` is rewritten from `/repo` on every run of
the checks that list the `kernels` translator, these theorems are re-checked against what the code says now.
-/
import TsdateVerif.Proofs.EPProper
import TsdateVerif.Gen.Kernels

namespace Tsdate.EP
open Tsdate.Kernels
set_option linter.unusedSectionVars false
set_option linter.unusedVariables false

variable {α : Type} [Inhabited α] [Field α] [LinearOrder α] [IsStrictOrderedRing α]

theorem feq_zero (x : α) : feq x ((0 : Nat) : α) = isZero x := by
  simp only [feq, isZero, Nat.cast_zero]

theorem feq_zero' (x : α) : feq x (0 : α) = isZero x := by
  simp only [feq, isZero]

/-- The generated `_damp` is the model's `damp`. -/
theorem gen_damp_eq (F : SpecFns α) (x y : α × α) (s : α) :
    Tsdate.Gen.Kernels._damp F x y s = damp x y s := by
  unfold Tsdate.Gen.Kernels._damp damp pymin pIsZero
  simp only [feq_zero, Nat.cast_one, gt_iff_lt, decide_eq_true_eq]

/-- The generated assert predicate of `_damp` is the model's `dampOk`. -/
theorem gen_pre_damp_eq (F : SpecFns α) (x y : α × α) (s : α) :
    Tsdate.Gen.Kernels.pre__damp F x y s = dampOk x y s := by
  unfold Tsdate.Gen.Kernels.pre__damp dampOk
  by_cases hz : (pIsZero y && pIsZero x) = true
  · have : ((feq y.1 ((0 : Nat) : α) && feq y.2 ((0 : Nat) : α)) &&
        (feq x.1 ((0 : Nat) : α) && feq x.2 ((0 : Nat) : α))) = true := by
      simpa only [feq_zero, pIsZero] using hz
    rw [if_pos this, hz]; rfl
  · have : ¬ ((feq y.1 ((0 : Nat) : α) && feq y.2 ((0 : Nat) : α)) &&
        (feq x.1 ((0 : Nat) : α) && feq x.2 ((0 : Nat) : α))) = true := by
      simpa only [feq_zero, pIsZero] using hz
    rw [if_neg this]
    have hd : damp x y s = (let a : α := if decide ((1 : α) + x.1 - y.1 > (1 + x.1) * s) then 1
          else (1 - s) * (1 + x.1) / y.1
        let b : α := if decide (x.2 - y.2 > x.2 * s) then 1 else (1 - s) * x.2 / y.2
        pymin a b) := by
      unfold damp pymin
      rw [if_neg hz]
      simp only [gt_iff_lt, decide_eq_true_eq]
    have hz' : (pIsZero y && pIsZero x) = false := by simpa using hz
    rw [hz', Bool.false_or, hd]
    simp only [Nat.cast_zero, Nat.cast_one, Bool.and_assoc]

/-- The generated `_rescale` is the model's `rescale`. -/
theorem gen_rescale_eq (F : SpecFns α) (x : α × α) (s : α) :
    Tsdate.Gen.Kernels._rescale F x s = rescale x s := by
  unfold Tsdate.Gen.Kernels._rescale rescale pIsZero
  simp only [feq_zero, Nat.cast_one, gt_iff_lt, decide_eq_true_eq]

theorem gen_pre_rescale_eq (F : SpecFns α) (x : α × α) (s : α) :
    Tsdate.Gen.Kernels.pre__rescale F x s = rescaleOk x := by
  unfold Tsdate.Gen.Kernels.pre__rescale rescaleOk pIsZero
  simp only [Nat.cast_zero, Nat.cast_one, feq_zero']
  by_cases h : (isZero x.1 && isZero x.2) = true
  · rw [if_pos h, h]; rfl
  · rw [if_neg h]
    have : (isZero x.1 && isZero x.2) = false := by simpa using h
    rw [this, Bool.false_or]

/-- The generated `approximate_gamma_mom` is the model's `gammaMom`. -/
theorem gen_gamma_mom_eq (F : SpecFns α) (mn va : α) :
    Tsdate.Gen.Kernels.approximate_gamma_mom F mn va = gammaMom mn va := by
  unfold Tsdate.Gen.Kernels.approximate_gamma_mom gammaMom
  simp only [Nat.cast_one]

/-- **The generated `rootward_projection` at child age 0 is the model's conjugate projection `rootwardT0`**
(for an instance of the special functions under which every number is finite — exact arithmetic has no
overflow): a skip hands back the cavity, otherwise the projected natural parameters agree. -/
theorem gen_rootward_t0 (F : SpecFns α) (hfin : ∀ v, F.isFinite v = true) (cav lik : α × α) :
    (Tsdate.Gen.Kernels.rootward_projection F ((0 : Nat) : α) cav lik).2 = (rootwardT0 cav lik).getD cav ∧
      ((Tsdate.Gen.Kernels.rootward_projection F ((0 : Nat) : α) cav lik).1.isNone ↔
        (rootwardT0 cav lik).isNone) := by
  unfold Tsdate.Gen.Kernels.rootward_projection Tsdate.Gen.Kernels.rootward_moments
    Tsdate.Gen.Kernels._valid_gamma Tsdate.Gen.Kernels._valid_moments
    Tsdate.Gen.Kernels.approximate_gamma_mom rootwardT0
  simp only [hfin, Bool.and_self, Bool.not_true, Bool.false_eq_true, if_false, Nat.cast_zero, Nat.cast_one]
  have hf : feq (0 : α) 0 = true := by simp [feq]
  simp only [hf, if_true]
  by_cases hs : 0 < cav.1 + 1 + lik.1 ∧ 0 < lik.2 + cav.2
  · have h1 : ¬ (cav.1 + 1 + lik.1 ≤ 0) := not_le.mpr hs.1
    have h2 : ¬ (lik.2 + cav.2 ≤ 0) := not_le.mpr hs.2
    simp only [h1, h2, decide_false, Bool.or_self, Bool.false_eq_true, if_false, hs, and_self, if_true]
    by_cases hv : 0 < (cav.1 + 1 + lik.1) / (lik.2 + cav.2) ∧
        0 < (cav.1 + 1 + lik.1) / ((lik.2 + cav.2) * (lik.2 + cav.2))
    · simp [hv, gt_iff_lt]
    · have hcond : (cav.1 + 1 + lik.1) / (lik.2 + cav.2) ≤ 0 ∨
          (cav.1 + 1 + lik.1) / ((lik.2 + cav.2) * (lik.2 + cav.2)) ≤ 0 := by
        by_contra hcon
        push Not at hcon
        exact hv ⟨hcon.1, hcon.2⟩
      simp [hv, hcond, gt_iff_lt]
  · have : (decide (cav.1 + 1 + lik.1 ≤ 0) || decide (lik.2 + cav.2 ≤ 0)) = true := by
      rw [Bool.or_eq_true, decide_eq_true_iff, decide_eq_true_iff]
      by_contra hcon
      push Not at hcon
      exact hs ⟨hcon.1, hcon.2⟩
    simp [this, hs]

end Tsdate.EP
