/-
Binomial identities used by the conditional-coalescent proofs (C14).
-/
import Mathlib.Data.Nat.Choose.Basic
import Mathlib.Algebra.BigOperators.Group.Finset.Basic
import Mathlib.Algebra.BigOperators.Ring.Finset
import Mathlib.Tactic.Ring
import Mathlib.Tactic.Linarith

namespace Tsdate.Coalescent
open Finset

/-- Hockey stick: `Σ_{i ≤ M} C(i + r, r) = C(M + r + 1, r + 1)`. -/
theorem hockey (r M : ℕ) : ∑ i ∈ range (M + 1), (i + r).choose r = (M + r + 1).choose (r + 1) := by
  induction M with
  | zero => simp
  | succ M ih =>
    rw [sum_range_succ, ih]
    have hP : (M + 1 + r + 1).choose (r + 1) = (M + 1 + r).choose r + (M + r + 1).choose (r + 1) := by
      have e : M + 1 + r + 1 = (M + r + 1) + 1 := by omega
      have e2 : M + 1 + r = M + r + 1 := by omega
      rw [e, e2, Nat.choose_succ_succ]
    rw [hP]; ring

/-- Upper-index Vandermonde in shifted form (every term non-zero):
`Σ_{i ≤ M} C(i + r, r) · C(M - i + s, s) = C(M + r + s + 1, r + s + 1)`. -/
theorem vander (r : ℕ) : ∀ s M : ℕ,
    ∑ i ∈ range (M + 1), (i + r).choose r * (M - i + s).choose s
      = (M + r + s + 1).choose (r + s + 1) := by
  intro s
  induction s with
  | zero => intro M; simpa using hockey r M
  | succ s ihs =>
    intro M
    induction M with
    | zero => simp
    | succ M ihM =>
      rw [sum_range_succ]
      have hmain : ∀ i ∈ range (M + 1),
          (i + r).choose r * (M + 1 - i + (s + 1)).choose (s + 1)
            = (i + r).choose r * (M + 1 - i + s).choose s
              + (i + r).choose r * (M - i + (s + 1)).choose (s + 1) := by
        intro i hi
        have hi' : i ≤ M := Nat.lt_succ_iff.mp (mem_range.mp hi)
        have e1 : M + 1 - i + (s + 1) = (M - i + (s + 1)) + 1 := by omega
        have e2 : M + 1 - i + s = M - i + (s + 1) := by omega
        rw [e1, Nat.choose_succ_succ, e2]; ring
      rw [sum_congr rfl hmain, sum_add_distrib, ihM]
      have h := ihs (M + 1)
      rw [sum_range_succ] at h
      have e3 : M + 1 - (M + 1) + s = s := by omega
      have e4 : M + 1 - (M + 1) + (s + 1) = s + 1 := by omega
      rw [e3, Nat.choose_self, mul_one] at h
      rw [e4, Nat.choose_self, mul_one]
      have hP : (M + 1 + r + (s + 1) + 1).choose (r + (s + 1) + 1)
          = (M + 1 + r + s + 1).choose (r + s + 1) + (M + r + (s + 1) + 1).choose (r + (s + 1) + 1) := by
        have e5 : M + 1 + r + (s + 1) + 1 = (M + 1 + r + s + 1) + 1 := by omega
        have e6 : r + (s + 1) + 1 = (r + s + 1) + 1 := by omega
        have e7 : M + r + (s + 1) + 1 = M + 1 + r + s + 1 := by omega
        rw [e5, e6, e7, Nat.choose_succ_succ]
      rw [hP, ← h]
      ring

end Tsdate.Coalescent
