/-
C26: the Poisson deviance used by `_poisson_changepoints` is superadditive when there are no minimum
constraints and all counts/offsets are positive, for every `log` satisfying the log-sum inequality
(a hypothesis on the parameter, true of the real logarithm) — so PELT pruning is sound there.
-/
import Mathlib.Algebra.Order.Field.Basic
import Mathlib.Algebra.Order.Monoid.WithTop
import Mathlib.Tactic.Ring
import Mathlib.Tactic.Linarith
import TsdateVerif.Proofs.Pelt
import TsdateVerif.Proofs.FixedCp

namespace Tsdate.Changepoints
set_option linter.unusedSectionVars false

variable {α : Type} [Inhabited α] [Field α] [LinearOrder α] [IsStrictOrderedRing α]

/-- the log-sum inequality for two terms, as a property of the `log` parameter -/
def LogSum (lg : α → α) : Prop :=
  ∀ a b c d : α, 0 < a → 0 < b → 0 < c → 0 < d →
    (a + c) * (lg (a + c) - lg (b + d)) ≤ a * (lg a - lg b) + c * (lg c - lg d)

theorem prefixFrom_strict (acc : α) (xs : List α) (hx : ∀ x ∈ xs, 0 < x) :
    (prefixFrom acc xs).Pairwise (· < ·) ∧ ∀ y ∈ prefixFrom acc xs, acc ≤ y := by
  induction xs generalizing acc with
  | nil => simp [prefixFrom]
  | cons x xs ih =>
    have hx0 : 0 < x := hx x (List.mem_cons_self ..)
    obtain ⟨h1, h2⟩ := ih (acc + x) (fun y hy => hx y (List.mem_cons_of_mem _ hy))
    simp only [prefixFrom]
    refine ⟨List.pairwise_cons.mpr ⟨fun y hy => by linarith [h2 y hy], h1⟩, ?_⟩
    intro y hy
    rcases List.mem_cons.mp hy with rfl | hy
    · exact le_rfl
    · linarith [h2 y hy]

/-- cumulative sums of positive entries strictly increase with the index -/
theorem prefix_lt (xs : List α) (hx : ∀ x ∈ xs, 0 < x) (i j : Nat) (hij : i < j) (hj : j ≤ xs.length) :
    lget (prefixFrom 0 xs) i < lget (prefixFrom 0 xs) j := by
  have hl := prefixFrom_length (0 : α) xs
  rw [lget_eq_getElem _ i (by omega), lget_eq_getElem _ j (by omega)]
  exact List.pairwise_iff_getElem.mp (prefixFrom_strict 0 xs hx).1 i j (by omega) (by omega) hij

/-- the code's loss without minimum constraints, with values in `WithTop α` -/
def plainLoss (lg : α → α) (counts offs : List α) : Nat → Nat → WithTop α :=
  poissonLoss (fun x : α => (x : WithTop α)) ⊤ lg counts offs 0 0

theorem plainLoss_eq (lg : α → α) (counts offs : List α) (hc : ∀ x ∈ counts, 0 < x)
    (ho : ∀ x ∈ offs, 0 < x) (hlen : counts.length = offs.length) (i j : Nat) (hij : i < j)
    (hj : j ≤ counts.length) :
    plainLoss lg counts offs i j =
      ((-2 * (lget (prefixFrom 0 counts) j - lget (prefixFrom 0 counts) i) *
        (lg (lget (prefixFrom 0 counts) j - lget (prefixFrom 0 counts) i)
          - lg (lget (prefixFrom 0 offs) j - lget (prefixFrom 0 offs) i) - 1) : α) : WithTop α) := by
  have h1 := prefix_lt counts hc i j hij hj
  have h2 := prefix_lt offs ho i j hij (by omega)
  unfold plainLoss poissonLoss
  simp only
  rw [if_neg]
  rw [not_or, not_lt, not_lt]
  constructor <;> linarith

/-- **The Poisson deviance is superadditive** (splitting a segment never increases the loss) when all
counts and offsets are positive and there are no minimum constraints, for every `log` with the log-sum
inequality. -/
theorem plainLoss_superadditive (lg : α → α) (hlg : LogSum lg) (counts offs : List α)
    (hc : ∀ x ∈ counts, 0 < x) (ho : ∀ x ∈ offs, 0 < x) (hlen : counts.length = offs.length)
    (i j t : Nat) (hij : i < j) (hjt : j < t) (ht : t ≤ counts.length) :
    plainLoss lg counts offs i j + plainLoss lg counts offs j t ≤ plainLoss lg counts offs i t := by
  rw [plainLoss_eq lg counts offs hc ho hlen i j hij (by omega),
    plainLoss_eq lg counts offs hc ho hlen j t hjt ht,
    plainLoss_eq lg counts offs hc ho hlen i t (by omega) ht, ← WithTop.coe_add, WithTop.coe_le_coe]
  set Y := prefixFrom (0 : α) counts
  set N := prefixFrom (0 : α) offs
  have a1 := prefix_lt counts hc i j hij (by omega)
  have a2 := prefix_lt counts hc j t hjt ht
  have b1 := prefix_lt offs ho i j hij (by omega)
  have b2 := prefix_lt offs ho j t hjt (by omega)
  have key := hlg (lget Y j - lget Y i) (lget N j - lget N i) (lget Y t - lget Y j) (lget N t - lget N j)
    (by linarith) (by linarith) (by linarith) (by linarith)
  have e1 : lget Y j - lget Y i + (lget Y t - lget Y j) = lget Y t - lget Y i := by ring
  have e2 : lget N j - lget N i + (lget N t - lget N j) = lget N t - lget N i := by ring
  rw [e1, e2] at key
  nlinarith [key]

theorem plainLoss_lt_top (lg : α → α) (counts offs : List α) (hc : ∀ x ∈ counts, 0 < x)
    (ho : ∀ x ∈ offs, 0 < x) (hlen : counts.length = offs.length) (pen : α) (t : Nat) (h0 : 0 < t)
    (ht : t ≤ counts.length) :
    ((-pen : α) : WithTop α) + plainLoss lg counts offs 0 t + ((pen : α) : WithTop α) < ⊤ := by
  rw [plainLoss_eq lg counts offs hc ho hlen 0 t h0 ht, ← WithTop.coe_add, ← WithTop.coe_add]
  exact WithTop.coe_lt_top _

end Tsdate.Changepoints
