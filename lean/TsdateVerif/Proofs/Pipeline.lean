/-
Lemmas for the output-stage model (C02, C04, C08): column assignment keeps every other column,
`Frame` is a preorder, every permitted write stays inside the frame.
-/
import TsdateVerif.Model.Pipeline
import Mathlib.Tactic.SplitIfs
import Mathlib.Tactic.Set

namespace Tsdate.Pipeline
open Tsdate.Tables

/-! ### column assignment -/

theorem length_setCol {ρ β : Type} (upd : ρ → β → ρ) (rows : List ρ) (vals : List β)
    (h : vals.length = rows.length) : (setCol upd rows vals).length = rows.length := by
  simp [setCol, h]

/-- Assigning one column leaves every projection `k` that ignores this column unchanged. -/
theorem map_setCol {ρ β κ : Type} (upd : ρ → β → ρ) (k : ρ → κ) (hk : ∀ r v, k (upd r v) = k r) :
    ∀ (rows : List ρ) (vals : List β), vals.length = rows.length →
      (setCol upd rows vals).map k = rows.map k
  | [], [], _ => rfl
  | [], _ :: _, h => by simp at h
  | _ :: _, [], h => by simp at h
  | r :: rows, v :: vals, h => by
    have ih := map_setCol upd k hk rows vals (by simpa using h)
    simp only [setCol, List.zipWith_cons_cons, List.map_cons, hk] at ih ⊢
    rw [ih]

/-- Assigning a column the values it already has changes nothing. -/
theorem setCol_same {ρ β : Type} (upd : ρ → β → ρ) (get : ρ → β) (h : ∀ r, upd r (get r) = r) :
    ∀ rows : List ρ, setCol upd rows (rows.map get) = rows
  | [] => rfl
  | r :: rows => by
    have ih := setCol_same upd get h rows
    simp only [setCol, List.map_cons, List.zipWith_cons_cons, h] at ih ⊢
    rw [ih]

theorem setCol?_some {ρ β : Type} (upd : ρ → β → ρ) (rows : List ρ) (vals : List β) (out : List ρ)
    (h : setCol? upd rows vals = some out) : vals.length = rows.length ∧ out = setCol upd rows vals := by
  unfold setCol? at h
  split_ifs at h with hl
  exact ⟨hl, (Option.some.inj h).symm⟩

/-! ### `Frame` in field-by-field form -/

section
variable {α : Type}

theorem rest_iff (a b : TableCollection α) :
    ({ b with nodes := a.nodes, nodesSchema := a.nodesSchema, edges := a.edges,
              mutations := a.mutations, mutationsSchema := a.mutationsSchema,
              migrations := a.migrations, provenances := a.provenances,
              timeUnits := a.timeUnits } = a) ↔
    (b.sequenceLength = a.sequenceLength ∧ b.metadata = a.metadata ∧
     b.metadataSchema = a.metadataSchema ∧ b.refseq = a.refseq ∧ b.edgesSchema = a.edgesSchema ∧
     b.sites = a.sites ∧ b.sitesSchema = a.sitesSchema ∧ b.individuals = a.individuals ∧
     b.individualsSchema = a.individualsSchema ∧ b.populations = a.populations ∧
     b.populationsSchema = a.populationsSchema ∧ b.migrationsSchema = a.migrationsSchema) := by
  cases a; cases b
  simp only [TableCollection.mk.injEq, true_and, and_true]

theorem sortRest_iff (a b : TableCollection α) :
    ({ b with edges := a.edges, mutations := a.mutations, migrations := a.migrations } = a) ↔
    (b.sequenceLength = a.sequenceLength ∧ b.timeUnits = a.timeUnits ∧ b.metadata = a.metadata ∧
     b.metadataSchema = a.metadataSchema ∧ b.refseq = a.refseq ∧ b.nodes = a.nodes ∧
     b.nodesSchema = a.nodesSchema ∧ b.edgesSchema = a.edgesSchema ∧
     b.sites = a.sites ∧ b.sitesSchema = a.sitesSchema ∧ b.mutationsSchema = a.mutationsSchema ∧
     b.individuals = a.individuals ∧
     b.individualsSchema = a.individualsSchema ∧ b.populations = a.populations ∧
     b.populationsSchema = a.populationsSchema ∧ b.migrationsSchema = a.migrationsSchema ∧
     b.provenances = a.provenances) := by
  cases a; cases b
  simp only [TableCollection.mk.injEq, true_and, and_true]

theorem frame_refl (a : TableCollection α) : Frame a a :=
  ⟨rfl, List.Perm.refl _, List.Perm.refl _, rfl, List.Perm.refl _, ⟨[], by simp⟩, by cases a; rfl⟩

theorem frame_trans {a b c : TableCollection α} (h1 : Frame a b) (h2 : Frame b c) : Frame a c := by
  refine ⟨h2.nodes.trans h1.nodes, h2.edges.trans h1.edges, h2.migs.trans h1.migs,
    h2.mutSites.trans h1.mutSites, h2.mutKeys.trans h1.mutKeys, ?_, ?_⟩
  · obtain ⟨e1, he1⟩ := h1.prov
    obtain ⟨e2, he2⟩ := h2.prov
    exact ⟨e1 ++ e2, by rw [he2, he1, List.append_assoc]⟩
  · have r1 := (rest_iff a b).mp h1.rest
    have r2 := (rest_iff b c).mp h2.rest
    apply (rest_iff a c).mpr
    obtain ⟨a1, a2, a3, a4, a5, a6, a7, a8, a9, a10, a11, a12⟩ := r1
    obtain ⟨b1, b2, b3, b4, b5, b6, b7, b8, b9, b10, b11, b12⟩ := r2
    exact ⟨b1.trans a1, b2.trans a2, b3.trans a3, b4.trans a4, b5.trans a5, b6.trans a6,
      b7.trans a7, b8.trans a8, b9.trans a9, b10.trans a10, b11.trans a11, b12.trans a12⟩

/-- Replacing one mutation column that is neither `site` nor `derived_state` stays in the frame. -/
theorem frame_mutColSet {β : Type} (upd : MutRow α → β → MutRow α)
    (hsite : ∀ r v, (upd r v).site = r.site) (hkey : ∀ r v, (upd r v).key0 = r.key0)
    {a b : TableCollection α} (h : MutColSet upd a b) : Frame a b := by
  obtain ⟨vals, hl, rfl⟩ := h
  refine ⟨rfl, List.Perm.refl _, List.Perm.refl _, ?_, ?_, ⟨[], by simp⟩, by cases a; rfl⟩
  · exact map_setCol upd (·.site) hsite _ _ hl
  · rw [show (List.map MutRow.key0 (setCol upd a.mutations vals)) = a.mutations.map MutRow.key0 from
      map_setCol upd MutRow.key0 hkey _ _ hl]

/-- Replacing one node column other than flags/population/individual stays in the frame. -/
theorem frame_nodeColSet {β : Type} (upd : NodeRow α → β → NodeRow α)
    (hk : ∀ r v, (upd r v).frame = r.frame) {a b : TableCollection α} (h : NodeColSet upd a b) :
    Frame a b := by
  obtain ⟨vals, hl, rfl⟩ := h
  refine ⟨?_, List.Perm.refl _, List.Perm.refl _, rfl, List.Perm.refl _, ⟨[], by simp⟩, by cases a; rfl⟩
  exact map_setCol upd NodeRow.frame hk _ _ hl

theorem frame_sort {a b : TableCollection α} (h : SortRel a b) : Frame a b := by
  have r := (sortRest_iff a b).mp h.rest
  obtain ⟨r1, r2, r3, r4, r5, r6, r7, r8, r9, r10, r11, r12, r13, r14, r15, r16, r17⟩ := r
  refine ⟨by rw [r6], h.edges, h.migs, h.mutSites, ?_, ⟨[], by simp [r17]⟩, ?_⟩
  · have hk : MutRow.key0 ∘ MutRow.noParent = (MutRow.key0 : MutRow α → _) := rfl
    have := h.muts.map MutRow.key0
    rwa [List.map_map, List.map_map, hk] at this
  · exact (rest_iff a b).mpr ⟨r1, r3, r4, r5, r8, r9, r10, r12, r13, r14, r15, r16⟩

theorem timesRest_iff (a b : TableCollection α) :
    ({ b with mutations := a.mutations } = a) ↔
    (b.sequenceLength = a.sequenceLength ∧ b.timeUnits = a.timeUnits ∧ b.metadata = a.metadata ∧
     b.metadataSchema = a.metadataSchema ∧ b.refseq = a.refseq ∧ b.nodes = a.nodes ∧
     b.nodesSchema = a.nodesSchema ∧ b.edges = a.edges ∧ b.edgesSchema = a.edgesSchema ∧
     b.sites = a.sites ∧ b.sitesSchema = a.sitesSchema ∧ b.mutationsSchema = a.mutationsSchema ∧
     b.individuals = a.individuals ∧
     b.individualsSchema = a.individualsSchema ∧ b.populations = a.populations ∧
     b.populationsSchema = a.populationsSchema ∧ b.migrations = a.migrations ∧
     b.migrationsSchema = a.migrationsSchema ∧ b.provenances = a.provenances) := by
  cases a; cases b
  simp only [TableCollection.mk.injEq, true_and, and_true]

theorem frame_times {a b : TableCollection α} (h : TimesRel a b) : Frame a b := by
  have r := (timesRest_iff a b).mp h.rest
  obtain ⟨r1, r2, r3, r4, r5, r6, r7, r8, r9, r10, r11, r12, r13, r14, r15, r16, r17, r18, r19⟩ := r
  refine ⟨by rw [r6], by rw [r8], by rw [r17], h.mutSites, ?_, ⟨[], by simp [r19]⟩, ?_⟩
  · have hk : (fun x : Nat × Nat × Bytes × Bytes => (x.1, x.2.2.1)) ∘ MutRow.key2 =
        (MutRow.key0 : MutRow α → _) := rfl
    have := h.muts.map (fun x : Nat × Nat × Bytes × Bytes => (x.1, x.2.2.1))
    rwa [List.map_map, List.map_map, hk] at this
  · exact (rest_iff a b).mpr ⟨r1, r3, r4, r5, r9, r10, r11, r13, r14, r15, r16, r18⟩

/-- **Each permitted kind of write stays inside the frame**, whatever value it writes. -/
theorem step_frame {op : WOp} (hop : op ∈ allowed) {a b : TableCollection α} (h : Step op a b) :
    Frame a b := by
  simp only [allowed, List.mem_cons, List.not_mem_nil, or_false] at hop
  rcases hop with rfl | rfl | rfl | rfl | rfl | rfl | rfl | rfl | rfl | rfl | rfl | rfl | rfl | rfl | rfl | rfl
  · obtain ⟨u, rfl⟩ := h
    exact ⟨rfl, List.Perm.refl _, List.Perm.refl _, rfl, List.Perm.refl _, ⟨[], by simp⟩, by cases a; rfl⟩
  · exact frame_nodeColSet NodeRow.setTime (fun _ _ => rfl) h
  · exact frame_nodeColSet NodeRow.setMetadata (fun _ _ => rfl) h
  · obtain ⟨s, rfl⟩ := h
    exact ⟨rfl, List.Perm.refl _, List.Perm.refl _, rfl, List.Perm.refl _, ⟨[], by simp⟩, by cases a; rfl⟩
  · have hb : b = _ := h
    subst hb
    refine ⟨?_, List.Perm.refl _, List.Perm.refl _, rfl, List.Perm.refl _, ⟨[], by simp⟩, by cases a; rfl⟩
    simp only [List.map_map]; rfl
  · exact frame_mutColSet MutRow.setNode (fun _ _ => rfl) (fun _ _ => rfl) h
  · exact frame_mutColSet MutRow.setTime (fun _ _ => rfl) (fun _ _ => rfl) h
  · exact frame_mutColSet MutRow.setParent (fun _ _ => rfl) (fun _ _ => rfl) h
  · exact frame_mutColSet MutRow.setMetadata (fun _ _ => rfl) (fun _ _ => rfl) h
  · obtain ⟨s, rfl⟩ := h
    exact ⟨rfl, List.Perm.refl _, List.Perm.refl _, rfl, List.Perm.refl _, ⟨[], by simp⟩, by cases a; rfl⟩
  · have hb : b = _ := h
    subst hb
    refine ⟨rfl, List.Perm.refl _, List.Perm.refl _, ?_, ?_, ⟨[], by simp⟩, by cases a; rfl⟩
    · simp only [List.map_map]; rfl
    · simp only [List.map_map]; exact List.Perm.refl _
  · exact frame_sort h
  · have hb : b = a := h
    subst hb
    exact frame_refl _
  · exact frame_mutColSet MutRow.setParent (fun _ _ => rfl) (fun _ _ => rfl) h
  · exact frame_times h
  · obtain ⟨r, rfl⟩ := h
    exact ⟨rfl, List.Perm.refl _, List.Perm.refl _, rfl, List.Perm.refl _, ⟨[r], rfl⟩, by cases a; rfl⟩

theorem reach_frame {W : List WOp} (hW : ∀ op ∈ W, op ∈ allowed) {a b : TableCollection α}
    (h : Reach W a b) : Frame a b := by
  induction h with
  | refl a => exact frame_refl a
  | step op hop hs _ ih => exact frame_trans (step_frame (hW op hop) hs) ih

end

/-! ### `set_time_metadata` -/

section Md
variable {α : Type}

theorem encodeAll_length (C : Codec α) (schema : Bytes) (u : Bool) :
    ∀ (ms : List Bytes) (mns vrs : List α) (out : List Bytes),
      encodeAll C schema u ms mns vrs = some out → mns.length = vrs.length → vrs.length = ms.length →
      out.length = ms.length
  | [], [], [], out, h, _, _ => by simp [encodeAll] at h; simp [← h]
  | [], _ :: _, _, _, _, h1, h2 => by simp at h2; simp [h2] at h1
  | _ :: _, [], _, _, _, h1, h2 => by simp at h1; simp [← h1] at h2
  | [], [], _ :: _, _, _, h1, _ => by simp at h1
  | _ :: _, _ :: _, [], _, _, h1, _ => by simp at h1
  | m :: ms, mn :: mns, vr :: vrs, out, h, h1, h2 => by
    simp only [encodeAll] at h
    split at h
    · exact absurd h (by simp)
    · rename_i b _
      cases hrec : encodeAll C schema u ms mns vrs with
      | none => simp [hrec] at h
      | some rest =>
        simp only [hrec, Option.map_some, Option.some.injEq] at h
        subst h
        have := encodeAll_length C schema u ms mns vrs rest hrec (by simpa using h1) (by simpa using h2)
        simp [this]

/-- Reading back the rows that `_time_md_array` encoded gives exactly `(mean[i], var[i])`, row by
row, for any codec whose `validate_and_encode_row` round-trips the two fields. -/
theorem encodeAll_read (C : Codec α) (schema : Bytes) (u : Bool)
    (hC : ∀ o mn vr b, C.encodeRow schema o mn vr = some b → C.readMnVr schema b = some (mn, vr)) :
    ∀ (ms : List Bytes) (mns vrs : List α) (out : List Bytes),
      encodeAll C schema u ms mns vrs = some out → mns.length = vrs.length → vrs.length = ms.length →
      out.map (C.readMnVr schema) = (mns.zip vrs).map some
  | [], [], [], out, h, _, _ => by simp [encodeAll] at h; simp [← h]
  | [], _ :: _, _, _, _, h1, h2 => by simp at h2; simp [h2] at h1
  | _ :: _, [], _, _, _, h1, h2 => by simp at h1; simp [← h1] at h2
  | [], [], _ :: _, _, _, h1, _ => by simp at h1
  | _ :: _, _ :: _, [], _, _, h1, _ => by simp at h1
  | m :: ms, mn :: mns, vr :: vrs, out, h, h1, h2 => by
    simp only [encodeAll] at h
    split at h
    · exact absurd h (by simp)
    · rename_i b hb
      cases hrec : encodeAll C schema u ms mns vrs with
      | none => simp [hrec] at h
      | some rest =>
        simp only [hrec, Option.map_some, Option.some.injEq] at h
        subst h
        have ih := encodeAll_read C schema u hC ms mns vrs rest hrec (by simpa using h1) (by simpa using h2)
        simp [ih, hC _ _ _ _ hb]

theorem timeMdArray_length (C : Codec α) (t : MdTable) (mean var : List α) (out : List Bytes)
    (h : timeMdArray C t mean var = some out) (h1 : mean.length = var.length)
    (h2 : var.length = t.mds.length) : out.length = t.mds.length := by
  unfold timeMdArray at h
  split_ifs at h
  exact encodeAll_length C _ _ _ _ _ _ h h1 h2

/-- the table the `except` branch retries with: metadata dropped (if there was any), default schema -/
def retryTable (C : Codec α) (d : Bytes) (t : MdTable) : MdTable :=
  { mds := if (anyMd t.mds || C.hasSchema t.schema) = true then t.mds.map (fun _ => "") else t.mds,
    schema := d }

theorem retryTable_length (C : Codec α) (d : Bytes) (t : MdTable) :
    (retryTable C d t).mds.length = t.mds.length := by
  unfold retryTable; split_ifs <;> simp

theorem setTimeMetadata_some (C : Codec α) (p : Option Bool) (d : Bytes) (t : MdTable)
    (mean v : List α) (h1 : ¬ p = some false)
    (h2 : mean.length = v.length ∧ v.length = t.mds.length) :
    setTimeMetadata C p d t mean (some v) =
      match timeMdArray C t mean v with
      | some md => (.written, { t with mds := md })
      | none =>
        if ((anyMd t.mds || C.hasSchema t.schema) && decide (p ≠ some true)) = true then (.warned, t)
        else
          match timeMdArray C (retryTable C d t) mean v with
          | some md => (.replaced, { retryTable C d t with mds := md })
          | none => (.raised, retryTable C d t) := by
  simp only [setTimeMetadata, retryTable]
  rw [if_neg h1, if_neg (not_not_intro h2)]
  rfl

/-- All the ways `set_time_metadata` can end, with what it leaves in the table. -/
theorem setTimeMetadata_cases (C : Codec α) (p : Option Bool) (d : Bytes) (t : MdTable)
    (mean : List α) (var : Option (List α)) :
    let res := setTimeMetadata C p d t mean var
    (res = (.skipped, t) ∧ (var = none ∨ p = some false)) ∨
    (res = (.raised, t) ∧ ∃ v, var = some v ∧ ¬ (mean.length = v.length ∧ v.length = t.mds.length)) ∨
    (∃ v md, var = some v ∧ p ≠ some false ∧ mean.length = v.length ∧ v.length = t.mds.length ∧
      ((timeMdArray C t mean v = some md ∧ res = (.written, { t with mds := md })) ∨
       (timeMdArray C t mean v = none ∧ res = (.warned, t) ∧ p = none) ∨
       (timeMdArray C t mean v = none ∧ timeMdArray C (retryTable C d t) mean v = some md ∧
          res = (.replaced, { retryTable C d t with mds := md })) ∨
       (timeMdArray C t mean v = none ∧ timeMdArray C (retryTable C d t) mean v = none ∧
          res = (.raised, retryTable C d t)))) := by
  intro res
  cases var with
  | none => left; exact ⟨rfl, Or.inl rfl⟩
  | some v =>
    by_cases h1 : p = some false
    · left; exact ⟨by simp [res, setTimeMetadata, h1], Or.inr h1⟩
    · by_cases h2 : mean.length = v.length ∧ v.length = t.mds.length
      · right; right
        have hres : res = _ := setTimeMetadata_some C p d t mean v h1 h2
        cases hm : timeMdArray C t mean v with
        | some md =>
          rw [hm] at hres
          exact ⟨v, md, rfl, h1, h2.1, h2.2, Or.inl ⟨hm, hres⟩⟩
        | none =>
          rw [hm] at hres
          by_cases h3 : ((anyMd t.mds || C.hasSchema t.schema) && decide (p ≠ some true)) = true
          · have hp : p = none := by
              cases p with
              | none => rfl
              | some b => cases b <;> simp_all
            simp only [if_pos h3] at hres
            exact ⟨v, [], rfl, h1, h2.1, h2.2, Or.inr (Or.inl ⟨hm, hres, hp⟩)⟩
          · simp only [if_neg h3] at hres
            cases hr : timeMdArray C (retryTable C d t) mean v with
            | some md =>
              rw [hr] at hres
              exact ⟨v, md, rfl, h1, h2.1, h2.2, Or.inr (Or.inr (Or.inl ⟨hm, hr, hres⟩))⟩
            | none =>
              rw [hr] at hres
              exact ⟨v, [], rfl, h1, h2.1, h2.2, Or.inr (Or.inr (Or.inr ⟨hm, hr, hres⟩))⟩
      · right; left
        exact ⟨by simp [res, setTimeMetadata, h1, h2], v, rfl, h2⟩

/-- `set_time_metadata` never changes the number of rows. -/
theorem setTimeMetadata_length (C : Codec α) (p : Option Bool) (d : Bytes) (t : MdTable)
    (mean : List α) (var : Option (List α)) :
    (setTimeMetadata C p d t mean var).2.mds.length = t.mds.length := by
  rcases setTimeMetadata_cases C p d t mean var with ⟨h, _⟩ | ⟨h, _⟩ |
    ⟨v, md, _, _, hl1, hl2, ⟨hm, h⟩ | ⟨_, h, _⟩ | ⟨_, hm, h⟩ | ⟨_, _, h⟩⟩
  · rw [h]
  · rw [h]
  · rw [h]; exact timeMdArray_length C t mean v md hm hl1 hl2
  · rw [h]
  · rw [h]
    exact (timeMdArray_length C _ mean v md hm hl1 (by rw [retryTable_length]; exact hl2)).trans
      (retryTable_length C d t)
  · rw [h]; exact retryTable_length C d t

/-- If nothing was written (`skipped`, `warned`), the table is untouched. -/
theorem setTimeMetadata_untouched (C : Codec α) (p : Option Bool) (d : Bytes) (t : MdTable)
    (mean : List α) (var : Option (List α))
    (h : (setTimeMetadata C p d t mean var).1 = .skipped ∨ (setTimeMetadata C p d t mean var).1 = .warned) :
    (setTimeMetadata C p d t mean var).2 = t := by
  rcases setTimeMetadata_cases C p d t mean var with ⟨h', _⟩ | ⟨h', _⟩ |
    ⟨v, md, _, _, hl1, hl2, ⟨hm, h'⟩ | ⟨_, h', _⟩ | ⟨_, hm, h'⟩ | ⟨_, _, h'⟩⟩
  all_goals (rw [h'] at h ⊢)
  all_goals first | rfl | (simp at h)

end Md

/-! ### the stages of `get_modified_ts` -/

section Stages
variable {α : Type}

/-- A projection of mutation rows that ignores the columns dating rewrites (time, parent): it
factors through (site, node, derived state, metadata). -/
def KeyOK {κ : Type} (k : MutRow α → κ) : Prop :=
  ∃ g : Nat × Nat × Bytes × Bytes → κ, ∀ r, k r = g r.key2

theorem KeyOK.time {κ : Type} {k : MutRow α → κ} (hk : KeyOK k) (r : MutRow α) (x : α) :
    k (r.setTime x) = k r := by
  obtain ⟨g, hg⟩ := hk; rw [hg, hg]; rfl

theorem KeyOK.parent {κ : Type} {k : MutRow α → κ} (hk : KeyOK k) (r : MutRow α) (p : Int) :
    k (r.setParent p) = k r := by
  obtain ⟨g, hg⟩ := hk; rw [hg, hg]; rfl

theorem keyOK_key0 : KeyOK (MutRow.key0 : MutRow α → _) := ⟨fun x => (x.1, x.2.2.1), fun _ => rfl⟩
theorem keyOK_key1 : KeyOK (MutRow.key1 : MutRow α → _) := ⟨fun x => (x.1, x.2.1, x.2.2.1), fun _ => rfl⟩
theorem keyOK_key2 : KeyOK (MutRow.key2 : MutRow α → _) := ⟨id, fun _ => rfl⟩

theorem frame_putNodeMd (t : TableCollection α) (m : MdTable) (h : m.mds.length = t.nodes.length) :
    Frame t (putNodeMd t m) := by
  refine ⟨?_, List.Perm.refl _, List.Perm.refl _, rfl, List.Perm.refl _, ⟨[], by simp [putNodeMd]⟩,
    by cases t; rfl⟩
  exact map_setCol NodeRow.setMetadata NodeRow.frame (fun _ _ => rfl) _ _ h

theorem frame_putMutMd (t : TableCollection α) (m : MdTable) (h : m.mds.length = t.mutations.length) :
    Frame t (putMutMd t m) := by
  refine ⟨rfl, List.Perm.refl _, List.Perm.refl _, ?_, ?_, ⟨[], by simp [putMutMd]⟩, by cases t; rfl⟩
  · exact map_setCol MutRow.setMetadata (·.site) (fun _ _ => rfl) _ _ h
  · rw [show List.map MutRow.key0 (putMutMd t m).mutations = t.mutations.map MutRow.key0 from
      map_setCol MutRow.setMetadata MutRow.key0 (fun _ _ => rfl) _ _ h]

theorem stageMd_spec {E : Env α} {o : Options} {t0 t3 : TableCollection α} {r : Results α} {tr : Trace}
    (h : stageMd E o t0 r = some (t3, tr)) :
    Frame t0 t3 ∧ t3.mutations.map MutRow.key1 = t0.mutations.map MutRow.key1 ∧
    t3.mutations.map (·.node) = t0.mutations.map (·.node) ∧
    ((tr.mutMd = .skipped ∨ tr.mutMd = .warned) → t3.mutations = t0.mutations ∧
      t3.mutationsSchema = t0.mutationsSchema) ∧
    ((tr.nodeMd = .skipped ∨ tr.nodeMd = .warned) →
      t3.nodes.map (fun n => (n.frame, n.metadata)) = t0.nodes.map (fun n => (n.frame, n.metadata)) ∧
      t3.nodesSchema = t0.nodesSchema) := by
  unfold stageMd at h
  simp only at h
  split_ifs at h with h1 h2
  simp only [Option.some.injEq, Prod.mk.injEq] at h
  obtain ⟨ht3, htr⟩ := h
  subst ht3
  subst htr
  set t1 : TableCollection α := { t0 with timeUnits := o.timeUnits } with ht1
  set sn := setTimeMetadata E.codec o.setMetadata E.nodeDefaultSchema (nodeMd t1) r.posteriorMean
    r.posteriorVar with hsn
  set t2 := putNodeMd t1 sn.2 with ht2
  set sm := setTimeMetadata E.codec o.setMetadata E.mutDefaultSchema (mutMd t2)
    (r.mutationMean.getD []) r.mutationVar with hsm
  have ln : sn.2.mds.length = t1.nodes.length := by
    rw [hsn, setTimeMetadata_length]; simp [nodeMd]
  have lm : sm.2.mds.length = t2.mutations.length := by
    rw [hsm, setTimeMetadata_length]; simp [mutMd]
  have f1 : Frame t0 t1 :=
    ⟨rfl, List.Perm.refl _, List.Perm.refl _, rfl, List.Perm.refl _, ⟨[], by simp [ht1]⟩, by cases t0; rfl⟩
  have f2 : Frame t1 t2 := frame_putNodeMd t1 sn.2 ln
  have f3 : Frame t2 (putMutMd t2 sm.2) := frame_putMutMd t2 sm.2 lm
  have hm2 : t2.mutations = t0.mutations := rfl
  refine ⟨frame_trans (frame_trans f1 f2) f3, ?_, ?_, ?_, ?_⟩
  · rw [← hm2]; exact map_setCol MutRow.setMetadata MutRow.key1 (fun _ _ => rfl) _ _ lm
  · rw [← hm2]; exact map_setCol MutRow.setMetadata (·.node) (fun _ _ => rfl) _ _ lm
  · intro hu
    have hsame : sm.2 = mutMd t2 := setTimeMetadata_untouched _ _ _ _ _ _ hu
    constructor
    · show setCol MutRow.setMetadata t2.mutations sm.2.mds = t0.mutations
      rw [hsame, ← hm2]
      exact setCol_same MutRow.setMetadata (·.metadata) (fun _ => rfl) _
    · show sm.2.schema = t0.mutationsSchema
      rw [hsame]; rfl
  · intro hu
    have hsame : sn.2 = nodeMd t1 := setTimeMetadata_untouched _ _ _ _ _ _ hu
    constructor
    · show (setCol NodeRow.setMetadata t1.nodes sn.2.mds).map _ = _
      rw [hsame]
      show (setCol NodeRow.setMetadata t0.nodes (t0.nodes.map (·.metadata))).map _ = _
      rw [setCol_same NodeRow.setMetadata (·.metadata) (fun _ => rfl)]
    · show sn.2.schema = t0.nodesSchema
      rw [hsame]; rfl

theorem stageCols_frame {E : Env α} {t0 t3 t5 : TableCollection α} {r : Results α}
    (h : stageCols E t0 t3 r = some t5) : Frame t3 t5 := by
  unfold stageCols at h
  simp only [Option.bind_eq_some_iff] at h
  obtain ⟨ns, hns, ms, hms, h5⟩ := h
  obtain ⟨ln, rfl⟩ := setCol?_some _ _ _ _ hns
  obtain ⟨lm, rfl⟩ := setCol?_some _ _ _ _ hms
  simp only [Option.some.injEq] at h5
  subst h5
  refine ⟨?_, List.Perm.refl _, List.Perm.refl _, ?_, ?_, ⟨[], by simp⟩, by cases t3; rfl⟩
  · exact map_setCol NodeRow.setTime NodeRow.frame (fun _ _ => rfl) _ _ ln
  · show List.map (fun m : MutRow α => m.site) (List.map _ (setCol MutRow.setNode t3.mutations r.mutationNode)) = _
    rw [List.map_map]
    exact map_setCol MutRow.setNode _ (fun _ _ => rfl) _ _ lm
  · show (List.map MutRow.key0 (List.map _ (setCol MutRow.setNode t3.mutations r.mutationNode))).Perm _
    rw [List.map_map, map_setCol MutRow.setNode _ (fun _ _ => rfl) _ _ lm]
    exact List.Perm.refl _

/-- When the node column written is the one already there, whole rows survive (except time/parent). -/
theorem stageCols_key {κ : Type} (k : MutRow α → κ) (hk : KeyOK k) {E : Env α}
    {t0 t3 t5 : TableCollection α} {r : Results α} (h : stageCols E t0 t3 r = some t5)
    (hnode : r.mutationNode = t3.mutations.map (·.node)) :
    t5.mutations.map k = t3.mutations.map k := by
  unfold stageCols at h
  simp only [Option.bind_eq_some_iff] at h
  obtain ⟨ns, hns, ms, hms, h5⟩ := h
  obtain ⟨lm, rfl⟩ := setCol?_some _ _ _ _ hms
  simp only [Option.some.injEq] at h5
  subst h5
  show List.map k (List.map _ (setCol MutRow.setNode t3.mutations r.mutationNode)) = _
  rw [hnode, setCol_same MutRow.setNode (·.node) (fun _ => rfl), List.map_map]
  congr 1
  funext row
  show k ((row.setTime E.unknownTime).setParent (-1)) = k row
  rw [hk.parent, hk.time]

theorem stageTskit_frame {E : Env α} (hsort : ∀ t, SortRel t (E.sort t))
    (htimes : ∀ t, TimesRel t (E.computeTimes t)) {t5 t8 : TableCollection α}
    (h : stageTskit E t5 = some t8) : Frame t5 t8 := by
  unfold stageTskit at h
  simp only [Option.bind_eq_some_iff] at h
  obtain ⟨ms7, h7, h⟩ := h
  obtain ⟨l7, rfl⟩ := setCol?_some _ _ _ _ h7
  simp only [Option.some.injEq] at h
  subst h
  exact frame_trans (frame_sort (hsort t5)) (frame_trans
    (frame_mutColSet MutRow.setParent (fun _ _ => rfl) (fun _ _ => rfl) ⟨_, l7, rfl⟩)
    (frame_times (htimes _)))

theorem times_key {κ : Type} (k : MutRow α → κ) (hk : KeyOK k) {a b : TableCollection α}
    (h : TimesRel a b) : (b.mutations.map k).Perm (a.mutations.map k) := by
  obtain ⟨g, hg⟩ := hk
  have hkg : k = g ∘ MutRow.key2 := by funext r; exact hg r
  have h1 := h.muts.map g
  rwa [List.map_map, List.map_map, ← hkg] at h1

theorem stageTskit_key {κ : Type} (k : MutRow α → κ) (hk : KeyOK k) {E : Env α}
    (hsort : ∀ t, SortRel t (E.sort t)) (htimes : ∀ t, TimesRel t (E.computeTimes t))
    {t5 t8 : TableCollection α}
    (h : stageTskit E t5 = some t8) : (t8.mutations.map k).Perm (t5.mutations.map k) := by
  unfold stageTskit at h
  simp only [Option.bind_eq_some_iff] at h
  obtain ⟨ms7, h7, h⟩ := h
  obtain ⟨l7, rfl⟩ := setCol?_some _ _ _ _ h7
  simp only [Option.some.injEq] at h
  subst h
  refine List.Perm.trans (times_key k hk (htimes _)) ?_
  show (List.map k (setCol MutRow.setParent (E.sort t5).mutations _)).Perm _
  rw [map_setCol MutRow.setParent k (fun r v => hk.parent r v) _ _ l7]
  have hp := (hsort t5).muts.map k
  have hnp : k ∘ MutRow.noParent = k := by
    funext r; exact hk.parent r (-1)
  rwa [List.map_map, List.map_map, hnp] at hp

theorem stageProv_frame (E : Env α) (o : Options) (t8 : TableCollection α) :
    Frame t8 (stageProv E o t8) ∧ (stageProv E o t8).mutations = t8.mutations := by
  unfold stageProv
  split_ifs
  · exact ⟨⟨rfl, List.Perm.refl _, List.Perm.refl _, rfl, List.Perm.refl _, ⟨[_], rfl⟩, by cases t8; rfl⟩, rfl⟩
  · exact ⟨frame_refl _, rfl⟩

theorem getModifiedTs_some {E : Env α} {o : Options} {t0 out : TableCollection α} {r : Results α}
    {tr : Trace} (h : getModifiedTs E o t0 r = some (out, tr)) :
    ∃ t3 t5 t8, stageMd E o t0 r = some (t3, tr) ∧ stageCols E t0 t3 r = some t5 ∧
      stageTskit E t5 = some t8 ∧ out = stageProv E o t8 := by
  unfold getModifiedTs at h
  simp only [Option.bind_eq_some_iff, Option.some.injEq, Prod.mk.injEq] at h
  obtain ⟨⟨t3, tr'⟩, h3, t5, h5, t8, h8, hout, htr⟩ := h
  simp only at htr hout h5
  subst htr
  exact ⟨t3, t5, t8, h3, h5, h8, hout.symm⟩

theorem stageCols_fields {E : Env α} {t0 t3 t5 : TableCollection α} {r : Results α}
    (h : stageCols E t0 t3 r = some t5) :
    t5.mutationsSchema = t3.mutationsSchema ∧ t5.nodesSchema = t3.nodesSchema ∧
    t5.nodes.map (fun n => (n.frame, n.metadata)) = t3.nodes.map (fun n => (n.frame, n.metadata)) := by
  unfold stageCols at h
  simp only [Option.bind_eq_some_iff] at h
  obtain ⟨ns, hns, ms, hms, h5⟩ := h
  obtain ⟨ln, rfl⟩ := setCol?_some _ _ _ _ hns
  simp only [Option.some.injEq] at h5
  subst h5
  exact ⟨rfl, rfl, map_setCol NodeRow.setTime _ (fun _ _ => rfl) _ _ ln⟩

theorem stageTskit_fields {E : Env α} (hsort : ∀ t, SortRel t (E.sort t))
    (htimes : ∀ t, TimesRel t (E.computeTimes t)) {t5 t8 : TableCollection α}
    (h : stageTskit E t5 = some t8) :
    t8.mutationsSchema = t5.mutationsSchema ∧ t8.nodesSchema = t5.nodesSchema ∧ t8.nodes = t5.nodes ∧
    t8.timeUnits = t5.timeUnits ∧ t8.provenances = t5.provenances := by
  have f8 := (sortRest_iff _ _).mp (hsort t5).rest
  unfold stageTskit at h
  simp only [Option.bind_eq_some_iff] at h
  obtain ⟨ms7, h7, h⟩ := h
  simp only [Option.some.injEq] at h
  subst h
  have f9 := (timesRest_iff _ _).mp (htimes { E.sort t5 with mutations := ms7 }).rest
  exact ⟨f9.2.2.2.2.2.2.2.2.2.2.2.1.trans f8.2.2.2.2.2.2.2.2.2.2.1, f9.2.2.2.2.2.2.1.trans f8.2.2.2.2.2.2.1,
    f9.2.2.2.2.2.1.trans f8.2.2.2.2.2.1, f9.2.1.trans f8.2.1,
    f9.2.2.2.2.2.2.2.2.2.2.2.2.2.2.2.2.2.2.trans f8.2.2.2.2.2.2.2.2.2.2.2.2.2.2.2.2⟩

theorem stageProv_fields (E : Env α) (o : Options) (t8 : TableCollection α) :
    (stageProv E o t8).mutationsSchema = t8.mutationsSchema ∧
    (stageProv E o t8).nodesSchema = t8.nodesSchema ∧ (stageProv E o t8).nodes = t8.nodes := by
  unfold stageProv
  split_ifs <;> exact ⟨rfl, rfl, rfl⟩

/-- rows re-labelled with new nodes and decoded metadata, against the three input arrays -/
theorem zip3_lemma (f : Bytes → Option (α × α)) :
    ∀ (ms : List (MutRow α)) (mds : List Bytes) (ns : List Nat) (mv : List (α × α)),
      mds.map f = mv.map some →
      List.zipWith (fun (m' : MutRow α) n => ((m'.site, n, m'.derivedState), f m'.metadata))
          (setCol MutRow.setMetadata ms mds) ns =
        List.zipWith (fun (mn : MutRow α × Nat) v => ((mn.1.site, mn.2, mn.1.derivedState), some v))
          (ms.zip ns) mv
  | [], _, _, _, _ => by simp [setCol]
  | _ :: _, [], _, mv, h => by
    cases mv with
    | nil => simp [setCol]
    | cons _ _ => simp at h
  | m :: ms, b :: mds, [], _, _ => by simp [setCol]
  | m :: ms, b :: mds, n :: ns, [], h => by simp at h
  | m :: ms, b :: mds, n :: ns, v :: mv, h => by
    simp only [List.map_cons, List.cons.injEq] at h
    have ih := zip3_lemma f ms mds ns mv h.2
    simp only [setCol, List.zipWith_cons_cons, List.zip_cons_cons] at ih ⊢
    rw [ih]
    simp [MutRow.setMetadata, h.1]


/-! ### the model as a program over the permitted writes -/

theorem reach_single {W : List WOp} {a b : TableCollection α} (op : WOp) (hop : op ∈ W) (h : Step op a b) :
    Reach W a b := Reach.step op hop h (Reach.refl b)

theorem reach_trans {W : List WOp} {a b c : TableCollection α} (h1 : Reach W a b) (h2 : Reach W b c) :
    Reach W a c := by
  induction h1 with
  | refl _ => exact h2
  | step op hop hs _ ih => exact Reach.step op hop hs (ih h2)

theorem reach_mono {W W' : List WOp} (hW : ∀ op ∈ W, op ∈ W') {a b : TableCollection α} (h : Reach W a b) :
    Reach W' a b := by
  induction h with
  | refl _ => exact Reach.refl _
  | step op hop hs _ ih => exact Reach.step op (hW op hop) hs ih

theorem setCol_map_left {ρ β : Type} (upd : ρ → β → ρ) (g : ρ → ρ) (h : ∀ r v, upd (g r) v = upd r v) :
    ∀ (rows : List ρ) (vals : List β), setCol upd (rows.map g) vals = setCol upd rows vals
  | [], _ => by simp [setCol]
  | _ :: _, [] => by simp [setCol]
  | r :: rows, v :: vals => by
    have ih := setCol_map_left upd g h rows vals
    simp only [setCol, List.map_cons, List.zipWith_cons_cons, h] at ih ⊢
    rw [ih]

theorem setCol_replicate {ρ β : Type} (upd : ρ → β → ρ) (v : β) :
    ∀ rows : List ρ, setCol upd rows (List.replicate rows.length v) = rows.map (fun r => upd r v)
  | [] => rfl
  | r :: rows => by
    have ih := setCol_replicate upd v rows
    simp only [setCol, List.length_cons, List.replicate_succ, List.zipWith_cons_cons, List.map_cons] at ih ⊢
    rw [ih]

theorem putNodeMd_self (t : TableCollection α) : putNodeMd t (nodeMd t) = t := by
  unfold putNodeMd nodeMd
  simp only
  rw [setCol_same NodeRow.setMetadata (·.metadata) (fun _ => rfl)]

theorem putMutMd_self (t : TableCollection α) : putMutMd t (mutMd t) = t := by
  unfold putMutMd mutMd
  simp only
  rw [setCol_same MutRow.setMetadata (·.metadata) (fun _ => rfl)]

/-- one `set_time_metadata` call on the node table is a sequence of permitted writes -/
theorem reach_nodeMd (C : Codec α) (p : Option Bool) (d : Bytes) (t : TableCollection α)
    (mean : List α) (var : Option (List α))
    (hr : (setTimeMetadata C p d (nodeMd t) mean var).1 ≠ .raised) :
    Reach allowed t (putNodeMd t (setTimeMetadata C p d (nodeMd t) mean var).2) := by
  have hlen : (nodeMd t).mds.length = t.nodes.length := by simp [nodeMd]
  rcases setTimeMetadata_cases C p d (nodeMd t) mean var with ⟨h, _⟩ | ⟨h, _⟩ |
    ⟨v, md, _, _, hl1, hl2, ⟨hm, h⟩ | ⟨_, h, _⟩ | ⟨_, hm, h⟩ | ⟨_, _, h⟩⟩
  · rw [h, putNodeMd_self]; exact Reach.refl _
  · rw [h] at hr; exact absurd rfl hr
  · rw [h]
    have l := timeMdArray_length C _ mean v md hm hl1 hl2
    exact reach_single (.packsetMetadata .nodes) (by decide) ⟨md, by rw [l, hlen], rfl⟩
  · rw [h, putNodeMd_self]; exact Reach.refl _
  · rw [h]
    have l : md.length = t.nodes.length := by
      rw [timeMdArray_length C _ mean v md hm hl1 (by rw [retryTable_length]; exact hl2), retryTable_length, hlen]
    -- drop (if anything was there), set the default schema, write the rows
    by_cases hne : (anyMd (nodeMd t).mds || C.hasSchema (nodeMd t).schema) = true
    · have hfin : putNodeMd t { retryTable C d (nodeMd t) with mds := md } =
          { t with nodes := setCol NodeRow.setMetadata (t.nodes.map (·.setMetadata "")) md, nodesSchema := d } := by
        unfold putNodeMd retryTable
        simp only [hne, if_true]
        rw [setCol_map_left NodeRow.setMetadata (·.setMetadata "") (fun _ _ => rfl)]
      rw [hfin]
      refine reach_trans (reach_single (.dropMetadata .nodes) (by decide) rfl)
        (reach_trans (reach_single (.setSchema .nodes) (by decide) ⟨d, rfl⟩)
          (reach_single (.packsetMetadata .nodes) (by decide) ⟨md, by simp [l], rfl⟩))
    · have hfin : putNodeMd t { retryTable C d (nodeMd t) with mds := md } =
          { t with nodes := setCol NodeRow.setMetadata t.nodes md, nodesSchema := d } := by
        unfold putNodeMd retryTable
        simp only [hne]
      rw [hfin]
      refine reach_trans (reach_single (.setSchema .nodes) (by decide) ⟨d, rfl⟩)
          (reach_single (.packsetMetadata .nodes) (by decide) ⟨md, by simp [l], rfl⟩)
  · rw [h] at hr; exact absurd rfl hr

/-- one `set_time_metadata` call on the mutation table is a sequence of permitted writes -/
theorem reach_mutMd (C : Codec α) (p : Option Bool) (d : Bytes) (t : TableCollection α)
    (mean : List α) (var : Option (List α))
    (hr : (setTimeMetadata C p d (mutMd t) mean var).1 ≠ .raised) :
    Reach allowed t (putMutMd t (setTimeMetadata C p d (mutMd t) mean var).2) := by
  have hlen : (mutMd t).mds.length = t.mutations.length := by simp [mutMd]
  rcases setTimeMetadata_cases C p d (mutMd t) mean var with ⟨h, _⟩ | ⟨h, _⟩ |
    ⟨v, md, _, _, hl1, hl2, ⟨hm, h⟩ | ⟨_, h, _⟩ | ⟨_, hm, h⟩ | ⟨_, _, h⟩⟩
  · rw [h, putMutMd_self]; exact Reach.refl _
  · rw [h] at hr; exact absurd rfl hr
  · rw [h]
    have l := timeMdArray_length C _ mean v md hm hl1 hl2
    exact reach_single (.packsetMetadata .mutations) (by decide) ⟨md, by rw [l, hlen], rfl⟩
  · rw [h, putMutMd_self]; exact Reach.refl _
  · rw [h]
    have l : md.length = t.mutations.length := by
      rw [timeMdArray_length C _ mean v md hm hl1 (by rw [retryTable_length]; exact hl2), retryTable_length, hlen]
    -- drop (if anything was there), set the default schema, write the rows
    by_cases hne : (anyMd (mutMd t).mds || C.hasSchema (mutMd t).schema) = true
    · have hfin : putMutMd t { retryTable C d (mutMd t) with mds := md } =
          { t with mutations := setCol MutRow.setMetadata (t.mutations.map (·.setMetadata "")) md, mutationsSchema := d } := by
        unfold putMutMd retryTable
        simp only [hne, if_true]
        rw [setCol_map_left MutRow.setMetadata (·.setMetadata "") (fun _ _ => rfl)]
      rw [hfin]
      refine reach_trans (reach_single (.dropMetadata .mutations) (by decide) rfl)
        (reach_trans (reach_single (.setSchema .mutations) (by decide) ⟨d, rfl⟩)
          (reach_single (.packsetMetadata .mutations) (by decide) ⟨md, by simp [l], rfl⟩))
    · have hfin : putMutMd t { retryTable C d (mutMd t) with mds := md } =
          { t with mutations := setCol MutRow.setMetadata t.mutations md, mutationsSchema := d } := by
        unfold putMutMd retryTable
        simp only [hne]
      rw [hfin]
      refine reach_trans (reach_single (.setSchema .mutations) (by decide) ⟨d, rfl⟩)
          (reach_single (.packsetMetadata .mutations) (by decide) ⟨md, by simp [l], rfl⟩)
  · rw [h] at hr; exact absurd rfl hr

theorem reach_stageMd {E : Env α} {o : Options} {t0 t3 : TableCollection α} {r : Results α} {tr : Trace}
    (h : stageMd E o t0 r = some (t3, tr)) : Reach allowed t0 t3 := by
  unfold stageMd at h
  simp only at h
  split_ifs at h with h1 h2
  simp only [Option.some.injEq, Prod.mk.injEq] at h
  obtain ⟨rfl, _⟩ := h
  refine reach_trans (reach_single .setTimeUnits (by decide) ⟨o.timeUnits, rfl⟩)
    (reach_trans (reach_nodeMd _ _ _ _ _ _ h1) (reach_mutMd _ _ _ _ _ _ h2))

theorem reach_stageCols {E : Env α} {t0 t3 t5 : TableCollection α} {r : Results α}
    (h : stageCols E t0 t3 r = some t5) : Reach allowed t3 t5 := by
  unfold stageCols at h
  simp only [Option.bind_eq_some_iff] at h
  obtain ⟨ns, hns, ms, hms, h5⟩ := h
  obtain ⟨ln, rfl⟩ := setCol?_some _ _ _ _ hns
  obtain ⟨lm, rfl⟩ := setCol?_some _ _ _ _ hms
  simp only [Option.some.injEq] at h5
  subst h5
  generalize hN : setCol NodeRow.setTime t3.nodes (E.constrain t0 r.posteriorMean) = N
  generalize hM1 : setCol MutRow.setNode t3.mutations r.mutationNode = M1
  have hM : M1.map (fun row => (row.setTime E.unknownTime).setParent (-1)) =
      setCol MutRow.setParent (setCol MutRow.setTime M1 (List.replicate M1.length E.unknownTime))
        (List.replicate (setCol MutRow.setTime M1 (List.replicate M1.length E.unknownTime)).length (-1)) := by
    rw [setCol_replicate MutRow.setParent, setCol_replicate MutRow.setTime, List.map_map]
    rfl
  rw [hM]
  generalize hM2 : setCol MutRow.setTime M1 (List.replicate M1.length E.unknownTime) = M2
  have l2 : (List.replicate M1.length E.unknownTime).length = M1.length := by simp
  have r1 : Reach allowed t3 { t3 with nodes := N } :=
    reach_single (.setColumn .nodes "time") (by decide) ⟨_, ln, by rw [hN]⟩
  have r2 : Reach allowed { t3 with nodes := N } { t3 with nodes := N, mutations := M1 } :=
    reach_single (.setColumn .mutations "node") (by decide) ⟨_, lm, by rw [← hM1]⟩
  have r3 : Reach allowed { t3 with nodes := N, mutations := M1 } { t3 with nodes := N, mutations := M2 } :=
    reach_single (.setColumn .mutations "time") (by decide) ⟨_, l2, by rw [← hM2]⟩
  have r4 : Reach allowed { t3 with nodes := N, mutations := M2 }
      { t3 with nodes := N, mutations := setCol MutRow.setParent M2 (List.replicate M2.length (-1)) } :=
    reach_single (.setColumn .mutations "parent") (by decide) ⟨_, by simp, rfl⟩
  exact reach_trans r1 (reach_trans r2 (reach_trans r3 r4))

theorem reach_stageTskit {E : Env α} (hsort : ∀ t, SortRel t (E.sort t))
    (htimes : ∀ t, TimesRel t (E.computeTimes t)) {t5 t8 : TableCollection α}
    (h : stageTskit E t5 = some t8) : Reach allowed t5 t8 := by
  unfold stageTskit at h
  simp only [Option.bind_eq_some_iff] at h
  obtain ⟨ms7, h7, h⟩ := h
  obtain ⟨l7, rfl⟩ := setCol?_some _ _ _ _ h7
  simp only [Option.some.injEq] at h
  subst h
  exact reach_trans (reach_single (.call "sort") (by decide) (hsort t5))
    (reach_trans (reach_single (.call "build_index") (by decide) rfl)
      (reach_trans (reach_single (.call "compute_mutation_parents") (by decide) ⟨_, l7, rfl⟩)
        (reach_single (.call "compute_mutation_times") (by decide) (htimes _))))

theorem reach_stageProv (E : Env α) (o : Options) (t8 : TableCollection α) :
    Reach allowed t8 (stageProv E o t8) := by
  unfold stageProv
  split_ifs
  · exact reach_single (.addRow .provenances) (by decide) ⟨_, rfl⟩
  · exact Reach.refl _

/-- **The executable model is a program over the permitted writes.** -/
theorem reach_getModifiedTs {E : Env α} (hsort : ∀ t, SortRel t (E.sort t))
    (htimes : ∀ t, TimesRel t (E.computeTimes t)) {o : Options}
    {t0 out : TableCollection α} {r : Results α} {tr : Trace}
    (h : getModifiedTs E o t0 r = some (out, tr)) : Reach allowed t0 out := by
  obtain ⟨t3, t5, t8, h3, h5, h8, rfl⟩ := getModifiedTs_some h
  exact reach_trans (reach_stageMd h3) (reach_trans (reach_stageCols h5)
    (reach_trans (reach_stageTskit hsort htimes h8) (reach_stageProv E o t8)))

theorem stageMd_units {E : Env α} {o : Options} {t0 t3 : TableCollection α} {r : Results α} {tr : Trace}
    (h : stageMd E o t0 r = some (t3, tr)) :
    t3.timeUnits = o.timeUnits ∧ t3.provenances = t0.provenances := by
  unfold stageMd at h
  simp only at h
  split_ifs at h
  simp only [Option.some.injEq, Prod.mk.injEq] at h
  obtain ⟨rfl, _⟩ := h
  exact ⟨rfl, rfl⟩

theorem stageCols_units {E : Env α} {t0 t3 t5 : TableCollection α} {r : Results α}
    (h : stageCols E t0 t3 r = some t5) :
    t5.timeUnits = t3.timeUnits ∧ t5.provenances = t3.provenances := by
  unfold stageCols at h
  simp only [Option.bind_eq_some_iff, Option.some.injEq] at h
  obtain ⟨ns, _, ms, _, rfl⟩ := h
  exact ⟨rfl, rfl⟩

theorem provenance_and_units {E : Env α} {o : Options} {t0 out : TableCollection α} {r : Results α}
    {tr : Trace} (hsort : ∀ t, SortRel t (E.sort t)) (htimes : ∀ t, TimesRel t (E.computeTimes t))
    (h : getModifiedTs E o t0 r = some (out, tr)) :
    out.timeUnits = o.timeUnits ∧
    ∃ row, out.provenances = t0.provenances ++ (if o.recordProvenance = true then [row] else []) := by
  obtain ⟨t3, t5, t8, h3, h5, h8, rfl⟩ := getModifiedTs_some h
  have u3 := stageMd_units h3
  have u5 := stageCols_units h5
  have u8 := stageTskit_fields hsort htimes h8
  have hu : t8.timeUnits = o.timeUnits := by rw [u8.2.2.2.1, u5.1, u3.1]
  have hp : t8.provenances = t0.provenances := by rw [u8.2.2.2.2, u5.2, u3.2]
  unfold stageProv
  split_ifs with hr
  · exact ⟨hu, E.provRow t8, by simp [hp]⟩
  · exact ⟨hu, E.provRow t8, by simp [hp]⟩

end Stages

end Tsdate.Pipeline
