/-
The regenerated projection wrappers are valid-or-skip (theorems of the kernels cluster, `Props/C18`), hence the
projection oracle `genProj` assembled from them satisfies the hypothesis `VOS` of `Proofs/EPNoAssert3.lean`.
-/
import TsdateVerif.Proofs.EPNoAssert3
import TsdateVerif.Model.EPGenProj
import TsdateVerif.Props.C18

namespace Tsdate.EP
open Tsdate.Kernels
set_option linter.unusedSectionVars false
set_option linter.unusedVariables false
set_option linter.unusedSimpArgs false

variable {α : Type} [Inhabited α] [Field α] [LinearOrder α] [IsStrictOrderedRing α]

theorem proper_of_fit (q : α × α) (mn va : α) (h : IsGammaFit q mn va) : Proper q := ⟨h.1, h.2.1⟩

/-- **The projections of the current source are valid-or-skip**, for every interpretation `F` of the special
functions. -/
theorem genProj_vos (F : SpecFns α) : VOS (genProj F) := by
  intro rq
  unfold VOSres genProj
  cases hb : rq.branch <;> simp only [hb]
  · -- leaf
    cases hu : rq.unphased <;> simp only [hu, Bool.false_eq_true, if_false, if_true]
    · rcases Tsdate.C18.leafward_projection_valid_or_skip F rq.age rq.cavC rq.lik with h | ⟨_, _, _, _, q, hq, hf⟩
      · left; rw [h]
      · right; rw [hq]; exact proper_of_fit _ _ _ hf
    · rcases Tsdate.C18.sideways_projection_valid_or_skip F rq.age rq.cavC rq.lik with h | ⟨_, _, _, _, q, hq, hf⟩
      · left; rw [h]
      · right; rw [hq]; exact proper_of_fit _ _ _ hf
  · -- root
    cases hu : rq.unphased <;> simp only [hu, Bool.false_eq_true, if_false, if_true]
    · rcases Tsdate.C18.rootward_projection_valid_or_skip F rq.age rq.cavP rq.lik with h | ⟨_, _, _, _, q, hq, hf⟩
      · left; rw [h]
      · right; rw [hq]; exact proper_of_fit _ _ _ hf
    · rcases Tsdate.C18.sideways_projection_valid_or_skip F rq.age rq.cavP rq.lik with h | ⟨_, _, _, _, q, hq, hf⟩
      · left; rw [h]
      · right; rw [hq]; exact proper_of_fit _ _ _ hf
  · -- twin
    rcases Tsdate.C18.twin_projection_valid_or_skip F rq.cavP rq.lik with h | ⟨q, hq, hf⟩
    · left; rw [h]
    · right; rw [hq]; exact proper_of_fit _ _ _ hf
  · -- both
    cases hu : rq.unphased <;> simp only [hu, Bool.false_eq_true, if_false, if_true]
    · rcases Tsdate.C18.gamma_projection_valid_or_skip F rq.cavP rq.cavC rq.lik with
        h | ⟨_, _, _, _, _, _, qi, qj, hq, hfi, hfj⟩
      · rw [h]; exact ⟨Or.inl rfl, Or.inl rfl⟩
      · rw [hq]; exact ⟨Or.inr (proper_of_fit _ _ _ hfi), Or.inr (proper_of_fit _ _ _ hfj)⟩
    · rcases Tsdate.C18.unphased_projection_valid_or_skip F rq.cavP rq.cavC rq.lik with
        h | ⟨_, _, _, _, _, _, qi, qj, hq, hfi, hfj⟩
      · rw [h]; exact ⟨Or.inl rfl, Or.inl rfl⟩
      · rw [hq]; exact ⟨Or.inr (proper_of_fit _ _ _ hfi), Or.inr (proper_of_fit _ _ _ hfj)⟩

end Tsdate.EP
