/-
Lemmas about the `outside_maximization` model (used by Props/C13 and Props/C11).
-/
import Mathlib.Order.Basic
import Mathlib.Order.Lattice
import Mathlib.Order.Monotone.Basic
import Mathlib.Tactic.SplitIfs
import Mathlib.Tactic.Set
import TsdateVerif.Model.Maximize
import TsdateVerif.Proofs.Order

namespace Tsdate.Maximize
open Tsdate
set_option linter.unusedSectionVars false
set_option linter.unusedVariables false

/-! ### `np.argmax` -/

section ArgmaxLemmas
variable {α : Type} [LinearOrder α]

/-- `i` is the index of the first maximum of `l`. -/
def IsFirstArgmax (l : List α) (i : Nat) : Prop :=
  ∃ v, l[i]? = some v ∧ (∀ (j : Nat) (w : α), l[j]? = some w → w ≤ v) ∧
    (∀ (j : Nat) (w : α), j < i → l[j]? = some w → w < v)

theorem isFirstArgmax_unique (l : List α) (i j : Nat) (hi : IsFirstArgmax l i)
    (hj : IsFirstArgmax l j) : i = j := by
  obtain ⟨v, hv, hmax, hfirst⟩ := hi
  obtain ⟨w, hw, hmax', hfirst'⟩ := hj
  rcases Nat.lt_trichotomy i j with h | h | h
  · exact absurd (lt_of_lt_of_le (hfirst' i v h hv) (hmax j w hw)) (lt_irrefl _)
  · exact h
  · exact absurd (lt_of_lt_of_le (hfirst j w h hw) (hmax' i v hv)) (lt_irrefl _)

theorem argmaxAux_spec (xs pre : List α) (best : Nat) (bv : α)
    (hb : pre[best]? = some bv) (hmax : ∀ (j : Nat) (w : α), pre[j]? = some w → w ≤ bv)
    (hfirst : ∀ (j : Nat) (w : α), j < best → pre[j]? = some w → w < bv) :
    IsFirstArgmax (pre ++ xs) (argmaxAux best bv pre.length xs) := by
  induction xs generalizing pre best bv with
  | nil =>
    simp only [argmaxAux, List.append_nil]
    exact ⟨bv, hb, hmax, hfirst⟩
  | cons x xs ih =>
    have hbl : best < pre.length := by
      by_contra hcon
      rw [List.getElem?_eq_none (by omega)] at hb
      cases hb
    have happ : pre ++ x :: xs = (pre ++ [x]) ++ xs := by simp
    have hlen : (pre ++ [x]).length = pre.length + 1 := by simp
    have hget : ∀ (j : Nat) (w : α), (pre ++ [x])[j]? = some w → (pre[j]? = some w ∧ j < pre.length) ∨ (j = pre.length ∧ w = x) := by
      intro j w hj
      rcases Nat.lt_or_ge j pre.length with hlt | hge
      · rw [List.getElem?_append_left hlt] at hj
        exact Or.inl ⟨hj, hlt⟩
      · rw [List.getElem?_append_right hge] at hj
        rcases Nat.eq_or_lt_of_le hge with heq | hgt
        · right
          refine ⟨heq.symm, ?_⟩
          rw [← heq] at hj
          simp at hj
          exact hj.symm
        · rw [List.getElem?_eq_none (by simp; omega)] at hj
          cases hj
    unfold argmaxAux
    split_ifs with h
    · rw [happ, ← hlen]
      apply ih
      · rw [List.getElem?_append_right (le_refl _)]; simp
      · intro j w hj
        rcases hget j w hj with ⟨h1, _⟩ | ⟨_, h2⟩
        · exact le_of_lt (lt_of_le_of_lt (hmax j w h1) h)
        · rw [h2]
      · intro j w hjl hj
        rcases hget j w hj with ⟨h1, _⟩ | ⟨h2, _⟩
        · exact lt_of_le_of_lt (hmax j w h1) h
        · omega
    · rw [happ, ← hlen]
      apply ih
      · rw [List.getElem?_append_left hbl]; exact hb
      · intro j w hj
        rcases hget j w hj with ⟨h1, _⟩ | ⟨_, h2⟩
        · exact hmax j w h1
        · rw [h2]; exact not_lt.mp h
      · intro j w hjl hj
        rcases hget j w hj with ⟨h1, _⟩ | ⟨h2, _⟩
        · exact hfirst j w hjl h1
        · omega

/-- **`argmax` returns the index of the first maximum** of a non-empty list. -/
theorem argmax_isFirst (l : List α) (hl : l ≠ []) : IsFirstArgmax l (argmax l) := by
  cases l with
  | nil => exact absurd rfl hl
  | cons x xs =>
    have := argmaxAux_spec xs [x] 0 x (by simp) (by
      intro j w hj
      cases j with
      | zero => simp at hj; rw [hj]
      | succ j => simp at hj) (by intro j w hj; omega)
    simpa [argmax] using this

theorem argmax_lt_length (l : List α) (hl : l ≠ []) : argmax l < l.length := by
  obtain ⟨v, hv, _⟩ := argmax_isFirst l hl
  by_contra hcon
  rw [List.getElem?_eq_none (by omega)] at hv
  cases hv

theorem argmax_le_of_length_le (l : List α) (y : Nat) (h : l.length ≤ y + 1) : argmax l ≤ y := by
  by_cases hl : l = []
  · subst hl; simp [argmax]
  · have := argmax_lt_length l hl; omega

theorem argmaxAux_map {β : Type} [LinearOrder β] (φ : α → β) (hφ : StrictMono φ)
    (xs : List α) (best : Nat) (bv : α) (i : Nat) :
    argmaxAux best (φ bv) i (xs.map φ) = argmaxAux best bv i xs := by
  induction xs generalizing best bv i with
  | nil => rfl
  | cons x xs ih =>
    simp only [List.map_cons, argmaxAux, hφ.lt_iff_lt]
    split_ifs
    · exact ih ..
    · exact ih ..

/-- **The argmax is unchanged by a strictly increasing map** (multiplying all scores by a positive
constant; adding a constant to all log-scores). -/
theorem argmax_map {β : Type} [LinearOrder β] (φ : α → β) (hφ : StrictMono φ) (l : List α) :
    argmax (l.map φ) = argmax l := by
  cases l with
  | nil => rfl
  | cons x xs => exact argmaxAux_map φ hφ xs 0 x 1

end ArgmaxLemmas

/-! ### one group of the loop -/

section Group
variable {α : Type} [Inhabited α] [LinearOrder α]

/-- laws of `combine` -/
structure OpsLaws (ops : Ops α) : Prop where
  comm : ∀ a b, ops.comb a b = ops.comb b a
  assoc : ∀ a b c, ops.comb (ops.comb a b) c = ops.comb a (ops.comb b c)

/-- `m` can be used as a standardising constant: dividing by it is combining with some `k`, and
combining with `k` is strictly increasing (linear space: `m > 0`, `k = 1/m`; log space: `k = -m`). -/
def Scalable (ops : Ops α) (m : α) : Prop :=
  ∃ k, (∀ x, ops.ratio x m = ops.comb x k) ∧ StrictMono (fun x => ops.comb x k)

theorem if_lt_eq_min (k y : Nat) : (if k < y then k else y) = min y k := by
  split_ifs with h <;> omega

theorem nextEdge_fst (ops : Ops α) (inp : Inp α) (idx : Nat → Nat) (st : Nat × List α) (e : MEdge) :
    (nextEdge ops inp idx st e).1 = min st.1 (idx e.p) := by
  simp only [nextEdge]; exact if_lt_eq_min _ _

theorem fold_fst (ops : Ops α) (inp : Inp α) (idx : Nat → Nat) (rest : List MEdge)
    (st : Nat × List α) :
    (rest.foldl (nextEdge ops inp idx) st).1 = rest.foldl (fun y e => min y (idx e.p)) st.1 := by
  induction rest generalizing st with
  | nil => rfl
  | cons e es ih => rw [List.foldl_cons, List.foldl_cons, ih, nextEdge_fst]

theorem foldmin_le_init (idx : Nat → Nat) (rest : List MEdge) (y : Nat) :
    rest.foldl (fun y e => min y (idx e.p)) y ≤ y := by
  induction rest generalizing y with
  | nil => exact le_rfl
  | cons e es ih => exact le_trans (ih _) (Nat.min_le_left _ _)

theorem foldmin_le_mem (idx : Nat → Nat) (rest : List MEdge) (y : Nat) (e : MEdge) (he : e ∈ rest) :
    rest.foldl (fun y e => min y (idx e.p)) y ≤ idx e.p := by
  induction rest generalizing y with
  | nil => cases he
  | cons e' es ih =>
    rw [List.foldl_cons]
    rcases List.mem_cons.mp he with rfl | h
    · exact le_trans (foldmin_le_init idx es _) (Nat.min_le_right _ _)
    · exact ih _ h

/-- the running minimum is below every parent's index -/
theorem minParent_le (idx : Nat → Nat) (e0 : MEdge) (rest : List MEdge) (e : MEdge)
    (he : e ∈ e0 :: rest) : minParent idx e0 rest ≤ idx e.p := by
  rcases List.mem_cons.mp he with rfl | h
  · exact foldmin_le_init idx rest _
  · exact foldmin_le_mem idx rest _ e h

theorem zipWith_scale (ops : Ops α) (hl : OpsLaws ops) (K : α) (l I : List α) :
    List.zipWith ops.comb (l.map (fun x => ops.comb x K)) I
      = (List.zipWith ops.comb l I).map (fun x => ops.comb x K) := by
  induction l generalizing I with
  | nil => simp
  | cons a l ih =>
    cases I with
    | nil => simp
    | cons b I =>
      simp only [List.map_cons, List.zipWith_cons_cons, ih]
      congr 1
      rw [hl.assoc, hl.comm K b, ← hl.assoc]

/-- invariant of the inner loop: on `0..y` the list `result` is the combined likelihood `P`
scaled by one constant `K` -/
def GroupInv (ops : Ops α) (st : Nat × List α) (P : Nat → α) (K : α) : Prop :=
  st.2.take (st.1 + 1) = (List.range (st.1 + 1)).map (fun t => ops.comb (P t) K) ∧
  st.1 + 1 ≤ st.2.length ∧ StrictMono (fun x => ops.comb x K)

theorem take_range (m n : Nat) (h : m ≤ n) : (List.range n).take m = List.range m := by
  rw [List.take_range, Nat.min_eq_left h]

theorem nextEdge_inv (ops : Ops α) (hl : OpsLaws ops) (inp : Inp α) (idx : Nat → Nat)
    (st : Nat × List α) (P : Nat → α) (K : α) (e : MEdge) (hinv : GroupInv ops st P K)
    (hsc : Scalable ops (stdConst inp e (idx e.p) (if idx e.p < st.1 then idx e.p else st.1))) :
    ∃ K', GroupInv ops (nextEdge ops inp idx st e)
      (fun t => ops.comb (inp.lik e (idx e.p) t) (P t)) K' := by
  obtain ⟨htake, hlen, hmono⟩ := hinv
  obtain ⟨k, hk, hkmono⟩ := hsc
  refine ⟨ops.comb k K, ?_, ?_, ?_⟩
  · -- the prefix
    simp only [nextEdge]
    set y := (if idx e.p < st.1 then idx e.p else st.1) with hy
    have hyle : y ≤ st.1 := by rw [hy, if_lt_eq_min]; exact Nat.min_le_left _ _
    have hpre : st.2.take (y + 1) = (List.range (y + 1)).map (fun t => ops.comb (P t) K) := by
      have : st.2.take (y + 1) = (st.2.take (st.1 + 1)).take (y + 1) := by
        rw [List.take_take, Nat.min_eq_left (by omega)]
      rw [this, htake, ← List.map_take, take_range _ _ (by omega)]
    have hzl : (List.zipWith (fun l r => ops.comb (ops.ratio l (stdConst inp e (idx e.p) y)) r)
        (llMut inp e (idx e.p) y) (st.2.take (y + 1))).length = y + 1 := by
      rw [hpre]; simp [llMut]
    rw [List.take_left' hzl, hpre]
    simp only [llMut, List.zipWith_map_left, List.zipWith_map_right, List.zipWith_self]
    apply List.map_congr_left
    intro t _
    rw [hk, hl.assoc, ← hl.assoc k, hl.comm k (P t), hl.assoc (P t), ← hl.assoc]
  · simp only [nextEdge]
    set y := (if idx e.p < st.1 then idx e.p else st.1) with hy
    have hyle : y ≤ st.1 := by rw [hy, if_lt_eq_min]; exact Nat.min_le_left _ _
    simp only [List.length_append, List.length_zipWith, List.length_drop, List.length_take, llMut,
      List.length_map, List.length_range]
    omega
  · have : (fun x => ops.comb x (ops.comb k K)) = (fun x => ops.comb x K) ∘ (fun x => ops.comb x k) := by
      funext x; simp only [Function.comp]; rw [hl.assoc]
    rw [this]
    exact hmono.comp hkmono

theorem fold_inv (ops : Ops α) (hl : OpsLaws ops) (inp : Inp α) (idx : Nat → Nat)
    (rest : List MEdge) (st : Nat × List α) (P : Nat → α) (K : α) (hinv : GroupInv ops st P K)
    (hsc : ∀ m ∈ runConsts inp idx st.1 rest, Scalable ops m) :
    ∃ K', GroupInv ops (rest.foldl (nextEdge ops inp idx) st)
      (fun t => rest.foldl (fun acc e => ops.comb (inp.lik e (idx e.p) t) acc) (P t)) K' := by
  induction rest generalizing st P K with
  | nil => exact ⟨K, hinv⟩
  | cons e es ih =>
    simp only [runConsts, List.mem_cons, forall_eq_or_imp] at hsc
    obtain ⟨K1, h1⟩ := nextEdge_inv ops hl inp idx st P K e hinv hsc.1
    have hfst : (nextEdge ops inp idx st e).1 = (if idx e.p < st.1 then idx e.p else st.1) := rfl
    obtain ⟨K2, h2⟩ := ih (nextEdge ops inp idx st e) _ K1 h1 (by rw [hfst]; exact hsc.2)
    exact ⟨K2, h2⟩

theorem firstEdge_inv (ops : Ops α) (inp : Inp α) (idx : Nat → Nat) (e0 : MEdge)
    (hsc : Scalable ops (stdConst inp e0 (idx e0.p) (idx e0.p))) :
    ∃ K, GroupInv ops (firstEdge ops inp idx e0) (fun t => inp.lik e0 (idx e0.p) t) K := by
  obtain ⟨k, hk, hkmono⟩ := hsc
  refine ⟨k, ?_, ?_, hkmono⟩
  · simp only [firstEdge, llMut, List.map_map]
    rw [List.take_of_length_le (by simp)]
    apply List.map_congr_left
    intro t _
    simp only [Function.comp]
    rw [hk]
  · simp [firstEdge, llMut]

/-- **The rule for one group**: the index chosen is the first argmax, over `t = 0 .. min parent
index`, of `combine (Π lik_e) inside`; the standardising constants do not matter. -/
theorem groupChoice_rule (ops : Ops α) (hl : OpsLaws ops) (inp : Inp α) (idx : Nat → Nat)
    (e0 : MEdge) (rest : List MEdge)
    (hsc : ∀ m ∈ groupConsts inp idx e0 rest, Scalable ops m) :
    groupChoice ops inp idx e0 rest = argmax (specScores ops inp idx e0 rest) := by
  simp only [groupConsts, List.mem_cons, forall_eq_or_imp] at hsc
  obtain ⟨K0, h0⟩ := firstEdge_inv ops inp idx e0 hsc.1
  obtain ⟨K, htake, hlen, hmono⟩ := fold_inv ops hl inp idx rest _ _ K0 h0 hsc.2
  have hy : (rest.foldl (nextEdge ops inp idx) (firstEdge ops inp idx e0)).1 = minParent idx e0 rest := by
    rw [fold_fst]; rfl
  simp only [groupChoice, specScores]
  rw [htake, hy]
  have : (List.range (minParent idx e0 rest + 1)).map (fun t => ops.comb
      (rest.foldl (fun acc e => ops.comb (inp.lik e (idx e.p) t) acc) (inp.lik e0 (idx e0.p) t)) K)
      = ((List.range (minParent idx e0 rest + 1)).map (prodLik ops inp idx e0 rest)).map
          (fun x => ops.comb x K) := by
    rw [List.map_map]; rfl
  rw [this, zipWith_scale ops hl, argmax_map _ hmono]

/-- the choice never exceeds any parent's index (no hypothesis on the numbers at all) -/
theorem groupChoice_le (ops : Ops α) (inp : Inp α) (idx : Nat → Nat) (e0 : MEdge)
    (rest : List MEdge) (e : MEdge) (he : e ∈ e0 :: rest) :
    groupChoice ops inp idx e0 rest ≤ idx e.p := by
  refine le_trans ?_ (minParent_le idx e0 rest e he)
  simp only [groupChoice]
  have hy : (rest.foldl (nextEdge ops inp idx) (firstEdge ops inp idx e0)).1 = minParent idx e0 rest := by
    rw [fold_fst]; rfl
  rw [hy]
  apply argmax_le_of_length_le
  simp only [List.length_zipWith, List.length_take]
  omega

theorem foldl_congr_mem {γ δ : Type} (f g : γ → δ → γ) (l : List δ) (a : γ)
    (h : ∀ x ∈ l, ∀ v, f v x = g v x) : l.foldl f a = l.foldl g a := by
  induction l generalizing a with
  | nil => rfl
  | cons x xs ih =>
    rw [List.foldl_cons, List.foldl_cons, h x (List.mem_cons_self ..)]
    exact ih _ (fun y hy => h y (List.mem_cons_of_mem _ hy))

/-- the choice depends on the current assignment only through the parents of the group -/
theorem groupChoice_congr (ops : Ops α) (inp : Inp α) (idx idx' : Nat → Nat) (e0 : MEdge)
    (rest : List MEdge) (h : ∀ e ∈ e0 :: rest, idx e.p = idx' e.p) :
    groupChoice ops inp idx e0 rest = groupChoice ops inp idx' e0 rest := by
  have h0 : firstEdge ops inp idx e0 = firstEdge ops inp idx' e0 := by
    simp only [firstEdge, h e0 (List.mem_cons_self ..)]
  have hf : rest.foldl (nextEdge ops inp idx) (firstEdge ops inp idx e0)
      = rest.foldl (nextEdge ops inp idx') (firstEdge ops inp idx' e0) := by
    rw [h0]
    apply foldl_congr_mem
    intro e he st
    simp only [nextEdge, h e (List.mem_cons_of_mem _ he)]
  simp only [groupChoice, hf]

end Group

/-! ### the loop over groups -/

section Whole
variable {α : Type} [Inhabited α] [LinearOrder α]

/-- every child has exactly one group, and groups are non-empty (true of the runs of an order in
which equal children are adjacent) -/
structure GroupsOK (gs : List (List MEdge)) : Prop where
  nonempty : ∀ g ∈ gs, g ≠ []
  nodup : (gs.map gchild).Nodup

/-- parents are final before they are read: no group, from the current one on, is about a node
that the current group uses as a parent -/
def ParentsFirst : List (List MEdge) → Prop
  | [] => True
  | g :: rest => (∀ e ∈ g, ∀ g' ∈ g :: rest, gchild g' ≠ e.p) ∧ ParentsFirst rest

theorem processGroup_size (ops : Ops α) (inp : Inp α) (a : Array Nat) (g : List MEdge) :
    (processGroup ops inp a g).size = a.size := by
  unfold processGroup
  split
  · rfl
  · split_ifs <;> simp

theorem processGroup_other (ops : Ops α) (inp : Inp α) (a : Array Nat) (g : List MEdge) (u : Nat)
    (h : gchild g ≠ u) : aget (processGroup ops inp a g) u = aget a u := by
  unfold processGroup
  split
  · rfl
  · rename_i e0 rest
    split_ifs
    · rfl
    · exact aget_aset_other _ _ _ _ (fun h' => h (by rw [h']; rfl))

theorem foldl_size (ops : Ops α) (inp : Inp α) (gs : List (List MEdge)) (a : Array Nat) :
    (gs.foldl (processGroup ops inp) a).size = a.size := by
  induction gs generalizing a with
  | nil => rfl
  | cons g gs ih => rw [List.foldl_cons, ih, processGroup_size]

theorem foldl_unchanged (ops : Ops α) (inp : Inp α) (gs : List (List MEdge)) (a : Array Nat)
    (u : Nat) (h : ∀ g ∈ gs, g = [] ∨ inp.fixed (gchild g) = true ∨ gchild g ≠ u) :
    aget (gs.foldl (processGroup ops inp) a) u = aget a u := by
  induction gs generalizing a with
  | nil => rfl
  | cons g gs ih =>
    rw [List.foldl_cons, ih _ (fun g' hg' => h g' (List.mem_cons_of_mem _ hg'))]
    rcases h g (List.mem_cons_self ..) with h1 | h1 | h1
    · subst h1; rfl
    · cases g with
      | nil => rfl
      | cons e0 rest =>
        have : inp.fixed e0.c = true := h1
        simp [processGroup, this]
    · exact processGroup_other ops inp a g u h1

/-- **Characterisation of the loop**: the value written for each (non-fixed) child is the group's
choice evaluated at the *final* assignment of its parents. -/
theorem foldl_char (ops : Ops α) (inp : Inp α) (gs : List (List MEdge)) (a : Array Nat)
    (hok : GroupsOK gs) (hpf : ParentsFirst gs) (hr : ∀ g ∈ gs, gchild g < a.size)
    (e0 : MEdge) (rest : List MEdge) (hg : (e0 :: rest) ∈ gs) (hfix : inp.fixed e0.c = false) :
    aget (gs.foldl (processGroup ops inp) a) e0.c
      = groupChoice ops inp (aget (gs.foldl (processGroup ops inp) a)) e0 rest := by
  induction gs generalizing a with
  | nil => cases hg
  | cons g gs ih =>
    have hok' : GroupsOK gs :=
      ⟨fun g' hg' => hok.nonempty g' (List.mem_cons_of_mem _ hg'), (List.nodup_cons.mp hok.nodup).2⟩
    have hnot : gchild g ∉ gs.map gchild := (List.nodup_cons.mp hok.nodup).1
    rw [List.foldl_cons]
    rcases List.mem_cons.mp hg with heq | hin
    · -- the current group
      subst heq
      have hlater : ∀ u, (∀ g' ∈ gs, gchild g' ≠ u) →
          aget (gs.foldl (processGroup ops inp) (processGroup ops inp a (e0 :: rest))) u
            = aget (processGroup ops inp a (e0 :: rest)) u :=
        fun u hu => foldl_unchanged ops inp gs _ u (fun g' hg' => Or.inr (Or.inr (hu g' hg')))
      have hc : ∀ g' ∈ gs, gchild g' ≠ e0.c := by
        intro g' hg' heq
        exact hnot (List.mem_map.mpr ⟨g', hg', heq⟩)
      rw [hlater e0.c hc]
      have hsz : e0.c < a.size := hr _ (List.mem_cons_self ..)
      have hstep : aget (processGroup ops inp a (e0 :: rest)) e0.c
          = groupChoice ops inp (aget a) e0 rest := by
        simp only [processGroup, hfix, Bool.false_eq_true, if_false]
        exact aget_aset_same _ _ _ hsz
      rw [hstep]
      apply groupChoice_congr
      intro e he
      have hp := hpf.1 e he
      rw [hlater e.p (fun g' hg' => hp g' (List.mem_cons_of_mem _ hg')),
        processGroup_other ops inp a _ e.p (hp _ (List.mem_cons_self ..))]
    · exact ih _ hok' hpf.2 (fun g' hg' => by
        rw [processGroup_size]; exact hr g' (List.mem_cons_of_mem _ hg')) hin

/-! #### the loop over `mrcas` -/

theorem foldl_range_set (P : Nat → Bool) (f : Nat → Nat) (l : List Nat) (a : Array Nat) (u : Nat)
    (hu : u < a.size) :
    aget (l.foldl (fun a i => if P i then a else aset a i (f i)) a) u
      = if u ∈ l ∧ P u = false then f u else aget a u := by
  induction l generalizing a with
  | nil => simp
  | cons i l ih =>
    rw [List.foldl_cons, ih _ (by split_ifs <;> simp [hu])]
    by_cases hPi : P i = true
    · simp only [hPi, if_true, List.mem_cons]
      by_cases hui : u = i
      · subst hui; simp [hPi]
      · simp [hui]
    · have hPi' : P i = false := by simpa using hPi
      simp only [hPi', Bool.false_eq_true, if_false, List.mem_cons]
      by_cases hui : u = i
      · subst hui
        simp only [true_or, hPi', and_self, if_true, aget_aset_same _ _ _ hu]
        split_ifs <;> rfl
      · simp only [hui, false_or, aget_aset_other _ _ _ _ hui]

theorem initRoots_size (inp : Inp α) (gs : List (List MEdge)) : (initRoots inp gs).size = inp.n := by
  unfold initRoots
  generalize List.range inp.n = l
  have : ∀ (a : Array Nat), (l.foldl (fun a i => if isChild gs i || inp.fixed i then a
      else aset a i (argmax (inp.inside i))) a).size = a.size := by
    induction l with
    | nil => intro a; rfl
    | cons i l ih => intro a; rw [List.foldl_cons, ih]; split_ifs <;> simp
  rw [this]; simp

theorem initRoots_get (inp : Inp α) (gs : List (List MEdge)) (u : Nat) (hu : u < inp.n) :
    aget (initRoots inp gs) u
      = if (isChild gs u || inp.fixed u) = false then argmax (inp.inside u) else 0 := by
  unfold initRoots
  rw [foldl_range_set (fun i => isChild gs i || inp.fixed i) (fun i => argmax (inp.inside i)) _ _ u
    (by simp [hu])]
  have h0 : aget (Array.replicate inp.n 0) u = 0 := by simp [aget, hu]
  simp only [List.mem_range, hu, true_and, h0]

theorem isChild_of_mem (gs : List (List MEdge)) (g : List MEdge) (e : MEdge) (hg : g ∈ gs)
    (he : e ∈ g) : isChild gs e.c = true := by
  simp only [isChild, List.any_eq_true]
  exact ⟨g, hg, e, he, by simp⟩

/-- a node that is never a child is never written by the main loop -/
theorem root_untouched (ops : Ops α) (inp : Inp α) (gs : List (List MEdge)) (a : Array Nat)
    (u : Nat) (hu : isChild gs u = false) :
    aget (gs.foldl (processGroup ops inp) a) u = aget a u := by
  apply foldl_unchanged
  intro g hg
  cases g with
  | nil => exact Or.inl rfl
  | cons e0 rest =>
    right; right
    intro heq
    have := isChild_of_mem gs _ e0 hg (List.mem_cons_self ..)
    rw [show e0.c = u from heq, hu] at this
    cases this

/-- every entry stays inside the grid -/
theorem foldl_in_grid (ops : Ops α) (inp : Inp α) (G : Nat) (gs : List (List MEdge))
    (a : Array Nat) (ha : ∀ u, aget a u < G) :
    ∀ u, aget (gs.foldl (processGroup ops inp) a) u < G := by
  induction gs generalizing a with
  | nil => exact ha
  | cons g gs ih =>
    rw [List.foldl_cons]
    apply ih
    intro u
    unfold processGroup
    split
    · exact ha u
    · rename_i e0 rest
      split_ifs
      · exact ha u
      · by_cases hu : u = e0.c
        · subst hu
          by_cases hsz : e0.c < a.size
          · rw [aget_aset_same _ _ _ hsz]
            exact lt_of_le_of_lt (groupChoice_le ops inp (aget a) e0 rest e0 (List.mem_cons_self ..))
              (ha _)
          · have : aset a e0.c (groupChoice ops inp (aget a) e0 rest) = a := by
              simp only [aset]
              exact Array.setIfInBounds_eq_of_size_le (by omega)
            rw [this]; exact ha _
        · rw [aget_aset_other _ _ _ _ hu]; exact ha u

/-- a fixed node keeps the index 0 -/
theorem fixed_untouched (ops : Ops α) (inp : Inp α) (gs : List (List MEdge)) (a : Array Nat)
    (u : Nat) (hu : inp.fixed u = true) :
    aget (gs.foldl (processGroup ops inp) a) u = aget a u := by
  apply foldl_unchanged
  intro g hg
  by_cases h : gchild g = u
  · right; left; rw [h]; exact hu
  · right; right; exact h

theorem gchild_eq (g : List MEdge) : gchild g = Order.ghead (·.c) g := by cases g <;> rfl

theorem parentsFirst_of_srcDone (gs : List (List MEdge)) (h : Order.SrcDone (·.c) (·.p) gs) :
    ParentsFirst gs := by
  induction gs with
  | nil => trivial
  | cons g gs ih =>
    refine ⟨?_, ih h.2⟩
    intro e he g' hg'
    rw [gchild_eq]
    exact h.1 e he g' hg'

end Whole

end Tsdate.Maximize
