-- Root of the `TsdateVerif` library: imports every model, spec, proof and property module.
import TsdateVerif.Model.Arr
