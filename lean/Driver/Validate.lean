/-
Driver for the validation model: `lake env lean --run Driver/Validate.lean < cases`.
Block:
  case <id>
  p method=<vg|io|mx|unknown> rate=<absent|good|bad> pop=<absent|good|bad|dictGood|dictBad|dictKeys>
    priors=<0|1> ne=<0|1> rec=<0|1> rp=<0|1> ci=<tri> mbl=<tri> mi=<tri> ms=<tri> vgo=<0|1> eps=<tri>
    ps=<tri> nt=<tri> ioo=<0|1> au=<0|1> rf=<0|1> rl=<0|1>          (one line)
  i nomut=<0|1> multi=<0|1> unary=<0|1> contemp=<0|1>
  end
Reply: `<id> <outcome> guarded=<0|1> foreign=<0|1>` with outcome one of
  ok:<ts|tsFit|tsLik|tsFitLik> | ValueError:<site> | NotImplementedError:<site> | TypeError:<site> | unvalidated
-/
import TsdateVerif.Model.Validate
import TsdateVerif.Model.Proto
open Tsdate Tsdate.Proto Tsdate.Validate

def kv (ws : List String) (k : String) : Option String :=
  ws.findSome? (fun w => match w.splitOn "=" with | [a, b] => if a = k then some b else none | _ => none)

def pTri : String → Option Tri
  | "absent" => some .absent | "good" => some .good | "bad" => some .bad | _ => none
def pBool : String → Option Bool
  | "0" => some false | "1" => some true | _ => none
def pMethod : String → Option Method
  | "vg" => some .vg | "io" => some .io | "mx" => some .mx | "unknown" => some .unknown | _ => none
def pPop : String → Option PopSize
  | "absent" => some .absent | "good" => some .good | "bad" => some .bad | "dictGood" => some .dictGood
  | "dictBad" => some .dictBad | "dictKeys" => some .dictKeys | _ => none

def siteName (s : Site) : String := (reprStr s).replace "Tsdate.Validate.Site." ""
def shapeName (s : Shape) : String := (reprStr s).replace "Tsdate.Validate.Shape." ""

def outName : Outcome → String
  | .ok s => "ok:" ++ shapeName s
  | .valueError s => "ValueError:" ++ siteName s
  | .notImplemented s => "NotImplementedError:" ++ siteName s
  | .typeError s => "TypeError:" ++ siteName s
  | .unvalidated => "unvalidated"

def runCase (blk : List (List String)) : Option String := do
  let id ← (← field blk "case").head?
  let pw ← field blk "p"
  let iw ← field blk "i"
  let p : Params := {
    method := ← pMethod (← kv pw "method"), mutationRate := ← pTri (← kv pw "rate"),
    populationSize := ← pPop (← kv pw "pop"), priors := ← pBool (← kv pw "priors"),
    neDeprecated := ← pBool (← kv pw "ne"), recombinationRate := ← pBool (← kv pw "rec"),
    returnPosteriors := ← pBool (← kv pw "rp"), constrIterations := ← pTri (← kv pw "ci"),
    minBranchLength := ← pTri (← kv pw "mbl"), maxIterations := ← pTri (← kv pw "mi"),
    maxShape := ← pTri (← kv pw "ms"), vgOther := ← pBool (← kv pw "vgo"), eps := ← pTri (← kv pw "eps"),
    probSpace := ← pTri (← kv pw "ps"), numThreads := ← pTri (← kv pw "nt"),
    ioOther := ← pBool (← kv pw "ioo"), allowUnary := ← pBool (← kv pw "au"),
    returnFit := ← pBool (← kv pw "rf"), returnLikelihood := ← pBool (← kv pw "rl") }
  let i : Input := {
    noMutations := ← pBool (← kv iw "nomut"), multiTree := ← pBool (← kv iw "multi"),
    unary := ← pBool (← kv iw "unary"), contemporaneous := ← pBool (← kv iw "contemp") }
  let g := if invalidGuarded p i then "1" else "0"
  let f := if foreignKeyword p then "1" else "0"
  pure s!"{id} {outName (outcome p i)} guarded={g} foreign={f}"

partial def loop (h : IO.FS.Stream) : IO Unit := do
  match ← readBlock h with
  | none => return ()
  | some blk =>
    match runCase blk with
    | some s => IO.println s
    | none => IO.println (((field blk "case").bind List.head?).getD "?" ++ " bad-op")
    loop h

def main : IO Unit := do loop (← IO.getStdin)
