/-
Driver for the discrete-time belief-propagation model: `lake env lean --run Driver/Discrete.lean < cases`.
Block format (one token list per line):
  case <id>
  carrier float|rat            number format of every value below (hex64 | num/den)
  space lin|log                (log only with carrier float)
  G <n> / nodes <n>
  fixed <0|1>...               per node
  edges <id p c>...            tskit edge order (edges_by_parent_asc)
  order <id p c>...            edges_by_child_desc order
  frac <v>...                  per edge id: edge.span / spans[child]
  lik <edge id> <v>...         one line per edge: packed lower triangle, or length-G vector (fixed child)
  prior <node> <v>...          one line per non-fixed node
  roots <node v>...            root_spans items as (root, span_when_root / spans[root])
  opts <std_inside> <std_outside> <ignore_oldest_root>     (0|1 each)
  times <v>...                 the G timepoints (linear numbers)
  end
Reply (one line): `<id> <marginal> ` then for every non-fixed node in ascending id:
`<denominator> <inside row: G> <outside row: G> <posterior probabilities: G> <mean> <variance>`
(the last G+2 values are the post-processing of core.py: standardize, to linear space,
to_probabilities, mean_var); or `<id> bad-op`.
Other operations (line `op <name>`):
  op mutedges / nedges <n> / sedges <id left right p c>... (left, right as num/den) / muts <pos node>...
      reply `<id> <count per edge>...`            (model of Likelihoods.get_mut_edges)
  op priorseq / tag lin|log / nrows <n> / row <k> <hex64>... / seq lin|log ...
      reply `<id> <tag> <values of all rows> ; <tag> <values> ; ...`  (the shared prior object as seen
      by each run of the sequence: NodeTimeValues.force_probability_space in BeliefPropagation.__init__)
With a line `brute 1` the reply continues with ` | <bruteZ> ` and, per non-fixed node, the G exhaustive
marginals of `Spec/BruteForce.lean` evaluated on `inp.toTreeModel` (small inputs only).
-/
import TsdateVerif.Model.Discrete
import TsdateVerif.Model.Proto
import TsdateVerif.Spec.BruteForce
open Tsdate Tsdate.Proto Tsdate.Discrete

def triples : List Nat → Option (List DEdge)
  | [] => some []
  | i :: p :: c :: rest => (triples rest).map (fun es => { id := i, p := p, c := c } :: es)
  | _ => none

def fieldsAll (blk : List (List String)) (key : String) : List (List String) :=
  (blk.filter (fun l => l.head? = some key)).map List.tail

def bool01 (s : String) : Option Bool :=
  if s = "1" then some true else if s = "0" then some false else none

/-- rows keyed by their first token (a Nat) into an array of size `n` -/
def keyedRows {α : Type} (parse : String → Option α) (n : Nat) (ls : List (List String)) :
    Option (Array (Array α)) :=
  ls.foldl (fun acc l => do
    let a ← acc
    let k ← (← l.head?).toNat?
    let vs ← mapAll parse l.tail
    if k < n then pure (a.set! k vs.toArray) else none) (some (Array.replicate n #[]))

def pairsNV {α : Type} (parse : String → Option α) : List String → Option (List (Nat × α))
  | [] => some []
  | n :: v :: rest => do
    let k ← n.toNat?
    let x ← parse v
    let r ← pairsNV parse rest
    pure ((k, x) :: r)
  | _ => none

/-- the code raises "dangling nodes" when a non-fixed child has not been visited -/
def childrenReady (fixed : Array Bool) (es : List DEdge) : Bool :=
  ((groupRuns (·.p) es).foldl (fun (acc : Bool × List Nat) g =>
    if aget fixed g.1 then acc else
    (acc.1 && g.2.all (fun e => aget fixed e.c || acc.2.contains e.c), g.1 :: acc.2)) (true, [])).1

def runWith {α : Type} [Inhabited α] [Add α] [Sub α] [Mul α] [Div α] [OfNat α 0] [OfNat α 1]
    (parse : String → Option α) (show_ : α → String) (o : Ops α) (toLin : α → α)
    (zero : α) (fracOk : α → Bool) (blk : List (List String)) : Option String := do
  let id ← (← field blk "case").head?
  let G ← (← (← field blk "G").head?).toNat?
  let n ← (← (← field blk "nodes").head?).toNat?
  let fixed ← mapAll bool01 (← field blk "fixed")
  let es ← triples (← mapAll String.toNat? (← field blk "edges"))
  let order ← triples (← mapAll String.toNat? (← field blk "order"))
  let frac ← mapAll parse (← field blk "frac")
  let lik ← keyedRows parse es.length (fieldsAll blk "lik")
  let prior ← keyedRows parse n (fieldsAll blk "prior")
  let roots ← pairsNV parse (← field blk "roots")
  let opts ← mapAll bool01 (← field blk "opts")
  let times ← mapAll parse (← field blk "times")
  if times.length ≠ G then none
  let (stdIn, stdOut, ign) ← match opts with
    | [a, b, c] => some (a, b, c)
    | _ => none
  if fixed.length ≠ n ∨ frac.length ≠ es.length ∨ G = 0 then none
  if es.any (fun e => e.p ≥ n ∨ e.c ≥ n ∨ e.id ≥ es.length) then none
  if order.any (fun e => e.p ≥ n ∨ e.c ≥ n ∨ e.id ≥ es.length) then none
  if !(frac.all fracOk) ∨ !(roots.all (fun r => fracOk r.2 && r.1 < n)) then none
  let fx := fixed.toArray
  if !(childrenReady fx es) then none
  -- table sizes
  if es.any (fun e => (aget lik e.id).size ≠ (if aget fx e.c then G else triSize G)) then none
  if (List.range n).any (fun u => !(aget fx u) && (aget prior u).size ≠ G) then none
  let inp : Input α := { G := G, numNodes := n, fixed := fx, edges := es, frac := frac.toArray,
                         lik := lik, prior := prior, roots := roots }
  let (s, marg) := insidePass o inp stdIn
  let out := outsidePass o inp s stdOut ign order zero
  let post := posteriorGrid o s.inside out
  let rows := (List.range n).filter (fun u => !(aget fx u)) |>.map (fun u =>
    let probs := posteriorProbs o toLin (aget post u).toList
    let mv := meanVar probs times
    show_ (aget s.denom u) :: ((aget s.inside u).toList.map show_ ++ (aget out u).toList.map show_
      ++ probs.map show_ ++ [show_ mv.1, show_ mv.2]))
  let base := id ++ " " ++ show_ marg ++ " " ++ " ".intercalate (rows.map (" ".intercalate ·))
  match field blk "brute" with
  | some _ =>
    let M := inp.toTreeModel
    let margs := (List.range n).filter (fun u => !(aget fx u)) |>.map (fun u =>
      (List.range G).map (fun t => show_ (bruteMarginal M u t)))
    pure (base ++ " | " ++ show_ (bruteZ M) ++ " " ++ " ".intercalate (margs.map (" ".intercalate ·)))
  | none => pure base

def negInf : Float := -(1.0 / 0.0)

def spanEdges : List String → Option (List (SpanEdge Rat))
  | [] => some []
  | i :: l :: r :: p :: c :: rest => do
    let e : SpanEdge Rat := { id := ← i.toNat?, left := ← parseRat l, right := ← parseRat r,
                              p := ← p.toNat?, c := ← c.toNat? }
    let es ← spanEdges rest
    pure (e :: es)
  | _ => none

def runMutEdges (blk : List (List String)) : Option String := do
  let id ← (← field blk "case").head?
  let n ← (← (← field blk "nedges").head?).toNat?
  let es ← spanEdges (← field blk "sedges")
  let muts ← pairsNV parseRat ((← field blk "muts").foldr (fun x acc => x :: acc) [])
  -- muts are given as `<pos> <node>`; pairsNV parses `<nat> <value>`, so swap on input: `<node> <pos>`
  let counts := mutEdges n es (muts.map (fun m => (m.2, m.1)))
  pure (id ++ " " ++ " ".intercalate (counts.toList.map toString))

def spaceOf (s : String) : Option Space :=
  if s = "lin" then some Space.lin else if s = "log" then some Space.log else none

def spaceName : Space → String
  | Space.lin => "lin"
  | Space.log => "log"

def runPriorSeq (blk : List (List String)) : Option String := do
  let id ← (← field blk "case").head?
  let tag ← spaceOf (← (← field blk "tag").head?)
  let n ← (← (← field blk "nrows").head?).toNat?
  let grid ← keyedRows hexToFloat n (fieldsAll blk "row")
  let seq ← mapAll spaceOf (← field blk "seq")
  let seen := runSeq Float.log Float.exp seq { space := tag, grid := grid }
  let showObj (q : PriorObj Float) : String :=
    spaceName q.space ++ " " ++ " ".intercalate (q.grid.toList.map (fun r => " ".intercalate (r.toList.map floatToHex)))
  pure (id ++ " " ++ " ; ".intercalate (seen.map showObj))

def runCase (blk : List (List String)) : Option String := do
  match (field blk "op").bind List.head? with
  | some "mutedges" => runMutEdges blk
  | some "priorseq" => runPriorSeq blk
  | _ =>
  let carrier ← (← field blk "carrier").head?
  let space ← (← field blk "space").head?
  match carrier, space with
  | "float", "lin" =>
    runWith hexToFloat floatToHex (linOps (fun f v => Float.pow v f)) id 0.0 (fun _ => true) blk
  | "float", "log" =>
    runWith hexToFloat floatToHex (logOps Float.exp Float.log Float.log negInf) Float.exp 0.0 (fun _ => true) blk
  | "rat", "lin" =>
    -- exact arithmetic: only span fractions equal to 1 (single tree) have a rational power
    runWith parseRat ratToString (linOps (fun (_ : Rat) v => v)) id (0 : Rat) (fun f => f == 1) blk
  | _, _ => none

partial def loop (h : IO.FS.Stream) : IO Unit := do
  match ← readBlock h with
  | none => return ()
  | some blk =>
    match runCase blk with
    | some s => IO.println s
    | none => IO.println (((field blk "case").bind List.head?).getD "?" ++ " bad-op")
    loop h

def main : IO Unit := do loop (← IO.getStdin)
