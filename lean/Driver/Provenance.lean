/-
Driver for the provenance model (C33): `lake env lean --run Driver/Provenance.lean < cases`.
Block:
  case <id>
  entry date|variational_gamma|inside_outside|maximization|preprocess_ts|split_disjoint_nodes
  method <name>                 (dating entries: the estimation method actually used)
  user 0|1|none                 (record_provenance: False, True, None or omitted)
  prov <id> <id> ...            (opaque ids of the existing provenance rows, possibly none)
  arg <name> <val>              (values passed by the caller; absent = None)
  npop <val>                    (population_size after __init__'s normalisation)
  computed <val>                (preprocess_ts: the interval list it derives itself)
  extra <name> <val>            (preprocess_ts: the caller's **kwargs, in call order)
  end
Values: N | B0 | B1 | I<int> | F<16 hex> | S<hex utf-8> | J<hex of canonical JSON>.
Reply: `<id> <row> ...`; an old row is its id, a new row is `NEW:k=v,k=v,...` (dict order).
The executed path is every site of the entry in source order (a superset of any real run; all
non-record sites are switched off, which is what `prov_static_once` proves).
-/
import TsdateVerif.Gen.ProvParams
import TsdateVerif.Model.Proto
open Tsdate.Provenance Tsdate.Gen.ProvParams Tsdate.Proto

def parseP (t : String) : Option PVal :=
  match t.toList with
  | ['N'] => some PVal.none
  | ['B', '1'] => some (PVal.bool true)
  | ['B', '0'] => some (PVal.bool false)
  | 'I' :: r => (String.ofList r).toInt?.map PVal.int
  | 'F' :: r => some (PVal.flt (String.ofList r))
  | 'S' :: r => some (PVal.str (String.ofList r))      -- kept hex-encoded
  | 'J' :: r => some (PVal.json (String.ofList r))
  | _ => none

def toHexS (s : String) : String :=
  let digs := "0123456789abcdef".toList.toArray
  String.ofList (s.toUTF8.toList.flatMap (fun b => [digs[(b.toNat / 16)]!, digs[(b.toNat % 16)]!]))

/-- strings coming from the protocol are already hex; literals of the model (method names,
defaults) are encoded here -/
def showP (lit : Bool) : PVal → String
  | .none => "N"
  | .bool true => "B1"
  | .bool false => "B0"
  | .int i => "I" ++ toString i
  | .flt h => "F" ++ h
  | .str s => "S" ++ (if lit then toHexS s else s)
  | .json t => "J" ++ t

def runCase (blk : List (List String)) : Option String := do
  let id ← (← field blk "case").head?
  let entry ← (← field blk "entry").head?
  let user ← match (← field blk "user") with
    | ["1"] => some (resolveFlag (some true)) | ["0"] => some (resolveFlag (some false))
    | ["none"] => some (resolveFlag none) | _ => none
  let prov ← field blk "prov"
  let pairs ← mapAll (fun (l : List String) => match l with
    | [_, k, v] => (parseP v).map (fun x => (k, x))
    | _ => none) (blk.filter (fun l => l.head? = some "arg"))
  let passed : String → PVal := fun k => ((pairs.find? (fun p => p.1 == k)).map Prod.snd).getD PVal.none
  let npop ← match field blk "npop" with | some [v] => parseP v | _ => some PVal.none
  let computed ← match field blk "computed" with | some [v] => parseP v | _ => some PVal.none
  if !entries.contains entry then none
  -- which values are model literals (defaults, command) rather than protocol strings
  let params : Option (List (String × PVal × Bool)) :=
    if dateEntries.contains entry then do
      let mname ← (← field blk "method").head?
      let mi ← methods.find? (fun m => m.name == mname)
      let d := dateParameters initRecorded mi passed (fun _ => npop)
      pure (d.map (fun kv =>
        let lit := kv.1 == "command" || (passed (lookupD kv.1 mi.runMap) == PVal.none && (dget kv.1 mi.defaults).isSome
                    && mi.runParams.contains kv.1)
        (kv.1, kv.2, lit)))
    else if entry == "preprocess_ts" then
      let extras := (blk.filter (fun l => l.head? = some "extra")).filterMap (fun l => match l with
        | [_, k, v] => (parseP v).map (fun x => (k, x))
        | _ => none)
      let extraVal : String → PVal := fun k => ((extras.find? (fun p => p.1 == k)).map Prod.snd).getD PVal.none
      pure ((preprocessParameters preprocessRecorded preprocessRecordsVarKw passed computed (extras.map Prod.fst) extraVal).map
        (fun kv => (kv.1, kv.2, kv.1 == "command")))
    else
      pure [("command", PVal.str splitCommand, true)]
  let ps ← params
  let newRow := "NEW:" ++ ",".intercalate (ps.map (fun kvl => kvl.1 ++ "=" ++ showP kvl.2.2 kvl.2.1))
  let path := (opSites (sites.filter (fun s => s.entry == entry)))
  let out ← execPath user (fun _ => newRow) prov path
  pure (" ".intercalate (id :: out))

partial def loop (h : IO.FS.Stream) : IO Unit := do
  match ← readBlock h with
  | none => return ()
  | some blk =>
    match runCase blk with
    | some s => IO.println s
    | none => IO.println (((field blk "case").bind List.head?).getD "?" ++ " bad-op")
    loop h

def main : IO Unit := do loop (← IO.getStdin)
