/-
Driver for the CLI model (C34): `lake env lean --run Driver/Cli.lean < cases`.
Blocks:
  case <id> / sub date|preprocess / arg <dest> <val> ... / end
      -> `<id> error <hex of message>` | `<id> call <fn> <tsFrom val> <dumpTo val> kw=<val> kw=<val> ...`
  case <id> / conv <ty> <hex of utf-8 string> / end
      -> `<id> conv T|F|E`        (convertBool with the regenerated str_to_bool tables)
Value tokens: N (None), B1/B0, I<int>, F<16 hex digits>, S<hex of utf-8>.
Anything else: `<id> bad-op`.
-/
import TsdateVerif.Gen.Cli
import TsdateVerif.Model.Proto
open Tsdate.Cli Tsdate.Gen.Cli Tsdate.Proto

def hexNibble (c : Char) : Option Nat :=
  if '0' ≤ c ∧ c ≤ '9' then some (c.toNat - '0'.toNat)
  else if 'a' ≤ c ∧ c ≤ 'f' then some (c.toNat - 'a'.toNat + 10)
  else none

def unhex : List Char → Option (List UInt8)
  | [] => some []
  | a :: b :: rest => do
    let x ← hexNibble a
    let y ← hexNibble b
    let r ← unhex rest
    pure ((x * 16 + y).toUInt8 :: r)
  | _ => none

def hexToString (s : String) : Option String := do
  let bytes ← unhex s.toList
  String.fromUTF8? (ByteArray.mk bytes.toArray)

def toHex (s : String) : String :=
  let digs := "0123456789abcdef".toList.toArray
  String.ofList (s.toUTF8.toList.flatMap (fun b => [digs[(b.toNat / 16)]!, digs[(b.toNat % 16)]!]))

def parseVal (t : String) : Option Val :=
  match t.toList with
  | ['N'] => some Val.none
  | ['B', '1'] => some (Val.bool true)
  | ['B', '0'] => some (Val.bool false)
  | 'I' :: r => (String.ofList r).toInt?.map Val.int
  | 'F' :: r => some (Val.flt (String.ofList r))
  | 'S' :: r => (hexToString (String.ofList r)).map Val.str
  | _ => none

def showVal : Val → String
  | .none => "N"
  | .bool true => "B1"
  | .bool false => "B0"
  | .int i => "I" ++ toString i
  | .flt r => "F" ++ r
  | .str s => "S" ++ toHex s

def runCase (blk : List (List String)) : Option String := do
  let id ← (← field blk "case").head?
  match field blk "conv" with
  | some [ty, hx] =>
    let s ← hexToString hx
    let r := match convertBool strToBoolTrue strToBoolFalse ty s with
      | some true => "T" | some false => "F" | none => "E"
    pure (id ++ " conv " ++ r)
  | some [ty] =>
    let r := match convertBool strToBoolTrue strToBoolFalse ty "" with
      | some true => "T" | some false => "F" | none => "E"
    pure (id ++ " conv " ++ r)
  | _ =>
    let prog ← match (← field blk "sub") with
      | ["date"] => some dateProg
      | ["preprocess"] => some preprocessProg
      | _ => none
    let pairs ← mapAll (fun (l : List String) => match l with
      | [_, d, v] => (parseVal v).map (fun x => (d, x))
      | _ => none) (blk.filter (fun l => l.head? = some "arg"))
    -- a dest that is not in the namespace would be an AttributeError in Python: reject the case
    if (progDests prog).any (fun d => !(pairs.map Prod.fst).contains d) then none
    let a : Args := fun d => ((pairs.find? (fun p => p.1 == d)).map Prod.snd).getD Val.none
    match exec a prog with
    | .error m => pure (id ++ " error " ++ toHex m)
    | .call fn ts kws out =>
      pure (" ".intercalate ([id, "call", fn, showVal ts, showVal out] ++
        kws.map (fun kv => kv.1 ++ "=" ++ showVal kv.2)))

partial def loop (h : IO.FS.Stream) : IO Unit := do
  match ← readBlock h with
  | none => return ()
  | some blk =>
    match runCase blk with
    | some s => IO.println s
    | none => IO.println (((field blk "case").bind List.head?).getD "?" ++ " bad-op")
    loop h

def main : IO Unit := do loop (← IO.getStdin)
