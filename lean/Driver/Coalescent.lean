/-
Driver for the conditional-coalescent model: `lake env lean --run Driver/Coalescent.lean < cases`.
Blocks (`case <id>` … `end`), selected by `op`:
  op ccv     / n <n>                  -> `<id> k mean var k mean var …`  (Rat, k = 2..n; model of
                                          conditional_coalescent_variance + first moment column)
  op marg    / n <n> / val <q>…       -> `<id> k out k out …`            (Rat; val[0..n-1] as rationals)
  op tau     / n <n>                  -> `<id> k tau_expect(k,n) …`, then `mrca <tau_var_mrca(n)>` (Rat)
  op gamma   / m <q> / v <q>          -> `<id> alpha beta`               (Rat)
  op lognorm / m <hex> / v <hex>      -> `<id> alpha beta`               (Float bits, Float.log)
Anything malformed -> `<id> bad-op`.
-/
import TsdateVerif.Model.Coalescent
import TsdateVerif.Model.Proto
open Tsdate Tsdate.Proto Tsdate.Coalescent

instance : NatCast Float := ⟨Float.ofNat⟩

def natField (blk : List (List String)) (key : String) : Option Nat := do
  (← (← field blk key).head?).toNat?

def showRows (rows : List (Nat × Rat)) : String :=
  " ".intercalate (rows.map (fun r => s!"{r.1} {ratToString r.2}"))

def runCase (blk : List (List String)) : Option String := do
  let id ← (← field blk "case").head?
  let op ← (← field blk "op").head?
  match op with
  | "ccv" =>
    let n ← natField blk "n"
    if n < 2 then none
    let ms : List (Nat × Rat) := condCoalMean n
    let vs : List (Nat × Rat) := condCoalVar n
    let rows := List.zipWith (fun m v => s!"{m.1} {ratToString m.2} {ratToString v.2}") ms vs
    pure (id ++ " " ++ " ".intercalate rows)
  | "marg" =>
    let n ← natField blk "n"
    let vals ← mapAll parseRat (← field blk "val")
    if n < 2 ∨ vals.length ≠ n then none
    let out : List (Nat × Rat) := marginalize n (fun a => vals.getD a 0)
    pure (id ++ " " ++ showRows out)
  | "tau" =>
    let n ← natField blk "n"
    if n < 2 then none
    let rows : List (Nat × Rat) := (List.range' 2 (n - 1)).map (fun k => (k, tauExpect k n))
    pure (id ++ " " ++ showRows rows ++ " mrca " ++ ratToString (tauVarMrca n : Rat))
  | "gamma" =>
    let m ← parseRat (← (← field blk "m").head?)
    let v ← parseRat (← (← field blk "v").head?)
    if v = 0 then none
    let r := gammaApprox m v
    pure (id ++ " " ++ ratToString r.1 ++ " " ++ ratToString r.2)
  | "lognorm" =>
    let m ← hexToFloat (← (← field blk "m").head?)
    let v ← hexToFloat (← (← field blk "v").head?)
    let r := lognormApprox Float.log m v
    pure (id ++ " " ++ floatToHex r.1 ++ " " ++ floatToHex r.2)
  | _ => none

partial def loop (h : IO.FS.Stream) : IO Unit := do
  match ← readBlock h with
  | none => return ()
  | some blk =>
    match runCase blk with
    | some s => IO.println s
    | none => IO.println (((field blk "case").bind List.head?).getD "?" ++ " bad-op")
    loop h

def main : IO Unit := do loop (← IO.getStdin)
