/-
Driver for the span-accumulator model: `lake env lean --run Driver/Spans.lean < cases`.
Blocks (`case <id>` … `end`):
  op spans / n <N> / tree <left q> <right q> <T> <d_0> … <d_{N-1}>   (d = -1: absent)
                   / flush <u> …      (the flush set of the transition to the next `tree` line)
                   / tree … / flush … / tree …
      -> `<id> b <u> <T> <k> <q> … s <u> <q> …`   buckets and node spans (Rat), distinct keys in log order
  op mix / group <w q> <m q> <v q> <w> <m> <v> …   (one line per total-tips group)
      -> `<id> <mean q> <var q>`
  op rule / n <N> / ptree <T> <p_0> … <p_{N-1}> (parent of each node in the tree, -1 = none)
                 / inprev <b_0> … <b_{N-1}>    (1 = node is in that tree), one ptree+inprev pair per tree
      -> `<id> f <u> … f <u> …`   the flush rule's node set (`ruleFlush`, deduplicated) for each transition
  op params / tab <T> <k> <mean q> <var q> (one line per table row used)
            / node g <T> <k> <w q> <k> <w q> … g <T> …   (one line per node, in the code's loop order; `g` starts a
              total-tips group of `get_spans(node)`)
      -> `<id> <alpha q> <beta q> …`   `mixtureParams` with the gamma moment matching (`gamma_approx`), incl. the cache
Anything malformed (wrong arity, trees/flush lines not alternating, zero total weight) -> `<id> bad-op`.
-/
import TsdateVerif.Model.Spans
import TsdateVerif.Model.Coalescent
import TsdateVerif.Model.Proto
open Tsdate Tsdate.Proto Tsdate.Spans

def parseDesc (s : String) : Option (Option Nat) :=
  if s = "-1" then some none else (s.toNat?).map some

def parseTree (N : Nat) (ws : List String) : Option (TreeRec Rat) :=
  match ws with
  | l :: r :: t :: ds => do
    let l ← parseRat l
    let r ← parseRat r
    let t ← t.toNat?
    let ds ← mapAll parseDesc ds
    if ds.length ≠ N then none
    pure { left := l, right := r, total := t, desc := ds.toArray }
  | _ => none

/-- `tree` and `flush` lines must alternate, starting and ending with a tree. -/
def parseTrees (N : Nat) : List (List String) → Option (TreeRec Rat × List (List Nat × TreeRec Rat))
  | ("tree" :: ws) :: more => do
    let first ← parseTree N ws
    let rec rest : List (List String) → Option (List (List Nat × TreeRec Rat))
      | [] => some []
      | ("flush" :: us) :: ("tree" :: ws) :: more => do
        let F ← mapAll String.toNat? us
        let t ← parseTree N ws
        let r ← rest more
        pure ((F, t) :: r)
      | _ => none
    let r ← rest more
    pure (first, r)
  | _ => none

def triples : List Rat → Option (List (Rat × Rat × Rat))
  | [] => some []
  | w :: m :: v :: more => (triples more).map (fun r => (w, m, v) :: r)
  | _ => none

/-- `g a b g c` ↦ `[[a, b], [c]]` -/
def splitOnG (ws : List String) : List (List String) :=
  let r := ws.foldl (fun (acc : List (List String)) w =>
    if w = "g" then [] :: acc
    else match acc with
      | [] => [[w]]
      | g :: gs => (g ++ [w]) :: gs) []
  r.reverse

def runCase (blk : List (List String)) : Option String := do
  let id ← (← field blk "case").head?
  let op ← (← field blk "op").head?
  match op with
  | "spans" =>
    let N ← (← (← field blk "n").head?).toNat?
    let lines := blk.filter (fun l => l.head? = some "tree" ∨ l.head? = some "flush")
    let (first, rest) ← parseTrees N lines
    let log := (accumulate N first rest).log
    let keys := (log.map (fun e => (e.node, e.total, e.k))).eraseDups
    let nodes := (log.map (fun e => e.node)).eraseDups
    let bs := keys.map (fun (u, T, k) => s!"b {u} {T} {k} {ratToString (bucket log u T k)}")
    let ss := nodes.map (fun u => s!"s {u} {ratToString (nodeSpan log u)}")
    pure (id ++ " " ++ " ".intercalate (bs ++ ss))
  | "rule" =>
    let N ← (← (← field blk "n").head?).toNat?
    let pts ← mapAll (fun (l : List String) => match l with
      | _ :: t :: ps => do
        let t ← t.toNat?
        let ps ← mapAll parseDesc ps
        if ps.length ≠ N then none
        pure (t, ps.toArray)
      | _ => none) (blk.filter (fun l => l.head? = some "ptree"))
    let ins ← mapAll (fun (l : List String) => do
      let bs ← mapAll (fun w => if w = "1" then some true else if w = "0" then some false else none) l.tail
      if bs.length ≠ N then none
      pure bs.toArray) (blk.filter (fun l => l.head? = some "inprev"))
    if pts.length ≠ ins.length ∨ pts.length = 0 then none
    let trees := pts.zip ins
    let pairs := trees.zip trees.tail
    let outs := pairs.map (fun (a, b) =>
      let fl := (ruleFlush N a.1.2 b.1.2 a.1.1 b.1.1 (fun u => a.2[u]!)).eraseDups
      "f " ++ " ".intercalate (fl.map toString))
    pure (id ++ " " ++ " ".intercalate outs)
  | "params" =>
    let tab ← mapAll (fun (l : List String) => match l with
      | [_, t, k, m, v] => do pure ((← t.toNat?, ← k.toNat?), (← parseRat m, ← parseRat v))
      | _ => none) (blk.filter (fun l => l.head? = some "tab"))
    let table : Nat → Nat → Rat × Rat := fun T k => (tab.lookup (T, k)).getD (0, 0)
    let rec comps : List String → Option (List (Nat × Rat))
      | [] => some []
      | k :: w :: more => do
        let k ← k.toNat?
        let w ← parseRat w
        let r ← comps more
        pure ((k, w) :: r)
      | _ => none
    let parseNode (ws : List String) : Option (NodeRecs Rat) :=
      mapAll (fun (g : List String) => match g with
        | t :: cs => do
          let t ← t.toNat?
          let cs ← comps cs
          if cs.any (fun c => (tab.lookup (t, c.1)).isNone) then none
          pure (t, cs)
        | [] => none) (splitOnG ws)
    let nodes ← mapAll (fun (l : List String) => parseNode l.tail) (blk.filter (fun l => l.head? = some "node"))
    let out := mixtureParams (fun m v => Coalescent.gammaApprox m v) table nodes
    pure (id ++ " " ++ " ".intercalate (out.map (fun p => ratToString p.1 ++ " " ++ ratToString p.2)))
  | "mix" =>
    let glines := (blk.filter (fun l => l.head? = some "group")).map List.tail
    let groups ← mapAll (fun ws => do let qs ← mapAll parseRat ws; triples qs) glines
    let W : Rat := (groups.flatten.map (fun x => x.1)).foldl (· + ·) 0
    if W = 0 then none
    let r := mixtureMoments groups
    pure (id ++ " " ++ ratToString r.1 ++ " " ++ ratToString r.2)
  | _ => none

partial def loop (h : IO.FS.Stream) : IO Unit := do
  match ← readBlock h with
  | none => return ()
  | some blk =>
    match runCase blk with
    | some s => IO.println s
    | none => IO.println (((field blk "case").bind List.head?).getD "?" ++ " bad-op")
    loop h

def main : IO Unit := do loop (← IO.getStdin)
