/-
Driver for the cache file-system model: `lake env lean --run Driver/CacheFS.lean < cases`.

Blocks (one per case, terminated by `end`):

  case <id>
  kind run            -- execute a traced, globally ordered operation sequence of several writers
  final <path>
  content <hex>       -- the complete encoding every writer is supposed to install
  init absent|<hex>   -- initial content of the cache name
  tmp <w> <path>      -- writer w's temp path (one line per writer, w = 0,1,…)
  op <w> createTemp <p> | openTrunc <p> | append <p> <hex> | flush <p> | rename <s> <d> | remove <p>
                      -- in the order the operations were observed (this order is the schedule)
  op <w> look         -- a look of the reader (isfile / read / genfromtxt) at the cache name
  reply: <id> safe=<b,b,…> atomic=<b,b,…> distinct=<b> final=<hex|absent> tmps=<hex|absent,…>
         looks=<k> explooks=<k> read=none|some:<rows>      (`readCache` on the first three looks)
         (safe = `safeOps` on each writer's list; atomic = `atomicShape … = some content`)

  kind enum1          -- one writer's complete program: every crash cut (`crashCuts`), run alone
  (final/content/init/tmp 0/op 0 … as above)
  reply: <id> cuts=<n> absent=<n> init=<n> complete=<n> other=<n> readnone=<n> readexact=<n> readwrong=<n> first=<cut index|->
         (`other` = the cache name holds something that is neither its initial content nor `content`;
          read* = result of the validating reader on the cache name, n rows from `n <k>`)

  kind enum2          -- two writers' complete programs: every interleaving, every prefix of it
  reply: <id> scheds=<n> states=<n> other=<n> readwrong=<n> first=<schedule prefix as 0/1 digits|->

  kind reader         -- the validating reader on every prefix of a byte string
  bytes <hex> ; n <k>
  reply: <id> formatok=<b> rows=<m> accepted=<k1,k2,…> wrong=<k1,…>
         (accepted = prefix lengths at which `reader` returns the full file's rows; wrong = returns
          something else — impossible by `reader_validates` when formatok)

  kind read1          -- the validating reader on one byte string
  bytes <hex> ; n <k>
  reply: <id> none | <id> some <rows as hex tokens: tok,tok;tok,tok;…>

Row type in the driver: the row's text (`ρ = Bytes`, `fmt = id`, `parseRow = some`), valid = exactly
two blank-separated fields, each with the syntax of a finite decimal float.  The numeric value of a
field is the harness's business (`float()`), compared bit-for-bit there.
-/
import TsdateVerif.Model.CacheFS
import TsdateVerif.Model.Proto
open Tsdate Tsdate.Proto Tsdate.CacheFS

def NL : Nat := 10
def HASH : Nat := 35
/-- "# end of tsdate prior cache" is sent by the harness (read from tsdate.prior at run time). -/

def hexToBytes (s : String) : Option Bytes :=
  let cs := s.toList
  let rec go : List Char → Option Bytes
    | [] => some []
    | a :: b :: rest => do
      let x ← hexDigit a
      let y ← hexDigit b
      let r ← go rest
      pure ((x * 16 + y).toNat :: r)
    | _ => none
  if s = "-" then some [] else go cs

def bytesToHex (b : Bytes) : String :=
  if b = [] then "-" else
  let digs := "0123456789abcdef".toList.toArray
  String.ofList (b.flatMap (fun x => [digs[(x / 16) % 16]!, digs[x % 16]!]))

def optHex : Option Bytes → String
  | none => "absent"
  | some b => bytesToHex b

def b2s (b : Bool) : String := if b then "1" else "0"

/-- Syntax of a finite decimal float: [sign] digits [. digits] [(e|E) [sign] digits], or [sign] . digits … -/
def isDigit (c : Nat) : Bool := 48 ≤ c && c ≤ 57
def finiteFloatSyntax (t : Bytes) : Bool :=
  let t1 := match t with | c :: r => if c = 43 ∨ c = 45 then r else t | [] => t
  let ip := t1.takeWhile isDigit
  let r1 := t1.dropWhile isDigit
  let (fp, r2, hadDot) := match r1 with
    | 46 :: r => (r.takeWhile isDigit, r.dropWhile isDigit, true)
    | _ => ([], r1, false)
  let mantOK := (ip ≠ [] ∨ fp ≠ []) ∧ (hadDot → True)
  let expOK := match r2 with
    | [] => true
    | c :: r =>
      if c = 101 ∨ c = 69 then
        let r' := match r with | s :: q => if s = 43 ∨ s = 45 then q else r | [] => r
        r' ≠ [] && r'.all isDigit
      else false
  decide mantOK && expOK

def validRow (r : Bytes) : Bool :=
  let ts := tokens r
  ts.length == 2 && ts.all finiteFloatSyntax

def rdr (footer : Bytes) (n : Nat) (t : Bytes) : Option (List Bytes) :=
  reader NL HASH footer (fun l => some l) validRow n t

def rowsToStr (rows : List Bytes) : String :=
  ";".intercalate (rows.map (fun r => ",".intercalate ((tokens r).map bytesToHex)))

/-- Decidable form of `FormatOK` + "the bytes are an encoding of their own data lines". -/
def formatOK (footer : Bytes) (t : Bytes) : Bool × List Bytes :=
  let rows := dataLines NL HASH t
  let ok := NL ≠ HASH ∧ rows.all (fun r => !r.contains NL && !r.contains HASH && r ≠ [])
    ∧ footer.head? = some HASH ∧ !footer.contains NL
    ∧ encode NL footer (fun (r : Bytes) => r) rows = t
  (decide ok, rows)

def parseOp (ws : List String) : Option (Nat × Option Op) := do
  match ws with
  | [w, "look"] => pure (← w.toNat?, none)
  | [w, "createTemp", p] => pure (← w.toNat?, some (.createTemp (← p.toNat?)))
  | [w, "openTrunc", p] => pure (← w.toNat?, some (.openTrunc (← p.toNat?)))
  | [w, "append", p, h] => pure (← w.toNat?, some (.append (← p.toNat?) (← hexToBytes h)))
  | [w, "flush", p] => pure (← w.toNat?, some (.flush (← p.toNat?)))
  | [w, "rename", s, d] => pure (← w.toNat?, some (.rename (← s.toNat?) (← d.toNat?)))
  | [w, "remove", p] => pure (← w.toNat?, some (.remove (← p.toNat?)))
  | _ => none

structure Case where
  id : String
  kind : String
  final : Nat
  content : Bytes
  init : Option Bytes
  tmps : List Nat            -- index = writer
  ops : List (Nat × Option Op)      -- global order; `none` = a look of the reader
  bytes : Bytes
  n : Nat
  footer : Bytes

def parseCase (blk : List (List String)) : Option Case := do
  let id ← (← field blk "case").head?
  let kind ← (← field blk "kind").head?
  let final := ((field blk "final").bind List.head?).bind String.toNat? |>.getD 0
  let content ← match (field blk "content").bind List.head? with
    | some h => hexToBytes h
    | none => some []
  let init ← match (field blk "init").bind List.head? with
    | some "absent" => some none
    | some h => (hexToBytes h).map some
    | none => some none
  let tmpLines := blk.filter (fun l => l.head? = some "tmp")
  let tmps ← Proto.mapAll (fun l => match l with | [_, _, p] => p.toNat? | _ => none) tmpLines
  let opLines := blk.filter (fun l => l.head? = some "op")
  let ops ← Proto.mapAll (fun l => parseOp l.tail) opLines
  let bytes ← match (field blk "bytes").bind List.head? with
    | some h => hexToBytes h
    | none => some []
  let n := ((field blk "n").bind List.head?).bind String.toNat? |>.getD 0
  let footer ← match (field blk "footer").bind List.head? with
    | some h => hexToBytes h
    | none => some []
  pure { id, kind, final, content, init, tmps, ops, bytes, n, footer }

def writerOps (c : Case) (w : Nat) : List Op := (c.ops.filter (·.1 = w)).filterMap (·.2)

def initFS (c : Case) : FS := FS.empty.set c.final c.init

def pairwiseDistinct : List Nat → Bool
  | [] => true
  | x :: xs => !xs.contains x && pairwiseDistinct xs

def classify (c : Case) (v : Option Bytes) : String :=
  if v = none then "absent" else if v = some c.content then "complete"
  else if v = c.init then "init" else "other"

def readClass (c : Case) (v : Option Bytes) : String :=
  match v with
  | none => "none"
  | some t =>
    match rdr c.footer c.n t, rdr c.footer c.n c.content with
    | none, _ => "none"
    | some r, some r0 => if r = r0 then "exact" else "wrong"
    | some _, none => "wrong"

def runKindRun (c : Case) : String :=
  let nw := c.tmps.length
  let progs := (List.range nw).map (writerOps c)
  let s0 : State Nat := { fs := initFS c, rem := fun i => progs.getD i [] }
  -- walk the global order; a look records the cache name's content at that moment
  let (s, looksRev) := c.ops.foldl (fun (acc : State Nat × List (Option Bytes)) e =>
    match e.2 with
    | some _ => (stepW acc.1 e.1, acc.2)
    | none => (acc.1, acc.1.fs c.final :: acc.2)) (s0, [])
  let looks := looksRev.reverse
  let v0 := looks.getD 0 none
  let v1 := looks.getD 1 none
  let v2 := looks.getD 2 none
  let rd := readCache NL HASH c.footer (fun l => some l) validRow c.n v0 v1 v2
  let expLooks : Nat := if v0 = none then 1 else
    match v1 with
    | none => 2
    | some t1 => if lastLine NL t1 = some c.footer then 3 else 2
  let safe := (List.range nw).map (fun i =>
    safeOps (c.tmps.getD i 0) c.final c.content ((initFS c) (c.tmps.getD i 0)) (progs.getD i []))
  let atomic := (List.range nw).map (fun i =>
    atomicShape (c.tmps.getD i 0) c.final (progs.getD i []) == some c.content)
  let distinct := pairwiseDistinct (c.final :: c.tmps)
  s!"{c.id} safe={",".intercalate (safe.map b2s)} atomic={",".intercalate (atomic.map b2s)} " ++
  s!"distinct={b2s distinct} final={optHex (s.fs c.final)} " ++
  s!"tmps={",".intercalate (c.tmps.map (fun p => optHex (s.fs p)))} " ++
  s!"looks={looks.length} explooks={expLooks} " ++
  s!"read={match rd with | none => "none" | some rows => "some:" ++ rowsToStr rows}"

def runKindEnum1 (c : Case) : String :=
  let prog := writerOps c 0
  let cuts := crashCuts prog
  let res := cuts.map (fun w => (runOps (initFS c) w) c.final)
  let cls := res.map (classify c)
  let rcls := res.map (readClass c)
  let count (l : List String) (k : String) := (l.filter (· = k)).length
  let firstBad := ((List.range cuts.length).zip (cls.zip rcls)).find?
    (fun x => x.2.1 = "other" ∨ x.2.2 = "wrong")
  s!"{c.id} cuts={cuts.length} absent={count cls "absent"} init={count cls "init"} " ++
  s!"complete={count cls "complete"} other={count cls "other"} readnone={count rcls "none"} " ++
  s!"readexact={count rcls "exact"} readwrong={count rcls "wrong"} " ++
  s!"first={match firstBad with | some x => toString x.1 | none => "-"}"

def runKindEnum2 (c : Case) : String :=
  let p0 := writerOps c 0
  let p1 := writerOps c 1
  let scheds := interleavings (p0.map (fun _ => 0)) (p1.map (fun _ => 1))
  let s0 : State Nat := { fs := initFS c, rem := fun i => if i = 0 then p0 else if i = 1 then p1 else [] }
  -- walk each schedule, looking at every intermediate state
  let walk (sched : List Nat) : Nat × Nat × Nat × Option (List Nat) :=
    let rec go (s : State Nat) (done : List Nat) : List Nat → Nat × Nat × Nat × Option (List Nat)
      | [] => (0, 0, 0, none)
      | i :: rest =>
        let s' := stepW s i
        let done' := i :: done
        let v := s'.fs c.final
        let o := if classify c v = "other" then 1 else 0
        let w := if readClass c v = "wrong" then 1 else 0
        let (n, o', w', f) := go s' done' rest
        let f' := if o + w > 0 then some done'.reverse else f
        (n + 1, o + o', w + w', f')
    go s0 [] sched
  let tot := scheds.foldl (fun (acc : Nat × Nat × Nat × Option (List Nat)) sc =>
    let (n, o, w, f) := walk sc
    (acc.1 + n, acc.2.1 + o, acc.2.2.1 + w, match acc.2.2.2 with | some x => some x | none => f))
    (0, 0, 0, none)
  s!"{c.id} scheds={scheds.length} states={tot.1} other={tot.2.1} readwrong={tot.2.2.1} " ++
  s!"first={match tot.2.2.2 with | some l => String.join (l.map toString) | none => "-"}"

def runKindReader (c : Case) : String :=
  let (ok, rows) := formatOK c.footer c.bytes
  let full := rdr c.footer c.n c.bytes
  let ks := List.range (c.bytes.length + 1)
  let res := ks.map (fun k => (k, rdr c.footer c.n (c.bytes.take k)))
  let accepted := res.filter (fun x => x.2.isSome ∧ x.2 = full)
  let wrong := res.filter (fun x => x.2.isSome ∧ x.2 ≠ full)
  s!"{c.id} formatok={b2s ok} rows={rows.length} " ++
  s!"accepted={",".intercalate (accepted.map (fun x => toString x.1))} " ++
  s!"wrong={",".intercalate (wrong.map (fun x => toString x.1))}"

def runKindRead1 (c : Case) : String :=
  match rdr c.footer c.n c.bytes with
  | none => s!"{c.id} none"
  | some rows => s!"{c.id} some {rowsToStr rows}"

def runCase (blk : List (List String)) : Option String := do
  let c ← parseCase blk
  match c.kind with
  | "run" => pure (runKindRun c)
  | "enum1" => pure (runKindEnum1 c)
  | "enum2" => pure (runKindEnum2 c)
  | "reader" => pure (runKindReader c)
  | "read1" => pure (runKindRead1 c)
  | _ => none

partial def loop (h : IO.FS.Stream) : IO Unit := do
  match ← readBlock h with
  | none => return ()
  | some blk =>
    match runCase blk with
    | some s => IO.println s
    | none => IO.println (((field blk "case").bind List.head?).getD "?" ++ " bad-op")
    loop h

def main : IO Unit := do loop (← IO.getStdin)
