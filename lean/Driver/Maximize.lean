/-
Driver for the `outside_maximization` model: `lake env lean --run Driver/Maximize.lean < cases`.
Block format (one per case):
  case <id>
  space lin|log            probability space (combine/ratio = * / or + -)
  carrier f|q              numbers as 64-bit hex floats or exact rationals num/den
  n <num_nodes>
  G <grid size>
  fixed <0|1>...           one flag per node
  order p c id p c id ...  the edges in the order the grouped iterator yields them
  inside <u> <v_0> ... <v_{G-1}>          one line per non-fixed node
  lik <edge id> <values>                  lower-triangular table: for k in 0..G-1, for t in 0..k:
                                          likelihood of the edge with parent at index k, child at t
  end
Reply: `<id> ok <idx_0> ... <idx_{n-1}> hyp <validOrder> <constsPositive>` or `<id> bad-op`.
-/
import TsdateVerif.Model.Maximize
import TsdateVerif.Model.Proto
open Tsdate Tsdate.Proto Tsdate.Maximize

def fieldsAll (blk : List (List String)) (key : String) : List (List String) :=
  (blk.filter (fun l => l.head? = some key)).map List.tail

def triples : List Nat → Option (List MEdge)
  | [] => some []
  | p :: c :: i :: rest => (triples rest).map (fun es => { p := p, c := c, id := i } :: es)
  | _ => none

def runWith {α : Type} [Inhabited α] [LT α] [DecidableLT α] (parse : String → Option α)
    (ops : Ops α) (zero : α) (needPos : Bool) (blk : List (List String)) (id : String) :
    Option String := do
  let n ← (← (← field blk "n").head?).toNat?
  let G ← (← (← field blk "G").head?).toNat?
  let fixed ← mapAll (fun s => if s = "1" then some true else if s = "0" then some false else none)
    (← field blk "fixed")
  let es ← triples (← mapAll String.toNat? (← field blk "order"))
  if fixed.length ≠ n then none
  if es.any (fun e => e.p ≥ n ∨ e.c ≥ n) then none
  let numE := es.foldl (fun m e => max m (e.id + 1)) 0
  let mut insideArr : Array (List α) := Array.replicate n []
  for l in fieldsAll blk "inside" do
    let u ← (← l.head?).toNat?
    let vs ← mapAll parse l.tail
    if vs.length ≠ G ∨ u ≥ n then none
    insideArr := insideArr.set! u vs
  let mut likArr : Array (Array α) := Array.replicate numE #[]
  for l in fieldsAll blk "lik" do
    let e ← (← l.head?).toNat?
    let vs ← mapAll parse l.tail
    if vs.length ≠ G * (G + 1) / 2 ∨ e ≥ numE then none
    likArr := likArr.set! e vs.toArray
  let fixedArr := fixed.toArray
  -- every non-fixed node needs its inside row, every edge into a non-fixed child its table
  if (List.range n).any (fun u => !(fixedArr[u]!) && (insideArr[u]!).length ≠ G) then none
  if es.any (fun e => !(fixedArr[e.c]!) && (likArr[e.id]!).size = 0) then none
  let inp : Inp α := {
    n := n
    fixed := fun u => fixedArr.getD u false
    inside := fun u => insideArr.getD u []
    lik := fun e k t => if t ≤ k then aget (aget likArr e.id) (k * (k + 1) / 2 + t) else default }
  let out := maximize ops inp es
  let hypOrder := validOrderB es
  let idx := aget out
  let hypPos := !needPos || (Order.runsBy (·.c) es).all (fun g =>
    match g with
    | [] => true
    | e0 :: rest => inp.fixed e0.c || (groupConsts inp idx e0 rest).all (fun m => zero < m))
  pure (id ++ " ok " ++ " ".intercalate (out.toList.map toString) ++ " hyp "
    ++ (if hypOrder then "1" else "0") ++ " " ++ (if hypPos then "1" else "0"))

def runCase (blk : List (List String)) : Option String := do
  let id ← (← field blk "case").head?
  let space ← (← field blk "space").head?
  let carrier ← (← field blk "carrier").head?
  match carrier, space with
  | "f", "lin" => runWith hexToFloat (linOps : Ops Float) 0.0 true blk id
  | "f", "log" => runWith hexToFloat (logOps : Ops Float) 0.0 false blk id
  | "q", "lin" => runWith parseRat (linOps : Ops Rat) 0 true blk id
  | "q", "log" => runWith parseRat (logOps : Ops Rat) 0 false blk id
  | _, _ => none

partial def loop (h : IO.FS.Stream) : IO Unit := do
  match ← readBlock h with
  | none => return ()
  | some blk =>
    match runCase blk with
    | some s => IO.println s
    | none => IO.println (((field blk "case").bind List.head?).getD "?" ++ " bad-op")
    loop h

def main : IO Unit := do loop (← IO.getStdin)
