/-
Driver for Model/LikCache.lean: `lake env lean --run Driver/LikCache.lean < cases`.

  case <id>
  kind cache
  edge <key> <0|1>        -- one line per edge in table order: key = "<muts>:<span bits hex>", 1 = child is fixed
  val <key> <digest>      -- the value of the parameter `lik` at that key (digest of the real pmf vector)
  order <key> <key> …     -- completion order (may be given several times: one reply line part per order)
  positional 1            -- (optional) use the positional gather instead
  end
  reply: <id> <key>=<digest|None>;<key>=…  |  … one `|`-separated cache per `order` line

  case <id>
  kind force
  space lin|log
  data <hex64> …          -- -inf (fff0000000000000) in log space is the model's `none`
  seq lin log lin …       -- successive force_probability_space targets
  end
  reply: <id> <space> <hex64> …
-/
import TsdateVerif.Model.LikCache
import TsdateVerif.Model.Proto
open Tsdate Tsdate.Proto Tsdate.LikCache

def negInf : Float := Float.ofBits 0xfff0000000000000

instance : OfNat Float 0 := ⟨0.0⟩

def decFloat (s : String) : Option (Option Float) :=
  (hexToFloat s).map (fun x => if x == negInf then none else some x)

def encFloat : Option Float → String
  | none => floatToHex negInf
  | some x => floatToHex x

def pSpace : String → Option Space
  | "lin" => some .lin | "log" => some .log | _ => none

/-- The model's `force` at `Float`: zero test `x == 0.0`, `Float.log`, `Float.exp`. -/
def forceF (target : Space) (g : Grid Float) : Grid Float :=
  force (fun x => x == 0.0) Float.log Float.exp target g

def showCache (c : Cache String String) : String :=
  ";".intercalate (c.map (fun e => e.1 ++ "=" ++ (e.2.getD "None")))

def runCase (blk : List (List String)) : Option String := do
  let id ← (← field blk "case").head?
  let kind ← (← field blk "kind").head?
  if kind = "cache" then
    let edges ← Proto.mapAll (fun l => match l with
      | [_, k, "0"] => some (k, false) | [_, k, "1"] => some (k, true) | _ => none)
      (blk.filter (fun l => l.head? = some "edge"))
    let vals := (blk.filter (fun l => l.head? = some "val")).filterMap (fun l => match l with
      | [_, k, d] => some (k, d) | _ => none)
    let lik : String → String := fun k => ((vals.find? (·.1 = k)).map (·.2)).getD "?"
    let orders := (blk.filter (fun l => l.head? = some "order")).map List.tail
    let positional := (field blk "positional") = some ["1"]
    let outs := orders.map (fun o =>
      showCache (if positional then precalculatePositional lik edges o else precalculate lik edges o))
    pure (id ++ " " ++ " | ".intercalate outs)
  else if kind = "force" then
    let sp ← pSpace (← (← field blk "space").head?)
    let data ← Proto.mapAll decFloat (← field blk "data")
    let seq ← Proto.mapAll pSpace (← field blk "seq")
    let g := seq.foldl (fun g t => forceF t g) { space := sp, data := data }
    pure (id ++ " " ++ (if g.space = .lin then "lin" else "log") ++ " " ++ " ".intercalate (g.data.map encFloat))
  else none

partial def loop (h : IO.FS.Stream) : IO Unit := do
  match ← readBlock h with
  | none => return ()
  | some blk =>
    match runCase blk with
    | some s => IO.println s
    | none => IO.println (((field blk "case").bind List.head?).getD "?" ++ " bad-op")
    loop h

def main : IO Unit := do loop (← IO.getStdin)
