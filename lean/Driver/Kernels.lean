/-
Driver for the translated scalar kernels (Gen/Kernels.lean) and the hand models of the special-function
helpers (Model/Special.lean): `lake env lean --run Driver/Kernels.lean < cases`.

One case per line:
  k <id> <python name> <hex64>... [| <x> <lgamma x> ...]
                                       translated kernel on a flat list of doubles (2-vectors flattened); after `|`
                                       an oracle table for lgamma (bit patterns), computed by the harness with
                                       numba's `math.lgamma` on the arguments the Python kernel passes to it
  lg <id> <hex64>                      the driver's own lgamma (so that the harness can measure it)
  dg <id> <hex64> / tg <id> <hex64>    Model/Special `digamma` / `trigamma` with the literals of Gen/Consts (`*_f64`)
  kl <id> <x> <logx>                   Model/Special `approxGammaKL` (digamma/trigamma as above)
                                       reply `<id> ok <shape-1> <rate>` | `<id> fail <reason>`
  iqr <id> <q1> <q2> <x1> <x2> <cap> | gi <a> <q> <v> ... | gd <p> <x> <v> ... | lg <x> <v> ...
                                       Model/Special `approxGammaIQR`; `gammaincinv`, `_gammainc_der`, `lgamma` answered
                                       from the oracle tables (a miss yields NaN); same reply format as `kl`
Reply: `<id> <pre: 0|1> <hex64 | nan>...`   (`nan` = the model returns `none` in that position)
       `<id> bad-op` for an unknown kernel / wrong arity.

Special functions at Float: `Float.exp/log/sqrt` (libm, as numba) and `isFinite`.  `lgamma` is not in Lean's
`Float` API: it is answered from the per-case oracle table (exact bit patterns of numba's `math.lgamma`); an argument
missing from the table falls back to the driver's own Stirling-series implementation (shifted to x ≥ 16,
measured against `math.lgamma` by the harness on every run) and the reply is flagged `2` instead of `1` so that
the harness compares that case with a tolerance instead of bit-for-bit.
-/
import TsdateVerif.Gen.KernelsRun
import TsdateVerif.Gen.Consts
import TsdateVerif.Model.Special
import TsdateVerif.Model.Proto
open Tsdate Tsdate.Proto Tsdate.Kernels

/-- ln Γ(x) for x > 0 (NaN otherwise): recurrence up to x ≥ 16, then the Stirling series. -/
def lgammaF (x : Float) : Float :=
  if !(x > 0.0) then (0.0 / 0.0) else
  if x.isInf then x else
  -- shift
  let rec go (fuel : Nat) (x : Float) (acc : Float) (corr : Float) : Float × Float × Float :=
    match fuel with
    | 0 => (x, acc, corr)
    | fuel + 1 =>
      if x < 16.0 then
        -- accumulate the product; fold it into `corr` (a sum of logs) before it can overflow
        let acc' := acc * x
        if acc' > 1e250 then go fuel (x + 1.0) 1.0 (corr + Float.log acc') else go fuel (x + 1.0) acc' corr
      else (x, acc, corr)
  let (y, prod, corr) := go 20 x 1.0 0.0
  let r := 1.0 / y
  let r2 := r * r
  let series := r * (1.0 / 12.0 + r2 * (-1.0 / 360.0 + r2 * (1.0 / 1260.0 + r2 * (-1.0 / 1680.0
    + r2 * (1.0 / 1188.0 + r2 * (-691.0 / 360360.0 + r2 * (1.0 / 156.0)))))))
  let halfLog2Pi := 0.91893853320467274178
  let st := (y - 0.5) * Float.log y - y + halfLog2Pi + series
  st - Float.log prod - corr

def lookup (tab : List (UInt64 × Float)) (x : Float) : Option Float :=
  (tab.find? (fun p => p.1 == x.toBits)).map (·.2)

/-- lgamma from the table; a miss is answered by `lgammaF`. -/
def specF (tab : List (UInt64 × Float)) : SpecFns Float :=
  { exp := Float.exp, log := Float.log, sqrt := Float.sqrt,
    lgamma := fun x => (lookup tab x).getD (lgammaF x), isFinite := Float.isFinite }

/-- Same, but a miss yields NaN: used to detect whether any output depended on a missing entry. -/
def specStrict (tab : List (UInt64 × Float)) : SpecFns Float :=
  { exp := Float.exp, log := Float.log, sqrt := Float.sqrt,
    lgamma := fun x => (lookup tab x).getD (0.0 / 0.0), isFinite := Float.isFinite }

def pairs : List String → Option (List (UInt64 × Float))
  | [] => some []
  | x :: v :: rest => do
    let xb ← hexToU64 x
    let vf ← hexToFloat v
    let r ← pairs rest
    pure ((xb, vf) :: r)
  | _ => none

/-- exact for the dyadic rationals of `Gen/Consts` (`*_f64`) and for quotients of exactly representable integers -/
def ratToFloat (q : Rat) : Float := Float.ofInt q.num / Float.ofNat q.den

def nthD (xs : List Rat) (i : Nat) : Float := ratToFloat (xs.getD i 0)

open Tsdate.Gen.Consts in
def digammaC : DigammaConsts Float :=
  { c0 := nthD hypergeo.digamma_cutoffs_f64 0, c1 := nthD hypergeo.digamma_cutoffs_f64 1,
    c2 := nthD hypergeo.digamma_cutoffs_f64 2, eulerGamma := ratToFloat hypergeo.euler_gamma_f64,
    inv := ratToFloat hypergeo.digamma_inv_f64, cs := hypergeo.digamma_series_f64.map ratToFloat }

open Tsdate.Gen.Consts in
def trigammaC : TrigammaConsts Float :=
  { c0 := nthD hypergeo.trigamma_cutoffs_f64 0, c1 := nthD hypergeo.trigamma_cutoffs_f64 1,
    c2 := nthD hypergeo.trigamma_cutoffs_f64 2, lead := ratToFloat hypergeo.trigamma_lead_f64,
    half := ratToFloat hypergeo.trigamma_half_f64, cs := hypergeo.trigamma_series_f64.map ratToFloat }

def nanF : Float := 0.0 / 0.0
def digammaF (x : Float) : Float := (digamma (specF []) digammaC 40 x).getD nanF
/-- `np.power(xpm2, k)` is libm `pow` -/
def trigammaF (x : Float) : Float := (trigamma (fun p k => Float.pow p (Float.ofNat k)) trigammaC 40 x).getD nanF

open Tsdate.Gen.Consts in
def klF : KLFns Float :=
  { log := Float.log, digamma := digammaF, trigamma := trigammaF, isFinite := Float.isFinite, isInf := Float.isInf,
    reltol := ratToFloat approx._KLMIN_RELTOL, maxitt := approx._KLMIN_MAXITT.num.toNat,
    asym := ratToFloat approx.approximate_gamma_kl.asym_cutoff }

def showFit : Fit Float → String
  | .ok s r => "ok " ++ floatToHex s ++ " " ++ floatToHex r
  | .fail why => "fail " ++ why

def triples : List String → Option (List (UInt64 × UInt64 × Float))
  | [] => some []
  | a :: b :: v :: rest => do
    let ab ← hexToU64 a
    let bb ← hexToU64 b
    let vf ← hexToFloat v
    let r ← triples rest
    pure ((ab, bb, vf) :: r)
  | _ => none

def lookup2 (tab : List (UInt64 × UInt64 × Float)) (a b : Float) : Float :=
  ((tab.find? (fun p => p.1 == a.toBits && p.2.1 == b.toBits)).map (·.2.2)).getD nanF

/-- split `ws` at the `|` separators -/
def sections (ws : List String) : List (List String) :=
  ws.foldr (fun w acc => if w = "|" then [] :: acc else match acc with
    | [] => [[w]]
    | h :: t => (w :: h) :: t) [[]]

open Tsdate.Gen.Consts in
def iqrF (gi gd : List (UInt64 × UInt64 × Float)) (lg : List (UInt64 × Float)) : IQRFns Float :=
  { log := Float.log, exp := Float.exp, lgamma := fun x => (lookup lg x).getD nanF,
    gammaincInv := lookup2 gi, gammaincDer := lookup2 gd,
    reltol := ratToFloat approx._KLMIN_RELTOL, maxitt := approx._KLMIN_MAXITT.num.toNat }

def runIqr (id : String) (secs : List (List String)) : Option String := do
  let args ← mapAll hexToFloat (secs.headD [])
  let find (k : String) : List String := ((secs.find? (fun s => s.head? = some k)).getD []).drop 1
  let gi ← triples (find "gi")
  let gd ← triples (find "gd")
  let lg ← pairs (find "lg")
  match args with
  | [q1, q2, x1, x2, cap] => pure (id ++ " " ++ showFit (approxGammaIQR (iqrF gi gd lg) q1 q2 x1 x2 cap))
  | _ => none

def showOut (o : Option Float) : String :=
  match o with
  | none => "nan"
  | some x => floatToHex x

def runLine (ws : List String) : Option String :=
  match ws with
  | "k" :: id :: name :: rest => do
    let args := rest.takeWhile (· ≠ "|")
    let tab ← pairs ((rest.dropWhile (· ≠ "|")).drop 1)
    let xs ← mapAll hexToFloat args
    match Tsdate.Gen.KernelsRun.run (specF tab) name xs, Tsdate.Gen.KernelsRun.run (specStrict tab) name xs with
    | some (pre, outs), some (pre', outs') =>
      -- exact = the strict run (NaN on a table miss) gives the same bits, i.e. no miss influenced the reply
      let exact := pre == pre' && outs.map showOut == outs'.map showOut
      pure (id ++ " " ++ (if !pre then "0" else if exact then "1" else "2") ++ " "
        ++ " ".intercalate (outs.map showOut))
    | _, _ => pure (id ++ " bad-op")
  | ["lg", id, x] => do
    let v ← hexToFloat x
    pure (id ++ " 1 " ++ floatToHex (lgammaF v))
  | ["dg", id, x] => do
    let v ← hexToFloat x
    pure (id ++ " 1 " ++ floatToHex (digammaF v))
  | ["tg", id, x] => do
    let v ← hexToFloat x
    pure (id ++ " 1 " ++ floatToHex (trigammaF v))
  | "iqr" :: id :: rest => runIqr id (sections rest)
  | ["kl", id, x, lx] => do
    let v ← hexToFloat x
    let l ← hexToFloat lx
    pure (id ++ " " ++ showFit (approxGammaKL klF v l))
  | _ => none

partial def loop (h : IO.FS.Stream) : IO Unit := do
  let line ← h.getLine
  if line.isEmpty then return ()
  let ws := words line.trimAscii.toString
  if ws.isEmpty then loop h else
  match runLine ws with
  | some s => IO.println s
  | none => IO.println ((ws.getD 1 "?") ++ " bad-op")
  loop h

def main : IO Unit := do loop (← IO.getStdin)
