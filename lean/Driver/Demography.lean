/-
Driver for the `PopulationSizeHistory` model: `lake env lean --run Driver/Demography.lean < cases`.

Blocks (`num f` = IEEE doubles as 16 hex digits, `num q` = exact rationals `n/d`):
  case <id> / op ctm   / num f|q / bs .. / ms .. / ts .. / end
      -> `<id> nt .. | nb .. | nm ..`                      (`_change_time_measure`)
  case <id> / op hist  / num f|q / ps .. / tb .. / ts .. / cs .. / end
      -> `<id> tc .. | tn .. | cb .. | cr .. | d1 .. | d2 .. | rt 0|1`
         (to_coalescent(ts), to_natural(cs), stored arrays, as_dict(), does init(as_dict()) rebuild the same object)
  case <id> / op gamma / num f|q / ps .. / tb .. / rate r / C c / gam g0 g1 g2 / pw p0 p1 p2 /
       P0 .. / P1 .. / P2 .. / Pinf i0 i1 i2 / end          (P<k>: gammainc(shape+k, rate*cb_j) per coalescent break)
      -> `<id> g shape rate`
`<id> bad-op` when the real code's guard (ValueError / AssertionError) would fire.
-/
import TsdateVerif.Model.Demography
import TsdateVerif.Model.Proto
open Tsdate Tsdate.Proto Tsdate.Demography

structure Num (α : Type) where
  parse : String → Option α
  render : α → String
  eqv : α → α → Bool

def numF : Num Float := ⟨hexToFloat, floatToHex, fun a b => a.toBits == b.toBits⟩
def numQ : Num Rat := ⟨parseRat, ratToString, fun a b => a == b⟩

section
variable {α : Type} [Inhabited α] [Add α] [Sub α] [Mul α] [Div α] [OfNat α 0] [OfNat α 1] [OfNat α 2]
  [LE α] [DecidableLE α] [LT α] [DecidableLT α]

def listEq (N : Num α) : List α → List α → Bool
  | [], [] => true
  | a :: as, b :: bs => N.eqv a b && listEq N as bs
  | _, _ => false

def vals (N : Num α) (blk : List (List String)) (key : String) : Option (List α) :=
  (field blk key).bind (mapAll N.parse)

def render (N : Num α) (tag : String) (xs : List α) : String :=
  tag ++ " " ++ " ".intercalate (xs.map N.render)

def runOp (N : Num α) (blk : List (List String)) (op : String) : Option String := do
  match op with
  | "ctm" =>
    let bs ← vals N blk "bs"; let ms ← vals N blk "ms"; let ts ← vals N blk "ts"
    if !(ctmPre bs ms ts) then none
    let r := changeTimeMeasure ts bs ms
    pure (" | ".intercalate [render N "nt" r.1, render N "nb" r.2.1, render N "nm" r.2.2])
  | "hist" =>
    let ps ← vals N blk "ps"; let tb ← vals N blk "tb"
    let ts ← vals N blk "ts"; let cs ← vals N blk "cs"
    if !(initOk ps tb) then none
    if !(ts.all (fun t => decide (0 ≤ t)) && cs.all (fun t => decide (0 ≤ t))) then none
    let h := History.init ps tb
    let d := h.asDict
    let h2 := History.init d.1 d.2
    let same := initOk d.1 d.2 && listEq N h2.timeBreaks h.timeBreaks && listEq N h2.popSize2 h.popSize2
      && listEq N h2.coalBreaks h.coalBreaks && listEq N h2.coalRate h.coalRate
    pure (" | ".intercalate [render N "tc" (ts.map h.toCoalescent), render N "tn" (cs.map h.toNatural),
      render N "cb" h.coalBreaks, render N "cr" h.coalRate, render N "d1" d.1, render N "d2" d.2,
      "rt " ++ (if same then "1" else "0")])
  | "gamma" =>
    let ps ← vals N blk "ps"; let tb ← vals N blk "tb"
    if !(initOk ps tb) then none
    let rate ← (← vals N blk "rate").head?
    let c ← (← vals N blk "C").head?
    let gam ← vals N blk "gam"; let pw ← vals N blk "pw"; let pinf ← vals N blk "Pinf"
    let p0 ← vals N blk "P0"; let p1 ← vals N blk "P1"; let p2 ← vals N blk "P2"
    let h := History.init ps tb
    if gam.length ≠ 3 ∨ pw.length ≠ 3 ∨ pinf.length ≠ 3 then none
    if p0.length ≠ h.coalBreaks.length ∨ p1.length ≠ p0.length ∨ p2.length ≠ p0.length then none
    let keys := h.coalBreaks.map (fun x => rate * x)
    let table (k : Nat) : List (α × α) := keys.zip (if k = 0 then p0 else if k = 1 then p1 else p2)
    let F : GammaFns α := {
      C := c, gam := fun k => lget gam k, pw := fun k => lget pw k, Pinf := fun k => lget pinf k,
      P := fun k x => match (table k).find? (fun kv => N.eqv kv.1 x) with
        | some kv => kv.2
        | none => (0 : α) / 0 }
    let r := gammaToNatural F h rate
    pure (render N "g" [r.1, r.2])
  | _ => none

end

def runCase (blk : List (List String)) : Option String := do
  let id ← (← field blk "case").head?
  let op ← (← field blk "op").head?
  let num ← (← field blk "num").head?
  let body ← (if num = "f" then runOp numF blk op else if num = "q" then runOp numQ blk op else none)
  pure (id ++ " " ++ body)

partial def loop (h : IO.FS.Stream) : IO Unit := do
  match ← readBlock h with
  | none => return ()
  | some blk =>
    match runCase blk with
    | some s => IO.println s
    | none => IO.println (((field blk "case").bind List.head?).getD "?" ++ " bad-op")
    loop h

def main : IO Unit := do loop (← IO.getStdin)
