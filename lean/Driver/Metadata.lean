/-
Driver for the `set_time_metadata` model (C32): `lake env lean --run Driver/Metadata.lean < cases`.
Block format (one per call of `set_time_metadata`):
  case <id>
  sm off|auto|force
  schema none | schema <id> <allowed> <required> <types>
  dflt <id> <allowed> <required> <types>
      allowed  = `*` (additional properties allowed) | `-` (none allowed) | k,k,...
      required = `-` | k,k,...          types = `-` | k:t,k:t,...   (t = n|s|o)
  cell -                     (zero bytes)          — one `cell` line per table row, in row order
  cell + k=tBODY k=tBODY     (non-empty bytes decoding to this object; may have zero pairs)
  mean tBODY tBODY ...
  var none | var some tBODY ...
  end
  (or: case <id> / methodvar <method> / end  ->  `<id> nodeVar=<0|1> mutVar=<0|1>`)
Reply: `<id> <outcome> <schema id|none> <cell> <cell> ...` with cell = `-` or `+k=tBODY,k=tBODY`
(dict order), or `<id> bad-op`.
-/
import TsdateVerif.Model.Metadata
import TsdateVerif.Model.Proto
open Tsdate.Metadata Tsdate.Proto

def commaList (s : String) : List String :=
  if s = "-" then [] else s.splitOn ","

def parseTV (s : String) : Option TV :=
  match s.toList with
  | c :: rest => if c = 'n' ∨ c = 's' ∨ c = 'o' then some ⟨c, String.ofList rest⟩ else none
  | [] => none

def parseSpec : List String → Option Spec
  | [id, allowed, required, types] => do
    let al : Option (List String) := if allowed = "*" then none else some (commaList allowed)
    let ty ← mapAll (fun (kt : String) => match kt.splitOn ":" with
      | [k, t] => (match t.toList with | [c] => some (k, c) | _ => none)
      | _ => none) (commaList types)
    pure ⟨id, al, commaList required, ty⟩
  | _ => none

def parsePair (s : String) : Option (String × TV) :=
  match s.splitOn "=" with
  | [k, v] => (parseTV v).map (fun tv => (k, tv))
  | _ => none

def parseCell : List String → Option (Option (Row TV))
  | ["-"] => some none
  | "+" :: pairs => (mapAll parsePair pairs).map some
  | _ => none

def showTV (v : TV) : String := String.singleton v.tag ++ v.body

def showCell : Option (Row TV) → String
  | none => "-"
  | some r => "+" ++ ",".intercalate (r.map (fun kv => kv.1 ++ "=" ++ showTV kv.2))

def showOutcome : Outcome → String
  | .untouched => "untouched" | .merged => "merged" | .replaced => "replaced"
  | .warned => "warned" | .failed => "failed"

def runCase (blk : List (List String)) : Option String := do
  let id ← (← field blk "case").head?
  -- `methodvar <method>`: which tables get a variance from this method (Model: Method.nodeVar / mutVar)
  if let some [m] := field blk "methodvar" then
    let meth ← (match m with
      | "variational_gamma" => some Method.variationalGamma
      | "inside_outside" => some Method.insideOutside
      | "maximization" => some Method.maximization
      | _ => none)
    return (id ++ " nodeVar=" ++ (if meth.nodeVar then "1" else "0") ++ " mutVar=" ++ (if meth.mutVar then "1" else "0"))
  let sm ← match (← field blk "sm") with
    | ["off"] => some SetMd.off | ["auto"] => some SetMd.auto | ["force"] => some SetMd.force
    | _ => none
  let schema ← match (← field blk "schema") with
    | ["none"] => some (none : Option Spec)
    | ws => (parseSpec ws).map some
  let dflt ← parseSpec (← field blk "dflt")
  let cells ← mapAll (fun (l : List String) => parseCell l.tail)
    (blk.filter (fun l => l.head? = some "cell"))
  let mean ← mapAll parseTV (← field blk "mean")
  let var ← match (← field blk "var") with
    | ["none"] => some (none : Option (List TV))
    | "some" :: vs => (mapAll parseTV vs).map some
    | _ => none
  let R := setTimeMetadata Spec.admits dflt sm ⟨schema, cells⟩ mean var
  let sid := match R.table.schema with | none => "none" | some s => s.id
  pure (" ".intercalate (id :: showOutcome R.outcome :: sid :: R.table.cells.map showCell))

partial def loop (h : IO.FS.Stream) : IO Unit := do
  match ← readBlock h with
  | none => return ()
  | some blk =>
    match runCase blk with
    | some s => IO.println s
    | none => IO.println (((field blk "case").bind List.head?).getD "?" ++ " bad-op")
    loop h

def main : IO Unit := do loop (← IO.getStdin)
