/-
Driver for the EP bookkeeping model: `lake env lean --run Driver/EP.lean` (interactive line protocol).
The protocol and the code are in `TsdateVerif/Model/EPRun.lean` (compiled by `lake build`, so that starting the
driver does not re-elaborate it).
-/
import TsdateVerif.Model.EPRun

def main : IO Unit := Tsdate.EP.Run.main
