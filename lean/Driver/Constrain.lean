/-
Driver for the `_constrain_ages` model: `lake env lean --run Driver/Constrain.lean < cases`.
Block format:
  case <id> / eps <hex64> / iters <n> / fixed <0|1>... (or: flags <nat>...) / times <hex64>... / edges p c p c ... / end
Reply: `<id> <hex64>...` (the output time vector at Float, bit patterns) or `<id> bad-op`.
-/
import TsdateVerif.Model.Constrain
import TsdateVerif.Model.Proto
open Tsdate Tsdate.Proto

def pairUp : List Nat → Option (List Edge)
  | [] => some []
  | p :: c :: rest => (pairUp rest).map (fun es => { p := p, c := c } :: es)
  | _ => none

def runCase (blk : List (List String)) : Option String := do
  let id ← (← field blk "case").head?
  let eps ← hexToFloat (← (← field blk "eps").head?)
  let iters ← (← (← field blk "iters").head?).toNat?
  -- either a pre-computed mask (`fixed`, the numba kernel's argument) or the node-flags column (`flags`,
  -- the argument of the Python wrapper `constrain_ages`), reduced by the model's `fixedOfFlags`
  let parseMask : List String → Option (List Bool) :=
    mapAll (fun s => if s = "1" then some true else if s = "0" then some false else none)
  let fixed ← match field blk "flags" with
    | some fl => (mapAll String.toNat? fl).map (fun l => (fixedOfFlags l.toArray).toList)
    | none => (field blk "fixed").bind parseMask
  let times ← mapAll hexToFloat (← field blk "times")
  let es ← pairUp (← mapAll String.toNat? (← field blk "edges"))
  if fixed.length ≠ times.length then none
  if es.any (fun e => e.p ≥ times.length ∨ e.c ≥ times.length) then none
  let out := constrainAges (fun x => x + eps) (fun x => max (x + eps) (nextUp x))
    fixed.toArray eps es times.toArray iters
  pure (id ++ " " ++ " ".intercalate (out.toList.map floatToHex))

partial def loop (h : IO.FS.Stream) : IO Unit := do
  match ← readBlock h with
  | none => return ()
  | some blk =>
    match runCase blk with
    | some s => IO.println s
    | none => IO.println (((field blk "case").bind List.head?).getD "?" ++ " bad-op")
    loop h

def main : IO Unit := do loop (← IO.getStdin)
