/-
Driver for the changepoint models: `lake env lean --run Driver/Changepoints.lean < cases`.

  case <id> / op fixed  / counts <hex64..> / epochs <n> / end      -> `<id> F e0 e1 ..`   (Float carrier, numba's linspace)
  case <id> / op fixedq / counts <n/d..>   / epochs <n> / end      -> `<id> F e0 e1 ..`   (exact rationals, z_k = k/epochs)
  case <id> / op pelt   / counts <hex..> / offs <hex..> / pen <hex> / minc <hex> / mino <hex> / end
        -> `<id> P b0 b1 .. D b0 b1 ..`     P = model of the code (PELT; `K` = KeyError), D = un-pruned recursion
  case <id> / op enum / lens n1 n2 .. / calpha c.. / oalpha o.. / epochs e.. / pens <hex..> / minima <hexc hexo ..> / end
        -> for every length, every counts vector over calpha (lexicographic): one `F ..` line per epochs value
           (`F -` when `fixedPre` fails), then for every offsets vector over oalpha, every penalty, every minima pair one
           `P .. D ..` line.  Terminated by `<id> done <number of lines>`.
`<id> bad-op` for anything else.
-/
import TsdateVerif.Model.Changepoints
import TsdateVerif.Model.Proto
open Tsdate Tsdate.Proto Tsdate.Changepoints

def finf : Float := 1.0 / 0.0

def showNats (l : List Nat) : String := " ".intercalate (l.map toString)

def fixedF (counts : List Float) (epochs : Nat) : List Nat :=
  fixedChangepoints (fun n => n.toFloat) counts epochs

def fixedQ (counts : List Rat) (epochs : Nat) : List Nat :=
  fixedChangepoints (fun n => (n : Rat)) counts epochs

def peltLine (counts offs : List Float) (pen minc mino : Float) : String :=
  let f := poissonLoss (κ := Float) id finf Float.log counts offs minc mino
  let p := segment true f (-pen) pen finf counts.length
  let d := segment false f (-pen) pen finf counts.length
  let sh := fun (o : Option (List Nat)) => match o with | some l => showNats l | none => "K"
  "P " ++ sh p ++ " D " ++ sh d

/-- all vectors of length `n` over `alpha`, lexicographic -/
def vectors (alpha : List Nat) : Nat → List (List Nat)
  | 0 => [[]]
  | n + 1 => alpha.flatMap (fun a => (vectors alpha n).map (fun v => a :: v))

def pairs : List Float → List (Float × Float)
  | a :: b :: rest => (a, b) :: pairs rest
  | _ => []

def runEnum (id : String) (blk : List (List String)) : IO Bool := do
  let some lens := (field blk "lens").bind (mapAll String.toNat?) | return false
  let some calpha := (field blk "calpha").bind (mapAll String.toNat?) | return false
  let some oalpha := (field blk "oalpha").bind (mapAll String.toNat?) | return false
  let some eps := (field blk "epochs").bind (mapAll String.toNat?) | return false
  let some pens := (field blk "pens").bind (mapAll hexToFloat) | return false
  let some mins := (field blk "minima").bind (mapAll hexToFloat) | return false
  let out ← IO.getStdout
  let mut nlines := 0
  for n in lens do
    let ovs := (vectors oalpha n).map (fun v => v.map Nat.toFloat)
    for cv in vectors calpha n do
      let counts := cv.map Nat.toFloat
      for e in eps do
        if fixedPre counts e then out.putStrLn ("F " ++ showNats (fixedF counts e)) else out.putStrLn "F -"
        nlines := nlines + 1
      for offs in ovs do
        for pen in pens do
          for (mc, mo) in pairs mins do
            out.putStrLn (peltLine counts offs pen mc mo)
            nlines := nlines + 1
  out.putStrLn s!"{id} done {nlines}"
  return true

def runCase (blk : List (List String)) : Option String := do
  let id ← (← field blk "case").head?
  let op ← (← field blk "op").head?
  match op with
  | "fixed" =>
    let counts ← mapAll hexToFloat (← field blk "counts")
    let e ← (← (← field blk "epochs").head?).toNat?
    if !(fixedPre counts e) then none
    pure (id ++ " F " ++ showNats (fixedF counts e))
  | "fixedq" =>
    let counts ← mapAll parseRat (← field blk "counts")
    let e ← (← (← field blk "epochs").head?).toNat?
    if !(fixedPre counts e) then none
    pure (id ++ " F " ++ showNats (fixedQ counts e))
  | "pelt" =>
    let counts ← mapAll hexToFloat (← field blk "counts")
    let offs ← mapAll hexToFloat (← field blk "offs")
    let pen ← hexToFloat (← (← field blk "pen").head?)
    let minc ← hexToFloat (← (← field blk "minc").head?)
    let mino ← hexToFloat (← (← field blk "mino").head?)
    if counts.length ≠ offs.length then none
    if pen < 0 ∨ minc < 0 ∨ mino < 0 then none
    pure (id ++ " " ++ peltLine counts offs pen minc mino)
  | _ => none

partial def loop (h : IO.FS.Stream) : IO Unit := do
  match ← readBlock h with
  | none => return ()
  | some blk =>
    let id := ((field blk "case").bind List.head?).getD "?"
    if (field blk "op").bind List.head? = some "enum" then
      let ok ← runEnum id blk
      if !ok then IO.println (id ++ " bad-op")
    else
      match runCase blk with
      | some s => IO.println s
      | none => IO.println (id ++ " bad-op")
    loop h

def main : IO Unit := do loop (← IO.getStdin)
