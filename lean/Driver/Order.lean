/-
Driver for the traversal-order and pass models: `lake env lean --run Driver/Order.lean < cases`.

  case <id>
  op keys
  times <hex64>...                 node times
  child <nat>...  / parent <nat>...   edge table columns
  end
Reply: `<id> keys P <ids> C <ids> D <ids> GC <group sizes of C> GD <group sizes of D>`
(P = edges_by_parent_asc, C = edges_by_child_desc, D = edges_by_child_then_parent_desc).

  case <id>
  op io
  n <nodes> / G <grid> / std <0|1> / ign none|code|oldest
  fixed <0|1>...
  times <hex64>... / roots <nat>...       (for ign oldest)
  rootfrac <hex64>...                      one per node
  spanfrac <hex64>...                      one per edge id
  prior <u> <hex64 x G>                    per non-fixed node
  likl <e> <hex64 x G(G+1)/2>              per edge with non-fixed child: for t, for s <= t
  likf <e> <hex64 x G>                     per edge with fixed child
  ins <child parent id>...                 inside order (flattened triples: src dst id)
  out <parent child id>...                 outside order (src dst id)
  end
Reply: `<id> io hyp <insValid> <outValid> I <u> <den> <row> ... O <u> <row> ...` (hex).
-/
import TsdateVerif.Model.Order
import TsdateVerif.Model.Passes
import TsdateVerif.Model.Proto
open Tsdate Tsdate.Proto Tsdate.Order

def fieldsAll (blk : List (List String)) (key : String) : List (List String) :=
  (blk.filter (fun l => l.head? = some key)).map List.tail

def triplesD : List Nat → Option (List DEdge)
  | [] => some []
  | s :: d :: i :: rest => (triplesD rest).map (fun es => { src := s, dst := d, id := i } :: es)
  | _ => none

def natsToStr (l : List Nat) : String := " ".intercalate (l.map toString)

def pairwiseB {ε : Type} (r : ε → ε → Bool) : List ε → Bool
  | [] => true
  | x :: xs => xs.all (r x) && pairwiseB r xs

/-- decidable hypotheses of the pass theorems on an edge order -/
def validPassOrder (es : List DEdge) : Bool :=
  pairwiseB (fun a b => a != b) ((runsBy (·.dst) es).map gkey) &&
  pairwiseB (fun e e' => e'.dst != e.src) es && es.all (fun e => e.dst != e.src)

def runKeys (blk : List (List String)) (id : String) : Option String := do
  let times ← mapAll hexToFloat (← field blk "times")
  let child ← mapAll String.toNat? (← field blk "child")
  let parent ← mapAll String.toNat? (← field blk "parent")
  if child.length ≠ parent.length then none
  if (child ++ parent).any (fun u => u ≥ times.length) then none
  let t := times.toArray
  let c := child.toArray
  let p := parent.toArray
  let oP := byParentAsc c.size
  let oC := byChildDesc t c
  let oD := byChildThenParentDesc t c p
  let sizes := fun (o : List Nat) => (runsBy (fun i => aget c i) o).map List.length
  pure (id ++ " keys P " ++ natsToStr oP ++ " C " ++ natsToStr oC ++ " D " ++ natsToStr oD
    ++ " GC " ++ natsToStr (sizes oC) ++ " GD " ++ natsToStr (sizes oD))

def runIO (blk : List (List String)) (id : String) : Option String := do
  let n ← (← (← field blk "n").head?).toNat?
  let G ← (← (← field blk "G").head?).toNat?
  let std ← (← field blk "std").head?
  let ignS ← (← field blk "ign").head?
  let fixed ← mapAll (fun s => if s = "1" then some true else if s = "0" then some false else none)
    (← field blk "fixed")
  let times ← mapAll hexToFloat (← field blk "times")
  let roots ← mapAll String.toNat? (← field blk "roots")
  let rootfrac ← mapAll hexToFloat (← field blk "rootfrac")
  let spanfrac ← mapAll hexToFloat (← field blk "spanfrac")
  let insO ← triplesD (← mapAll String.toNat? (← field blk "ins"))
  let outO ← triplesD (← mapAll String.toNat? (← field blk "out"))
  if fixed.length ≠ n ∨ times.length ≠ n ∨ rootfrac.length ≠ n then none
  if (insO ++ outO).any (fun e => e.src ≥ n ∨ e.dst ≥ n ∨ e.id ≥ spanfrac.length) then none
  let numE := spanfrac.length
  let mut priorArr : Array (List Float) := Array.replicate n []
  for l in fieldsAll blk "prior" do
    let u ← (← l.head?).toNat?
    let vs ← mapAll hexToFloat l.tail
    if vs.length ≠ G ∨ u ≥ n then none
    priorArr := priorArr.set! u vs
  let mut likL : Array (Array Float) := Array.replicate numE #[]
  for l in fieldsAll blk "likl" do
    let e ← (← l.head?).toNat?
    let vs ← mapAll hexToFloat l.tail
    if vs.length ≠ G * (G + 1) / 2 ∨ e ≥ numE then none
    likL := likL.set! e vs.toArray
  let mut likF : Array (Array Float) := Array.replicate numE #[]
  for l in fieldsAll blk "likf" do
    let e ← (← l.head?).toNat?
    let vs ← mapAll hexToFloat l.tail
    if vs.length ≠ G ∨ e ≥ numE then none
    likF := likF.set! e vs.toArray
  let fixedArr := fixed.toArray
  let timesArr := times.toArray
  let sfArr := spanfrac.toArray
  let rfArr := rootfrac.toArray
  -- outside pass: fixed nodes may not be parents (the real code raises)
  if outO.any (fun e => fixedArr[e.src]! && !(fixedArr[e.dst]!)) then none
  let d : GridData Float := {
    G := G
    fixed := fun u => fixedArr.getD u false
    prior := fun u => priorArr.getD u []
    likLower := fun e t s => if s ≤ t then aget (aget likL e) (t * (t + 1) / 2 + s) else 0.0
    likFixed := fun e t => aget (aget likF e) t
    spanfrac := fun e => aget sfArr e
    pow := fun f v => Float.pow v f }
  let ign : Nat → Bool :=
    if ignS = "code" then ignCode n
    else if ignS = "oldest" then ignOldest (fun u => aget timesArr u) roots
    else fun _ => false
  let (ins, outs) := insideOutside d n (fun u => aget rfArr u) ign (std = "1") insO outO
  let nonfixed := (List.range n).filter (fun u => !(fixedArr[u]!))
  let insS := nonfixed.map (fun u =>
    "I " ++ toString u ++ " " ++ floatToHex (aget ins u).2 ++ " "
      ++ " ".intercalate ((aget ins u).1.map floatToHex))
  let outS := nonfixed.map (fun u =>
    "O " ++ toString u ++ " " ++ " ".intercalate ((aget outs u).map floatToHex))
  pure (id ++ " io hyp " ++ (if validPassOrder insO then "1" else "0") ++ " "
    ++ (if validPassOrder outO then "1" else "0") ++ " " ++ " ".intercalate (insS ++ outS))

def runCase (blk : List (List String)) : Option String := do
  let id ← (← field blk "case").head?
  let op ← (← field blk "op").head?
  match op with
  | "keys" => runKeys blk id
  | "io" => runIO blk id
  | _ => none

partial def loop (h : IO.FS.Stream) : IO Unit := do
  match ← readBlock h with
  | none => return ()
  | some blk =>
    match runCase blk with
    | some s => IO.println s
    | none => IO.println (((field blk "case").bind List.head?).getD "?" ++ " bad-op")
    loop h

def main : IO Unit := do loop (← IO.getStdin)
