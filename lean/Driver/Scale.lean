/-
Driver for the Scale cluster models (C06/C07): `lake env lean --run Driver/Scale.lean < cases`.
Block: `case <id>` / `op <name>` / typed lines `<key> v v v …` (floats as hex64, naturals in decimal) / `end`.
Reply: `<id> sec | sec | …` where each section is a space separated list (floats as hex64), or
`<id> bad-op`.

ops (Float carrier):
  grid      ps tb [tp] [coal]        -> coalTimepoints | gridOf
  lik       grid eps mu spans        -> per span: likArgs(lowerTri) | likArgs(timediff)
  maxargs   grid eps mu span pi yi   -> maxArgs
  meanvar   probs times              -> mn va
  mixture   means vars weights       -> mean var
  spans     muts child span rootid rootspan nodes -> nodeSpan per node | spanFrac per edge | rootFrac per root
  edgelik   y span mu                -> second column
  area      t y m ep ec              -> counts | offset | duration | index
  timescale t y m ep ec k            -> origin | adjust
  piecewise x fixed orig resc        -> out
  loop      t y m ep ec fixed k iters -> out
  constrain eps iters fixed times edges(p c p c …) -> out   (the committed `constrainAges` model)
  secondpass table nodespans visits nodes -> per node: ntips k span …   (SpansBySamples.second_pass)
  mixkeyed means vars weights -> mean var   (mixture over the entries of a span table)
  damp x y s | rescale x s | prior (state) free maxshape reltol maxitt | moments ages post
  ep_pre (state) ep ec lik ages minstep tiny ei -> case | projection arguments
  ep_post (state) … args vals maxshape -> post | edge factor | scale | node factors
-/
import TsdateVerif.Model.Scale
import TsdateVerif.Model.Constrain
import TsdateVerif.Model.Proto
open Tsdate Tsdate.Scale Tsdate.Proto

def pairUp : List Nat → Option (List Edge)
  | [] => some []
  | p :: c :: rest => (pairUp rest).map (fun es => { p := p, c := c } :: es)
  | _ => none

def fl (blk : List (List String)) (k : String) : Option (List Float) := do
  mapAll hexToFloat (← field blk k)

def flD (blk : List (List String)) (k : String) : Option (List Float) :=
  match field blk k with
  | none => some []
  | some ws => mapAll hexToFloat ws

def nl (blk : List (List String)) (k : String) : Option (List Nat) := do
  mapAll String.toNat? (← field blk k)

def f1 (blk : List (List String)) (k : String) : Option Float := do (← fl blk k).head?
def n1 (blk : List (List String)) (k : String) : Option Nat := do (← nl blk k).head?

def hexs (xs : List Float) : String := " ".intercalate (xs.map floatToHex)
def nats (xs : List Nat) : String := " ".intercalate (xs.map toString)
def secs (xs : List String) : String := " | ".intercalate xs

def finite (xs : List Float) : Bool := xs.all (fun x => x.isFinite)


def pairs : List Float → List (Float × Float)
  | a :: b :: rest => (a, b) :: pairs rest
  | _ => []

def quads : List Float → List ((Float × Float) × (Float × Float))
  | a :: b :: c :: d :: rest => ((a, b), (c, d)) :: quads rest
  | _ => []

def unpairs (xs : List (Float × Float)) : List Float := xs.flatMap (fun p => [p.1, p.2])

def ages (ws : List String) : Option (List (Option Float)) :=
  mapAll (fun w => if w = "n" then some none else (hexToFloat w).map some) ws

def epState (blk : List (List String)) : Option (EPState Float) := do
  let post := pairs (← fl blk "post")
  let efac := quads (← fl blk "efac")
  let nfac := pairs (← fl blk "nfac")
  let scale ← fl blk "scale"
  if nfac.length ≠ post.length ∨ scale.length ≠ post.length then none
  pure { post := post, edgeFac := efac, nodeFac := nfac, scale := scale }

def bitsEq (a b : Float × Float) : Bool := floatToHex a.1 == floatToHex b.1 && floatToHex a.2 == floatToHex b.2

def nanP : Float × Float := (0.0 / 0.0, 0.0 / 0.0)

def stateOut (s : EPState Float) (ei : Nat) : String :=
  let f := getF s.edgeFac ei
  secs [hexs (unpairs s.post), hexs [f.1.1, f.1.2, f.2.1, f.2.2], hexs s.scale, hexs (unpairs s.nodeFac)]

/-- `u ntips k v …` → span table -/
def parseTable : List String → Option (List (Nat × List ((Nat × Nat) × Float)))
  | [] => some []
  | u :: n :: k :: v :: rest => do
    let u ← u.toNat?
    let n ← n.toNat?
    let k ← k.toNat?
    let v ← hexToFloat v
    let t ← parseTable rest
    pure (setSpans t u (((n, k), v) :: spansOf t u))
  | _ => none

def parseVisits : List String → Option (List (Visit Float))
  | [] => some []
  | a :: b :: sp :: t :: d :: rest => do
    let v : Visit Float := { node := (← a.toNat?), anc := (← b.toNat?), treeSpan := (← hexToFloat sp),
                             total := (← t.toNat?), desc := (← d.toNat?) }
    pure (v :: (← parseVisits rest))
  | _ => none

def runOp (op : String) (blk : List (List String)) : Option String := do
  match op with
  | "grid" =>
    let ps ← fl blk "ps"
    let tb ← flD blk "tb"
    if ps.isEmpty ∨ tb.length + 1 ≠ ps.length ∨ ps.any (fun x => !(x > 0)) then none
    let inp : DiscreteIn Float :=
      { popSize := ps, timeBreaks := tb,
        userTimepoints := (field blk "tp").bind (mapAll hexToFloat),
        coalGrid := (← flD blk "coal"), eps := 0, mu := 0, edges := [], roots := [] }
    pure (secs [hexs (coalTimepoints 2.0 inp), hexs (gridOf 2.0 inp)])
  | "lik" =>
    let grid ← fl blk "grid"
    let eps ← f1 blk "eps"
    let mu ← f1 blk "mu"
    let spans ← fl blk "spans"
    let tri := timediffLowerTri grid eps
    let fx := timediff grid eps
    pure (secs (spans.flatMap (fun s => [hexs (likArgs tri mu s), hexs (likArgs fx mu s)])))
  | "maxargs" =>
    let grid ← fl blk "grid"
    let pi ← n1 blk "pi"
    let yi ← n1 blk "yi"
    if pi ≥ grid.length ∨ yi ≥ grid.length then none
    pure (hexs (maxArgs grid pi yi (← f1 blk "eps") (← f1 blk "mu") (← f1 blk "span")))
  | "meanvar" =>
    let probs ← fl blk "probs"
    let times ← fl blk "times"
    if probs.length ≠ times.length ∨ probs.isEmpty then none
    let mv := meanVar probs times
    pure (hexs [mv.1, mv.2])
  | "mixture" =>
    let ms ← fl blk "means"
    let vs ← fl blk "vars"
    let ws ← fl blk "weights"
    if ms.length ≠ ws.length ∨ vs.length ≠ ws.length ∨ ws.isEmpty then none
    let mv := mixtureMeanVar ms vs ws
    pure (hexs [mv.1, mv.2])
  | "spans" =>
    let muts ← nl blk "muts"
    let child ← nl blk "child"
    let span ← fl blk "span"
    let rid ← (match field blk "rootid" with | none => some [] | some w => mapAll String.toNat? w)
    let rsp ← flD blk "rootspan"
    let n ← n1 blk "nodes"
    if muts.length ≠ child.length ∨ span.length ≠ child.length ∨ rid.length ≠ rsp.length then none
    let edges := (muts.zip (child.zip span))
    let roots := rid.zip rsp
    let ns := (List.range n).map (nodeSpan edges roots)
    let sf := edges.map (fun e => spanFrac e.2.2 (nodeSpan edges roots e.2.1))
    let rf := roots.map (fun r => spanFrac (rootSpan roots r.1) (nodeSpan edges roots r.1))
    pure (secs [hexs ns, hexs sf, hexs rf])
  | "edgelik" =>
    let y ← fl blk "y"
    let sp ← fl blk "span"
    if y.length ≠ sp.length then none
    pure (hexs ((edgeLikelihoods (y.zip sp) (← f1 blk "mu")).map (fun x => x.2)))
  | "area" =>
    let t ← fl blk "t"
    let y ← fl blk "y"
    let m ← fl blk "m"
    let ep ← nl blk "ep"
    let ec ← nl blk "ec"
    if y.length ≠ ep.length ∨ m.length ≠ ep.length ∨ ec.length ≠ ep.length then none
    if (ep ++ ec).any (fun i => i ≥ t.length) then none
    let r := mutArea t (y.zip m) (ep.zip ec)
    pure (secs [hexs r.1, hexs r.2.1, hexs r.2.2.1, nats r.2.2.2])
  | "timescale" =>
    let t ← fl blk "t"
    let y ← fl blk "y"
    let m ← fl blk "m"
    let ep ← nl blk "ep"
    let ec ← nl blk "ec"
    let k ← n1 blk "k"
    if y.length ≠ ep.length ∨ m.length ≠ ep.length ∨ ec.length ≠ ep.length ∨ k = 0 then none
    if (ep ++ ec).any (fun i => i ≥ t.length) then none
    let r := mutTimescale Nat.toFloat t (y.zip m) (ep.zip ec) k
    if !(finite r.1 && finite r.2) then none
    pure (secs [hexs r.1, hexs r.2])
  | "piecewise" =>
    let x ← fl blk "x"
    let fixed ← nl blk "fixed"
    let orig ← fl blk "orig"
    let resc ← fl blk "resc"
    if fixed.length ≠ x.length ∨ orig.length ≠ resc.length ∨ orig.length < 2 then none
    pure (hexs (piecewisePoint x (fixed.map (· == 1)) orig resc))
  | "loop" =>
    let t ← fl blk "t"
    let y ← fl blk "y"
    let m ← fl blk "m"
    let ep ← nl blk "ep"
    let ec ← nl blk "ec"
    let fixed ← nl blk "fixed"
    let k ← n1 blk "k"
    let iters ← n1 blk "iters"
    if y.length ≠ ep.length ∨ m.length ≠ ep.length ∨ ec.length ≠ ep.length ∨ k = 0 then none
    if fixed.length ≠ t.length ∨ (ep ++ ec).any (fun i => i ≥ t.length) then none
    let r := rescaleLoop Nat.toFloat (y.zip m) (ep.zip ec) (fixed.map (· == 1)) k iters t
    if !(finite r) then none
    pure (hexs r)
  | "constrain" =>
    let eps ← f1 blk "eps"
    let iters ← n1 blk "iters"
    let fixed ← nl blk "fixed"
    let times ← fl blk "times"
    let es ← pairUp (← nl blk "edges")
    if fixed.length ≠ times.length then none
    if es.any (fun e => e.p ≥ times.length ∨ e.c ≥ times.length) then none
    let out := constrainAges (fun x => x + eps) (fun x => max (x + eps) (nextUp x))
      (fixed.map (· == 1)).toArray eps es times.toArray iters
    pure (hexs out.toList)
  | "damp" =>
    let x := pairs (← fl blk "x")
    let y := pairs (← fl blk "y")
    pure (hexs [damp (← x.head?) (← y.head?) (← f1 blk "s")])
  | "rescale" =>
    let x := pairs (← fl blk "x")
    pure (hexs [rescaleEta (← x.head?) (← f1 blk "s")])
  | "prior" =>
    let st ← epState blk
    let free ← nl blk "free"
    if free.length ≠ st.post.length then none
    let r := propagatePrior Nat.toFloat (free.map (· == 1)) (← f1 blk "maxshape") (← f1 blk "reltol") (← n1 blk "maxitt") st
    pure (secs [hexs (unpairs r.post), hexs (unpairs r.nodeFac), hexs r.scale])
  | "moments" =>
    let fa ← ages (← field blk "ages")
    let post := pairs (← fl blk "post")
    if fa.length ≠ post.length then none
    let r := nodeMoments fa post
    pure (secs [hexs (r.map (·.1)), hexs (r.map (·.2))])
  | "ep_pre" =>
    let st ← epState blk
    let ep ← nl blk "ep"
    let ec ← nl blk "ec"
    let lik := pairs (← fl blk "lik")
    let fa ← ages (← field blk "ages")
    let ei ← n1 blk "ei"
    if ei ≥ ep.length ∨ ec.length ≠ ep.length ∨ lik.length ≠ ep.length ∨ st.edgeFac.length ≠ ep.length then none
    if fa.length ≠ st.post.length ∨ (ep ++ ec).any (fun i => i ≥ fa.length) then none
    let r := edgePre (ep.zip ec) lik fa (← f1 blk "minstep") (← f1 blk "tiny") st ei
    match r.2 with
    | .skip => pure "skip"
    | .leaf tp _ _ cav l => pure (secs ["leaf", hexs [tp, cav.1, cav.2, l.1, l.2]])
    | .root tc _ _ cav l => pure (secs ["root", hexs [tc, cav.1, cav.2, l.1, l.2]])
    | .joint _ _ _ pc cc l => pure (secs ["joint", hexs [pc.1, pc.2, cc.1, cc.2, l.1, l.2]])
  | "ep_post" =>
    let st ← epState blk
    let ep ← nl blk "ep"
    let ec ← nl blk "ec"
    let lik := pairs (← fl blk "lik")
    let fa ← ages (← field blk "ages")
    let ei ← n1 blk "ei"
    if ei ≥ ep.length ∨ ec.length ≠ ep.length ∨ lik.length ≠ ep.length ∨ st.edgeFac.length ≠ ep.length then none
    if fa.length ≠ st.post.length ∨ (ep ++ ec).any (fun i => i ≥ fa.length) then none
    -- the real kernel's value on exactly the arguments the model computed (anything else -> NaN)
    let args ← fl blk "args"
    let vals := pairs (← fl blk "vals")
    let v1 ← vals.head?
    let v2 := vals.getD 1 nanP
    let P : Projections Float :=
      { gamma := fun a b l =>
          if hexs [a.1, a.2, b.1, b.2, l.1, l.2] == hexs args then (v1, v2) else (nanP, nanP)
        rootward := fun t a l => if hexs [t, a.1, a.2, l.1, l.2] == hexs args then v1 else nanP
        leafward := fun t a l => if hexs [t, a.1, a.2, l.1, l.2] == hexs args then v1 else nanP }
    let r := edgePost P (← f1 blk "maxshape") ei
      (edgePre (ep.zip ec) lik fa (← f1 blk "minstep") (← f1 blk "tiny") st ei)
    pure (stateOut r ei)
  | "secondpass" =>
    -- table entries are given newest-first per node so that consing restores the insertion order
    let st ← parseTable ((field blk "table").getD [])
    let ns ← fl blk "nodespans"
    let visits ← parseVisits ((field blk "visits").getD [])
    if visits.any (fun v => v.anc ≥ ns.length ∨ !(ns.getD v.anc 0 > 0)) then none
    let nodes ← nl blk "nodes"
    let r := secondPass 2.0 ns st visits
    pure (secs (nodes.map (fun u =>
      " ".intercalate ((spansOf r u).map (fun kv => s!"{kv.1.1} {kv.1.2} {floatToHex kv.2}")))))
  | "mixkeyed" =>
    let ms ← fl blk "means"
    let vs ← fl blk "vars"
    let ws ← fl blk "weights"
    if ms.length ≠ ws.length ∨ vs.length ≠ ws.length ∨ ws.isEmpty then none
    let entries := (List.range ws.length).map (fun i => ((i, 0), ws.getD i 0))
    let mv := mixtureKeyed (fun k => ms.getD k.1 0) (fun k => vs.getD k.1 0) entries
    pure (hexs [mv.1, mv.2])
  | _ => none

def runCase (blk : List (List String)) : Option String := do
  let id ← (← field blk "case").head?
  let op ← (← field blk "op").head?
  let out ← runOp op blk
  pure (id ++ " " ++ out)

partial def loop (h : IO.FS.Stream) : IO Unit := do
  match ← readBlock h with
  | none => return ()
  | some blk =>
    match runCase blk with
    | some s => IO.println s
    | none => IO.println (((field blk "case").bind List.head?).getD "?" ++ " bad-op")
    loop h

def main : IO Unit := do loop (← IO.getStdin)
