/-
Driver for the Scale cluster models (C06/C07): `lake env lean --run Driver/Scale.lean < cases`.
Block: `case <id>` / `op <name>` / typed lines `<key> v v v …` (floats as hex64, naturals in decimal) / `end`.
Reply: `<id> sec | sec | …` where each section is a space separated list (floats as hex64), or
`<id> bad-op`.

ops (Float carrier):
  grid      ps tb [tp] [coal]        -> coalTimepoints | gridOf
  lik       grid eps mu spans        -> per span: likArgs(lowerTri) | likArgs(timediff)
  maxargs   grid eps mu span pi yi   -> maxArgs
  meanvar   probs times              -> mn va
  mixture   means vars weights       -> mean var
  spans     muts child span rootid rootspan nodes -> nodeSpan per node | spanFrac per edge | rootFrac per root
  edgelik   y span mu                -> second column
  area      t y m ep ec              -> counts | offset | duration | index
  timescale t y m ep ec k            -> origin | adjust
  piecewise x fixed orig resc        -> out
  loop      t y m ep ec fixed k iters -> out
  constrain eps iters fixed times edges(p c p c …) -> out   (the committed `constrainAges` model)
-/
import TsdateVerif.Model.Scale
import TsdateVerif.Model.Constrain
import TsdateVerif.Model.Proto
open Tsdate Tsdate.Scale Tsdate.Proto

def pairUp : List Nat → Option (List Edge)
  | [] => some []
  | p :: c :: rest => (pairUp rest).map (fun es => { p := p, c := c } :: es)
  | _ => none

def fl (blk : List (List String)) (k : String) : Option (List Float) := do
  mapAll hexToFloat (← field blk k)

def flD (blk : List (List String)) (k : String) : Option (List Float) :=
  match field blk k with
  | none => some []
  | some ws => mapAll hexToFloat ws

def nl (blk : List (List String)) (k : String) : Option (List Nat) := do
  mapAll String.toNat? (← field blk k)

def f1 (blk : List (List String)) (k : String) : Option Float := do (← fl blk k).head?
def n1 (blk : List (List String)) (k : String) : Option Nat := do (← nl blk k).head?

def hexs (xs : List Float) : String := " ".intercalate (xs.map floatToHex)
def nats (xs : List Nat) : String := " ".intercalate (xs.map toString)
def secs (xs : List String) : String := " | ".intercalate xs

def finite (xs : List Float) : Bool := xs.all (fun x => x.isFinite)

def runOp (op : String) (blk : List (List String)) : Option String := do
  match op with
  | "grid" =>
    let ps ← fl blk "ps"
    let tb ← flD blk "tb"
    if ps.isEmpty ∨ tb.length + 1 ≠ ps.length ∨ ps.any (fun x => !(x > 0)) then none
    let inp : DiscreteIn Float :=
      { popSize := ps, timeBreaks := tb,
        userTimepoints := (field blk "tp").bind (mapAll hexToFloat),
        coalGrid := (← flD blk "coal"), eps := 0, mu := 0, edges := [], roots := [] }
    pure (secs [hexs (coalTimepoints 2.0 inp), hexs (gridOf 2.0 inp)])
  | "lik" =>
    let grid ← fl blk "grid"
    let eps ← f1 blk "eps"
    let mu ← f1 blk "mu"
    let spans ← fl blk "spans"
    let tri := timediffLowerTri grid eps
    let fx := timediff grid eps
    pure (secs (spans.flatMap (fun s => [hexs (likArgs tri mu s), hexs (likArgs fx mu s)])))
  | "maxargs" =>
    let grid ← fl blk "grid"
    let pi ← n1 blk "pi"
    let yi ← n1 blk "yi"
    if pi ≥ grid.length ∨ yi ≥ grid.length then none
    pure (hexs (maxArgs grid pi yi (← f1 blk "eps") (← f1 blk "mu") (← f1 blk "span")))
  | "meanvar" =>
    let probs ← fl blk "probs"
    let times ← fl blk "times"
    if probs.length ≠ times.length ∨ probs.isEmpty then none
    let mv := meanVar probs times
    pure (hexs [mv.1, mv.2])
  | "mixture" =>
    let ms ← fl blk "means"
    let vs ← fl blk "vars"
    let ws ← fl blk "weights"
    if ms.length ≠ ws.length ∨ vs.length ≠ ws.length ∨ ws.isEmpty then none
    let mv := mixtureMeanVar ms vs ws
    pure (hexs [mv.1, mv.2])
  | "spans" =>
    let muts ← nl blk "muts"
    let child ← nl blk "child"
    let span ← fl blk "span"
    let rid ← (match field blk "rootid" with | none => some [] | some w => mapAll String.toNat? w)
    let rsp ← flD blk "rootspan"
    let n ← n1 blk "nodes"
    if muts.length ≠ child.length ∨ span.length ≠ child.length ∨ rid.length ≠ rsp.length then none
    let edges := (muts.zip (child.zip span))
    let roots := rid.zip rsp
    let ns := (List.range n).map (nodeSpan edges roots)
    let sf := edges.map (fun e => spanFrac e.2.2 (nodeSpan edges roots e.2.1))
    let rf := roots.map (fun r => spanFrac (rootSpan roots r.1) (nodeSpan edges roots r.1))
    pure (secs [hexs ns, hexs sf, hexs rf])
  | "edgelik" =>
    let y ← fl blk "y"
    let sp ← fl blk "span"
    if y.length ≠ sp.length then none
    pure (hexs ((edgeLikelihoods (y.zip sp) (← f1 blk "mu")).map (fun x => x.2)))
  | "area" =>
    let t ← fl blk "t"
    let y ← fl blk "y"
    let m ← fl blk "m"
    let ep ← nl blk "ep"
    let ec ← nl blk "ec"
    if y.length ≠ ep.length ∨ m.length ≠ ep.length ∨ ec.length ≠ ep.length then none
    if (ep ++ ec).any (fun i => i ≥ t.length) then none
    let r := mutArea t (y.zip m) (ep.zip ec)
    pure (secs [hexs r.1, hexs r.2.1, hexs r.2.2.1, nats r.2.2.2])
  | "timescale" =>
    let t ← fl blk "t"
    let y ← fl blk "y"
    let m ← fl blk "m"
    let ep ← nl blk "ep"
    let ec ← nl blk "ec"
    let k ← n1 blk "k"
    if y.length ≠ ep.length ∨ m.length ≠ ep.length ∨ ec.length ≠ ep.length ∨ k = 0 then none
    if (ep ++ ec).any (fun i => i ≥ t.length) then none
    let r := mutTimescale Nat.toFloat t (y.zip m) (ep.zip ec) k
    if !(finite r.1 && finite r.2) then none
    pure (secs [hexs r.1, hexs r.2])
  | "piecewise" =>
    let x ← fl blk "x"
    let fixed ← nl blk "fixed"
    let orig ← fl blk "orig"
    let resc ← fl blk "resc"
    if fixed.length ≠ x.length ∨ orig.length ≠ resc.length ∨ orig.length < 2 then none
    pure (hexs (piecewisePoint x (fixed.map (· == 1)) orig resc))
  | "loop" =>
    let t ← fl blk "t"
    let y ← fl blk "y"
    let m ← fl blk "m"
    let ep ← nl blk "ep"
    let ec ← nl blk "ec"
    let fixed ← nl blk "fixed"
    let k ← n1 blk "k"
    let iters ← n1 blk "iters"
    if y.length ≠ ep.length ∨ m.length ≠ ep.length ∨ ec.length ≠ ep.length ∨ k = 0 then none
    if fixed.length ≠ t.length ∨ (ep ++ ec).any (fun i => i ≥ t.length) then none
    let r := rescaleLoop Nat.toFloat (y.zip m) (ep.zip ec) (fixed.map (· == 1)) k iters t
    if !(finite r) then none
    pure (hexs r)
  | "constrain" =>
    let eps ← f1 blk "eps"
    let iters ← n1 blk "iters"
    let fixed ← nl blk "fixed"
    let times ← fl blk "times"
    let es ← pairUp (← nl blk "edges")
    if fixed.length ≠ times.length then none
    if es.any (fun e => e.p ≥ times.length ∨ e.c ≥ times.length) then none
    let out := constrainAges (fun x => x + eps) (fun x => max (x + eps) (nextUp x))
      (fixed.map (· == 1)).toArray eps es times.toArray iters
    pure (hexs out.toList)
  | _ => none

def runCase (blk : List (List String)) : Option String := do
  let id ← (← field blk "case").head?
  let op ← (← field blk "op").head?
  let out ← runOp op blk
  pure (id ++ " " ++ out)

partial def loop (h : IO.FS.Stream) : IO Unit := do
  match ← readBlock h with
  | none => return ()
  | some blk =>
    match runCase blk with
    | some s => IO.println s
    | none => IO.println (((field blk "case").bind List.head?).getD "?" ++ " bad-op")
    loop h

def main : IO Unit := do loop (← IO.getStdin)
