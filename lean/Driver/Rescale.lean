/-
Driver for the rescaling models: `lake env lean --run Driver/Rescale.lean < cases`.
`num f` = IEEE doubles as 16 hex digits, `num q` = exact rationals.

  case <id> / op area / num .. / times .. / y .. / span .. / edges p c p c .. / end
      -> `<id> c .. | o .. | d .. | i ..`                         (mutational_area)
  case <id> / op timescale / num .. / times / y / span / edges / maxint n / end
      -> `<id> origin .. | adjust ..`   or `<id> assert`          (mutational_timescale; assert = AssertionError)
  case <id> / op pwl / num .. / xs .. / fixed 0|1.. / ob .. / rb .. / end
      -> `<id> ys ..`                   or `<id> assert`          (piecewise_scale_point_estimate)
  case <id> / op post / num .. / alpha .. / beta .. / qlo .. / qhi .. / ob .. / rb .. / end
      -> `<id> mid .. | lo .. | hi ..`  or `<id> assert`          (piecewise_scale_posterior before approximate_gamma_iqr)
  case <id> / op recover / num .. / rbreaks .. / rtimes .. / times .. / fixed .. / end
      -> `<id> ob .. | kb .. | vb ..`   or `<id> assert`          (breakpoint recovery in ExpectationPropagation.rescale)
  case <id> / op iter / num .. / times / y / span / edges / fixed 0|1.. / maxint n / iters k / medges p c .. / mnodes u .. / end
      -> `<id> t .. | mt ..`            or `<id> assert`          (rescale_tree_sequence: node times after k iterations and the
                                                                   mutation times; medges = edge (p c) per mutation, `-1 -1` above a root)
`<id> bad-op` for malformed input.
-/
import TsdateVerif.Model.Rescale
import TsdateVerif.Model.Proto
open Tsdate Tsdate.Proto Tsdate.Rescale

structure Num (α : Type) where
  parse : String → Option α
  render : α → String
  cast : Nat → α

def numF : Num Float := ⟨hexToFloat, floatToHex, fun n => n.toFloat⟩
def numQ : Num Rat := ⟨parseRat, ratToString, fun n => (n : Rat)⟩

def pairUp : List Nat → Option (List Edge)
  | [] => some []
  | p :: c :: rest => (pairUp rest).map (fun es => { p := p, c := c } :: es)
  | _ => none

def parseBools (ws : List String) : Option (List Bool) :=
  mapAll (fun s => if s = "1" then some true else if s = "0" then some false else none) ws

inductive Reply where
  | ok (s : String)
  | assertFail
  | bad

section
variable {α : Type} [Inhabited α] [Add α] [Sub α] [Mul α] [Div α] [OfNat α 0] [OfNat α 1] [OfNat α 2]
  [LE α] [DecidableLE α] [LT α] [DecidableLT α]

def pairUpOpt : List Int → Option (List (Option Edge))
  | [] => some []
  | p :: c :: rest => (pairUpOpt rest).map (fun es =>
      (if p < 0 ∨ c < 0 then none else some { p := p.toNat, c := c.toNat }) :: es)
  | _ => none

def vals (N : Num α) (blk : List (List String)) (key : String) : Option (List α) :=
  (field blk key).bind (mapAll N.parse)

def render (N : Num α) (tag : String) (xs : List α) : String :=
  tag ++ " " ++ " ".intercalate (xs.map N.render)

def treeInput (N : Num α) (blk : List (List String)) : Option (List α × List (α × α) × List Edge) := do
  let times ← vals N blk "times"
  let y ← vals N blk "y"
  let sp ← vals N blk "span"
  let es ← pairUp (← mapAll String.toNat? (← field blk "edges"))
  if y.length ≠ es.length ∨ sp.length ≠ es.length then none
  if es.any (fun e => e.p ≥ times.length ∨ e.c ≥ times.length) then none
  pure (times, y.zip sp, es)

def runOp (N : Num α) (blk : List (List String)) (op : String) : Reply :=
  match op with
  | "area" =>
    match treeInput N blk with
    | none => .bad
    | some (times, lik, es) =>
      let A := mutationalArea times lik es
      .ok (" | ".intercalate [render N "c" A.counts, render N "o" A.offset, render N "d" A.duration,
        "i " ++ " ".intercalate (A.index.map toString)])
  | "timescale" =>
    match treeInput N blk, ((field blk "maxint").bind List.head?).bind String.toNat? with
    | some (times, lik, es), some m =>
      if m = 0 then .assertFail else
      match mutationalTimescale N.cast times lik es m with
      | some (o, a) => .ok (" | ".intercalate [render N "origin" o, render N "adjust" a])
      | none => .assertFail
    | _, _ => .bad
  | "pwl" =>
    match vals N blk "xs", (field blk "fixed").bind parseBools, vals N blk "ob", vals N blk "rb" with
    | some xs, some fx, some ob, some rb =>
      if xs.length ≠ fx.length then .bad
      else if !(pwlPre ob rb) then .assertFail
      else .ok (render N "ys" (piecewiseScalePoint xs fx ob rb))
    | _, _, _, _ => .bad
  | "post" =>
    match vals N blk "alpha", vals N blk "beta", vals N blk "qlo", vals N blk "qhi", vals N blk "ob",
        vals N blk "rb" with
    | some al, some be, some ql, some qh, some ob, some rb =>
      if al.length ≠ be.length ∨ ql.length ≠ al.length ∨ qh.length ≠ al.length then .bad
      else if !(pwlPre ob rb) then .assertFail
      else
        let pts := (al.zip (be.zip (ql.zip qh))).map (fun (a, b, l, h) => posteriorPoints ob rb a b l h)
        .ok (" | ".intercalate [render N "mid" (pts.map (·.1)), render N "lo" (pts.map (·.2.1)),
          render N "hi" (pts.map (·.2.2))])
    | _, _, _, _, _, _ => .bad
  | "iter" =>
    match treeInput N blk, (field blk "fixed").bind parseBools,
        ((field blk "maxint").bind List.head?).bind String.toNat?,
        ((field blk "iters").bind List.head?).bind String.toNat?,
        ((field blk "medges").bind (mapAll String.toInt?)).bind pairUpOpt,
        (field blk "mnodes").bind (mapAll String.toNat?) with
    | some (times, lik, es), some fx, some m, some k, some medges, some mnodes =>
      if fx.length ≠ times.length ∨ medges.length ≠ mnodes.length then .bad
      else if m = 0 then .assertFail else
      match rescaleIter N.cast lik es fx m k times with
      | none => .assertFail
      | some t =>
        .ok (" | ".intercalate [render N "t" t,
          render N "mt" ((medges.zip mnodes).map (fun (e, u) => mutationTime t e u))])
    | _, _, _, _, _, _ => .bad
  | "recover" =>
    match vals N blk "rbreaks", vals N blk "rtimes", vals N blk "times", (field blk "fixed").bind parseBools with
    | some rbk, some rt, some t, some fx =>
      if rt.length ≠ t.length ∨ fx.length ≠ t.length then .bad else
      -- evaluate the assertion of the inner piecewise_scale_point_estimate call first
      let r := recoverBreaks rbk rt t fx
      if !(pwlPre r.2.1 r.2.2) then .assertFail
      else .ok (" | ".intercalate [render N "ob" r.1, render N "kb" r.2.1, render N "vb" r.2.2])
    | _, _, _, _ => .bad
  | _ => .bad

end

def runCase (blk : List (List String)) : String :=
  let id := ((field blk "case").bind List.head?).getD "?"
  let op := ((field blk "op").bind List.head?).getD ""
  let num := ((field blk "num").bind List.head?).getD ""
  let r := if num = "f" then runOp numF blk op else if num = "q" then runOp numQ blk op else Reply.bad
  match r with
  | .ok s => id ++ " " ++ s
  | .assertFail => id ++ " assert"
  | .bad => id ++ " bad-op"

partial def loop (h : IO.FS.Stream) : IO Unit := do
  match ← readBlock h with
  | none => return ()
  | some blk =>
    IO.println (runCase blk)
    loop h

def main : IO Unit := do loop (← IO.getStdin)
