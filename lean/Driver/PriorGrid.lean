/-
Driver for the prior-grid model: `lake env lean --run Driver/PriorGrid.lean < cases`  (Float carrier).
Blocks (`case <id>` … `end`):
  op row / F <hex>…                         -> `<id> <hex>…`   fillRow (cdf values at the timepoints as oracle data)
  op tp / maxtips <n> / sep <hex> / perc <hex>… / ppf <i> <hex>… (one line per row i, aligned with perc)
        / cdfkeys <hex>… / cdf <i> <hex>… (one line per row i, aligned with cdfkeys)
                                            -> `<id> <hex>…`   createTimepoints; `bad-op` if the model asks for a
                                               (row, argument) that is not in the oracle tables
  op nonfixed / flags <f>… / times <hex>…   -> `<id> <u>…`   (samples derived from the flags column)
  op usergrid / twoN <hex> / user <hex>…    -> `<id> <hex>…`   stored grid for a constant population size
-/
import TsdateVerif.Model.PriorGrid
import TsdateVerif.Model.Proto
import Std.Data.HashMap
open Tsdate Tsdate.Proto Tsdate.PriorGrid

def nan : Float := 0.0 / 0.0

/-- bit pattern -> position in the key list -/
def indexMap (xs : List Float) : Std.HashMap UInt64 Nat :=
  (xs.zipIdx).foldl (fun m (x, i) => m.insert x.toBits i) {}

/-- rows of a table: lines `key i v…` -/
def tableRows (blk : List (List String)) (key : String) : Option (Std.HashMap Nat (Array Float)) := do
  let rows ← mapAll (fun (l : List String) => match l with
    | _ :: i :: vs => do
      let i ← i.toNat?
      let vs ← mapAll hexToFloat vs
      pure (i, vs.toArray)
    | _ => none) (blk.filter (fun l => l.head? = some key))
  pure (rows.foldl (fun m (i, r) => m.insert i r) {})

def lookup (rows : Std.HashMap Nat (Array Float)) (keys : Std.HashMap UInt64 Nat) (i : Nat) (x : Float) :
    Option Float := do
  let r ← rows[i]?
  let j ← keys[x.toBits]?
  r[j]?

def runCase (blk : List (List String)) : Option String := do
  let id ← (← field blk "case").head?
  let op ← (← field blk "op").head?
  match op with
  | "row" =>
    let F ← mapAll hexToFloat (← field blk "F")
    if F.any Float.isNaN then none
    pure (id ++ " " ++ " ".intercalate ((fillRow F).map floatToHex))
  | "tp" =>
    let maxTips ← (← (← field blk "maxtips").head?).toNat?
    let sep ← hexToFloat (← (← field blk "sep").head?)
    let perc ← mapAll hexToFloat (← field blk "perc")
    let ppfRows ← tableRows blk "ppf"
    let cdfRows ← tableRows blk "cdf"
    let keys ← mapAll hexToFloat (← field blk "cdfkeys")
    let percA := indexMap perc
    let keysA := indexMap keys
    let ppf : Nat → Float → Float := fun i p => (lookup ppfRows percA i p).getD nan
    let cdf : Nat → Float → Float := fun i t => (lookup cdfRows keysA i t).getD nan
    -- validate that every query of the model is answered by the tables (same fold as the model)
    let ok0 := perc.all (fun p => (lookup ppfRows percA 2 p).isSome)
    let (_, ok) := (List.range' 3 (maxTips - 3)).foldl (fun (st : List Float × Bool) i =>
      let tset := st.1
      let okc := tset.all (fun t => (lookup cdfRows keysA i t).isSome)
      let wd := selected cdf perc sep tset i
      let okp := wd.all (fun p => (lookup ppfRows percA i p).isSome)
      (tpStep ppf cdf perc sep tset i, st.2 && okc && okp)) (perc.map (ppf 2), ok0)
    if !ok then none
    let out := createTimepoints ppf cdf perc sep maxTips
    pure (id ++ " " ++ " ".intercalate (out.map floatToHex))
  | "nonfixed" =>
    let flags ← mapAll String.toNat? (← field blk "flags")
    let times ← mapAll hexToFloat (← field blk "times")
    if times.length ≠ flags.length then none
    let ta := times.toArray
    let out := nonfixedOfFlags flags (fun u => ta[u]!)
    pure (id ++ " " ++ " ".intercalate (out.map toString))
  | "usergrid" =>
    let twoN ← hexToFloat (← (← field blk "twoN").head?)
    let user ← mapAll hexToFloat (← field blk "user")
    let out := userGridStored (toCoalConst twoN) (toNatConst twoN) user
    pure (id ++ " " ++ " ".intercalate (out.map floatToHex))
  | _ => none

partial def loop (h : IO.FS.Stream) : IO Unit := do
  match ← readBlock h with
  | none => return ()
  | some blk =>
    match runCase blk with
    | some s => IO.println s
    | none => IO.println (((field blk "case").bind List.head?).getD "?" ++ " bad-op")
    loop h

def main : IO Unit := do loop (← IO.getStdin)
