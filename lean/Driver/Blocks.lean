/-
Driver for the unphased-singleton models: `lake env lean --run Driver/Blocks.lean < cases`.

Blocks (ints: -1 is NULL; floats: 16 hex digits, NaN = none):
  case <id> / op blocks / unph 0|1.. / nind int.. / mnode nat.. / mpos hex.. / child nat.. / left hex.. /
     right hex.. / ins nat.. / rem nat.. / L hex / end
     reply  `<id> E e0 e1 .. | C cnt.. | S hex.. | M int..`        (blocks_edges, blocks_stats[:,0], [:,1], mutations_block)
  case <id> / op realloc / lik hex.. / mblock int.. / phase hex.. / bedges i j i j .. / end
     reply  `<id> L hex..`
  case <id> / op tail / rescale 0|1 / old 0|1 / child nat.. / bedges i j .. / mblock int.. / phase hex.. /
     medge int.. / mnode nat.. / lik hex.. / end
     reply  `<id> E int.. | N nat.. | P hex.. | L hex..`           (mutation_edges, mutation_nodes, mutation_phase, counts)
`<id> bad-op` for anything the real code rejects (assertion) or that is malformed.
-/
import TsdateVerif.Model.Blocks
import TsdateVerif.Model.Proto
open Tsdate Tsdate.Proto Tsdate.Blocks

def optNat (s : String) : Option (Option Nat) :=
  if s = "-1" then some none else (s.toNat?).map some

def optFloat (s : String) : Option (Option Float) :=
  (hexToFloat s).map (fun x => if x.isNaN then none else some x)

def showOptNat : Option Nat → String
  | some n => toString n
  | none => "-1"

def showOptFloat : Option Float → String
  | some x => floatToHex x
  | none => "7ff8000000000000"

def pairs : List Nat → Option (List (Nat × Nat))
  | [] => some []
  | i :: j :: rest => (pairs rest).map (fun r => (i, j) :: r)
  | _ => none

def bool01 (s : String) : Option Bool := if s = "1" then some true else if s = "0" then some false else none

/-- numpy's `isclose(a, b)` with the default rtol=1e-5, atol=1e-8. -/
def npIsClose (a b : Float) : Bool :=
  a == b || ((a - b).abs ≤ 1e-8 + 1e-5 * b.abs && !a.isInf && !b.isInf)

def join (xs : List String) : String := " ".intercalate xs

def runBlocks (id : String) (blk : List (List String)) : Option String := do
  let unph ← mapAll bool01 (← field blk "unph")
  let nind ← mapAll optNat (← field blk "nind")
  let mnode ← mapAll String.toNat? (← field blk "mnode")
  let mpos ← mapAll hexToFloat (← field blk "mpos")
  let child ← mapAll String.toNat? (← field blk "child")
  let left ← mapAll hexToFloat (← field blk "left")
  let right ← mapAll hexToFloat (← field blk "right")
  let ins ← mapAll String.toNat? (← field blk "ins")
  let rem ← mapAll String.toNat? (← field blk "rem")
  let L ← hexToFloat (← (← field blk "L").head?)
  let ed : EdgeInput Float := EdgeInput.mk unph.toArray nind.toArray child.toArray
    left.toArray right.toArray ins.toArray rem.toArray L
  let inp : Input Float := Input.mk ed mnode.toArray mpos.toArray
  let out ← blockSingletons inp 0.0
  pure (id ++ " E " ++ join (out.edges.map (fun p => s!"{p.1} {p.2}"))
    ++ " | C " ++ join (out.stats.map (fun p => toString p.1))
    ++ " | S " ++ join (out.stats.map (fun p => showOptFloat p.2))
    ++ " | M " ++ join (out.mblock.toList.map showOptNat))

def runRealloc (id : String) (blk : List (List String)) : Option String := do
  let lik ← mapAll hexToFloat (← field blk "lik")
  let mblock ← mapAll optNat (← field blk "mblock")
  let phase ← mapAll optFloat (← field blk "phase")
  let bedges ← pairs (← mapAll String.toNat? (← field blk "bedges"))
  let out ← reallocate npIsClose lik.toArray mblock phase bedges.toArray
  pure (id ++ " L " ++ join (out.toList.map floatToHex))

def runTail (id : String) (blk : List (List String)) : Option String := do
  let rescale ← bool01 (← (← field blk "rescale").head?)
  let old ← bool01 (← (← field blk "old").head?)
  let child ← mapAll String.toNat? (← field blk "child")
  let bedges ← pairs (← mapAll String.toNat? (← field blk "bedges"))
  let mblock ← mapAll optNat (← field blk "mblock")
  let phase ← mapAll optFloat (← field blk "phase")
  let medge ← mapAll optNat (← field blk "medge")
  let mnode ← mapAll String.toNat? (← field blk "mnode")
  let lik ← mapAll hexToFloat (← field blk "lik")
  if mblock.length ≠ phase.length ∨ mblock.length ≠ medge.length ∨ mblock.length ≠ mnode.length then none
  if bedges.any (fun ij => ij.1 ≥ child.length ∨ ij.2 ≥ child.length) then none
  if mblock.any (fun b => match b with | some b => b ≥ bedges.length | none => false) then none
  let f : Fit Float := Fit.mk medge mnode phase lik.toArray
  let run := if old then inferTailOld npIsClose (0.5 : Float) else inferTail npIsClose (0.5 : Float)
  let out ← run rescale child.toArray bedges.toArray mblock f
  pure (id ++ " E " ++ join (out.mutEdge.map showOptNat) ++ " | N " ++ join (out.mutNode.map toString)
    ++ " | P " ++ join (out.phase.map showOptFloat) ++ " | L " ++ join (out.lik.toList.map floatToHex))

def runCase (blk : List (List String)) : Option String := do
  let id ← (← field blk "case").head?
  let op ← (← field blk "op").head?
  match op with
  | "blocks" => runBlocks id blk
  | "realloc" => runRealloc id blk
  | "tail" => runTail id blk
  | _ => none

partial def loop (h : IO.FS.Stream) : IO Unit := do
  match ← readBlock h with
  | none => return ()
  | some blk =>
    match runCase blk with
    | some s => IO.println s
    | none => IO.println (((field blk "case").bind List.head?).getD "?" ++ " bad-op")
    loop h

def main : IO Unit := do loop (← IO.getStdin)
