/-
Driver for the site-time models: `lake env lean --run Driver/SiteTimes.lean < cases`.
Floats are 64-bit patterns (16 hex digits), `nan` for an absent `mn`.
  case <id> / kind sites / sel child|parent|arithmetic|geometric / mintime <hex> / unc 0|1 /
  sample 0|1... / time <hex>... / mn <hex|none>... / edges l r p c ... / sites <hex>... /
  muts site node site node ... / end
    reply `<id> <hex>...` (NaN = no mutation) or `<id> error` (ValueError)
  case <id> / kind sampledata / est <hex>... / stimes <hex>... (time of each sample) /
  row <genotype of each sample> (one `row` line per site, in order) / end
    reply `<id> <hex>...`
-/
import TsdateVerif.Model.SiteTimes
import TsdateVerif.Model.Proto
open Tsdate Tsdate.SiteTimes Tsdate.Proto

def nanF : Float := Float.ofBits 0x7ff8000000000000

def optToHex : Option Float → String
  | none => "7ff8000000000000"
  | some x => floatToHex x

def quadsF : List String → Option (List (TEdge Float))
  | [] => some []
  | l :: r :: p :: c :: rest => do
    let l ← hexToFloat l
    let r ← hexToFloat r
    let p ← p.toNat?
    let c ← c.toNat?
    let tl ← quadsF rest
    pure ({ left := l, right := r, parent := p, child := c } :: tl)
  | _ => none

def natPairs : List String → Option (List (Nat × Nat))
  | [] => some []
  | a :: b :: rest => do
    let a ← a.toNat?
    let b ← b.toNat?
    let tl ← natPairs rest
    pure ((a, b) :: tl)
  | _ => none

def parseSel : String → Option Sel
  | "child" => some .child
  | "parent" => some .parent
  | "arithmetic" => some .arithmetic
  | "geometric" => some .geometric
  | _ => none

def parseBool (s : String) : Option Bool :=
  if s = "1" then some true else if s = "0" then some false else none

def runSites (id : String) (blk : List (List String)) : Option String := do
  let sel ← parseSel (← (← field blk "sel").head?)
  let mt ← hexToFloat (← (← field blk "mintime").head?)
  let unc ← parseBool (← (← field blk "unc").head?)
  let sample ← mapAll parseBool (← field blk "sample")
  let time ← mapAll hexToFloat (← field blk "time")
  let mn ← mapAll (fun s => if s = "none" then some none else (hexToFloat s).map some) (← field blk "mn")
  let es ← quadsF (← field blk "edges")
  let sites ← mapAll hexToFloat (← field blk "sites")
  let muts ← natPairs (← field blk "muts")
  if sample.length ≠ time.length ∨ mn.length ≠ time.length then none
  if es.any (fun e => e.parent ≥ time.length ∨ e.child ≥ time.length) then none
  if muts.any (fun m => m.1 ≥ sites.length ∨ m.2 ≥ time.length) then none
  match sitesTimeFromTs Float.sqrt unc sel mt sample.toArray time.toArray mn.toArray es sites muts with
  | none => pure (id ++ " error")
  | some out => pure (id ++ " " ++ " ".intercalate (out.map optToHex))

def runSampledata (id : String) (blk : List (List String)) : Option String := do
  let est ← mapAll hexToFloat (← field blk "est")
  let stimes ← mapAll hexToFloat (← field blk "stimes")
  let rows ← mapAll (fun (l : List String) => mapAll String.toInt? l.tail)
    (blk.filter (fun l => l.head? = some "row"))
  if rows.length ≠ est.length then none
  if rows.any (fun r => r.length ≠ stimes.length) then none
  let estO : List (Option Float) := est.map (fun x => if x.isNaN then none else some x)
  let out := addSampledataTimes estO (rows.map (fun r => stimes.zip r))
  pure (id ++ " " ++ " ".intercalate (out.map optToHex))

def runCase (blk : List (List String)) : Option String := do
  let id ← (← field blk "case").head?
  let kind ← (← field blk "kind").head?
  if kind = "sites" then runSites id blk
  else if kind = "sampledata" then runSampledata id blk
  else none

partial def loop (h : IO.FS.Stream) : IO Unit := do
  match ← readBlock h with
  | none => return ()
  | some blk =>
    match runCase blk with
    | some s => IO.println s
    | none => IO.println (((field blk "case").bind List.head?).getD "?" ++ " bad-op")
    loop h

def main : IO Unit := do loop (← IO.getStdin)
