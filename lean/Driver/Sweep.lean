/-
Driver for the sweep models (C24, C30): `lake env lean --run Driver/Sweep.lean < cases`.

Block format (floats as 64-bit hex patterns):
  case <id>
  op count | unary
  L <hex>
  edges <l> <r> <parent> <child> ...        (4 tokens per edge)
  ins <edge ids>      rem <edge ids>         (tskit's insertion / removal index)
  count:  sb <0|1>   sample <0|1>...   mnode <node ids>   mpos <hex>...   ntime <hex>... (nodes_time)
          breaks <hex>... (ts.breakpoints)   wantspan <0|1> (print the table of specified span weights)
  unary:  n <num_nodes>   mask <0|1>...
  unaryw: flags <nodes_flags as naturals>...   skip <0|1>      (the wrapper util.contains_unary_nodes)
  end
Replies (one line):
  <id> count <valid><noOverlap><nodesOk><mutsOk><timesOk><partitionOk> | <mutations_edge, -1 = NULL> |
       <edges_mutations hex> | <edges_span hex> | <specEdge per mutation> | <nodes_samples hex> |
       <samplesBelow at each mutation (the specified size-biased weight)> |
       <with wantspan: for every edge, the specified span weight at every break point, edges separated by ;>
  <id> unary <valid><nodesOk> <containsUnary 0|1> <hasLocallyUnary 0|1>
  <id> unaryw <valid><nodesOk> <containsUnaryNodes 0|1>
  <id> bad-op      (unparsable, sweep out of fuel, or the walk towards the root failed)
-/
import TsdateVerif.Model.CountMut
import TsdateVerif.Model.Unary
import TsdateVerif.Model.Proto
open Tsdate Tsdate.Proto Tsdate.Sweep

def parseEdges : List String → Option (List (Edge Float))
  | [] => some []
  | l :: r :: p :: c :: rest => do
    let l ← hexToFloat l
    let r ← hexToFloat r
    let p ← p.toNat?
    let c ← c.toNat?
    let es ← parseEdges rest
    pure ({ left := l, right := r, parent := p, child := c } :: es)
  | _ => none

def parseBools (xs : List String) : Option (List Bool) :=
  mapAll (fun s => if s = "1" then some true else if s = "0" then some false else none) xs

def b2s (b : Bool) : String := if b then "1" else "0"
def on2s : Option Nat → String
  | none => "-1"
  | some e => toString e
def join (xs : List String) : String := " ".intercalate xs

def parseTables (blk : List (List String)) : Option (Tables Float) := do
  let L ← hexToFloat (← (← field blk "L").head?)
  let es ← parseEdges (← field blk "edges")
  let ins ← mapAll String.toNat? (← field blk "ins")
  let rem ← mapAll String.toNat? (← field blk "rem")
  pure { edges := es.toArray, ins := ins, rem := rem, seqLen := L }

def runCount (id : String) (blk : List (List String)) (T : Tables Float) : Option String := do
  let sb ← (← parseBools (← field blk "sb")).head?
  let sample ← parseBools (← field blk "sample")
  let mnode ← mapAll String.toNat? (← field blk "mnode")
  let mpos ← mapAll hexToFloat (← field blk "mpos")
  let ntime ← mapAll hexToFloat (← field blk "ntime")
  let breaks ← mapAll hexToFloat (← field blk "breaks")
  let wantspan ← (← parseBools (← field blk "wantspan")).head?
  let M : CountMut.Muts Float := { node := mnode.toArray, pos := mpos.toArray }
  let n := sample.length
  let flags := b2s (validB T) ++ b2s (noOverlapB T) ++ b2s (nodesBelowB T n) ++ b2s (CountMut.mutsOkB M n)
    ++ b2s (CountMut.timesOkB T ntime.toArray && ntime.length == n) ++ b2s (CountMut.partitionB T breaks)
  let out ← CountMut.countMutations T M sample.toArray sb
  if out.err then none
  let spec := (List.range mnode.length).map (fun m => on2s (CountMut.specEdge T M m))
  let specW := (List.range mnode.length).map (fun m =>
    toString (CountMut.samplesBelow T sample.toArray (aget M.pos m) (aget M.node m)))
  let specS := if wantspan then
      "; ".intercalate ((CountMut.spanWeights T sample.toArray breaks).map fun row => join (row.map toString))
    else ""
  pure (id ++ " count " ++ flags ++ " | " ++ join (out.mutEdge.toList.map on2s) ++ " | "
    ++ join (out.edgeMuts.toList.map floatToHex) ++ " | " ++ join (out.edgeSpan.toList.map floatToHex)
    ++ " | " ++ join spec ++ " | " ++ join (out.nodeSamples.toList.map floatToHex) ++ " | " ++ join specW ++ " | " ++ specS)

def runUnary (id : String) (blk : List (List String)) (T : Tables Float) : Option String := do
  let n ← (← (← field blk "n").head?).toNat?
  let mask ← parseBools (← field blk "mask")
  if mask.length ≠ n then none
  let flags := b2s (validB T) ++ b2s (nodesBelowB T n)
  let res ← Unary.containsUnary T mask.toArray n
  pure (id ++ " unary " ++ flags ++ " " ++ b2s res ++ " " ++ b2s (Unary.hasLocallyUnary T))

def runUnaryW (id : String) (blk : List (List String)) (T : Tables Float) : Option String := do
  let flags ← mapAll String.toNat? (← field blk "flags")
  let skip ← (← parseBools (← field blk "skip")).head?
  let fl := b2s (validB T) ++ b2s (nodesBelowB T flags.length)
  let res ← Unary.containsUnaryNodes T flags.toArray skip
  pure (id ++ " unaryw " ++ fl ++ " " ++ b2s res)

def runCase (blk : List (List String)) : Option String := do
  let id ← (← field blk "case").head?
  let op ← (← field blk "op").head?
  let T ← parseTables blk
  if op = "count" then runCount id blk T
  else if op = "unary" then runUnary id blk T
  else if op = "unaryw" then runUnaryW id blk T
  else none

partial def loop (h : IO.FS.Stream) : IO Unit := do
  match ← readBlock h with
  | none => return ()
  | some blk =>
    match runCase blk with
    | some s => IO.println s
    | none => IO.println (((field blk "case").bind List.head?).getD "?" ++ " bad-op")
    loop h

def main : IO Unit := do loop (← IO.getStdin)
