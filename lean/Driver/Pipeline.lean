/-
Driver for the output-stage models: `lake env lean --run Driver/Pipeline.lean < cases`.

One block per case (`case <id>` … `end`), one reply line per case starting with the id.

op gmts      run `Pipeline.getModifiedTs` on an abstract copy of the real tables.
  Numbers (times, coordinates) are opaque tokens (the 64-bit pattern in hex); "-" is the empty
  byte string.  Metadata crosses *decoded*: a row is `-` (empty bytes), `r<hex>` (raw bytes that no
  schema explains) or a comma-separated list `<hexkey>:<hexvalue>` sorted by key.  A schema is a
  class token: `-` none, `P` permissive JSON, `D` tsdate's default schema, `S<hexkey>,<hexkey>…`
  a JSON schema with `additionalProperties: false` and exactly these properties, `B` anything that
  rejects the extra keys (struct codec …).
  Lines: opts <timeUnits> <none|true|false> <0|1> / defaults <nodeSchema> <mutSchema> /
    top <seqlen> <timeUnits> <metadata> <schema> <refseq> /
    schemas <nodes> <edges> <sites> <mutations> <individuals> <populations> <migrations> /
    node <flags> <time> <pop> <ind> <md> … / edge <l> <r> <p> <c> <md> … / site <pos> <anc> <md> … /
    mut <site> <node> <time> <derived> <parent> <md> … / ind <flags> <loc> <parents> <md> … /
    pop <md> … / mig <l> <r> <node> <src> <dest> <time> <md> … / prov <timestamp> <record> … /
    rmean <tok>… / rvar none|<tok>… / rmmean none|<tok>… / rmvar none|<tok>… / rmnode <nat>… /
    newtimes <tok>… (what `constrain_ages` returned) / provrow <timestamp> <record>
  Reply: `<id> raised` or `<id> ok <nodeOutcome> <mutOutcome>` followed by the output tables in the
  same line syntax, joined by ` | `.

op meanvar   `Pipeline.meanVar` at Float (`carrier float`, tokens = hex bit patterns) or Rat
  (`carrier rat`, tokens = num/den).  Lines: times <tok>… / fixed <time> or row <tok>… per node.
  Reply: `<id> <mn> <vr> <mn> <vr> …`.

op toprob    `Pipeline.toProb` on one row: `row <tok>…`.  Reply `<id> <tok>…`.

op project   `Pipeline.project` (DatingInput) of the tables given in the gmts line syntax, plus a line
  `phased 0|1`.  Reply `<id> <canonical rendering of the projection>`; two inputs are dated identically
  by the model exactly when these renderings are equal.
-/
import TsdateVerif.Model.Pipeline
import TsdateVerif.Model.DatingInput
import TsdateVerif.Model.Proto
open Tsdate Tsdate.Proto Tsdate.Tables Tsdate.Pipeline

def unDash (s : String) : String := if s = "-" then "" else s
def dash (s : String) : String := if s = "" then "-" else s

/-- decoded metadata `k:v,k:v` -> pairs -/
def parsePairs (s : String) : List (String × String) :=
  if s = "" then [] else
  (s.splitOn ",").filterMap (fun kv => match kv.splitOn ":" with
    | [k, v] => some (k, v)
    | _ => none)

def renderPairs (ps : List (String × String)) : String :=
  ",".intercalate (ps.map (fun (k, v) => k ++ ":" ++ v))

def insertSorted (kv : String × String) : List (String × String) → List (String × String)
  | [] => [kv]
  | x :: xs => if kv.1 < x.1 then kv :: x :: xs else x :: insertSorted kv xs

def hexMn : String := "6d6e"
def hexVr : String := "7672"

/-- which keys a schema class accepts -/
def schemaAccepts (schema : String) (keys : List String) : Bool :=
  if schema = "P" ∨ schema = "D" then true
  else if schema.startsWith "S" then
    let allowedKeys := (schema.drop 1).toString.splitOn ","
    keys.all (fun k => allowedKeys.contains k)
  else false

def driverCodec : Codec String where
  hasSchema s := s ≠ ""
  encodeRow schema old mn vr :=
    let base := match old with
      | none => []
      | some o => if o.startsWith "r" then [] else parsePairs o
    if (match old with | some o => o.startsWith "r" | none => false) then none else
    let kept := base.filter (fun kv => kv.1 ≠ hexMn ∧ kv.1 ≠ hexVr)
    let ps := insertSorted (hexVr, "f" ++ vr) (insertSorted (hexMn, "f" ++ mn) kept)
    if schemaAccepts schema (ps.map (·.1)) then some (renderPairs ps) else none
  readMnVr _ b :=
    let ps := parsePairs b
    match ps.lookup hexMn, ps.lookup hexVr with
    | some m, some v => some ((m.drop 1).toString, (v.drop 1).toString)
    | _, _ => none

def parseIntList (s : String) : Option (List Int) :=
  if s = "-" then some [] else mapAll String.toInt? (s.splitOn ",")

def rows (blk : List (List String)) (key : String) : List (List String) :=
  (blk.filter (fun l => l.head? = some key)).map List.tail

def optList (ws : List String) : Option (List String) :=
  if ws = ["none"] then none else some ws

def parseTC (blk : List (List String)) : Option (TableCollection String) := do
  let top ← field blk "top"
  let sch ← field blk "schemas"
  match top, sch with
  | [sl, tu, md, ms, rs], [sn, se, ss, sm, si, sp, sg] =>
    let nodes ← mapAll (fun (w : List String) => match w with
      | [f, t, p, i, m] => do pure (⟨← f.toNat?, t, ← p.toInt?, ← i.toInt?, unDash m⟩ : NodeRow String)
      | _ => none) (rows blk "node")
    let edges ← mapAll (fun (w : List String) => match w with
      | [l, r, p, c, m] => do pure (⟨l, r, ← p.toNat?, ← c.toNat?, unDash m⟩ : EdgeRow String)
      | _ => none) (rows blk "edge")
    let sites ← mapAll (fun (w : List String) => match w with
      | [p, a, m] => some (⟨p, unDash a, unDash m⟩ : SiteRow String)
      | _ => none) (rows blk "site")
    let muts ← mapAll (fun (w : List String) => match w with
      | [s, n, t, d, p, m] => do
        pure (⟨← s.toNat?, ← n.toNat?, t, unDash d, ← p.toInt?, unDash m⟩ : MutRow String)
      | _ => none) (rows blk "mut")
    let inds ← mapAll (fun (w : List String) => match w with
      | [f, l, p, m] => do
        pure (⟨← f.toNat?, if l = "-" then [] else l.splitOn ",", ← parseIntList p, unDash m⟩ : IndRow String)
      | _ => none) (rows blk "ind")
    let pops ← mapAll (fun (w : List String) => match w with
      | [m] => some (⟨unDash m⟩ : PopRow)
      | _ => none) (rows blk "pop")
    let migs ← mapAll (fun (w : List String) => match w with
      | [l, r, n, s, d, t, m] => do
        pure (⟨l, r, ← n.toNat?, ← s.toInt?, ← d.toInt?, t, unDash m⟩ : MigRow String)
      | _ => none) (rows blk "mig")
    let provs ← mapAll (fun (w : List String) => match w with
      | [t, r] => some (⟨unDash t, unDash r⟩ : ProvRow)
      | _ => none) (rows blk "prov")
    pure { sequenceLength := sl, timeUnits := unDash tu, metadata := unDash md, metadataSchema := unDash ms,
           refseq := unDash rs, nodes := nodes, nodesSchema := unDash sn, edges := edges,
           edgesSchema := unDash se, sites := sites, sitesSchema := unDash ss, mutations := muts,
           mutationsSchema := unDash sm, individuals := inds, individualsSchema := unDash si,
           populations := pops, populationsSchema := unDash sp, migrations := migs,
           migrationsSchema := unDash sg, provenances := provs }
  | _, _ => none

def commaInts (l : List Int) : String := if l.isEmpty then "-" else ",".intercalate (l.map toString)
def commaStrs (l : List String) : String := if l.isEmpty then "-" else ",".intercalate l

def renderTC (t : TableCollection String) : String :=
  let parts : List String :=
    [s!"top {t.sequenceLength} {dash t.timeUnits} {dash t.metadata} {dash t.metadataSchema} {dash t.refseq}",
     s!"schemas {dash t.nodesSchema} {dash t.edgesSchema} {dash t.sitesSchema} {dash t.mutationsSchema} {dash t.individualsSchema} {dash t.populationsSchema} {dash t.migrationsSchema}"]
    ++ t.nodes.map (fun r => s!"node {r.flags} {r.time} {r.population} {r.individual} {dash r.metadata}")
    ++ t.edges.map (fun r => s!"edge {r.left} {r.right} {r.parent} {r.child} {dash r.metadata}")
    ++ t.sites.map (fun r => s!"site {r.position} {dash r.ancestralState} {dash r.metadata}")
    ++ t.mutations.map (fun r => s!"mut {r.site} {r.node} {r.time} {dash r.derivedState} {r.parent} {dash r.metadata}")
    ++ t.individuals.map (fun r => s!"ind {r.flags} {commaStrs r.location} {commaInts r.parents} {dash r.metadata}")
    ++ t.populations.map (fun r => s!"pop {dash r.metadata}")
    ++ t.migrations.map (fun r => s!"mig {r.left} {r.right} {r.node} {r.source} {r.dest} {r.time} {dash r.metadata}")
    ++ t.provenances.map (fun r => s!"prov {dash r.timestamp} {dash r.record}")
  " | ".intercalate parts

def outcomeName : MdOutcome → String
  | .skipped => "skipped" | .written => "written" | .warned => "warned"
  | .replaced => "replaced" | .raised => "raised"

def runGmts (id : String) (blk : List (List String)) : Option String := do
  let t0 ← parseTC blk
  let o ← field blk "opts"
  let d ← field blk "defaults"
  let opts : Options ← match o with
    | [tu, sm, rp] => do
      let pol ← (if sm = "none" then some none else if sm = "true" then some (some true)
                 else if sm = "false" then some (some false) else none)
      pure ⟨unDash tu, pol, rp = "1"⟩
    | _ => none
  let (dn, dm) ← match d with | [a, b] => some (a, b) | _ => none
  let res : Results String :=
    { posteriorMean := ← field blk "rmean"
      posteriorVar := optList (← field blk "rvar")
      mutationMean := optList (← field blk "rmmean")
      mutationVar := optList (← field blk "rmvar")
      mutationNode := ← mapAll String.toNat? (← field blk "rmnode") }
  let newtimes ← field blk "newtimes"
  let prow ← match ← field blk "provrow" with | [a, b] => some (⟨unDash a, unDash b⟩ : ProvRow) | _ => none
  let env : Env String :=
    { codec := driverCodec, nodeDefaultSchema := dn, mutDefaultSchema := dm,
      constrain := fun _ _ => newtimes, unknownTime := "unknown",
      sort := fun t => t,                                  -- the harness compares modulo tskit's sort contract
      computeParents := fun t => t.mutations.map (fun _ => -1),
      computeTimes := fun t => { t with mutations := t.mutations.map (·.setTime "computed") },
      provRow := fun _ => prow }
  match getModifiedTs env opts t0 res with
  | none => pure (id ++ " raised")
  | some (out, tr) => pure (s!"{id} ok {outcomeName tr.nodeMd} {outcomeName tr.mutMd} | " ++ renderTC out)

def runMeanVar (id : String) (blk : List (List String)) : Option String := do
  let carrier ← (← field blk "carrier").head?
  let nodeLines := blk.filter (fun l => l.head? = some "fixed" ∨ l.head? = some "row")
  if carrier = "float" then
    let times ← mapAll hexToFloat (← field blk "times")
    let nodes ← mapAll (fun (l : List String) => match l with
      | ["fixed", t] => do pure ((← hexToFloat t), (none : Option (List Float)))
      | "row" :: ws => do pure ((0.0 : Float), some (← mapAll hexToFloat ws))
      | _ => none) nodeLines
    let out := meanVar times (nodes.map (·.1)) (nodes.map (·.2))
    pure (id ++ " " ++ " ".intercalate (out.map (fun (m, v) => floatToHex m ++ " " ++ floatToHex v)))
  else
    let times ← mapAll parseRat (← field blk "times")
    let nodes ← mapAll (fun (l : List String) => match l with
      | ["fixed", t] => do pure ((← parseRat t), (none : Option (List Rat)))
      | "row" :: ws => do pure ((0 : Rat), some (← mapAll parseRat ws))
      | _ => none) nodeLines
    if nodes.any (fun n => match n.2 with | some r => sum r = 0 | none => false) then none
    let out := meanVar times (nodes.map (·.1)) (nodes.map (·.2))
    pure (id ++ " " ++ " ".intercalate (out.map (fun (m, v) => ratToString m ++ " " ++ ratToString v)))

def runToProb (id : String) (blk : List (List String)) : Option String := do
  let carrier ← (← field blk "carrier").head?
  if carrier = "float" then
    let row ← mapAll hexToFloat (← field blk "row")
    pure (id ++ " " ++ " ".intercalate ((toProb row).map floatToHex))
  else
    let row ← mapAll parseRat (← field blk "row")
    if sum row = 0 then none
    pure (id ++ " " ++ " ".intercalate ((toProb row).map ratToString))

def runProject (id : String) (blk : List (List String)) : Option String := do
  let t ← parseTC blk
  let ph ← (← field blk "phased").head?
  let d := project (ph = "1") t
  let muts := d.mutations.map (fun (p, n) => s!"{p.getD "none"}@{n}")
  let inds := match d.individuals with
    | none => "-"
    | some (l, k) => s!"{commaInts l}#{k}"
  pure (s!"{id} seq={d.sequenceLength} times={commaStrs d.nodesTime} samples={commaStrs (d.nodesSample.map toString)} " ++
    s!"edges={commaStrs (d.edges.map (fun (l, r, p, c) => s!"{l}:{r}:{p}:{c}"))} muts={commaStrs muts} inds={inds}")

def runCase (blk : List (List String)) : Option String := do
  let id ← (← field blk "case").head?
  let op ← (← field blk "op").head?
  if op = "gmts" then runGmts id blk
  else if op = "meanvar" then runMeanVar id blk
  else if op = "toprob" then runToProb id blk
  else if op = "project" then runProject id blk
  else none

partial def loop (h : IO.FS.Stream) : IO Unit := do
  match ← readBlock h with
  | none => return ()
  | some blk =>
    match runCase blk with
    | some s => IO.println s
    | none => IO.println (((field blk "case").bind List.head?).getD "?" ++ " bad-op")
    loop h

def main : IO Unit := do loop (← IO.getStdin)
