/-
Driver for the `preprocess_ts` plan model: `lake env lean --run Driver/Preprocess.lean < cases`.
Floats are 64-bit patterns (16 hex digits).
  case <id> / sites <hex>... / L <hex> / mingap none|<hex> / flanks none|0|1 / telomeres none|0|1 /
  split none|0|1 / prov none|0|1 / intervals none | <hex a> <hex b> ... / end
Reply: `<id> ok <split> <prov> <mingap hex|none> <flanks 0|1|none> <a> <b> ...`  or  `<id> error <name>`.
-/
import TsdateVerif.Model.Preprocess
import TsdateVerif.Model.Proto
open Tsdate Tsdate.Preprocess Tsdate.Proto

def optBool : String → Option (Option Bool)
  | "none" => some none
  | "0" => some (some false)
  | "1" => some (some true)
  | _ => none

def pairsF : List String → Option (List (Float × Float))
  | [] => some []
  | a :: b :: rest => do
    let a ← hexToFloat a
    let b ← hexToFloat b
    let tl ← pairsF rest
    pure ((a, b) :: tl)
  | _ => none

def showOB : Option Bool → String
  | none => "none"
  | some true => "1"
  | some false => "0"

def errName : Err → String
  | .bothTelomeresAndFlanks => "bothTelomeresAndFlanks"
  | .intervalsAndGapOrFlanks => "intervalsAndGapOrFlanks"
  | .noSites => "noSites"

def runCase (blk : List (List String)) : Option String := do
  let id ← (← field blk "case").head?
  let sites ← mapAll hexToFloat (← field blk "sites")
  let L ← hexToFloat (← (← field blk "L").head?)
  let mgs ← (← field blk "mingap").head?
  let mg ← if mgs = "none" then some none else (hexToFloat mgs).map some
  let ef ← optBool (← (← field blk "flanks").head?)
  let rt ← optBool (← (← field blk "telomeres").head?)
  let sd ← optBool (← (← field blk "split").head?)
  let rp ← optBool (← (← field blk "prov").head?)
  let ivw ← field blk "intervals"
  let ivs ← if ivw = ["none"] then some none else (pairsF ivw).map some
  let o : Opts Float := { minimumGap := mg, eraseFlanks := ef, deleteIntervals := ivs,
                          splitDisjoint := sd, recordProvenance := rp, removeTelomeres := rt }
  match plan (1000000 : Float) sites L o with
  | .error e => pure (id ++ " error " ++ errName e)
  | .ok p =>
    pure (id ++ " ok " ++ (if p.splitDisjoint then "1" else "0") ++ " " ++
      (if p.recordProvenance then "1" else "0") ++ " " ++
      (match p.minimumGap with | none => "none" | some x => floatToHex x) ++ " " ++ showOB p.eraseFlanks ++
      String.join (p.intervals.map (fun iv => " " ++ floatToHex iv.1 ++ " " ++ floatToHex iv.2)))

partial def loop (h : IO.FS.Stream) : IO Unit := do
  match ← readBlock h with
  | none => return ()
  | some blk =>
    match runCase blk with
    | some s => IO.println s
    | none => IO.println (((field blk "case").bind List.head?).getD "?" ++ " bad-op")
    loop h

def main : IO Unit := do loop (← IO.getStdin)
