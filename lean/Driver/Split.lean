/-
Driver for the `_split_disjoint_nodes` / `_relabel_mutations_node` models:
`lake env lean --run Driver/Split.lean < cases`.
Block format (coordinates are exact rationals `num/den`):
  case <id> / n <N> / excl <0|1>... / edges l r p c l r p c ... / ins e... / rem e... /
  muts pos node pos node ... / flags f... (optional: nodes_flags, naturals) /
  mdrows t... / mdenc t... (optional, N tokens each: raw metadata row of node i as hex, `-` = empty;
  the re-encoded row with `unsplit_node_id` for node i, `fail` = the codec refuses) / end
`ins`/`rem` are tskit's edge insertion / removal orders (edge ids).
Reply: `<id>;<edges_parent>;<edges_child>;<nodes_order>;<split_nodes>;<mutations_node>;<flags>` (each a
space separated list of naturals; `<flags>` = the output flags column for NODE_SPLIT_BY_PREPROCESS = 2^30,
empty when no `flags` line was sent), then `;<metadata rows of the output node table>` (tokens; empty
without `mdrows`), or `<id> bad-op`.
-/
import TsdateVerif.Model.Split
import TsdateVerif.Model.Proto
open Tsdate Tsdate.Split Tsdate.Proto

def quads : List String → Option (List (SEdge Rat))
  | [] => some []
  | l :: r :: p :: c :: rest => do
    let l ← parseRat l
    let r ← parseRat r
    let p ← p.toNat?
    let c ← c.toNat?
    let tl ← quads rest
    pure ({ left := l, right := r, parent := p, child := c } :: tl)
  | _ => none

def mutPairs : List String → Option (List (Rat × Nat))
  | [] => some []
  | x :: u :: rest => do
    let x ← parseRat x
    let u ← u.toNat?
    let tl ← mutPairs rest
    pure ((x, u) :: tl)
  | _ => none

def showNats (xs : List Nat) : String := " ".intercalate (xs.map toString)

def runCase (blk : List (List String)) : Option String := do
  let id ← (← field blk "case").head?
  let N ← (← (← field blk "n").head?).toNat?
  let excl ← mapAll (fun s => if s = "1" then some true else if s = "0" then some false else none)
    (← field blk "excl")
  let es ← quads (← field blk "edges")
  let ins ← mapAll String.toNat? (← field blk "ins")
  let rem ← mapAll String.toNat? (← field blk "rem")
  let muts ← mutPairs (← field blk "muts")
  if excl.length ≠ N then none
  if es.any (fun e => e.parent ≥ N ∨ e.child ≥ N) then none
  if ins.length ≠ es.length ∨ rem.length ≠ es.length then none
  if (ins ++ rem).any (fun e => e ≥ es.length) then none
  if muts.any (fun m => m.2 ≥ N) then none
  let esA := es.toArray
  let out := splitDisjoint N excl.toArray esA (argsortLeft esA)
  let insEv : List (InsEv Rat) := ins.map (fun e =>
    { pos := (aget esA e).left, child := out.child.getD e 0, parent := out.parent.getD e 0 })
  let remPos : List Rat := rem.map (fun e => (aget esA e).right)
  let m ← relabelMutations (0 : Rat) out.order.toArray insEv remPos muts
  let flags ← match field blk "flags" with
    | none => some []
    | some ws => do
      let fl ← mapAll String.toNat? ws
      if fl.length ≠ N then none
      pure (outFlags (2 ^ 30) fl.toArray out)
  let md ← match field blk "mdrows", field blk "mdenc" with
    | some rows, some encs =>
      if rows.length ≠ N ∨ encs.length ≠ N then none
      else
        let encA := encs.toArray
        let enc : Nat → Option String := fun u =>
          match encA[u]? with
          | some t => if t = "fail" then none else some t
          | none => none
        some (outMetadata (fun t => t == "-") "-" rows.toArray out.order (extraMd enc out.split))
    | none, none => some []
    | _, _ => none
  pure (id ++ ";" ++ showNats out.parent ++ ";" ++ showNats out.child ++ ";" ++ showNats out.order
    ++ ";" ++ showNats out.split ++ ";" ++ showNats m ++ ";" ++ showNats flags ++ ";" ++ " ".intercalate md)

partial def loop (h : IO.FS.Stream) : IO Unit := do
  match ← readBlock h with
  | none => return ()
  | some blk =>
    match runCase blk with
    | some s => IO.println s
    | none => IO.println (((field blk "case").bind List.head?).getD "?" ++ " bad-op")
    loop h

def main : IO Unit := do loop (← IO.getStdin)
