#!/bin/sh
# tools/seed_check.sh <seeded/id dir> <Cxx> [tier]  -> runs ./check Cxx against a scratch worktree with the patch applied
d="$(cd "$1" && pwd)"; p="$2"; tier="${3:-quick}"
w=/var/tmp/vp-seedcheck-$$
git -C /repo worktree add --detach $w HEAD >/dev/null 2>&1 || exit 2
[ -f /repo/tsdate/_version.py ] && cp /repo/tsdate/_version.py $w/tsdate/_version.py
trap 'git -C /repo worktree remove --force $w >/dev/null 2>&1' EXIT
git -C $w apply "$d/patch.diff" || { echo "patch does not apply"; exit 2; }
cd /verif && TSDATE_REPO=$w VERIF_EVIDENCE_DIR=/var/tmp/vp-seedcheck-ev-$$ ./check "$p" --tier "$tier"
rc=$?
rm -rf /var/tmp/vp-seedcheck-ev-$$
# restore generated Lean files to what /repo says
( cd /verif && PYTHONPATH=/verif /venv/bin/python -m translate.all >/dev/null 2>&1 )
echo "check exit: $rc"
exit $rc
