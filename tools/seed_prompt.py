#!/usr/bin/env python3
"""tools/seed_prompt.py Cxx [variant-hint]  -> prompt text for an independent seeding agent (property text only)."""
import json, sys
pid = sys.argv[1]
hint = sys.argv[2] if len(sys.argv) > 2 else ""
tag = sys.argv[3] if len(sys.argv) > 3 else pid
p = next(json.loads(l) for l in open('/verif/properties.jsonl') if json.loads(l)['id'] == pid)
anch = p.get('anchors', {})
mech = "; ".join(f"{m['name']} ({m['where']})" for m in anch.get('mechanism', []))
print(f"""You are helping to evaluate a verification effort for the open-source Python/numba library tskit-dev/tsdate (it infers node ages in tskit tree sequences). You have your own scratch git worktree of the repository at /tmp/seed-{tag}/repo (detached HEAD). Work ONLY inside /tmp/seed-{tag}/ . Do not read or write /verif or /repo (other than through your worktree), and never commit.

Python: use `/venv/bin/python` with `PYTHONPATH=/tmp/seed-{tag}/repo` (check `python -c "import tsdate; print(tsdate.__file__)"` points into your worktree; the first `import tsdate` JIT-compiles numba kernels for ~35 s; set `NUMBA_CACHE_DIR=/tmp/seed-{tag}/nbcache` and `TSDATE_ENABLE_NUMBA_CACHE=1` to cache, but delete that cache directory after every source edit because numba's cache does not track cross-file dependencies). msprime, tskit, tsinfer, numpy, scipy are installed. There is no network.

A semantic property of tsdate that users rely on:

  id: {pid}
  title: {p['title']}
  statement: {p['statement']}
  quantified over: {p['quantifier']['text']}
  code it is anchored in: {", ".join(anch.get('files', []))} — {mech}

YOUR TASK: produce a realistic change to the tsdate source (the kind of mistake or "harmless refactor/optimisation" a contributor could make) that BREAKS this property while the package still imports, and while the repository's existing test suite still passes:
    cd /tmp/seed-{tag}/repo && PYTHONPATH=/tmp/seed-{tag}/repo /venv/bin/python -m pytest -q -p no:cacheprovider --timeout=900 -x -n 4
(run the full suite at least once with your final patch applied; all tests that pass without the patch must pass with it; it takes several minutes).
The change must need something specific to manifest — an unusual but valid input, a particular option combination, a multi-step sequence of calls, a particular ordering/interleaving or crash point, or two cooperating edit sites that each look fine alone — NOT something ordinary use or the default example would expose at once. Keep the diff small (a few lines) and plausible. {hint}

Deliver in /tmp/seed-{tag}/out/ :
  patch.diff  — `git -C /tmp/seed-{tag}/repo diff` of your change (must apply with `git apply` to a clean checkout of the same commit)
  demo.py     — a self-contained script (run as `cd <repo> && PYTHONPATH=<repo> /venv/bin/python demo.py`, it must not hard-code your worktree path: import tsdate from PYTHONPATH) that builds the specific input/sequence, checks the property as stated above, prints what it observed, and exits 0 when the property holds (unpatched code) and exits 1 when it is violated (patched code). It must be deterministic (fixed seeds) and finish in under 3 minutes.
  meta.json   — {{"property": "{pid}", "summary": "<one line: what the change does>", "needs": "<what specific input/sequence/config is needed for it to manifest>", "sites": ["file:function", ...], "ran": ["<commands you ran and their outcome, incl. the test-suite result>"]}}
Verify yourself: demo.py exits 0 on the unpatched worktree (save your change with `git diff > /tmp/seed-{tag}/my.diff`, revert with `git apply -R`, re-apply with `git apply`; NEVER use `git stash` — the stash is shared by all worktrees of this repository and other people use them concurrently), exits 1 with the patch; the test suite passes with the patch. Leave the worktree with the patch applied. In your final message give the summary, what is needed to manifest, and the verification outcomes.""")
