#!/bin/sh
# tools/seed_verify.sh <seed-dir-with patch.diff demo.py> [--tests]
# Confirms in a fresh scratch worktree: demo passes without the patch, fails with it; (--tests) suite passes with it.
d="$(cd "$1" && pwd)"; shift
w=/var/tmp/vp-seedverify-$$
git -C /repo worktree add --detach $w HEAD >/dev/null 2>&1 || exit 2
[ -f /repo/tsdate/_version.py ] && cp /repo/tsdate/_version.py $w/tsdate/_version.py
trap 'git -C /repo worktree remove --force $w >/dev/null 2>&1' EXIT
export NUMBA_CACHE_DIR=/var/tmp/vp-seedverify-cache-$$ TSDATE_ENABLE_NUMBA_CACHE=0
run_demo() { ( cd $w && PYTHONPATH=$w timeout 1800 /venv/bin/python "$d/demo.py" >/var/tmp/vp-seedverify-$$.log 2>&1 ); }
run_demo; r0=$?
echo "demo without patch: exit $r0"
git -C $w apply "$d/patch.diff" || { echo "patch does not apply"; exit 2; }
run_demo; r1=$?
echo "demo with patch: exit $r1"
tail -5 /var/tmp/vp-seedverify-$$.log
rt=skipped
if [ "$1" = "--tests" ]; then
  ( cd $w && PYTHONPATH=$w /venv/bin/python -m pytest -q -p no:cacheprovider --timeout=900 --continue-on-collection-errors -x -q -n 6 2>&1 | tail -3 ) ; rt=$?
fi
rm -rf /var/tmp/vp-seedverify-$$.log /var/tmp/vp-seedverify-cache-$$
[ $r0 -eq 0 ] && [ $r1 -ne 0 ] && echo "SEED-OK (tests: $rt)" || echo "SEED-BAD"
