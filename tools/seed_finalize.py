#!/usr/bin/env python3
"""Write the lead's record into every seeded/<id>/meta.json: which property it breaks, what it needs to manifest (from the
author), what the lead ran (tools/seed_verify.sh result if a verify.log exists; tools/seed_check.sh outcomes from
seeded/RESULTS.json)."""
import json
import re
from pathlib import Path

S = Path(__file__).resolve().parent.parent / "seeded"
res = json.loads((S / "RESULTS.json").read_text())["seeds"]
for sid, r in sorted(res.items()):
    d = S / sid
    mp = d / "meta.json"
    try:
        meta = json.loads(mp.read_text()) if mp.exists() else {}
    except ValueError:
        meta = {"author_meta_unparseable": mp.read_text()[:2000]}
    meta["property"] = r["property"]
    ran = []
    vl = d / "verify.log"
    if vl.exists():
        t = vl.read_text()
        m0 = re.search(r"demo without patch: exit (\d+)", t)
        m1 = re.search(r"demo with patch: exit (\d+)", t)
        mt = re.search(r"(\d+ passed[^\n]*)", t)
        ran.append(dict(cmd=f"tools/seed_verify.sh seeded/{sid} --tests",
                        demo_without_patch_exit=int(m0.group(1)) if m0 else None,
                        demo_with_patch_exit=int(m1.group(1)) if m1 else None,
                        test_suite_with_patch=mt.group(1) if mt else None,
                        verdict="SEED-OK" if "SEED-OK" in t else "SEED-BAD"))
    else:
        ran.append(dict(cmd=f"tools/seed_verify.sh seeded/{sid} --tests", verdict="not run by the lead in the time available; "
                        "demo and test-suite results are the author's (see 'ran')"))
    for x in r["runs"]:
        ran.append(dict(cmd=f"tools/seed_check.sh seeded/{sid} {x['check']} quick", first=x["first"], now=x["now"],
                        strengthened=x.get("strengthened")))
    meta["lead_ran"] = ran
    mp.write_text(json.dumps(meta, indent=1) + "\n")
print(len(res), "seeds finalised")
