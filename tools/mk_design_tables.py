#!/usr/bin/env python3
"""Print the generated tables of DESIGN.md §11 (per-property status) and §12 (seeded changes) as markdown.
Sources: MANIFEST.json, evidence/*.json (last clean run), known_findings*.json, seeded/RESULTS.json, seeded/*/meta.json."""
import json
import re
from pathlib import Path

V = Path(__file__).resolve().parent.parent


def known():
    out = {}
    files = [V / "known_findings.json"] + sorted((V / "known_findings.d").glob("*.json"))
    for f in files:
        for k in json.loads(f.read_text())["findings"]:
            out.setdefault(k["property"], []).append(k)
    return out


def main():
    man = json.loads((V / "MANIFEST.json").read_text())
    kn = known()
    print("| prop | theorems (discharged/obligations) | cases last quick run (distinct non-trivial) | wall s | known findings (kind) | fixed in /repo |")
    print("|---|---|---|---|---|---|")
    for c in man["checks"]:
        pid = c["property_id"]
        ev = V / "evidence" / f"{pid}.json"
        th = cases = wall = "?"
        if ev.exists():
            e = json.loads(ev.read_text())
            cov = e["coverage"]
            th = f"{cov.get('discharged')}/{cov.get('obligations')}"
            cases = f"{cov.get('evaluations')} ({cov.get('distinct_nontrivial')})"
            wall = f"{e.get('wall_s'):.0f}"
        ks = [k["kind"] for k in kn.get(pid, []) if k.get("status", "known") == "known"]
        fx = [k.get("commit", "?") for k in kn.get(pid, []) if k.get("status") == "fixed"]
        print(f"| {pid} | {th} | {cases} | {wall} | {'; '.join(ks) or '—'} | {', '.join(fx) or '—'} |")
    print()
    res = json.loads((V / "seeded" / "RESULTS.json").read_text())["seeds"]
    print("| seed | property | what the change does | needs to manifest | first run | now |")
    print("|---|---|---|---|---|---|")
    for sid in sorted(res):
        r = res[sid]
        meta = {}
        mp = V / "seeded" / sid / "meta.json"
        if mp.exists():
            try:
                meta = json.loads(mp.read_text())
            except ValueError:
                meta = {}
        summ = re.sub(r"\s+", " ", str(meta.get("summary", "")))[:160]
        needs = re.sub(r"\s+", " ", str(meta.get("needs", "")))[:160]
        first = "; ".join(f"{x['check']}: {x['first']}" for x in r["runs"])
        now = "; ".join(f"{x['check']}: {x['now']}" for x in r["runs"])
        print(f"| {sid} | {r['property']} | {summ} | {needs} | {first[:200]} | {now[:120]} |")


if __name__ == "__main__":
    main()
