#!/bin/sh
# verify every seeded/<id> that has no verify.log yet (demo without/with patch, full test suite with patch);
# loops until none is left; two at a time
cd /verif
while :; do
  todo=""
  for d in seeded/*/; do
    [ -f "$d/patch.diff" ] || continue
    [ -f "$d/verify.log" ] && continue
    [ -f "$d/verify.log.tmp" ] && continue
    todo="$todo $d"
  done
  [ -z "$todo" ] && break
  set -- $todo
  ( : > "$1/verify.log.tmp"; tools/seed_verify.sh "$1" --tests > "$1/verify.log.tmp" 2>&1; mv "$1/verify.log.tmp" "$1/verify.log" ) &
  if [ -n "$2" ]; then ( : > "$2/verify.log.tmp"; tools/seed_verify.sh "$2" --tests > "$2/verify.log.tmp" 2>&1; mv "$2/verify.log.tmp" "$2/verify.log" ) & fi
  wait
done
