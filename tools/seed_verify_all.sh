#!/bin/sh
# verify every seeded/<id> that has no verify.log yet (demo without/with patch, full test suite with patch)
cd /verif
for d in seeded/*/; do
  [ -f "$d/patch.diff" ] || continue
  [ -f "$d/verify.log" ] && continue
  tools/seed_verify.sh "$d" --tests > "$d/verify.log.tmp" 2>&1
  mv "$d/verify.log.tmp" "$d/verify.log"
done
