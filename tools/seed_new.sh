#!/bin/sh
# tools/seed_new.sh <name>   -> scratch worktree /tmp/seed-<name>/repo (detached at /repo HEAD) + out dir
set -e
n="$1"
mkdir -p /tmp/seed-$n/out
git -C /repo worktree add --detach /tmp/seed-$n/repo HEAD >/dev/null 2>&1
# generated, untracked files the package needs
[ -f /repo/tsdate/_version.py ] && cp /repo/tsdate/_version.py /tmp/seed-$n/repo/tsdate/_version.py || true
echo /tmp/seed-$n
