#!/usr/bin/env python3
"""Compose /verif/MANIFEST.json from the per-property metadata below + which check modules exist."""
import json
from pathlib import Path

V = Path(__file__).resolve().parent.parent
BASELINE = "cd /repo && /venv/bin/python -m pytest -ra -q -p no:cacheprovider --timeout=900 --continue-on-collection-errors"

import ast


def read_meta(path):
    """META = dict(level=..., note=..., technique=..., ref=...) literal in a check module."""
    try:
        tree = ast.parse(path.read_text())
    except SyntaxError:
        # the file is being edited right now: use the committed version
        import subprocess
        src = subprocess.run(["git", "-C", str(V), "show", f"HEAD:{path.relative_to(V)}"], capture_output=True, text=True).stdout
        tree = ast.parse(src)
    for node in tree.body:
        if isinstance(node, ast.Assign) and any(isinstance(t, ast.Name) and t.id == "META" for t in node.targets):
            v = node.value
            if isinstance(v, ast.Call):   # dict(k=..., ...)
                return {k.arg: ast.literal_eval(k.value) for k in v.keywords}
            return ast.literal_eval(v)
    return None


NOT_CLAIMED = {}


def main():
    props = [json.loads(l) for l in (V / "properties.jsonl").read_text().splitlines() if l.strip()]
    checks, na = [], []
    for p in props:
        pid = p["id"]
        mod = V / "harness" / "props" / f"{pid.lower()}.py"
        meta = read_meta(mod) if mod.exists() else None
        if meta:
            text, note, tech, ref = meta["level"], meta["note"], meta["technique"], meta["ref"]
            checks.append(dict(
                property_id=pid,
                quick_cmd=f"./check {pid} --tier quick",
                thorough_cmd=f"./check {pid} --tier thorough",
                evidence_file=f"evidence/{pid}.json",
                replay_cmd_template=f"./check {pid} --replay {{path}}",
                engine="lean4+correspondence",
                level_claimed=dict(category="proof", text=text, design_ref=ref),
                level_note=note,
                technique=tech,
            ))
        else:
            na.append(dict(property_id=pid, reason=NOT_CLAIMED.get(pid, "check not built yet (work in progress; planned in DESIGN.md §3)")))
    man = dict(
        version=1,
        setup_cmd="./setup.sh",
        hooks=dict(guard="TSDATE_VERIF", enable="no source hooks: the harness observes tsdate from outside (module-attribute rebinding, subclassing); TSDATE_VERIF=1 is set by the checks but read by nothing in /repo",
                   baseline_off_cmd=BASELINE, source_commits=[], add_only=True),
        engines=[
            dict(name="lean-model", path="lean/", serves_properties=[c["property_id"] for c in checks],
                 kind_free_text="Lean 4 models (core only), proofs (single Mathlib modules), property theorems in lean/TsdateVerif/Props"),
            dict(name="translators", path="translate/", serves_properties=[], kind_free_text="Python AST -> Lean generators, rerun on every check"),
            dict(name="harness", path="harness/", serves_properties=[c["property_id"] for c in checks],
                 kind_free_text="correspondence + implementation-side oracles, line protocol to the Lean drivers"),
        ],
        checks=checks,
        not_applicable=na,
        notes="Every check: stage A (translate, lake build, #print axioms audit, token grep), B (model vs implementation), C (property oracle on the implementation), verdict per DESIGN.md §2.6. Exit 2 = internal error of the check.",
    )
    (V / "MANIFEST.json").write_text(json.dumps(man, indent=1) + "\n")
    print(f"{len(checks)} checks, {len(na)} not claimed")

if __name__ == "__main__":
    main()
