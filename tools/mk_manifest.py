#!/usr/bin/env python3
"""Compose /verif/MANIFEST.json from the per-property metadata below + which check modules exist."""
import json
from pathlib import Path

V = Path(__file__).resolve().parent.parent
BASELINE = "cd /repo && /venv/bin/python -m pytest -ra -q -p no:cacheprovider --timeout=900 --continue-on-collection-errors"

# id -> (level text, level note, technique, design ref)
META = {
 "C01": ("Lean theorems over the `_constrain_ages` model (all edge lists, time vectors, iteration counts, any rounded addition): every output edge meets the minimum length; parents strictly older whenever the assigned value exceeds the child (true of the repaired max(x+eps, nextafter x)); tskit edge order is topological. Model tied to numba code bit-for-bit at Float on generated inputs; date() outputs checked against the statement across methods/options/time scales. Partial: tskit validity and mutation-time placement are by contract.",
         "Lean kernel + {propext, Classical.choice, Quot.sound}; sampled bit-exact correspondence; tskit by contract; exact-arithmetic LS phase",
         "invariant by induction over the edge list + bit-exact model/implementation correspondence", "§3 C01"),
 "C03": ("Lean theorems: a fixed (sample) node without child edges keeps its input time for every rounding and iteration count; the least-squares sweep never moves fixed nodes; with children it ends at max(input, child output + eps) (exact arithmetic, all iteration counts) / the bump fold (any rounding, iters=0). Tied bit-for-bit to numba; date() outputs with historical and ancestral samples checked.",
         "as C01; that fit.node_moments returns ts times for samples is covered by the output oracle only",
         "sweep invariant (cavities of fixed endpoints are zero) + max-characterisation + bit-exact correspondence", "§3 C03"),
 "C27": ("Lean theorems: forced pass = larger-of characterisation, never lowers, least admissible vector (monotone fadd); strictly valid times unchanged for every iteration count; idempotent for every iteration count and any rounding with x <= ftest x <= fadd x. Tied bit-for-bit to numba; the statement is also evaluated bitwise on the implementation.",
         "as C01", "induction over edge list / fixpoint of the main loop + bit-exact correspondence", "§3 C27"),
}

def main():
    props = [json.loads(l) for l in (V / "properties.jsonl").read_text().splitlines() if l.strip()]
    checks, na = [], []
    for p in props:
        pid = p["id"]
        if (V / "harness" / "props" / f"{pid.lower()}.py").exists() and pid in META:
            text, note, tech, ref = META[pid]
            checks.append(dict(
                property_id=pid,
                quick_cmd=f"./check {pid} --tier quick",
                thorough_cmd=f"./check {pid} --tier thorough",
                evidence_file=f"evidence/{pid}.json",
                replay_cmd_template=f"./check {pid} --replay {{path}}",
                engine="lean4+correspondence",
                level_claimed=dict(category="proof", text=text, design_ref=ref),
                level_note=note,
                technique=tech,
            ))
        else:
            na.append(dict(property_id=pid, reason="check not built yet (work in progress; planned in DESIGN.md §3)"))
    man = dict(
        version=1,
        setup_cmd="./setup.sh",
        hooks=dict(guard="TSDATE_VERIF", enable="no source hooks: the harness observes tsdate from outside (module-attribute rebinding, subclassing); TSDATE_VERIF=1 is set by the checks but read by nothing in /repo",
                   baseline_off_cmd=BASELINE, source_commits=[], add_only=True),
        engines=[
            dict(name="lean-model", path="lean/", serves_properties=[c["property_id"] for c in checks],
                 kind_free_text="Lean 4 models (core only), proofs (single Mathlib modules), property theorems in lean/TsdateVerif/Props"),
            dict(name="translators", path="translate/", serves_properties=[], kind_free_text="Python AST -> Lean generators, rerun on every check"),
            dict(name="harness", path="harness/", serves_properties=[c["property_id"] for c in checks],
                 kind_free_text="correspondence + implementation-side oracles, line protocol to the Lean drivers"),
        ],
        checks=checks,
        not_applicable=na,
        notes="Every check: stage A (translate, lake build, #print axioms audit, token grep), B (model vs implementation), C (property oracle on the implementation), verdict per DESIGN.md §2.6. Exit 2 = internal error of the check.",
    )
    (V / "MANIFEST.json").write_text(json.dumps(man, indent=1) + "\n")
    print(f"{len(checks)} checks, {len(na)} not claimed")

if __name__ == "__main__":
    main()
