#!/bin/sh
# tools/run_all.sh [tier] [parallel] [seed]  -> runs every registered check, logs to .cache/runall/, prints a summary
cd /verif
tier="${1:-quick}"; par="${2:-4}"; seed="${3:-0}"
out=.cache/runall-$tier-$seed; rm -rf $out; mkdir -p $out
ids=$(python3 -c "import json;print(' '.join(c['property_id'] for c in json.load(open('MANIFEST.json'))['checks']))")
echo $ids | tr ' ' '\n' | xargs -P $par -I{} sh -c "s=\$(date +%s); VERIF_SEED=$seed ./check {} --tier $tier > $out/{}.log 2>&1; rc=\$?; e=\$(date +%s); echo \"{} exit=\$rc wall=\$((e-s))s\" >> $out/SUMMARY"
sort $out/SUMMARY
