"""
T5 (result wiring): which arrays each dating method hands to the output stage, and where the output
stage puts them.  Read from tsdate/core.py and tsdate/variational.py with `ast`:

* for every class with a `name = "<method>"` attribute and a `run` method: the positional arguments of
  the `Results(...)` it returns, each traced back to the expression that produced it (`None`, an
  attribute path, or element i of the tuple returned by a call), and the methods called on
  `fit_obj.posterior_grid` before `mean_var` is evaluated;
* `get_modified_ts`: which `result.<field>` is passed to which `set_time_metadata(table, mean, var,
  default_schema)` call, what is assigned to `nodes.time` and to `mutations.node`;
* `_time_md_array`: which metadata key receives which of the zipped arrays;
* `ExpectationPropagation.node_posteriors / mutation_posteriors`: which moment array fills which field.

Anything outside these shapes raises TranslateError.  Output: lean/TsdateVerif/Gen/Results.lean.
"""

import ast

from . import glue_lib as G

RESULT_FIELDS = ["posterior_mean", "posterior_var", "mutation_mean", "mutation_var", "mutation_lik",
                 "mutation_node", "fit_object"]


def src_of(expr, assigns):
    """Lean `Src` term describing where the value of `expr` comes from inside one function body."""
    if isinstance(expr, ast.Constant) and expr.value is None:
        return ".none"
    if isinstance(expr, ast.Name):
        if expr.id not in assigns:
            return f".other {G.lean_str('parameter ' + expr.id)}"
        value, idx = assigns[expr.id]
        return src_of_value(value, idx, assigns)
    return src_of_value(expr, None, assigns)


def src_of_value(value, idx, assigns):
    if isinstance(value, ast.Constant) and value.value is None and idx is None:
        return ".none"
    d = G.dotted(value)
    if d is not None and idx is None:
        if isinstance(value, ast.Name) and value.id in assigns:
            return src_of(value, assigns)
        return f".attr {G.lean_str(d)}"
    if isinstance(value, ast.Call):
        callee = G.dotted(value.func)
        if callee is None:
            return f".other {G.lean_str(ast.unparse(value)[:80])}"
        args = []
        for a in value.args:
            args.append(G.dotted(a) or ast.unparse(a)[:40])
        for kw in value.keywords:
            args.append(f"{kw.arg}={G.dotted(kw.value) or ast.unparse(kw.value)[:40]}")
        return f".call {G.lean_str(callee)} {0 if idx is None else idx} [{', '.join(G.lean_str(a) for a in args)}]"
    return f".other {G.lean_str(ast.unparse(value)[:80])}"


def collect_assigns(body):
    """name -> (value expr, tuple index or None); only straight-line top-level assignments of the body.
    A name assigned more than once, or inside a branch/loop, is marked ambiguous."""
    assigns, ambiguous = {}, set()

    def put(name, value, idx):
        if name in assigns:
            ambiguous.add(name)
        assigns[name] = (value, idx)

    for st in body:
        if isinstance(st, ast.Assign) and len(st.targets) == 1:
            t = st.targets[0]
            if isinstance(t, ast.Name):
                put(t.id, st.value, None)
            elif isinstance(t, ast.Tuple) and all(isinstance(x, ast.Name) for x in t.elts):
                for i, x in enumerate(t.elts):
                    put(x.id, st.value, i)
        else:
            for node in ast.walk(st):
                if isinstance(node, (ast.Assign, ast.AugAssign, ast.AnnAssign, ast.NamedExpr, ast.For)):
                    targets = node.targets if isinstance(node, ast.Assign) else [node.target]
                    for t in targets:
                        for n in ast.walk(t):
                            if isinstance(n, ast.Name):
                                ambiguous.add(n.id)
    return assigns, ambiguous


def run_wiring(cls):
    name = None
    run = None
    for st in cls.body:
        if isinstance(st, ast.Assign) and any(isinstance(t, ast.Name) and t.id == "name" for t in st.targets) \
                and isinstance(st.value, ast.Constant) and isinstance(st.value.value, str):
            name = st.value.value
        if isinstance(st, ast.FunctionDef) and st.name == "run":
            run = st
    if name is None or run is None:
        return None
    assigns, ambiguous = collect_assigns(run.body)
    rets = [st for st in ast.walk(run) if isinstance(st, ast.Return)]
    if len(rets) != 1 or not (isinstance(rets[0].value, ast.Call) and G.dotted(rets[0].value.func) == "Results"):
        raise G.TranslateError(f"{cls.name}.run: expected exactly one `return Results(...)`")
    call = rets[0].value
    if call.keywords or len(call.args) != len(RESULT_FIELDS):
        raise G.TranslateError(f"{cls.name}.run: Results(...) must have {len(RESULT_FIELDS)} positional arguments")
    srcs = []
    for a in call.args:
        if isinstance(a, ast.Name) and a.id in ambiguous:
            srcs.append(f".other {G.lean_str('reassigned ' + a.id)}")
        else:
            srcs.append(src_of(a, assigns))
    # what happens to fit_obj.posterior_grid before mean_var is evaluated
    prep = []
    for st in run.body:
        calls = [n for n in ast.walk(st) if isinstance(n, ast.Call)]
        if any(G.dotted(c.func) == "self.mean_var" for c in calls):
            break
        if isinstance(st, ast.Expr) and isinstance(st.value, ast.Call):
            d = G.dotted(st.value.func)
            if d and d.startswith("fit_obj.posterior_grid."):
                prep.append(d.split(".")[-1])
    return name, srcs, prep


def gmts_wiring(fn):
    assigns, ambiguous = collect_assigns(fn.body)

    def field_of(expr):
        """`result.<field>` reached through local names, else a description"""
        seen = 0
        while isinstance(expr, ast.Name) and expr.id in assigns and expr.id not in ambiguous and seen < 10:
            expr = assigns[expr.id][0]
            seen += 1
        d = G.dotted(expr)
        if d and d.startswith("result."):
            return d[len("result."):]
        return "?" + (d or ast.unparse(expr)[:60])

    def table_of(expr):
        seen = 0
        while isinstance(expr, ast.Name) and expr.id in assigns and seen < 10:
            expr = assigns[expr.id][0]
            seen += 1
        d = G.dotted(expr) or ""
        return d.split(".")[-1] if d.startswith("tables.") else "?" + d

    md_calls, time_src, node_src = [], None, None
    for st in fn.body:
        for node in ast.walk(st):
            if isinstance(node, ast.Call) and G.dotted(node.func) == "self.set_time_metadata":
                if len(node.args) != 4 or node.keywords:
                    raise G.TranslateError("set_time_metadata call is not (table, mean, var, default_schema)")
                md_calls.append((table_of(node.args[0]), field_of(node.args[1]), field_of(node.args[2]),
                                 (G.dotted(node.args[3]) or "?").split(".")[-1]))
        if isinstance(st, ast.Assign) and len(st.targets) == 1 and isinstance(st.targets[0], ast.Attribute):
            tgt = st.targets[0]
            tab = table_of(tgt.value)
            if (tab, tgt.attr) == ("nodes", "time"):
                v = st.value
                if isinstance(v, ast.Call) and G.dotted(v.func) and len(v.args) >= 2:
                    time_src = (G.dotted(v.func).split(".")[-1], field_of(v.args[1]))
                else:
                    time_src = ("?", field_of(v))
            if (tab, tgt.attr) == ("mutations", "node"):
                node_src = field_of(st.value)
    if time_src is None or node_src is None or not md_calls:
        raise G.TranslateError("get_modified_ts no longer has the expected shape")
    return md_calls, time_src, node_src


def md_keys(fn):
    """inside set_time_metadata: the nested _time_md_array's `for d, a, b in zip(md_iter, mean, var): d.update(((k, a), ...))`"""
    inner = [n for n in fn.body if isinstance(n, ast.FunctionDef)]
    for f in inner:
        for node in ast.walk(f):
            if isinstance(node, ast.For) and isinstance(node.iter, ast.Call) and G.dotted(node.iter.func) == "zip":
                if not isinstance(node.target, ast.Tuple):
                    continue
                loop_vars = [x.id for x in node.target.elts if isinstance(x, ast.Name)]
                zipped = [G.dotted(a) for a in node.iter.args]
                if len(loop_vars) != len(zipped):
                    continue
                origin = dict(zip(loop_vars, zipped))
                for c in ast.walk(node):
                    if isinstance(c, ast.Call) and isinstance(c.func, ast.Attribute) and c.func.attr == "update" and len(c.args) == 1:
                        pairs = c.args[0]
                        if isinstance(pairs, (ast.Tuple, ast.List)):
                            out = []
                            for p in pairs.elts:
                                if isinstance(p, (ast.Tuple, ast.List)) and len(p.elts) == 2 and isinstance(p.elts[0], ast.Constant) \
                                        and isinstance(p.elts[1], ast.Name):
                                    out.append((p.elts[0].value, origin.get(p.elts[1].id, "?" + p.elts[1].id)))
                                else:
                                    raise G.TranslateError("metadata update is not a tuple of (key, name) pairs")
                            return out
    raise G.TranslateError("no `for … in zip(md_iter, mean, var): metadata_dict.update(...)` in set_time_metadata")


def posteriors_fields(fn):
    """`a, b = self.<moments>()` … `data["x"] = a` -> [(x, Src)]"""
    assigns, _ = collect_assigns(fn.body)
    out = []
    for st in fn.body:
        if isinstance(st, ast.Assign) and len(st.targets) == 1 and isinstance(st.targets[0], ast.Subscript):
            t = st.targets[0]
            if isinstance(t.value, ast.Name) and isinstance(t.slice, ast.Constant) and isinstance(t.slice.value, str):
                out.append((t.slice.value, src_of(st.value, assigns)))
    if not out:
        raise G.TranslateError(f"{fn.name}: no `data[<field>] = …` assignment found")
    return out


def analyse():
    csrc, ctree = G.read_module("core")
    vsrc, vtree = G.read_module("variational")
    cfuncs, vfuncs = G.functions_of(ctree), G.functions_of(vtree)
    runs = []
    for cls in G.classes_of(ctree).values():
        w = run_wiring(cls)
        if w is not None:
            runs.append(w)
    if sorted(n for n, _, _ in runs) != ["inside_outside", "maximization", "variational_gamma"]:
        raise G.TranslateError(f"expected the three dating methods, found {[n for n, _, _ in runs]}")
    gm = [f for q, f in cfuncs.items() if q.endswith(".get_modified_ts")]
    st = [f for q, f in cfuncs.items() if q.endswith(".set_time_metadata")]
    if len(gm) != 1 or len(st) != 1:
        raise G.TranslateError("expected exactly one get_modified_ts and one set_time_metadata in core.py")
    md_calls, time_src, node_src = gmts_wiring(gm[0])
    keys = md_keys(st[0])
    np_ = vfuncs.get("ExpectationPropagation.node_posteriors")
    mp_ = vfuncs.get("ExpectationPropagation.mutation_posteriors")
    if np_ is None or mp_ is None:
        raise G.TranslateError("ExpectationPropagation.node_posteriors / mutation_posteriors not found")
    return dict(runs=sorted(runs), md_calls=md_calls, time_src=time_src, node_src=node_src, keys=keys,
                node_post=posteriors_fields(np_), mut_post=posteriors_fields(mp_), digest=G.sha(csrc, vsrc))


def render(a):
    L = ["/- GENERATED by translate/results.py from tsdate/core.py, tsdate/variational.py — do not edit.",
         f"   source sha256 {a['digest']} -/",
         "import TsdateVerif.Model.Pipeline", "",
         "namespace Tsdate.Gen.Results", "open Tsdate.Tables Tsdate.Pipeline", "",
         f"def sourceSha : String := {G.lean_str(a['digest'])}", ""]
    for name, srcs, prep in a["runs"]:
        ident = {"inside_outside": "insideOutside", "maximization": "maximization", "variational_gamma": "variationalGamma"}[name]
        L.append(f"/-- `Results(...)` returned by the `run` of method \"{name}\" -/")
        L.append(f"def {ident} : RunWiring :=")
        L.append(f"  {{ method := {G.lean_str(name)}")
        for fld, s in zip(["posteriorMean", "posteriorVar", "mutationMean", "mutationVar", "mutationLik", "mutationNode", "fitObject"], srcs):
            L.append(f"    {fld} := {s}")
        L.append(f"    prep := [{', '.join(G.lean_str(p) for p in prep)}] }}")
        L.append("")
    L.append("/-- `self.set_time_metadata(<table>, result.<mean>, result.<var>, schemas.<default>)` calls of get_modified_ts -/")
    L.append("def mdCalls : List (Tbl × String × String × String) := [" +
             ", ".join(f"(.{t}, {G.lean_str(m)}, {G.lean_str(v)}, {G.lean_str(d)})" if not t.startswith("?")
                       else f"(.collection, {G.lean_str(t + ' ' + m)}, {G.lean_str(v)}, {G.lean_str(d)})"
                       for t, m, v, d in a["md_calls"]) + "]")
    L.append("/-- `nodes.time = <f>(ts, result.<field>, …)` -/")
    L.append(f"def timeSource : String × String := ({G.lean_str(a['time_src'][0])}, {G.lean_str(a['time_src'][1])})")
    L.append("/-- `mutations.node = result.<field>` -/")
    L.append(f"def mutNodeSource : String := {G.lean_str(a['node_src'])}")
    L.append("/-- `metadata_dict.update(((key, <zipped array>), …))` in `_time_md_array` -/")
    L.append("def mdKeys : List (String × String) := [" + ", ".join(f"({G.lean_str(k)}, {G.lean_str(v)})" for k, v in a["keys"]) + "]")
    L.append("/-- fields of `ExpectationPropagation.node_posteriors()` -/")
    L.append("def vgNodePosteriors : List (String × Src) := [" + ", ".join(f"({G.lean_str(k)}, {s})" for k, s in a["node_post"]) + "]")
    L.append("/-- fields of `ExpectationPropagation.mutation_posteriors()` -/")
    L.append("def vgMutationPosteriors : List (String × Src) := [" + ", ".join(f"({G.lean_str(k)}, {s})" for k, s in a["mut_post"]) + "]")
    L += ["", "end Tsdate.Gen.Results", ""]
    return "\n".join(L)


def generate():
    a = analyse()
    G.write_if_changed(G.lean_dir() / "TsdateVerif" / "Gen" / "Results.lean", render(a))
    return a


if __name__ == "__main__":
    print(render(generate()))
