"""Helpers shared by the glue translators (writeset / readset / results). stdlib only."""

import ast
import hashlib
from pathlib import Path


class TranslateError(Exception):
    """The source left the subset the translator understands: fail loudly, never guess."""


def repo():
    from harness import common
    return Path(common.REPO)


def lean_dir():
    from harness import common
    return Path(common.LEAN_DIR)


def read_module(name):
    """(source text, ast) of tsdate/<name>.py in the repository under test."""
    p = repo() / "tsdate" / f"{name}.py"
    src = p.read_text()
    return src, ast.parse(src, filename=str(p))


def sha(*texts):
    h = hashlib.sha256()
    for t in texts:
        h.update(t.encode())
    return h.hexdigest()


def write_if_changed(path, text):
    path = Path(path)
    path.parent.mkdir(parents=True, exist_ok=True)
    if path.exists() and path.read_text() == text:
        return False
    tmp = path.with_suffix(path.suffix + f".tmp{__import__('os').getpid()}")
    tmp.write_text(text)
    tmp.replace(path)
    return True


def lean_str(s):
    out = ['"']
    for ch in s:
        if ch == '"':
            out.append('\\"')
        elif ch == "\\":
            out.append("\\\\")
        elif ch == "\n":
            out.append("\\n")
        elif 32 <= ord(ch) < 127:
            out.append(ch)
        else:
            raise TranslateError(f"non-ASCII character in identifier {s!r}")
    out.append('"')
    return "".join(out)


def functions_of(tree):
    """dict qualified name -> FunctionDef for module-level functions and class methods."""
    out = {}
    for node in tree.body:
        if isinstance(node, (ast.FunctionDef, ast.AsyncFunctionDef)):
            out[node.name] = node
        elif isinstance(node, ast.ClassDef):
            for sub in node.body:
                if isinstance(sub, (ast.FunctionDef, ast.AsyncFunctionDef)):
                    out[f"{node.name}.{sub.name}"] = sub
    return out


def classes_of(tree):
    return {n.name: n for n in tree.body if isinstance(n, ast.ClassDef)}


def dotted(node):
    """'a.b.c' for Name/Attribute chains, else None."""
    parts = []
    while isinstance(node, ast.Attribute):
        parts.append(node.attr)
        node = node.value
    if isinstance(node, ast.Name):
        parts.append(node.id)
        return ".".join(reversed(parts))
    return None


def param_names(fn):
    a = fn.args
    return [x.arg for x in a.posonlyargs + a.args], [x.arg for x in a.kwonlyargs]
