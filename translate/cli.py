"""
T3 (CLI): regenerate lean/TsdateVerif/Gen/Cli.lean from the current tsdate/cli.py.

Two sources, both read from `harness.common.REPO`:

1. the *real parser*: `tsdate.cli.tsdate_cli_parser()` is imported and every action of the two
   sub-parsers is introspected (flags, dest, action class, `type` callable name, default, nargs,
   choices) -> `dateOpts`, `preprocessOpts : List Opt`;
2. the *AST* of `run_date`, `run_preprocess`, `str_to_bool`, `tsdate_main`, `setup_logging`:
   the runners are flattened to the decision-tree language of Model/Cli.lean (`Prog`):

       if <cond>: error_exit(...)            ->  ite cond (error msg) rest
       if <cond>: A  else: B ; tail          ->  ite cond (A;tail) (B;tail)
       try: ts = tskit.load(args.F) except ...: error_exit(...)      ->  remembers F
       params = dict(kw=args.x, ...)         ->  remembered, spliced in at `**params`
       r = <fn>(ts, kw=args.x, ..., **params) ; r.dump(args.O)        ->  call fn F kwargs O

   with <cond> one of `args.x is not None`, `args.x == "literal"`.  Anything else raises
   TranslateError (the check then reports "correspondence broken").

   `str_to_bool` must have the shape `if value.lower() in (...): return True / if value.lower() in
   (...): return False / raise` and yields the two literal tuples.

The generated file contains data only; the interpreter and the soundness theorems are hand-written
(Model/Cli.lean, Proofs/Cli.lean) and the property theorems (Props/C34.lean) are re-checked against
the regenerated data on every run.
"""

import argparse
import ast
import hashlib
import importlib
import json

from harness import common

OUT = common.LEAN_DIR / "TsdateVerif" / "Gen" / "Cli.lean"


class TranslateError(Exception):
    pass


# ----------------------------------------------------------------------------- Lean literals

def lstr(s):
    if not all(32 <= ord(c) < 127 for c in s):
        s = "".join(c if 32 <= ord(c) < 127 else "?" for c in s)
    return json.dumps(s)


def lval(v):
    if v is None:
        return "Val.none"
    if isinstance(v, bool):
        return f"Val.bool {'true' if v else 'false'}"
    if isinstance(v, int):
        return f"Val.int ({v})"
    if isinstance(v, float):
        return f"Val.flt {lstr(repr(v))}"
    if isinstance(v, str):
        return f"Val.str {lstr(v)}"
    raise TranslateError(f"default value {v!r} of unsupported type {type(v).__name__}")


def llist(items):
    return "[" + ", ".join(items) + "]"


# ----------------------------------------------------------------------------- parser introspection

def kind_of(action):
    if isinstance(action, argparse._StoreTrueAction):
        return "storeTrue"
    if isinstance(action, argparse._StoreFalseAction):
        return "storeFalse"
    if isinstance(action, argparse._CountAction):
        return "count"
    if isinstance(action, argparse._StoreAction):
        return "store" if action.option_strings else "positional"
    raise TranslateError(f"argparse action {type(action).__name__} for {action.dest} is outside the subset")


def opt_of(action):
    kind = kind_of(action)
    ty = "none" if action.type is None else getattr(action.type, "__name__", None)
    if ty is None:
        raise TranslateError(f"type callable of {action.dest} has no name")
    if kind in ("storeTrue", "storeFalse", "count"):
        nargs = "0"
    elif action.nargs is None:
        nargs = "1"
    elif action.nargs == "?":
        nargs = "?"
    else:
        raise TranslateError(f"nargs={action.nargs!r} for {action.dest} is outside the subset")
    choices = [] if action.choices is None else [str(c) for c in action.choices]
    return dict(flags=list(action.option_strings), dest=action.dest, kind=kind, ty=ty, default=action.default,
                nargs=nargs, choices=choices)


def introspect(cli):
    parser = cli.tsdate_cli_parser()
    subs = [a for a in parser._actions if isinstance(a, argparse._SubParsersAction)]
    if len(subs) != 1:
        raise TranslateError("expected exactly one sub-parser group")
    out = {}
    for name, p in subs[0].choices.items():
        opts = [opt_of(a) for a in p._actions if not isinstance(a, argparse._HelpAction)]
        runner = p.get_default("runner")
        if runner is None:
            raise TranslateError(f"sub-command {name} has no runner default")
        out[name] = dict(opts=opts, runner=runner.__name__)
    return out


# ----------------------------------------------------------------------------- AST flattening

def args_attr(node):
    """`args.<name>` -> name, else None"""
    if isinstance(node, ast.Attribute) and isinstance(node.value, ast.Name) and node.value.id == "args":
        return node.attr
    return None


def dotted(node):
    if isinstance(node, ast.Name):
        return node.id
    if isinstance(node, ast.Attribute):
        b = dotted(node.value)
        return None if b is None else f"{b}.{node.attr}"
    return None


def is_error_exit(stmt):
    return (isinstance(stmt, ast.Expr) and isinstance(stmt.value, ast.Call) and dotted(stmt.value.func) == "error_exit")


def message_of(call):
    if not call.args:
        return ""
    a = call.args[0]
    if isinstance(a, ast.Constant) and isinstance(a.value, str):
        return a.value
    if isinstance(a, ast.JoinedStr):
        return "".join(v.value if isinstance(v, ast.Constant) else "{}" for v in a.values)
    return ast.unparse(a)


def cond_of(test):
    if isinstance(test, ast.Compare) and len(test.ops) == 1 and len(test.comparators) == 1:
        left, op, right = test.left, test.ops[0], test.comparators[0]
        d = args_attr(left)
        if d is not None and isinstance(op, ast.IsNot) and isinstance(right, ast.Constant) and right.value is None:
            return ("notNone", d)
        if d is not None and isinstance(op, ast.Eq) and isinstance(right, ast.Constant) and isinstance(right.value, str):
            return ("eqStr", d, right.value)
    raise TranslateError(f"condition outside the subset: {ast.unparse(test)}")


def kw_pairs(keywords, env, where):
    """keyword arguments of a call/dict(...) -> [(kw, dest)], splicing `**params`."""
    out = []
    for k in keywords:
        if k.arg is None:
            name = k.value.id if isinstance(k.value, ast.Name) else None
            if name is None or name not in env["dicts"]:
                raise TranslateError(f"{where}: cannot resolve **{ast.unparse(k.value)}")
            out += env["dicts"][name]
        else:
            d = args_attr(k.value)
            if d is None:
                raise TranslateError(f"{where}: keyword {k.arg}={ast.unparse(k.value)} is not an `args.<dest>`")
            out.append((k.arg, d))
    return out


def flatten(stmts, env):
    if not stmts:
        raise TranslateError("runner falls off its end without an API call")
    s, rest = stmts[0], stmts[1:]
    if is_error_exit(s):
        return ("error", message_of(s.value))
    if isinstance(s, ast.If):
        c = cond_of(s.test)
        return ("ite", c, flatten(list(s.body) + rest, dict(env, dicts=dict(env["dicts"]))),
                flatten(list(s.orelse) + rest, dict(env, dicts=dict(env["dicts"]))))
    if isinstance(s, ast.Try):
        ok = (len(s.body) == 1 and isinstance(s.body[0], ast.Assign) and len(s.body[0].targets) == 1
              and isinstance(s.body[0].targets[0], ast.Name) and isinstance(s.body[0].value, ast.Call)
              and dotted(s.body[0].value.func) == "tskit.load" and len(s.body[0].value.args) == 1
              and args_attr(s.body[0].value.args[0]) is not None and not s.orelse and not s.finalbody
              and all(len(h.body) == 1 and is_error_exit(h.body[0]) for h in s.handlers))
        if not ok:
            raise TranslateError(f"try-statement outside the subset: {ast.unparse(s)[:80]}")
        env = dict(env, ts_var=s.body[0].targets[0].id, ts_from=args_attr(s.body[0].value.args[0]))
        return flatten(rest, env)
    if isinstance(s, ast.Assign) and len(s.targets) == 1 and isinstance(s.targets[0], ast.Name) \
            and isinstance(s.value, ast.Call):
        target, call = s.targets[0].id, s.value
        fn = dotted(call.func)
        if fn == "dict" and not call.args:
            dicts = dict(env["dicts"])
            dicts[target] = kw_pairs(call.keywords, env, f"dict for {target}")
            return flatten(rest, dict(env, dicts=dicts))
        if fn is not None and fn.startswith("tsdate.") and len(call.args) == 1 and isinstance(call.args[0], ast.Name) \
                and call.args[0].id == env.get("ts_var"):
            kws = kw_pairs(call.keywords, env, fn)
            if len(rest) != 1:
                raise TranslateError(f"expected exactly `.dump(args.<out>)` after the call of {fn}")
            d = rest[0]
            okd = (isinstance(d, ast.Expr) and isinstance(d.value, ast.Call) and isinstance(d.value.func, ast.Attribute)
                   and d.value.func.attr == "dump" and isinstance(d.value.func.value, ast.Name)
                   and d.value.func.value.id == target and len(d.value.args) == 1 and not d.value.keywords
                   and args_attr(d.value.args[0]) is not None)
            if not okd:
                raise TranslateError(f"statement after the call of {fn} is not `{target}.dump(args.<out>)`")
            return ("call", fn, env["ts_from"], kws, args_attr(d.value.args[0]))
    raise TranslateError(f"statement outside the subset: {ast.unparse(s)[:100]}")


def func_def(tree, name):
    for n in tree.body:
        if isinstance(n, ast.FunctionDef) and n.name == name:
            return n
    raise TranslateError(f"function {name} not found in tsdate/cli.py")


def body_without_docstring(fd):
    body = list(fd.body)
    if body and isinstance(body[0], ast.Expr) and isinstance(body[0].value, ast.Constant) and isinstance(body[0].value.value, str):
        body = body[1:]
    return body


def str_to_bool_tables(tree):
    """(true spellings, false spellings) or None when the parser does not use str_to_bool."""
    try:
        fd = func_def(tree, "str_to_bool")
    except TranslateError:
        return None
    body = body_without_docstring(fd)
    arg = fd.args.args[0].arg
    tabs = {}
    if len(body) != 3 or not isinstance(body[2], ast.Raise):
        raise TranslateError("str_to_bool is outside the subset (expected two ifs and a raise)")
    for st in body[:2]:
        ok = (isinstance(st, ast.If) and not st.orelse and len(st.body) == 1 and isinstance(st.body[0], ast.Return)
              and isinstance(st.body[0].value, ast.Constant) and isinstance(st.body[0].value.value, bool)
              and isinstance(st.test, ast.Compare) and len(st.test.ops) == 1 and isinstance(st.test.ops[0], ast.In)
              and ast.unparse(st.test.left) == f"{arg}.lower()"
              and isinstance(st.test.comparators[0], (ast.Tuple, ast.List))
              and all(isinstance(e, ast.Constant) and isinstance(e.value, str) for e in st.test.comparators[0].elts))
        if not ok:
            raise TranslateError(f"str_to_bool branch outside the subset: {ast.unparse(st)[:80]}")
        tabs[st.body[0].value.value] = [e.value for e in st.test.comparators[0].elts]
    if set(tabs) != {True, False}:
        raise TranslateError("str_to_bool must have one True and one False branch")
    return tabs[True], tabs[False]


def reads_of_args(fd):
    """dest names read as `args.<dest>` anywhere in a function"""
    return sorted({n.attr for n in ast.walk(fd) if args_attr(n) is not None})


# ----------------------------------------------------------------------------- emission

def emit_cond(c):
    if c[0] == "notNone":
        return f"(Cond.notNone {lstr(c[1])})"
    return f"(Cond.eqStr {lstr(c[1])} {lstr(c[2])})"


def emit_prog(p, ind):
    pad = "  " * ind
    if p[0] == "error":
        return f"{pad}(Prog.error {lstr(p[1])})"
    if p[0] == "call":
        kws = llist(f"({lstr(k)}, {lstr(d)})" for k, d in p[3])
        return f"{pad}(Prog.call {lstr(p[1])} {lstr(p[2])}\n{pad}  {kws}\n{pad}  {lstr(p[4])})"
    return f"{pad}(Prog.ite {emit_cond(p[1])}\n{emit_prog(p[2], ind + 1)}\n{emit_prog(p[3], ind + 1)})"


def emit_opt(o):
    return ("{ flags := " + llist(lstr(f) for f in o["flags"]) + f", dest := {lstr(o['dest'])}, kind := Kind.{o['kind']}, "
            f"ty := {lstr(o['ty'])}, default := {lval(o['default'])}, nargs := {lstr(o['nargs'])}, "
            "choices := " + llist(lstr(c) for c in o["choices"]) + " }")


def render():
    common.setup_env()
    src_path = common.REPO / "tsdate" / "cli.py"
    src = src_path.read_text()
    tree = ast.parse(src)
    cli = importlib.import_module("tsdate.cli")
    if str(common.REPO) not in str(getattr(cli, "__file__", "")):
        raise TranslateError(f"tsdate.cli was imported from {cli.__file__}, not from {common.REPO}")
    subs = introspect(cli)
    if set(subs) != {"date", "preprocess"}:
        raise TranslateError(f"sub-commands {sorted(subs)}: expected date and preprocess")
    progs = {}
    for name, info in subs.items():
        fd = func_def(tree, info["runner"])
        if [a.arg for a in fd.args.args] != ["args"]:
            raise TranslateError(f"{info['runner']} must take exactly `args`")
        progs[name] = flatten(body_without_docstring(fd), dict(dicts={}))
    s2b = str_to_bool_tables(tree)
    main_reads = reads_of_args(func_def(tree, "setup_logging")) + reads_of_args(func_def(tree, "tsdate_main"))
    sha = hashlib.sha256(src.encode()).hexdigest()
    L = []
    L.append("/-")
    L.append("GENERATED by translate/cli.py from tsdate/cli.py — do not edit.")
    L.append(f"source sha256: {sha}")
    L.append("Parse table = introspection of the real argparse parser; programs = flattened ASTs of the runners.")
    L.append("-/")
    L.append("import TsdateVerif.Model.Cli")
    L.append("")
    L.append("namespace Tsdate.Gen.Cli")
    L.append("open Tsdate.Cli")
    L.append("")
    for name in ("date", "preprocess"):
        L.append(f"/-- every action of `tsdate {name}` (help excluded), in parser order -/")
        L.append(f"def {name}Opts : List Opt := [")
        L.append(",\n".join("  " + emit_opt(o) for o in subs[name]["opts"]))
        L.append("]")
        L.append("")
        L.append(f"/-- `{subs[name]['runner']}` flattened -/")
        L.append(f"def {name}Prog : Prog :=")
        L.append(emit_prog(progs[name], 1))
        L.append("")
    t, f = s2b if s2b is not None else ([], [])
    L.append("/-- literal tuples of `str_to_bool` (empty when the function does not exist) -/")
    L.append("def strToBoolTrue : List String := " + llist(lstr(x) for x in t))
    L.append("def strToBoolFalse : List String := " + llist(lstr(x) for x in f))
    L.append("")
    L.append("/-- dests read by `tsdate_main` / `setup_logging` (consumed before the runner) -/")
    L.append("def mainReads : List String := " + llist(lstr(x) for x in sorted(set(main_reads))))
    L.append("")
    L.append("end Tsdate.Gen.Cli")
    return "\n".join(L) + "\n"


def generate():
    text = render()
    OUT.parent.mkdir(parents=True, exist_ok=True)
    if not OUT.exists() or OUT.read_text() != text:
        OUT.write_text(text)
    return OUT


if __name__ == "__main__":
    print(generate())
