"""
T5b (provenance): regenerate lean/TsdateVerif/Gen/ProvParams.lean from tsdate/core.py, util.py,
provenance.py (read from `harness.common.REPO`, stdlib `ast` only).

Extracted:

1. Signatures: `date`, the three method functions, `EstimationMethod.__init__`, each method class's
   `run`, `preprocess_ts`, `split_disjoint_nodes` (keyword parameter names, whether `**kwargs`).
2. What is actually recorded:
   * `__init__`: the keys of the `dict(...)` assigned to `self.provenance_params` under
     `if record_provenance:`; each value must be the parameter of the same name (the one exception,
     `population_size`, is reported as *normalised*);
   * `run`: must contain `if self.provenance_params is not None:
     self.provenance_params.update({k: v for k, v in locals().items() if k != "self"})` before any
     local name is bound, so that the recorded keys are exactly the parameters of `run`;
   * method functions: the `if x is None: x = <const>` default resolutions and the keyword mapping
     of `dating_method.run(...)`; `date()`: every named parameter except `method` is forwarded under
     its own name;
   * `preprocess_ts` / `split_disjoint_nodes`: command string and keyword -> local name of the
     `provenance.record_provenance(...)` call.
3. Provenance-affecting call sites on every public call path.  The call graph is over-approximated
   by name (bare names, `module.f`, `self.f`, `obj.f` -> every tsdate function/method of that name,
   class instantiation -> `__init__`, `estimation_methods[...]` -> every value of the dict); calls
   into a tsdate function with a constant `record_provenance=False` are not followed (they are
   listed as a site instead).  In every reachable function the translator lists
   `provenance.record_provenance(...)` calls (with the enclosing `if` tests), any use of
   `.provenances.<mutator>`, every call of a tskit method that records provenance by default
   (`simplify`, `delete_intervals`, ...) with its `record_provenance=` argument, and every
   assignment to `.provenance_params`.

Fails loudly (TranslateError) outside these shapes.
"""

import ast
import hashlib
import json

from harness import common

OUT = common.LEAN_DIR / "TsdateVerif" / "Gen" / "ProvParams.lean"

ENTRIES = [("core", "date"), ("core", "variational_gamma"), ("core", "inside_outside"), ("core", "maximization"),
           ("util", "preprocess_ts"), ("util", "split_disjoint_nodes")]
# tskit TableCollection / TreeSequence methods that append a provenance row unless told otherwise
TSKIT_RECORDING = {"simplify", "delete_intervals", "keep_intervals", "ltrim", "rtrim", "trim", "subset", "union",
                   "delete_sites", "shift", "concatenate", "decapitate", "extend_haplotypes", "split_edges",
                   "delete_older", "map_to_vacant"}
PROV_MUTATORS = {"add_row", "append", "append_columns", "set_columns", "clear", "truncate", "replace_with", "packset_record",
                 "packset_timestamp", "keep_rows", "extend"}


NOT_TSKIT = {"np", "numpy", "scipy", "math", "os", "json", "itertools", "functools", "operator", "logging"}


class TranslateError(Exception):
    pass


def lstr(s):
    s = "".join(c if 32 <= ord(c) < 127 else "?" for c in str(s))
    return json.dumps(s)


def llist(items):
    return "[" + ", ".join(items) + "]"


def dotted(node):
    if isinstance(node, ast.Name):
        return node.id
    if isinstance(node, ast.Attribute):
        b = dotted(node.value)
        return None if b is None else f"{b}.{node.attr}"
    return None


# ----------------------------------------------------------------------------- module index

class Index:
    def __init__(self):
        self.src = {}
        self.tree = {}
        self.funcs = {}      # (module, qualname) -> FunctionDef ; qualname = f or Class.f
        self.by_name = {}    # bare function/method name -> [(module, qualname)]
        self.classes = {}    # (module, class) -> ClassDef
        self.mod_aliases = {}  # module -> {alias: tsdate module}
        self.from_names = {}   # module -> {name: (module, name)}
        self.dict_dispatch = {}  # (module, dictname) -> [function names]
        for p in sorted((common.REPO / "tsdate").glob("*.py")):
            m = p.stem
            self.src[m] = p.read_text()
            self.tree[m] = ast.parse(self.src[m])
        mods = set(self.tree)
        for m, tree in self.tree.items():
            self.mod_aliases[m], self.from_names[m] = {}, {}
            for node in tree.body:
                if isinstance(node, ast.ImportFrom) and node.level >= 1:
                    if node.module is None:
                        for a in node.names:
                            if a.name in mods:
                                self.mod_aliases[m][a.asname or a.name] = a.name
                    elif node.module in mods:
                        for a in node.names:
                            self.from_names[m][a.asname or a.name] = (node.module, a.name)
                elif isinstance(node, (ast.FunctionDef,)):
                    self._add(m, node.name, node)
                elif isinstance(node, ast.ClassDef):
                    self.classes[(m, node.name)] = node
                    for sub in node.body:
                        if isinstance(sub, ast.FunctionDef):
                            self._add(m, f"{node.name}.{sub.name}", sub)
                elif isinstance(node, ast.Assign) and len(node.targets) == 1 and isinstance(node.targets[0], ast.Name) \
                        and isinstance(node.value, ast.Dict) and node.value.values \
                        and all(isinstance(v, ast.Name) for v in node.value.values):
                    self.dict_dispatch[(m, node.targets[0].id)] = [v.id for v in node.value.values]

    def _add(self, m, qual, node):
        self.funcs[(m, qual)] = node
        self.by_name.setdefault(qual.split(".")[-1], []).append((m, qual))

    def resolve_call(self, m, call):
        """Over-approximate set of tsdate functions a call may enter."""
        f = call.func
        out = []
        if isinstance(f, ast.Name):
            if (m, f.id) in self.funcs:
                out.append((m, f.id))
            elif (m, f.id) in self.classes:
                out += self.inits(m, f.id)
            elif f.id in self.from_names[m]:
                mm, nn = self.from_names[m][f.id]
                if (mm, nn) in self.funcs:
                    out.append((mm, nn))
                elif (mm, nn) in self.classes:
                    out += self.inits(mm, nn)
        elif isinstance(f, ast.Attribute):
            base = f.value
            if isinstance(base, ast.Name) and base.id in self.mod_aliases[m]:
                mm = self.mod_aliases[m][base.id]
                if (mm, f.attr) in self.funcs:
                    out.append((mm, f.attr))
                elif (mm, f.attr) in self.classes:
                    out += self.inits(mm, f.attr)
            elif isinstance(base, ast.Name) and base.id == "tsdate":
                for (mm, q) in self.by_name.get(f.attr, []):
                    if "." not in q:
                        out.append((mm, q))
            else:
                for (mm, q) in self.by_name.get(f.attr, []):
                    if "." in q:            # a method of some tsdate class
                        out.append((mm, q))
        elif isinstance(f, ast.Subscript) and isinstance(f.value, ast.Name) and (m, f.value.id) in self.dict_dispatch:
            out += [(m, n) for n in self.dict_dispatch[(m, f.value.id)] if (m, n) in self.funcs]
        return out

    def inits(self, m, cname):
        out = []
        seen = set()
        todo = [(m, cname)]
        while todo:
            mm, cc = todo.pop()
            if (mm, cc) in seen or (mm, cc) not in self.classes:
                continue
            seen.add((mm, cc))
            if (mm, f"{cc}.__init__") in self.funcs:
                out.append((mm, f"{cc}.__init__"))
            for b in self.classes[(mm, cc)].bases:
                if isinstance(b, ast.Name):
                    todo.append((mm, b.id))
        return out


def kw_of(call, name):
    for k in call.keywords:
        if k.arg == name:
            return k.value
    return None


def has_param(fd, name):
    a = fd.args
    return name in [x.arg for x in a.args + a.kwonlyargs]


# ----------------------------------------------------------------------------- sites

def flag_of(expr):
    if expr is None:
        return ("absent",)
    if isinstance(expr, ast.Constant) and expr.value is True:
        return ("constTrue",)
    if isinstance(expr, ast.Constant) and expr.value is False:
        return ("constFalse",)
    if isinstance(expr, ast.Name) and expr.id == "record_provenance":
        return ("user",)
    return ("other", ast.unparse(expr))


def guard_flag(guards):
    """Classify the `if` chain around a record site."""
    if not guards:
        return ("constTrue",)
    if len(guards) == 1 and guards[0] in ("record_provenance", "self.provenance_params is not None"):
        return ("user",)
    return ("other", " and ".join(guards))


def walk_with_guards(stmts, guards, visit):
    for s in stmts:
        if isinstance(s, ast.If):
            t = ast.unparse(s.test)
            visit_expr(s.test, guards, visit)
            walk_with_guards(s.body, guards + [t], visit)
            walk_with_guards(s.orelse, guards + [f"not ({t})"], visit)
        elif isinstance(s, (ast.For, ast.While)):
            visit_expr(s.iter if isinstance(s, ast.For) else s.test, guards, visit)
            walk_with_guards(s.body, guards + ["<loop>"], visit)
            walk_with_guards(s.orelse, guards + ["<loop-else>"], visit)
        elif isinstance(s, ast.With):
            for it in s.items:
                visit_expr(it.context_expr, guards, visit)
            walk_with_guards(s.body, guards, visit)
        elif isinstance(s, ast.Try):
            walk_with_guards(s.body, guards, visit)
            for h in s.handlers:
                walk_with_guards(h.body, guards + ["<except>"], visit)
            walk_with_guards(s.orelse, guards, visit)
            walk_with_guards(s.finalbody, guards, visit)
        elif isinstance(s, (ast.FunctionDef, ast.ClassDef)):
            walk_with_guards(s.body, guards + ["<nested def>"], visit)
        else:
            visit_expr(s, guards, visit)


def visit_expr(node, guards, visit):
    for n in ast.walk(node):
        visit(n, guards)


def analyse(idx):
    sites = []          # dict(entry, fn, kind, flag, guards)
    assigns = []        # assignments to .provenance_params: dict(fn, guards, value)
    reach = {}
    for entry in ENTRIES:
        if entry not in idx.funcs:
            raise TranslateError(f"entry point {entry} not found")
        seen, todo = set(), [entry]
        while todo:
            cur = todo.pop()
            if cur in seen:
                continue
            seen.add(cur)
            m, q = cur
            fd = idx.funcs[cur]

            def visit(n, guards, m=m, q=q, entry=entry):
                if isinstance(n, (ast.Assign, ast.AugAssign, ast.AnnAssign)):
                    tg = n.targets if isinstance(n, ast.Assign) else [n.target]
                    for t in tg:
                        if isinstance(t, ast.Attribute) and t.attr == "provenance_params":
                            assigns.append(dict(fn=f"{m}.{q}", guards=list(guards),
                                                value=ast.unparse(n.value)[:60] if n.value is not None else ""))
                if not isinstance(n, ast.Call):
                    return
                d = dotted(n.func) or ""
                last = d.split(".")[-1] if d else (n.func.attr if isinstance(n.func, ast.Attribute) else "")
                where = f"{m}.{q}"
                if d.endswith("record_provenance") and (d == "provenance.record_provenance" or d == "record_provenance"):
                    sites.append(dict(entry=entry[1], fn=where, kind="record", flag=guard_flag(guards), guards=list(guards)))
                if ".provenances." in f".{d}." and last in PROV_MUTATORS:
                    sites.append(dict(entry=entry[1], fn=where, kind="addrow", flag=guard_flag(guards), guards=list(guards)))
                if isinstance(n.func, ast.Attribute) and last in TSKIT_RECORDING and not idx.resolve_call(m, n) \
                        and d.split(".")[0] not in NOT_TSKIT:
                    sites.append(dict(entry=entry[1], fn=where, kind=f"lib:{last}", flag=flag_of(kw_of(n, "record_provenance")),
                                      guards=list(guards)))
                for tgt in idx.resolve_call(m, n):
                    tfd = idx.funcs[tgt]
                    if has_param(tfd, "record_provenance") and tgt[1] != "EstimationMethod.__init__" and not tgt[1].endswith(".__init__") \
                            and tgt[0] != "core":
                        fl = flag_of(kw_of(n, "record_provenance"))
                        sites.append(dict(entry=entry[1], fn=where, kind=f"callee:{tgt[1]}", flag=fl, guards=list(guards)))
                        if fl == ("constFalse",):
                            continue
                    todo.append(tgt)

            walk_with_guards(fd.body, [], visit)
        reach[entry[1]] = sorted(f"{m}.{q}" for m, q in seen)
    # de-duplicate assignments (a function may be reachable from several entries)
    uniq, seen_a = [], set()
    for a in assigns:
        k = (a["fn"], tuple(a["guards"]), a["value"])
        if k not in seen_a:
            seen_a.add(k)
            uniq.append(a)
    return sites, uniq, reach


def chain_count(idx, entry):
    """(number of static call chains from `entry` to a `provenance.record_provenance(...)` call, any of them inside
    a loop).  Targets of one call site are alternatives (max); different call sites add up."""
    memo = {}

    def count(f, stack):
        if f in stack:
            return (0, False)
        if f in memo:
            return memo[f]
        acc = [0, False]

        def visit(n, guards):
            if not isinstance(n, ast.Call):
                return
            d = dotted(n.func) or ""
            inloop = any(g.startswith("<loop") for g in guards)
            if d in ("provenance.record_provenance", "record_provenance"):
                acc[0] += 1
                acc[1] = acc[1] or inloop
            best = (0, False)
            for tgt in idx.resolve_call(f[0], n):
                tfd = idx.funcs[tgt]
                if has_param(tfd, "record_provenance") and not tgt[1].endswith(".__init__") and tgt[0] != "core" \
                        and flag_of(kw_of(n, "record_provenance")) == ("constFalse",):
                    continue
                c = count(tgt, stack | {f})
                if c[0] > best[0]:
                    best = c
            if best[0]:
                acc[0] += best[0]
                acc[1] = acc[1] or best[1] or inloop

        walk_with_guards(idx.funcs[f].body, [], visit)
        memo[f] = (acc[0], acc[1])
        return memo[f]

    return count(entry, frozenset())


# ----------------------------------------------------------------------------- signatures and recorded keys

def params_of(fd, drop=("self",)):
    a = fd.args
    names = [x.arg for x in a.args + a.kwonlyargs if x.arg not in drop]
    return names, a.kwarg is not None


def binds_local(stmt):
    for n in ast.walk(stmt):
        if isinstance(n, (ast.Assign, ast.AugAssign, ast.AnnAssign, ast.For, ast.With, ast.Import, ast.ImportFrom,
                          ast.NamedExpr, ast.FunctionDef, ast.ClassDef, ast.comprehension)):
            return True
    return False


UPDATE_SRC = "self.provenance_params.update({k: v for k, v in locals().items() if k != 'self'})"


def run_records_locals(fd):
    """True iff run() updates provenance_params with its own parameters before binding any local."""
    body = list(fd.body)
    if body and isinstance(body[0], ast.Expr) and isinstance(body[0].value, ast.Constant):
        body = body[1:]
    for s in body:
        if isinstance(s, ast.If) and ast.unparse(s.test) == "self.provenance_params is not None" \
                and len(s.body) == 1 and not s.orelse and ast.unparse(s.body[0]) == UPDATE_SRC:
            return True
        if binds_local(s):
            return False
    return False


def module_const(idx, m, name, depth=0):
    """Value of a module-level `NAME = <literal>` (following `from .x import NAME`)."""
    for node in idx.tree[m].body:
        if isinstance(node, ast.Assign) and len(node.targets) == 1 and isinstance(node.targets[0], ast.Name) \
                and node.targets[0].id == name and isinstance(node.value, ast.Constant):
            return node.value.value
    if name in idx.from_names[m] and depth < 3:
        mm, nn = idx.from_names[m][name]
        return module_const(idx, mm, nn, depth + 1)
    raise TranslateError(f"{m}.{name} is not a module-level literal constant")


def const_value(expr, idx):
    """Literal or module-level constant of core.py -> python value"""
    if isinstance(expr, ast.Constant):
        return expr.value
    if isinstance(expr, ast.Name):
        return module_const(idx, "core", expr.id)
    raise TranslateError(f"default expression {ast.unparse(expr)} is not a constant")


def lval(v):
    if v is None:
        return "PVal.none"
    if isinstance(v, bool):
        return f"PVal.bool {'true' if v else 'false'}"
    if isinstance(v, int):
        return f"PVal.int ({v})"
    if isinstance(v, float):
        import struct
        return f"PVal.flt {lstr(struct.pack('>d', float(v)).hex())}"
    if isinstance(v, str):
        return f"PVal.str {lstr(v)}"
    raise TranslateError(f"unsupported constant {v!r}")


def method_info(idx):
    """For every class with a `name = "<method>"` attribute and a run(): signature facts."""
    out = []
    for (m, cname), cd in idx.classes.items():
        if m != "core":
            continue
        mname = None
        for s in cd.body:
            if isinstance(s, ast.Assign) and len(s.targets) == 1 and isinstance(s.targets[0], ast.Name) \
                    and s.targets[0].id == "name" and isinstance(s.value, ast.Constant) and isinstance(s.value.value, str):
                mname = s.value.value
        if mname is None or ("core", f"{cname}.run") not in idx.funcs:
            continue
        run_fd = idx.funcs[("core", f"{cname}.run")]
        run_params, _ = params_of(run_fd)
        if ("core", mname) not in idx.funcs:
            raise TranslateError(f"no public function core.{mname} for class {cname}")
        fn = idx.funcs[("core", mname)]
        fn_params, fn_var = params_of(fn, drop=("tree_sequence",))
        # default resolutions  `if x is None: x = CONST`
        defaults = []
        for s in fn.body:
            if isinstance(s, ast.If) and not s.orelse and len(s.body) == 1 and isinstance(s.body[0], ast.Assign) \
                    and isinstance(s.test, ast.Compare) and isinstance(s.test.ops[0], ast.Is) \
                    and isinstance(s.test.comparators[0], ast.Constant) and s.test.comparators[0].value is None \
                    and isinstance(s.test.left, ast.Name) and isinstance(s.body[0].targets[0], ast.Name) \
                    and s.body[0].targets[0].id == s.test.left.id:
                defaults.append((s.test.left.id, const_value(s.body[0].value, idx)))
        # the run(...) call: keyword -> local name
        run_call = None
        ctor_call = None
        for n in ast.walk(fn):
            if isinstance(n, ast.Call) and isinstance(n.func, ast.Attribute) and n.func.attr == "run":
                run_call = n
            if isinstance(n, ast.Call) and isinstance(n.func, ast.Name) and n.func.id == cname:
                ctor_call = n
        if run_call is None or ctor_call is None:
            raise TranslateError(f"core.{mname}: constructor or run() call not found")
        run_map = []
        for k in run_call.keywords:
            if k.arg is None or not isinstance(k.value, ast.Name):
                raise TranslateError(f"core.{mname}: run() argument {ast.unparse(k)} outside the subset")
            run_map.append((k.arg, k.value.id))
        if run_call.args:
            raise TranslateError(f"core.{mname}: positional run() arguments")
        ctor_map = []
        ctor_var = False
        for k in ctor_call.keywords:
            if k.arg is None:
                ctor_var = True
            elif isinstance(k.value, ast.Name):
                ctor_map.append((k.arg, k.value.id))
            else:
                raise TranslateError(f"core.{mname}: constructor argument {ast.unparse(k)} outside the subset")
        out.append(dict(name=mname, cls=cname, run_params=run_params, run_locals=run_records_locals(run_fd),
                        fn_params=fn_params, fn_var=fn_var, defaults=defaults, run_map=run_map, ctor_map=ctor_map,
                        ctor_var=ctor_var))
    if not out:
        raise TranslateError("no estimation method classes found")
    return sorted(out, key=lambda d: d["name"])


def init_info(idx):
    fd = idx.funcs.get(("core", "EstimationMethod.__init__"))
    if fd is None:
        raise TranslateError("EstimationMethod.__init__ not found")
    params, _ = params_of(fd, drop=("self", "ts"))
    recorded, normalised = None, []
    for n in ast.walk(fd):
        if isinstance(n, ast.If) and ast.unparse(n.test) == "record_provenance":
            for s in n.body:
                if isinstance(s, ast.Assign) and isinstance(s.targets[0], ast.Attribute) and s.targets[0].attr == "provenance_params" \
                        and isinstance(s.value, ast.Call) and dotted(s.value.func) == "dict" and not s.value.args:
                    recorded = []
                    for k in s.value.keywords:
                        if k.arg is None:
                            raise TranslateError("provenance_params dict uses **")
                        recorded.append(k.arg)
                        if not (isinstance(k.value, ast.Name) and k.value.id == k.arg):
                            normalised.append(k.arg)
    if recorded is None:
        raise TranslateError("`if record_provenance: self.provenance_params = dict(...)` not found in __init__")
    # the None -> True default of record_provenance
    default_true = any(isinstance(n, ast.If) and ast.unparse(n.test) == "record_provenance is None"
                       and ast.unparse(n.body[0]) == "record_provenance = True" for n in ast.walk(fd))
    return dict(params=params, recorded=recorded, normalised=normalised, default_true=default_true)


def date_info(idx):
    fd = idx.funcs[("core", "date")]
    params, var = params_of(fd, drop=("tree_sequence",))
    fwd = None
    for n in ast.walk(fd):
        if isinstance(n, ast.Call) and isinstance(n.func, ast.Subscript) and dotted(n.func.value) == "estimation_methods":
            fwd = [(k.arg, k.value.id if isinstance(k.value, ast.Name) else None) for k in n.keywords]
    if fwd is None:
        raise TranslateError("date(): dispatch call not found")
    return dict(params=params, var=var, forwarded=[k for k, v in fwd if k is not None and v == k],
                forwards_var=any(k is None for k, _ in fwd))


def util_record_info(idx, fname):
    fd = idx.funcs[("util", fname)]
    params, var = params_of(fd, drop=("tree_sequence", "ts"))
    calls = [n for n in ast.walk(fd) if isinstance(n, ast.Call) and dotted(n.func) == "provenance.record_provenance"]
    if len(calls) != 1:
        return dict(params=params, var=var, command=None, recorded=[], n_calls=len(calls), records_var=False)
    c = calls[0]
    cmd = c.args[1].value if len(c.args) > 1 and isinstance(c.args[1], ast.Constant) else None
    rec = []
    records_var = False
    for k in c.keywords:
        if k.arg is None:
            # `**kwargs` of the function itself handed on to the record
            if not (isinstance(k.value, ast.Name) and fd.args.kwarg is not None and k.value.id == fd.args.kwarg.arg):
                raise TranslateError(f"{fname}: recorded **{ast.unparse(k.value)} is not the function's own **kwargs")
            records_var = True
            continue
        if k.arg == "start_time":
            continue
        if not (isinstance(k.value, ast.Name)):
            raise TranslateError(f"{fname}: recorded value {ast.unparse(k)} outside the subset")
        rec.append((k.arg, k.value.id))
    return dict(params=params, var=var, command=cmd, recorded=rec, n_calls=1, records_var=records_var)


def provenance_fn_info(idx):
    """record_provenance -> get_provenance_dict: parameters = dict(kwargs); parameters['command'] = command"""
    fd = idx.funcs.get(("provenance", "get_provenance_dict"))
    rp = idx.funcs.get(("provenance", "record_provenance"))
    if fd is None or rp is None:
        raise TranslateError("provenance.get_provenance_dict / record_provenance not found")
    src = ast.unparse(fd)
    ok = ("parameters = dict(kwargs)" in src and "parameters['command'] = command" in src
          and "'parameters': parameters" in src)
    addrows = [n for n in ast.walk(rp) if isinstance(n, ast.Call) and (dotted(n.func) or "").endswith("provenances.add_row")]
    txt = ast.unparse(addrows[0]) if addrows else ""
    ok2 = len(addrows) == 1 and ("record=json.dumps(record)" in txt or "record=json.dumps(record, default=" in txt)
    # a `default=` hook makes json.dumps total on numpy scalars/arrays (obj.tolist())
    hook = None
    m = [n for n in ast.walk(rp) if isinstance(n, ast.Call) and dotted(n.func) == "json.dumps"]
    if m and kw_of(m[0], "default") is not None and isinstance(kw_of(m[0], "default"), ast.Name):
        hfd = idx.funcs.get(("provenance", kw_of(m[0], "default").id))
        hook = hfd is not None and "tolist()" in ast.unparse(hfd)
    return dict(dict_shape_ok=ok, single_add_row=ok2, numpy_hook=bool(hook))


# ----------------------------------------------------------------------------- emission

def emit_flag(f):
    if f[0] == "other":
        return f"(Flag.other {lstr(f[1])})"
    return f"Flag.{f[0]}"


def render():
    idx = Index()
    sites, assigns, reach = analyse(idx)
    methods = method_info(idx)
    init = init_info(idx)
    date = date_info(idx)
    pre = util_record_info(idx, "preprocess_ts")
    spl = util_record_info(idx, "split_disjoint_nodes")
    pf = provenance_fn_info(idx)
    sha = hashlib.sha256("".join(idx.src[m] for m in ("core", "util", "provenance")).encode()).hexdigest()
    L = ["/-", "GENERATED by translate/provparams.py from tsdate/core.py, util.py, provenance.py — do not edit.",
         f"source sha256: {sha}", "-/", "import TsdateVerif.Model.Provenance", "", "namespace Tsdate.Gen.ProvParams",
         "open Tsdate.Provenance", ""]
    L.append("/-- every provenance-affecting call site reachable from each public entry point -/")
    L.append("def sites : List Site := [")
    L.append(",\n".join(
        f"  {{ entry := {lstr(s['entry'])}, fn := {lstr(s['fn'])}, kind := {lstr(s['kind'])}, flag := {emit_flag(s['flag'])}, "
        f"guards := {llist(lstr(g) for g in s['guards'])} }}" for s in sites))
    L.append("]")
    L.append("")
    L.append("/-- every assignment to `.provenance_params` reachable from the entry points: (function, guards, value) -/")
    L.append("def paramsAssigns : List (String × List String × String) := " + llist(
        f"({lstr(a['fn'])}, {llist(lstr(g) for g in a['guards'])}, {lstr(a['value'])})" for a in assigns))
    L.append("")
    L.append("def entries : List String := " + llist(lstr(e[1]) for e in ENTRIES))
    L.append("def dateEntries : List String := " + llist(lstr(e[1]) for e in ENTRIES if e[0] == "core"))
    L.append("")
    L.append("/-- `get_provenance_dict` builds `parameters = dict(kwargs); parameters[\"command\"] = command`, and")
    L.append("`record_provenance` performs exactly one `tables.provenances.add_row(record=json.dumps(record))` -/")
    L.append(f"def provenanceDictShapeOk : Bool := {'true' if pf['dict_shape_ok'] else 'false'}")
    L.append(f"def singleAddRow : Bool := {'true' if pf['single_add_row'] else 'false'}")
    L.append("/-- `json.dumps(record, default=<hook>)` with a hook that maps objects having `tolist()` to plain values -/")
    L.append(f"def jsonNumpyHook : Bool := {'true' if pf['numpy_hook'] else 'false'}")
    L.append("")
    L.append("def sigDate : List String := " + llist(lstr(p) for p in date["params"]))
    L.append("def dateForwarded : List String := " + llist(lstr(p) for p in date["forwarded"]))
    L.append(f"def dateForwardsKwargs : Bool := {'true' if date['forwards_var'] else 'false'}")
    L.append("def sigInit : List String := " + llist(lstr(p) for p in init["params"]))
    L.append("def initRecorded : List String := " + llist(lstr(p) for p in init["recorded"]))
    L.append("def initNormalised : List String := " + llist(lstr(p) for p in init["normalised"]))
    L.append(f"def recordDefaultTrue : Bool := {'true' if init['default_true'] else 'false'}")
    L.append("")
    L.append("def methods : List MethodInfo := [")
    L.append(",\n".join(
        "  { name := " + lstr(mi["name"]) + ", cls := " + lstr(mi["cls"]) + ",\n"
        "    fnParams := " + llist(lstr(p) for p in mi["fn_params"]) + f", fnVarKw := {'true' if mi['fn_var'] else 'false'},\n"
        "    runParams := " + llist(lstr(p) for p in mi["run_params"]) + f", runRecordsLocals := {'true' if mi['run_locals'] else 'false'},\n"
        "    runMap := " + llist(f"({lstr(k)}, {lstr(v)})" for k, v in mi["run_map"]) + ",\n"
        "    ctorMap := " + llist(f"({lstr(k)}, {lstr(v)})" for k, v in mi["ctor_map"]) + f", ctorVarKw := {'true' if mi['ctor_var'] else 'false'},\n"
        "    defaults := " + llist(f"({lstr(k)}, {lval(v)})" for k, v in mi["defaults"]) + " }" for mi in methods))
    L.append("]")
    L.append("")
    for nm, info in (("preprocess", pre), ("split", spl)):
        L.append(f"def {nm}Params : List String := " + llist(lstr(p) for p in info["params"]))
        L.append(f"def {nm}VarKw : Bool := {'true' if info['var'] else 'false'}")
        L.append(f"def {nm}Command : String := {lstr(info['command'] or '')}")
        L.append(f"def {nm}Recorded : List (String × String) := " + llist(f"({lstr(k)}, {lstr(v)})" for k, v in info["recorded"]))
        L.append(f"def {nm}RecordsVarKw : Bool := {'true' if info['records_var'] else 'false'}")
        L.append("")
    L.append("/-- (entry, number of static call chains reaching a `provenance.record_provenance(...)` call, any inside a loop) -/")
    L.append("def recordChains : List (String × Nat × Bool) := " + llist(
        f"({lstr(e[1])}, {chain_count(idx, e)[0]}, {'true' if chain_count(idx, e)[1] else 'false'})" for e in ENTRIES))
    L.append("")
    L.append("/-- functions reachable from each entry (over-approximate call graph), for the record -/")
    L.append("def reachable : List (String × Nat) := " + llist(f"({lstr(k)}, {len(v)})" for k, v in reach.items()))
    L.append("")
    L.append("end Tsdate.Gen.ProvParams")
    return "\n".join(L) + "\n"


def generate():
    text = render()
    OUT.parent.mkdir(parents=True, exist_ok=True)
    if not OUT.exists() or OUT.read_text() != text:
        OUT.write_text(text)
    return OUT


if __name__ == "__main__":
    print(generate())
