"""
T2 — constants translator:  tsdate/*.py  ->  lean/TsdateVerif/Gen/Consts.lean   (exact `Rat` literals)

Reads the source text under `common.REPO/tsdate` (stdlib `ast` only; tsdate is never imported).

* module-level numeric constants (`NAME = <number | int(<number>) | a << b | np.sqrt(np.finfo(np.float64).eps|tiny)>`)
  of every module  ->  `Tsdate.Gen.Consts.<module>.<NAME>`
* numeric keyword defaults of every function / method  ->  `Tsdate.Gen.Consts.<module>.<Class>.<func>.<param>`
* `hypergeo._digamma` / `_trigamma`: the cut-offs of the `if` cascade and the signed coefficients of the
  asymptotic series, twice: as written (exact value of the decimal text) and as the double Python parses
  (`*_f64`, exact dyadic rationals).

A float literal is emitted as the exact rational value of its decimal text.  Derived constants use a table of
the numpy constants they mention (`np.finfo(np.float64).eps = 2^-52`, `.tiny = 2^-1022`, `np.euler_gamma`,
`np.pi` as the doubles numpy defines) and exact square roots only.  The required constants listed in REQUIRED
must be found and evaluable, otherwise `Unsupported` is raised (fail loudly).
"""

import ast
import hashlib
from fractions import Fraction

from harness import common

GEN_DIR = common.LEAN_DIR / "TsdateVerif" / "Gen"

REQUIRED = {
    "approx": ["_KLMIN_MAXITT", "_KLMIN_RELTOL"],
    "hypergeo": ["_HYP2F1_TOL", "_HYP2F1_MAXTERM"],
    "core": ["DEFAULT_CONSTRAINT_ITERATIONS", "DEFAULT_RESCALING_INTERVALS", "DEFAULT_RESCALING_ITERATIONS",
             "DEFAULT_MAX_ITERATIONS", "DEFAULT_EPSILON", "DEFAULT_MIN_BRANCH_LENGTH"],
    "variational": ["TINY"],
    "prior": ["DEFAULT_APPROX_PRIOR_SIZE"],
}

# doubles that numpy defines (exact values of the binary64 constants)
NUMPY_CONSTS = {
    "np.euler_gamma": Fraction(0.5772156649015329),
    "np.pi": Fraction(3.141592653589793),
}
FINFO = {"eps": Fraction(1, 2**52), "tiny": Fraction(1, 2**1022)}


class Unsupported(Exception):
    pass


def exact_sqrt(fr):
    import math
    n, d = fr.numerator, fr.denominator
    rn, rd = math.isqrt(n), math.isqrt(d)
    if rn * rn != n or rd * rd != d:
        raise Unsupported(f"sqrt of {fr} is not rational")
    return Fraction(rn, rd)


def dotted(node):
    if isinstance(node, ast.Name):
        return node.id
    if isinstance(node, ast.Attribute):
        b = dotted(node.value)
        return None if b is None else b + "." + node.attr
    return None


def evaluate(node, text):
    """exact value of a constant expression, or None if it is not numeric / not in the subset"""
    if isinstance(node, ast.Constant):
        if isinstance(node.value, bool) or not isinstance(node.value, (int, float)):
            return None
        if isinstance(node.value, int):
            return Fraction(node.value)
        seg = ast.get_source_segment(text, node)
        return Fraction(seg)
    if isinstance(node, ast.UnaryOp) and isinstance(node.op, ast.USub):
        v = evaluate(node.operand, text)
        return None if v is None else -v
    if isinstance(node, ast.BinOp):
        a, b = evaluate(node.left, text), evaluate(node.right, text)
        if a is None or b is None:
            return None
        if isinstance(node.op, ast.LShift) and a.denominator == 1 and b.denominator == 1:
            return Fraction(int(a) << int(b))
        if isinstance(node.op, ast.Add):
            return a + b
        if isinstance(node.op, ast.Sub):
            return a - b
        if isinstance(node.op, ast.Mult):
            return a * b
        if isinstance(node.op, ast.Div) and b != 0:
            return a / b
        return None
    d = dotted(node)
    if d in NUMPY_CONSTS:
        return NUMPY_CONSTS[d]
    if isinstance(node, ast.Attribute) and node.attr in FINFO and isinstance(node.value, ast.Call):
        if dotted(node.value.func) == "np.finfo" and len(node.value.args) == 1 and \
                dotted(node.value.args[0]) in ("np.float64", "float"):
            return FINFO[node.attr]
    if isinstance(node, ast.Call) and len(node.args) == 1 and not node.keywords:
        f = dotted(node.func)
        v = evaluate(node.args[0], text)
        if v is None:
            return None
        if f == "int":
            return Fraction(int(v))
        if f == "float":
            return v
        if f in ("np.sqrt", "math.sqrt", "sqrt"):
            return exact_sqrt(v)
    return None


def rat(fr):
    fr = Fraction(fr)
    if fr.denominator == 1:
        return f"({fr.numerator} : Rat)"
    return f"(({fr.numerator} : Rat) / {fr.denominator})"


def lean_ident(n):
    return n


# ---------------------------------------------------------------------------------------- series extraction

def linear_terms(node, sign, text, out):
    """flatten a +/- chain into signed terms"""
    if isinstance(node, ast.BinOp) and isinstance(node.op, (ast.Add, ast.Sub)):
        linear_terms(node.left, sign, text, out)
        linear_terms(node.right, sign if isinstance(node.op, ast.Add) else -sign, text, out)
    else:
        out.append((sign, node))


def power_of(node, var):
    """k if node is var, var**k or np.power(var, k)"""
    if isinstance(node, ast.Name) and node.id == var:
        return 1
    if isinstance(node, ast.BinOp) and isinstance(node.op, ast.Pow) and isinstance(node.left, ast.Name) \
            and node.left.id == var and isinstance(node.right, ast.Constant) and isinstance(node.right.value, int):
        return node.right.value
    if isinstance(node, ast.Call) and dotted(node.func) == "np.power" and len(node.args) == 2 \
            and isinstance(node.args[0], ast.Name) and node.args[0].id == var \
            and isinstance(node.args[1], ast.Constant) and isinstance(node.args[1].value, int):
        return node.args[1].value
    return None


def coef_term(sign, node, text, var):
    """(k, text value, f64 value) for `c * var^k`"""
    if isinstance(node, ast.BinOp) and isinstance(node.op, ast.Mult) and isinstance(node.left, ast.Constant):
        k = power_of(node.right, var)
        if k is not None:
            c = evaluate(node.left, text)
            return k, sign * c, sign * Fraction(float(node.left.value))
    return None


def cutoffs(fn, text, what):
    """the `if x <op> c:` cascade at the top of the function"""
    out = []
    for st in fn.body:
        if isinstance(st, ast.Expr):
            continue
        if isinstance(st, ast.If) and isinstance(st.test, ast.Compare) and len(st.test.ops) == 1 \
                and isinstance(st.test.left, ast.Name) and st.test.left.id == "x":
            op = {ast.LtE: "le", ast.Lt: "lt"}.get(type(st.test.ops[0]))
            v = evaluate(st.test.comparators[0], text)
            if op is None or v is None:
                raise Unsupported(f"{what}: cut-off {ast.unparse(st.test)}")
            out.append((op, v, Fraction(float(v))))
        else:
            break
    return out


def series(fn, text, what):
    ret = fn.body[-1]
    if not isinstance(ret, ast.Return):
        raise Unsupported(f"{what}: last statement is not a return")
    return ret.value


def digamma_consts(tree, text):
    fn = next(n for n in ast.walk(tree) if isinstance(n, ast.FunctionDef) and n.name == "_digamma")
    cuts = cutoffs(fn, text, "_digamma")
    if [c[0] for c in cuts] != ["le", "le", "lt"]:
        raise Unsupported(f"_digamma: unexpected cut-off cascade {cuts}")
    terms = []
    linear_terms(series(fn, text, "_digamma"), 1, text, terms)
    # expected: np.log(x), -0.5 / x, then c_k * xpm2**k
    s0, t0 = terms[0]
    if not (s0 == 1 and isinstance(t0, ast.Call) and dotted(t0.func) in ("np.log", "log", "math.log")):
        raise Unsupported("_digamma: series does not start with log(x)")
    s1, t1 = terms[1]
    if not (isinstance(t1, ast.BinOp) and isinstance(t1.op, ast.Div) and isinstance(t1.left, ast.Constant)
            and isinstance(t1.right, ast.Name) and t1.right.id == "x"):
        raise Unsupported("_digamma: second term is not c / x")
    inv = (s1 * evaluate(t1.left, text), s1 * Fraction(float(t1.left.value)))
    cs = []
    for i, (s, t) in enumerate(terms[2:], 1):
        r = coef_term(s, t, text, "xpm2")
        if r is None or r[0] != i:
            raise Unsupported(f"_digamma: term {i} is not c * xpm2**{i}: {ast.unparse(t)}")
        cs.append(r[1:])
    return cuts, inv, cs


def trigamma_consts(tree, text):
    fn = next(n for n in ast.walk(tree) if isinstance(n, ast.FunctionDef) and n.name == "_trigamma")
    cuts = cutoffs(fn, text, "_trigamma")
    if [c[0] for c in cuts] != ["le", "le", "lt"]:
        raise Unsupported(f"_trigamma: unexpected cut-off cascade {cuts}")
    e = series(fn, text, "_trigamma")
    if not (isinstance(e, ast.BinOp) and isinstance(e.op, ast.Mult) and isinstance(e.left, ast.Name) and e.left.id == "xpm1"):
        raise Unsupported("_trigamma: series is not xpm1 * (...)")
    terms = []
    linear_terms(e.right, 1, text, terms)
    s0, t0 = terms[0]
    lead = evaluate(t0, text)
    if lead is None:
        raise Unsupported("_trigamma: leading term is not a constant")
    lead = (s0 * lead, s0 * Fraction(float(t0.value)))
    r1 = coef_term(terms[1][0], terms[1][1], text, "xpm1")
    if r1 is None or r1[0] != 1:
        raise Unsupported("_trigamma: second term is not c * xpm1")
    cs = []
    for i, (s, t) in enumerate(terms[2:], 1):
        r = coef_term(s, t, text, "xpm2")
        if r is None or r[0] != i:
            raise Unsupported(f"_trigamma: term {i} is not c * xpm2**{i}: {ast.unparse(t)}")
        cs.append(r[1:])
    return cuts, lead, r1[1:], cs


def kl_literals(tree, text):
    """literals inside approximate_gamma_kl: `alpha = c / (log x - logx)` and `if 1.0 / alpha < c: return`"""
    fn = next((n for n in ast.walk(tree) if isinstance(n, ast.FunctionDef) and n.name == "approximate_gamma_kl"), None)
    if fn is None:
        raise Unsupported("approx.approximate_gamma_kl not found")
    init = cut = None
    for st in fn.body:
        if isinstance(st, ast.Assign) and isinstance(st.targets[0], ast.Name) and st.targets[0].id == "alpha" \
                and isinstance(st.value, ast.BinOp) and isinstance(st.value.op, ast.Div):
            init = evaluate(st.value.left, text)
        if isinstance(st, ast.If) and isinstance(st.test, ast.Compare) and len(st.test.ops) == 1 \
                and isinstance(st.test.ops[0], ast.Lt) and isinstance(st.test.left, ast.BinOp) \
                and isinstance(st.test.left.op, ast.Div) and isinstance(st.test.left.right, ast.Name) \
                and st.test.left.right.id == "alpha" and evaluate(st.test.left.left, text) == 1:
            cut = evaluate(st.test.comparators[0], text)
    if init is None or cut is None:
        raise Unsupported("approximate_gamma_kl: initial value `c / (log x - logx)` or `if 1.0 / alpha < c` not found")
    return ["/-- `alpha = c / (np.log(x) - logx)` in `approximate_gamma_kl`. -/",
            f"def approximate_gamma_kl.init_num : Rat := {rat(init)}",
            "/-- `if 1.0 / alpha < c: return alpha - 1.0, alpha / x` (asymptotic regime). -/",
            f"def approximate_gamma_kl.asym_cutoff : Rat := {rat(cut)}"]


# ---------------------------------------------------------------------------------------- emission

def rat_list(xs):
    return "[" + ", ".join(rat(x) for x in xs) + "]"


def generate_text():
    out = []
    shas = {}
    body = []
    for path in sorted((common.REPO / "tsdate").glob("*.py")):
        module = path.stem
        if module.startswith("_") and module != "__init__":
            continue
        text = path.read_text()
        tree = ast.parse(text)
        consts, defaults = [], []
        for st in tree.body:
            if isinstance(st, ast.Assign) and len(st.targets) == 1 and isinstance(st.targets[0], ast.Name):
                v = evaluate(st.value, text)
                if v is not None:
                    consts.append((st.targets[0].id, v, ast.unparse(st.value)))

        def visit(node, prefix):
            for ch in node.body:
                if isinstance(ch, ast.ClassDef):
                    visit(ch, prefix + [ch.name])
                elif isinstance(ch, (ast.FunctionDef,)):
                    a = ch.args
                    pos = a.posonlyargs + a.args
                    pairs = list(zip(pos[len(pos) - len(a.defaults):], a.defaults)) + \
                        [(k, d) for k, d in zip(a.kwonlyargs, a.kw_defaults) if d is not None]
                    for arg, d in pairs:
                        v = evaluate(d, text)
                        if v is not None:
                            defaults.append((".".join(prefix + [ch.name, arg.arg]), v, ast.unparse(d)))
                    visit(ch, prefix + [ch.name])
        visit(tree, [])
        missing = [n for n in REQUIRED.get(module, []) if n not in {c[0] for c in consts}]
        if missing:
            raise Unsupported(f"tsdate/{module}.py: required constants not found or not evaluable: {missing}")
        special = []
        if module == "hypergeo":
            cuts, inv, cs = digamma_consts(tree, text)
            special += [
                "/-- `_digamma`: `if x <= c0` reflection, `if x <= c1` small-x form, `if x < c2` recurrence, else series. -/",
                f"def digamma_cutoffs : List Rat := {rat_list([c[1] for c in cuts])}",
                f"def digamma_cutoffs_f64 : List Rat := {rat_list([c[2] for c in cuts])}",
                "/-- coefficient of `1/x` in the `_digamma` series (as written / as a double). -/",
                f"def digamma_inv : Rat := {rat(inv[0])}",
                f"def digamma_inv_f64 : Rat := {rat(inv[1])}",
                "/-- signed coefficients of `xpm2^k`, k = 1.., in the `_digamma` series (decimal text, exact). -/",
                f"def digamma_series : List Rat := {rat_list([c[0] for c in cs])}",
                "/-- the same coefficients as the doubles Python parses (exact dyadic rationals). -/",
                f"def digamma_series_f64 : List Rat := {rat_list([c[1] for c in cs])}",
            ]
            cuts, lead, half, cs = trigamma_consts(tree, text)
            special += [
                "/-- `_trigamma`: same cascade (`<=`, `<=`, `<`). -/",
                f"def trigamma_cutoffs : List Rat := {rat_list([c[1] for c in cuts])}",
                f"def trigamma_cutoffs_f64 : List Rat := {rat_list([c[2] for c in cuts])}",
                "/-- `_trigamma` series `xpm1 * (lead + half * xpm1 + Σ c_k xpm2^k)`. -/",
                f"def trigamma_lead : Rat := {rat(lead[0])}",
                f"def trigamma_lead_f64 : Rat := {rat(lead[1])}",
                f"def trigamma_half : Rat := {rat(half[0])}",
                f"def trigamma_half_f64 : Rat := {rat(half[1])}",
                f"def trigamma_series : List Rat := {rat_list([c[0] for c in cs])}",
                f"def trigamma_series_f64 : List Rat := {rat_list([c[1] for c in cs])}",
                "/-- `np.euler_gamma` (the double). -/",
                f"def euler_gamma_f64 : Rat := {rat(NUMPY_CONSTS['np.euler_gamma'])}",
            ]
        if module == "approx":
            special += kl_literals(tree, text)
        if not (consts or defaults or special):
            continue
        shas[module] = hashlib.sha256(text.encode()).hexdigest()
        ns = "init" if module == "__init__" else module
        body.append(f"namespace {ns}")
        for n, v, src in consts:
            body.append(f"/-- `{n} = {src}` -/")
            body.append(f"def {lean_ident(n)} : Rat := {rat(v)}")
        for n, v, src in defaults:
            body.append(f"/-- default `{n.split('.')[-1]}={src}` of `{'.'.join(n.split('.')[:-1])}` -/")
            body.append(f"def {lean_ident(n)} : Rat := {rat(v)}")
        body += special
        body.append(f"end {ns}")
        body.append("")
    out += ["/-", "GENERATED by translate/consts.py (T2) from the source text of tsdate — DO NOT EDIT.",
            "Module-level numeric constants, numeric keyword defaults, and the literal cut-offs / series coefficients",
            "of `_digamma` and `_trigamma`, as exact rationals.", ""]
    for m in sorted(shas):
        out.append(f"source tsdate/{m}.py sha256 {shas[m]}")
    out += ["-/", "", "namespace Tsdate.Gen.Consts", ""] + body + ["end Tsdate.Gen.Consts", ""]
    return "\n".join(out)


def generate():
    text = generate_text()
    path = GEN_DIR / "Consts.lean"
    path.parent.mkdir(parents=True, exist_ok=True)
    if not (path.exists() and path.read_text() == text):
        path.write_text(text)
    return text


if __name__ == "__main__":
    generate()
    print("Gen/Consts.lean written")
