"""
T4 (write-set): static attribute-level analysis of every statement that can change a tskit table on
the way from a dating result to the returned tree sequence.

Roots: `core.date`, `core.variational_gamma`, `core.inside_outside`, `core.maximization`, and every
method named `parse_result`, `get_modified_ts`, `set_time_metadata` in tsdate/core.py.  A variable is
a *TableCollection alias* when it is assigned from `<anything>.dump_tables()` (or a copy of an alias)
and a *table alias* when it is `<alias>.<nodes|edges|…>`.  Aliases are followed through assignments,
through parameters of tsdate functions they are passed to (`self.m(...)`, nested functions,
`module.f(...)` for tsdate modules) and into nested functions/lambdas.  Recorded as a write:

    alias.col = …            -> setColumn / setSchema / setTimeUnits
    alias.col[...] = …       -> setColumn (treated as a write)
    table.packset_metadata   -> packsetMetadata      table.drop_metadata -> dropMetadata
    table.add_row / append   -> addRow
    any other method call on an alias that is not in the read-only list -> call / tableCall
    an alias handed to a function the analysis cannot resolve, stored in an attribute or a
    container, or touched through getattr/setattr -> escape (never allowed)
    `self.ts` bound to anything but the constructor parameter `ts` -> escape

Output: lean/TsdateVerif/Gen/WriteSet.lean (`writes : List (String × WOp)`, `writeSet`).
The translator fails loudly (TranslateError) when the roots are missing.
"""

import ast

from . import glue_lib as G

TABLES = ["nodes", "edges", "sites", "mutations", "individuals", "populations", "migrations", "provenances"]
TC_READONLY = {"tree_sequence", "copy", "dump", "equals", "assert_equals", "asdict", "has_index"}
T_READONLY = {"copy", "equals", "assert_equals", "asdict", "metadata_vector"}
HARMLESS_CALLEES = {"len", "type", "zip", "range", "iter", "isinstance", "enumerate", "print", "id", "repr", "str"}
ROOT_FUNCS = ["date", "variational_gamma", "inside_outside", "maximization"]
ROOT_METHODS = ["parse_result", "get_modified_ts", "set_time_metadata"]

TC = ("TC",)


class Analysis:
    def __init__(self):
        self.modules = {}       # name -> (src, tree, functions, classes, imported tsdate modules)
        self.writes = []        # (function, op tuple) in first-occurrence order
        self.seen = set()
        self.done = set()

    def module(self, name):
        if name not in self.modules:
            src, tree = G.read_module(name)
            imported = set()
            for node in ast.walk(tree):
                if isinstance(node, ast.ImportFrom) and node.level >= 1 and node.module is None:
                    imported |= {a.asname or a.name for a in node.names}
            self.modules[name] = (src, tree, G.functions_of(tree), G.classes_of(tree), imported)
        return self.modules[name]

    def record(self, where, op):
        if (where, op) not in self.seen:
            self.seen.add((where, op))
            self.writes.append((where, op))

    # ---- abstract values
    def kind(self, e, env):
        if isinstance(e, ast.Name):
            return env.get(e.id)
        if isinstance(e, ast.Attribute):
            k = self.kind(e.value, env)
            if k == TC and e.attr in TABLES:
                return ("T", e.attr)
            return None
        if isinstance(e, ast.Call) and isinstance(e.func, ast.Attribute):
            if e.func.attr == "dump_tables":
                return TC
            k = self.kind(e.func.value, env)
            if k is not None and e.func.attr == "copy":
                return k
        if isinstance(e, ast.IfExp):
            return self.kind(e.body, env) or self.kind(e.orelse, env)
        return None

    # ---- writes
    def write_attr(self, where, k, attr):
        if k == TC:
            if attr == "time_units":
                self.record(where, ("setTimeUnits",))
            elif attr in TABLES:
                self.record(where, ("call", f"replace_table_{attr}"))
            elif attr == "metadata_schema":
                self.record(where, ("setSchema", "collection"))
            else:
                self.record(where, ("setColumn", "collection", attr))
        else:
            if attr == "metadata_schema":
                self.record(where, ("setSchema", k[1]))
            else:
                self.record(where, ("setColumn", k[1], attr))

    def method_call(self, where, k, name):
        if k == TC:
            if name not in TC_READONLY:
                self.record(where, ("call", name))
        else:
            if name in T_READONLY:
                return
            if name == "packset_metadata":
                self.record(where, ("packsetMetadata", k[1]))
            elif name == "drop_metadata":
                self.record(where, ("dropMetadata", k[1]))
            elif name in ("add_row", "append"):
                self.record(where, ("addRow", k[1]))
            else:
                self.record(where, ("tableCall", k[1], name))

    # ---- callee resolution
    def resolve(self, modname, clsname, func, local_defs):
        """list of (modname, qualname, FunctionDef, is_method) the call may reach, or None if unknown."""
        _, _, funcs, classes, imported = self.module(modname)
        if isinstance(func, ast.Name):
            if func.id in local_defs:
                return [(modname, f"<local>{func.id}", local_defs[func.id], False)]
            if func.id in funcs:
                return [(modname, func.id, funcs[func.id], False)]
            return None
        if isinstance(func, ast.Attribute) and isinstance(func.value, ast.Name):
            base = func.value.id
            if base in ("self", "cls"):
                hits = [(modname, q, f, True) for q, f in funcs.items() if "." in q and q.split(".")[1] == func.attr]
                return hits or None
            if base in imported:
                try:
                    _, _, ofuncs, _, _ = self.module(base)
                except FileNotFoundError:
                    return None
                if func.attr in ofuncs:
                    return [(base, func.attr, ofuncs[func.attr], False)]
        return None

    # ---- the walk
    def analyze(self, modname, qual, fn, binding, clsname=None, closure_env=None, is_method=False):
        key = (modname, qual, tuple(sorted(binding.items())), tuple(sorted((closure_env or {}).items())))
        if key in self.done:
            return
        self.done.add(key)
        env = dict(closure_env or {})
        env.update(binding)
        where = qual.replace("<local>", "")
        Walker(self, modname, where, env, clsname).run(fn.body)


class Walker:
    def __init__(self, A, modname, where, env, clsname):
        self.A, self.modname, self.where, self.env, self.clsname = A, modname, where, env, clsname
        self.local_defs = {}

    def run(self, body):
        for st in body:
            self.stmt(st)

    def assign_target(self, t, value_kind):
        A = self.A
        if isinstance(t, ast.Name):
            self.env[t.id] = value_kind
        elif isinstance(t, (ast.Tuple, ast.List)):
            for x in t.elts:
                self.assign_target(x, None)
        elif isinstance(t, ast.Starred):
            self.assign_target(t.value, None)
        elif isinstance(t, ast.Attribute):
            k = A.kind(t.value, self.env)
            if k is not None:
                A.write_attr(self.where, k, t.attr)
            elif value_kind is not None:
                A.record(self.where, ("escape", f"alias stored in {G.dotted(t) or 'attribute'}"))
            self.expr(t.value)
        elif isinstance(t, ast.Subscript):
            inner = t.value
            if isinstance(inner, ast.Attribute) and A.kind(inner.value, self.env) is not None:
                A.write_attr(self.where, A.kind(inner.value, self.env), inner.attr)
            elif A.kind(inner, self.env) is not None:
                k = A.kind(inner, self.env)
                A.record(self.where, ("tableCall", k[1] if k != TC else "collection", "__setitem__"))
            elif value_kind is not None:
                A.record(self.where, ("escape", "alias stored in a container"))
            self.expr(t.value)
            self.expr(t.slice)

    def stmt(self, st):
        A = self.A
        if isinstance(st, (ast.FunctionDef, ast.AsyncFunctionDef)):
            self.local_defs[st.name] = st
            # analysed with the closure environment even if never called directly
            A.analyze(self.modname, f"{self.where}.<local>{st.name}", st, {}, self.clsname, dict(self.env))
            return
        if isinstance(st, ast.ClassDef):
            raise G.TranslateError(f"class definition inside {self.where}")
        if isinstance(st, ast.Assign):
            self.expr(st.value)
            vk = A.kind(st.value, self.env)
            for t in st.targets:
                self.assign_target(t, vk)
            return
        if isinstance(st, ast.AnnAssign):
            if st.value is not None:
                self.expr(st.value)
            self.assign_target(st.target, A.kind(st.value, self.env) if st.value is not None else None)
            return
        if isinstance(st, ast.AugAssign):
            self.expr(st.value)
            self.assign_target(st.target, None)
            return
        if isinstance(st, (ast.For, ast.AsyncFor)):
            self.expr(st.iter)
            self.assign_target(st.target, None)
            self.run(st.body)
            self.run(st.orelse)
            return
        if isinstance(st, ast.While):
            self.expr(st.test)
            self.run(st.body)
            self.run(st.orelse)
            return
        if isinstance(st, ast.If):
            self.expr(st.test)
            self.run(st.body)
            self.run(st.orelse)
            return
        if isinstance(st, (ast.With, ast.AsyncWith)):
            for item in st.items:
                self.expr(item.context_expr)
                if item.optional_vars is not None:
                    self.assign_target(item.optional_vars, A.kind(item.context_expr, self.env))
            self.run(st.body)
            return
        if isinstance(st, ast.Try) or st.__class__.__name__ == "TryStar":
            self.run(st.body)
            for h in st.handlers:
                self.run(h.body)
            self.run(st.orelse)
            self.run(st.finalbody)
            return
        if isinstance(st, ast.Delete):
            for t in st.targets:
                if isinstance(t, ast.Attribute) and A.kind(t.value, self.env) is not None:
                    A.write_attr(self.where, A.kind(t.value, self.env), t.attr)
            return
        if isinstance(st, ast.Match):
            self.expr(st.subject)
            for c in st.cases:
                self.run(c.body)
            return
        for child in ast.iter_child_nodes(st):      # Return, Expr, Assert, Raise, Global, …
            if isinstance(child, ast.expr):
                self.expr(child)

    def expr(self, e):
        A = self.A
        if e is None:
            return
        if isinstance(e, ast.Lambda):
            sub = Walker(A, self.modname, self.where, dict(self.env), self.clsname)
            sub.local_defs = self.local_defs
            sub.expr(e.body)
            return
        if isinstance(e, (ast.ListComp, ast.SetComp, ast.GeneratorExp, ast.DictComp)):
            for g in e.generators:
                self.expr(g.iter)
                self.assign_target(g.target, None)
                for c in g.ifs:
                    self.expr(c)
            for part in ([e.key, e.value] if isinstance(e, ast.DictComp) else [e.elt]):
                self.expr(part)
            return
        if isinstance(e, ast.NamedExpr):
            self.expr(e.value)
            self.assign_target(e.target, A.kind(e.value, self.env))
            return
        if isinstance(e, ast.Call):
            self.call(e)
            return
        for child in ast.iter_child_nodes(e):
            if isinstance(child, ast.expr):
                self.expr(child)

    def call(self, e):
        A = self.A
        f = e.func
        # method call on an alias
        if isinstance(f, ast.Attribute):
            k = A.kind(f.value, self.env)
            if k is not None:
                A.method_call(self.where, k, f.attr)
            self.expr(f.value)
        else:
            self.expr(f)
        args = list(e.args) + [kw.value for kw in e.keywords]
        for a in args:
            self.expr(a.value if isinstance(a, ast.Starred) else a)
        passed = [(i, A.kind(a, self.env)) for i, a in enumerate(e.args)]
        passed_kw = [(kw.arg, A.kind(kw.value, self.env)) for kw in e.keywords]
        if not any(k for _, k in passed) and not any(k for _, k in passed_kw):
            # a call that passes no alias can still reach a tsdate function that dumps tables itself
            targets = A.resolve(self.modname, self.clsname, f, self.local_defs)
            for (m, q, fn, is_m) in targets or []:
                if q.startswith("<local>"):
                    continue
                A.analyze(m, q, fn, {}, q.split(".")[0] if "." in q else None)
            return
        name = G.dotted(f) or "<expression>"
        if isinstance(f, ast.Name) and f.id in HARMLESS_CALLEES:
            return
        if isinstance(f, ast.Attribute) and A.kind(f.value, self.env) is not None:
            return      # alias passed to a method of another alias: covered by method_call
        targets = A.resolve(self.modname, self.clsname, f, self.local_defs)
        if not targets:
            A.record(self.where, ("escape", f"alias passed to {name}"))
            return
        for (m, q, fn, is_m) in targets:
            pos, kwonly = G.param_names(fn)
            if is_m and pos and pos[0] in ("self", "cls"):
                pos = pos[1:]
            binding = {}
            for i, k in passed:
                if k is None:
                    continue
                if i >= len(pos):
                    A.record(self.where, ("escape", f"alias passed to *args of {name}"))
                    continue
                binding[pos[i]] = k
            for kwname, k in passed_kw:
                if k is None:
                    continue
                if kwname is None or kwname not in pos + kwonly:
                    A.record(self.where, ("escape", f"alias passed to **kwargs of {name}"))
                    continue
                binding[kwname] = k
            local = q.startswith("<local>")
            A.analyze(m, (f"{self.where}.{q}" if local else q), fn, binding,
                      q.split(".")[0] if "." in q and not local else self.clsname,
                      dict(self.env) if local else None)


def analyse():
    A = Analysis()
    src, tree, funcs, classes, _ = A.module("core")
    roots = []
    for r in ROOT_FUNCS:
        if r not in funcs:
            raise G.TranslateError(f"core.{r} not found")
        roots.append((r, funcs[r], None))
    for q, fn in funcs.items():
        if "." in q and q.split(".")[1] in ROOT_METHODS:
            roots.append((q, fn, q.split(".")[0]))
    if not any(q.endswith(".get_modified_ts") for q, _, _ in roots):
        raise G.TranslateError("no get_modified_ts method in tsdate/core.py")
    for q, fn, cls in roots:
        A.analyze("core", q, fn, {}, cls)
    # the tree sequence whose tables are dumped must be the caller's: `self.ts` may only be bound to the
    # constructor parameter `ts` (a `self.ts = ts.simplify()` would change the input before it is copied)
    for cname, cls in classes.items():
        for node in ast.walk(cls):
            if isinstance(node, ast.Assign):
                for t in node.targets:
                    if G.dotted(t) == "self.ts" and not (isinstance(node.value, ast.Name) and node.value.id == "ts"):
                        A.record(f"{cname}", ("escape", f"self.ts rebound to {ast.unparse(node.value)[:60]}"))
    if not A.writes:
        raise G.TranslateError("no table write found: the analysis no longer understands get_modified_ts")
    sources = [A.modules[m][0] for m in sorted(A.modules)]
    return A.writes, sorted(A.modules), G.sha(*sources)


def lean_op(op):
    tag = op[0]
    if tag == "setTimeUnits":
        return ".setTimeUnits"
    if tag in ("packsetMetadata", "setSchema", "dropMetadata", "addRow"):
        return f".{tag} .{op[1]}"
    if tag == "setColumn":
        return f".setColumn .{op[1]} {G.lean_str(op[2])}"
    if tag == "call":
        return f".call {G.lean_str(op[1])}"
    if tag == "tableCall":
        return f".tableCall .{op[1]} {G.lean_str(op[2])}"
    if tag == "escape":
        return f".escape {G.lean_str(op[1])}"
    raise G.TranslateError(f"unknown op {op}")


def render(writes, modules, digest):
    lines = [
        "/- GENERATED by translate/writeset.py from tsdate/" + ", tsdate/".join(f"{m}.py" for m in modules) + " — do not edit.",
        f"   source sha256 {digest} -/",
        "import TsdateVerif.Model.Tables",
        "",
        "namespace Tsdate.Gen.WriteSet",
        "open Tsdate.Tables",
        "",
        f"def sourceSha : String := {G.lean_str(digest)}",
        "",
        "/-- every statement that can change a table between a dating result and the returned tree",
        "sequence: (function it occurs in, kind of write), in order of first occurrence -/",
        "def writes : List (String × WOp) := [",
    ]
    lines += [f"  ({G.lean_str(w)}, {lean_op(op)})" + ("," if i + 1 < len(writes) else "") for i, (w, op) in enumerate(writes)]
    lines += ["]", "", "def writeSet : List WOp := writes.map (·.2)", "", "end Tsdate.Gen.WriteSet", ""]
    return "\n".join(lines)


def generate():
    writes, modules, digest = analyse()
    G.write_if_changed(G.lean_dir() / "TsdateVerif" / "Gen" / "WriteSet.lean", render(writes, modules, digest))
    return writes


if __name__ == "__main__":
    for w in generate():
        print(w)
