"""Run every translator (used by setup.sh; each check runs only the ones it needs)."""
import importlib
import pkgutil
import sys
import traceback

import translate


def main():
    bad = 0
    for m in pkgutil.iter_modules(translate.__path__):
        if m.name in ("all", "tlib"):
            continue
        mod = importlib.import_module(f"translate.{m.name}")
        if hasattr(mod, "generate"):
            try:
                mod.generate()
                print(f"translate.{m.name}: ok")
            except Exception:
                traceback.print_exc()
                bad += 1
    return 1 if bad else 0


if __name__ == "__main__":
    sys.exit(main())
