"""
T1 — scalar-kernel translator:  tsdate/{hypergeo,approx,variational,prior}.py  ->  lean/TsdateVerif/Gen/Kernels.lean
                                                                               (+ Gen/KernelsRun.lean, a dispatch table)

Reads the *source text* under `common.REPO/tsdate` (stdlib `ast` only, tsdate is never imported) and turns
each function of ROSTER into a generic-carrier Lean `def` over `(F : SpecFns α)`.

Subset (anything else raises `Unsupported` = "fail loudly"):
  statements   docstring, `x = e`, `x, y = e`, `x += e`, `f = module.func` (alias), `if/elif/else`, `assert e[, msg]`,
               `if c: raise ...` (= assert not c), `return e[, e...]`, nested `def` (hoisted)
  expressions  float/int literals, names, `+ - * /`, `** k` (k a literal natural; expanded by the same
               square-and-multiply numba uses), unary `-`, comparisons (chained), `and/or/not`, `a if c else b`,
               `x[0]`, `x[1]`, `x.size` on 2-vectors, `np.all(v == c)`, `np.array(t)`, `np.full(2, np.nan)`,
               calls of exp/log/sqrt/lgamma/abs/min/np.isfinite/np.isclose(., literal) and of other translated functions
  NaN          `nan` is not a number in the model.  A value that may be NaN exists only (a) as a component of a
               `return` (-> `none`), (b) `x = e if c else nan`, (c) the results of a call whose model returns
               `Option`.  In cases (b), (c) the rest of the function is translated twice: once with the value
               present, once *partially evaluated with the variables being NaN* (IEEE rules: arithmetic
               propagates, every comparison but `!=` is false, `isfinite` is false; a call `V(.., NaN, ..)` of a
               validity predicate folds to `False` only after checking syntactically that `V` tests
               `np.isfinite` of that parameter before any other use and returns `False`).
  assert       dropped from the value (`def f`), collected - together with the preconditions of the callees, at
               their program points - in `def pre_f : ... -> Bool` ("the call raises no AssertionError /
               KLMinimizationFailedError").  Functions whose precondition is trivially true get no `pre_f`.

The file is written only if its content changed.  The header embeds the sha256 of every source file read.
"""

import ast
import hashlib
from fractions import Fraction

from harness import common

GEN_DIR = common.LEAN_DIR / "TsdateVerif" / "Gen"

ROSTER = [
    ("hypergeo", ["_betaln", "_hyperu_laplace", "_hyp1f1_laplace", "_hyp2f1_laplace"]),
    ("approx", [
        "approximate_log_moments", "approximate_gamma_mom",
        "_valid_moments", "_valid_gamma", "_valid_hyp1f1", "_valid_hyperu", "_valid_hyp2f1",
        "moments", "rootward_moments", "leafward_moments", "unphased_moments", "twin_moments", "sideways_moments",
        "mutation_moments", "mutation_rootward_moments", "mutation_leafward_moments", "mutation_unphased_moments",
        "mutation_twin_moments", "mutation_sideways_moments", "mutation_edge_moments", "mutation_block_moments",
        "gamma_projection", "leafward_projection", "rootward_projection", "unphased_projection", "twin_projection",
        "sideways_projection", "mutation_gamma_projection", "mutation_leafward_projection",
        "mutation_rootward_projection", "mutation_edge_projection", "mutation_unphased_projection",
        "mutation_twin_projection", "mutation_sideways_projection", "mutation_block_projection",
    ]),
    ("variational", ["_damp", "_rescale"]),
    ("prior", ["lognorm_approx", "gamma_approx", "tau_expect"]),
]

LEAN_KEYWORDS = set("""at from fun end open in then else if let have show do match with where def theorem instance
structure class namespace section variable universe import export private protected mutual deriving Type Prop Sort
by calc return for unless try catch finally macro syntax notation infix prefix postfix local scoped attribute
set_option example axiom opaque abbrev inductive extends using nomatch nofun this sorry admit termination_by
decreasing_by F""".split())

UNARY_PRIMS = {"exp": "F.exp", "log": "F.log", "sqrt": "F.sqrt", "lgamma": "F.lgamma"}
MODULE_ALIASES = {"np", "math", "numpy"}
TSDATE_MODULES = {"hypergeo", "approx", "variational", "prior"}
MAX_NODES = 4000          # guard against blow-up from duplicated continuations

F, B = "F", "B"
PAIR = ("T", (F, F))


class Unsupported(Exception):
    pass


def tuple_t(ts):
    return ("T", tuple(ts))


def is_tuple(t):
    return isinstance(t, tuple) and t[0] == "T"


def lean_type(t):
    if t == F:
        return "α"
    if t == B:
        return "Bool"
    if is_tuple(t):
        return " × ".join(("(" + lean_type(x) + ")") if is_tuple(x) else lean_type(x) for x in t[1])
    raise Unsupported(f"type {t}")


def lname(n):
    return n + "_" if n in LEAN_KEYWORDS else n


def lit(n):
    return f"n%{n}"


def proj(e, i, n):
    """i-th component of a right-nested n-tuple"""
    if n == 1:
        return e
    s = e + ".2" * i
    return s + ".1" if i < n - 1 else s


class E:
    """translated expression"""

    def __init__(self, lean=None, typ=F, atomic=False, nan=False, const=None, intval=None, prec=None):
        self.lean, self.typ, self.nan, self.const, self.intval = lean, typ, nan, const, intval
        self.prec = prec if prec is not None else (100 if atomic else 0)

    @property
    def atomic(self):
        return self.prec >= 100

    def at(self, p):
        """the expression as an operand that must bind at least as tightly as precedence p"""
        return self.lean if self.prec >= p else "(" + self.lean + ")"

    def paren(self):
        return self.at(100)


def NAN(t=F):
    return E(None, t, nan=True)


def CONST(b):
    return E("true" if b else "false", B, atomic=True, const=bool(b))


# --------------------------------------------------------------------------------------------- IR

class Node:
    pass


class Let(Node):
    def __init__(self, name, typ, expr, calls, body):
        self.name, self.typ, self.expr, self.calls, self.body = name, typ, expr, calls, body


class Ite(Node):
    def __init__(self, cond, calls, a, b):
        self.cond, self.calls, self.a, self.b = cond, calls, a, b


class MatchOpt(Node):
    def __init__(self, call, calls, var, some, none):
        self.call, self.calls, self.var, self.some, self.none = call, calls, var, some, none


class Assert(Node):
    def __init__(self, cond, calls, msg, body):
        self.cond, self.calls, self.msg, self.body = cond, calls, msg, body


class Ret(Node):
    def __init__(self, comps, calls):
        self.comps, self.calls = comps, calls


class FuncInfo:
    def __init__(self, module, name, node, qual):
        self.module, self.name, self.node, self.qual = module, name, node, qual
        self.lean = lname(name)
        self.params = []          # [(python name, type)]
        self.ret_types = None     # list of component types
        self.single = False       # returns a bare value rather than a tuple
        self.opt = None           # None | "whole" | frozenset(positions)
        self.tree = None
        self.has_pre = False
        self.pre_tree = None
        self.src = ""
        self.lineno = node.lineno

    @property
    def ret_type(self):
        return self.ret_types[0] if self.single else tuple_t(self.ret_types)


# --------------------------------------------------------------------------------------------- translator

class Translator:
    def __init__(self):
        self.sources = {}
        self.funcs = {}        # python bare name -> FuncInfo
        self.order = []
        self.count = 0

    # ---- loading
    def load(self):
        for module, names in ROSTER:
            path = common.REPO / "tsdate" / f"{module}.py"
            text = path.read_text()
            self.sources[module] = text
            tree = ast.parse(text)
            found = {}
            for node in ast.walk(tree):
                if isinstance(node, ast.FunctionDef) and node.name in names and node.name not in found:
                    found[node.name] = node
            for n in names:
                if n not in found:
                    raise Unsupported(f"{module}.{n}: function not found in {path}")
                self.add_function(module, n, found[n], text)

    def add_function(self, module, name, node, text):
        # hoist nested defs first
        for st in node.body:
            if isinstance(st, ast.FunctionDef):
                self.add_function(module, st.name, st, text)
        if name in self.funcs:
            raise Unsupported(f"duplicate function name {name}")
        fi = FuncInfo(module, name, node, f"{module}.{name}")
        fi.src = ast.get_source_segment(text, node)
        self.funcs[name] = fi
        self.order.append(name)

    # ---- signature
    def param_types(self, fi):
        node = fi.node
        if node.args.vararg or node.args.kwarg or node.args.kwonlyargs or node.args.defaults:
            raise Unsupported(f"{fi.qual}: only plain positional parameters are supported")
        names = [a.arg for a in node.args.args]
        types = None
        for dec in node.decorator_list:
            if isinstance(dec, ast.Call) and dec.args:
                sig = dec.args[0]
                if isinstance(sig, ast.Call):
                    types = [self.sig_type(fi, a) for a in sig.args]
                elif isinstance(sig, ast.Constant) and isinstance(sig.value, str):
                    inner = sig.value[sig.value.rindex("(") + 1:sig.value.rindex(")")]
                    types = []
                    for a in [x.strip() for x in inner.split(",") if x.strip()]:
                        if a != "f8":
                            raise Unsupported(f"{fi.qual}: signature type {a}")
                        types.append(F)
        if types is None:
            types = [F] * len(names)      # undecorated helper: scalars unless used as a 2-vector
            for i, n in enumerate(names):
                for sub in ast.walk(node):
                    if isinstance(sub, ast.Subscript) and isinstance(sub.value, ast.Name) and sub.value.id == n:
                        types[i] = PAIR
        if len(types) != len(names):
            raise Unsupported(f"{fi.qual}: signature has {len(types)} types for {len(names)} parameters")
        return list(zip(names, types))

    def sig_type(self, fi, a):
        if isinstance(a, ast.Name):
            if a.id == "_f":
                return F
            if a.id in ("_f1r", "_f1w"):
                return PAIR        # every float vector passed to a translated kernel has length 2 (checked by use)
            if a.id == "_b":
                return B
        raise Unsupported(f"{fi.qual}: signature type {ast.dump(a)}")

    # ---- expressions
    def fail(self, fi, node, why):
        raise Unsupported(f"{fi.qual} line {getattr(node, 'lineno', '?')}: {why}: "
                          f"{ast.unparse(node) if isinstance(node, ast.AST) else node}")

    def number(self, fi, node):
        v = node.value
        if isinstance(v, bool):
            return CONST(v)
        if isinstance(v, int):
            if v < 0 or v >= 2**53:
                self.fail(fi, node, "integer literal out of range")
            return E(lit(v), F, atomic=True, intval=v)
        if isinstance(v, float):
            seg = ast.get_source_segment(self.sources[fi.module], node)
            fr = Fraction(seg)
            if fr.denominator == 1:
                if fr.numerator >= 2**53:
                    self.fail(fi, node, "literal out of range")
                return E(lit(fr.numerator), F, atomic=True)
            p, q = fr.numerator, fr.denominator
            if p >= 2**53 or q >= 2**53 or float(p) / float(q) != v:
                self.fail(fi, node, "decimal literal is not the IEEE quotient of two exact integers")
            return E(f"{lit(p)} / {lit(q)}", F, prec=70)
        self.fail(fi, node, "literal")

    def func_ref(self, node, env):
        """the translated function a call target refers to, or None"""
        if isinstance(node, ast.Name):
            v = env.get(node.id)
            if isinstance(v, FuncInfo):
                return v
            if v is None and node.id in self.funcs:
                return self.funcs[node.id]
        if isinstance(node, ast.Attribute) and isinstance(node.value, ast.Name) and node.value.id in TSDATE_MODULES:
            if node.attr in self.funcs and self.funcs[node.attr].module == node.value.id:
                return self.funcs[node.attr]
        return None

    def prim_name(self, node):
        if isinstance(node, ast.Name):
            return node.id
        if isinstance(node, ast.Attribute) and isinstance(node.value, ast.Name) and node.value.id in MODULE_ALIASES:
            return node.value.id + "." + node.attr
        return None

    def expr(self, fi, node, env, calls):
        self.count += 1
        if self.count > MAX_NODES * 50:
            raise Unsupported(f"{fi.qual}: translation too large")
        if isinstance(node, ast.Constant):
            return self.number(fi, node)
        if isinstance(node, ast.Name):
            if node.id in env:
                v = env[node.id]
                if isinstance(v, FuncInfo):
                    self.fail(fi, node, "function used as a value")
                return v
            if node.id == "nan":
                return NAN()
            self.fail(fi, node, "unknown name")
        if isinstance(node, ast.Attribute):
            if self.prim_name(node) in ("np.nan", "math.nan", "numpy.nan"):
                return NAN()
            if node.attr == "size":
                v = self.expr(fi, node.value, env, calls)
                if v.typ == PAIR:
                    return E(None, "I", atomic=True, intval=2)
            self.fail(fi, node, "attribute")
        if isinstance(node, ast.UnaryOp):
            if isinstance(node.op, ast.USub):
                v = self.expr(fi, node.operand, env, calls)
                if v.nan:
                    return NAN()
                self.need(fi, node, v, F)
                return E("-" + v.at(90), F, prec=60)
            if isinstance(node.op, ast.Not):
                v = self.expr(fi, node.operand, env, calls)
                self.need(fi, node, v, B)
                if v.const is not None:
                    return CONST(not v.const)
                return E("!" + v.paren(), B, prec=90)
            self.fail(fi, node, "unary operator")
        if isinstance(node, ast.BinOp):
            return self.binop(fi, node, env, calls)
        if isinstance(node, ast.Compare):
            return self.compare(fi, node, env, calls)
        if isinstance(node, ast.BoolOp):
            vals = []
            for v in node.values:
                sub = []
                e = self.expr(fi, v, env, sub)
                if sub and vals:
                    self.fail(fi, v, "call with a precondition in a short-circuited operand")
                calls += sub
                self.need(fi, v, e, B)
                vals.append(e)
            is_and = isinstance(node.op, ast.And)
            # Python evaluates left to right and stops at the first deciding operand; all operands are pure
            keep = []
            for e in vals:
                if e.const is not None:
                    if e.const == (not is_and):
                        return CONST(not is_and)
                    continue
                keep.append(e)
            if not keep:
                return CONST(is_and)
            if len(keep) == 1:
                return keep[0]
            return E((" && " if is_and else " || ").join(k.at(90) for k in keep), B, prec=35 if is_and else 30)
        if isinstance(node, ast.IfExp):
            c = self.expr(fi, node.test, env, calls)
            self.need(fi, node.test, c, B)
            if c.const is not None:
                return self.expr(fi, node.body if c.const else node.orelse, env, calls)
            sub = []
            a = self.expr(fi, node.body, env, sub)
            b = self.expr(fi, node.orelse, env, sub)
            if sub:
                self.fail(fi, node, "call with a precondition inside a conditional expression")
            if a.nan or b.nan:
                self.fail(fi, node, "NaN branch of a conditional expression outside `x = e if c else nan`")
            if a.typ != b.typ:
                self.fail(fi, node, "branches of different type")
            return E(f"if {c.lean} then {a.lean} else {b.lean}", a.typ)
        if isinstance(node, ast.Subscript):
            v = self.expr(fi, node.value, env, calls)
            if v.typ == PAIR and isinstance(node.slice, ast.Constant) and node.slice.value in (0, 1):
                if v.nan:
                    return NAN()
                return E(v.paren() + (".1" if node.slice.value == 0 else ".2"), F, atomic=True)
            self.fail(fi, node, "subscript")
        if isinstance(node, ast.Tuple):
            es = [self.expr(fi, x, env, calls) for x in node.elts]
            if any(e.nan for e in es):
                self.fail(fi, node, "NaN inside a tuple value")
            return E("(" + ", ".join(e.lean for e in es) + ")", tuple_t([e.typ for e in es]), atomic=True)
        if isinstance(node, ast.Call):
            return self.call(fi, node, env, calls)
        self.fail(fi, node, "expression")

    def need(self, fi, node, e, typ):
        if e.typ != typ:
            self.fail(fi, node, f"expected {typ}, got {e.typ}")

    def binop(self, fi, node, env, calls):
        a = self.expr(fi, node.left, env, calls)
        if isinstance(node.op, ast.Pow):
            k = node.right
            if not (isinstance(k, ast.Constant) and isinstance(k.value, int) and 1 <= k.value <= 64):
                self.fail(fi, node, "power with a non-literal or non-natural exponent")
            if a.nan:
                return NAN()
            self.need(fi, node, a, F)
            return self.power(a, k.value)
        b = self.expr(fi, node.right, env, calls)
        ops = {ast.Add: "+", ast.Sub: "-", ast.Mult: "*", ast.Div: "/"}
        if type(node.op) not in ops:
            self.fail(fi, node, "binary operator")
        if a.typ == "I" or b.typ == "I":
            self.fail(fi, node, "arithmetic on a size")
        self.need(fi, node.left, a, F)
        self.need(fi, node.right, b, F)
        if a.nan or b.nan:
            return NAN()
        pr = 65 if isinstance(node.op, (ast.Add, ast.Sub)) else 70
        return E(f"{a.at(pr)} {ops[type(node.op)]} {b.at(pr + 1)}", F, prec=pr)

    def power(self, a, k):
        """numba's static integer power: r = 1; while k: if k & 1: r *= a; k >>= 1; a *= a  (1 * a is exact)."""
        if not a.atomic:
            # bind the base once
            r = self.power(E("p", F, atomic=True), k)
            return E(f"(fun p => {r.lean}) {a.paren()}", F, prec=90)
        cur = a.lean
        pieces = []
        while k:
            if k & 1:
                pieces.append(cur)
            k >>= 1
            if k:
                cur = f"({cur} * {cur})"
        if len(pieces) == 1:
            p0 = pieces[0]
            # a single squared factor "(x * x)" needs no outer parentheses as a let-value / operand of + -
            return E(p0[1:-1], F, prec=70) if p0.startswith("(") else E(p0, F, atomic=True)
        return E(" * ".join(pieces), F, prec=70)

    def compare(self, fi, node, env, calls):
        operands = [self.expr(fi, x, env, calls) for x in [node.left] + node.comparators]
        parts = []
        for op, a, b in zip(node.ops, operands, operands[1:]):
            if a.typ == "I" and b.intval is not None or b.typ == "I" and a.intval is not None or (a.typ == "I" and b.typ == "I"):
                if not isinstance(op, ast.Eq):
                    self.fail(fi, node, "size comparison")
                parts.append(CONST(a.intval == b.intval))
                continue
            self.need(fi, node, a, F)
            self.need(fi, node, b, F)
            if a.nan or b.nan:
                parts.append(CONST(isinstance(op, ast.NotEq)))
                continue
            x, y = a.at(51), b.at(51)
            if isinstance(op, ast.Lt):
                parts.append(E(f"decide ({x} < {y})", B, prec=90))
            elif isinstance(op, ast.LtE):
                parts.append(E(f"decide ({x} ≤ {y})", B, prec=90))
            elif isinstance(op, ast.Gt):
                parts.append(E(f"decide ({x} > {y})", B, prec=90))
            elif isinstance(op, ast.GtE):
                parts.append(E(f"decide ({x} ≥ {y})", B, prec=90))
            elif isinstance(op, ast.Eq):
                parts.append(E(f"feq {a.paren()} {b.paren()}", B, prec=90))
            elif isinstance(op, ast.NotEq):
                parts.append(E(f"!(feq {a.paren()} {b.paren()})", B, prec=90))
            else:
                self.fail(fi, node, "comparison operator")
        keep = []
        for p in parts:
            if p.const is False:
                return CONST(False)
            if p.const is True:
                continue
            keep.append(p)
        if not keep:
            return CONST(True)
        if len(keep) == 1:
            return keep[0]
        return E(" && ".join(k.at(90) for k in keep), B, prec=35)

    def nan_rejecting(self, callee, idx):
        """Does `callee` return False whenever parameter idx is NaN?  Syntactic check: its body is a sequence of
        `if <test>: return False` statements followed by `return True`; scanning from the top, the first test
        that mentions the parameter is `not (isfinite(..) and ..)` with `np.isfinite(p)` among the conjuncts, or
        `not np.isfinite(p) or ...` with that as the first disjunct."""
        p = callee.params[idx][0]
        body = [s for s in callee.node.body if not (isinstance(s, ast.Expr) and isinstance(s.value, ast.Constant))]

        def is_ret(s, val):
            return isinstance(s, ast.Return) and isinstance(s.value, ast.Constant) and s.value.value is val

        def isfinite_of(n):
            return (isinstance(n, ast.Call) and self.prim_name(n.func) == "np.isfinite" and len(n.args) == 1
                    and isinstance(n.args[0], ast.Name) and n.args[0].id == p)

        for s in body:
            if is_ret(s, True):
                return False
            if not (isinstance(s, ast.If) and not s.orelse and len(s.body) == 1 and is_ret(s.body[0], False)):
                return False
            mentions = any(isinstance(n, ast.Name) and n.id == p for n in ast.walk(s.test))
            if not mentions:
                continue
            t = s.test
            if isinstance(t, ast.UnaryOp) and isinstance(t.op, ast.Not):
                inner = t.operand
                if isfinite_of(inner):
                    return True
                if isinstance(inner, ast.BoolOp) and isinstance(inner.op, ast.And):
                    # operands before isfinite(p) must not mention p
                    for v in inner.values:
                        if isfinite_of(v):
                            return True
                        if any(isinstance(n, ast.Name) and n.id == p for n in ast.walk(v)):
                            return False
                return False
            if isinstance(t, ast.BoolOp) and isinstance(t.op, ast.Or):
                v0 = t.values[0]
                return isinstance(v0, ast.UnaryOp) and isinstance(v0.op, ast.Not) and isfinite_of(v0.operand)
            return False
        return False

    def call(self, fi, node, env, calls):
        if node.keywords:
            self.fail(fi, node, "keyword arguments")
        callee = self.func_ref(node.func, env)
        if callee is not None:
            if not callee.tree:
                self.fail(fi, node, f"call of {callee.qual} before its definition was translated (recursion?)")
            args = [self.expr(fi, a, env, calls) for a in node.args]
            if len(args) != len(callee.params):
                self.fail(fi, node, "arity")
            for i, (a, (_, t)) in enumerate(zip(args, callee.params)):
                if a.typ != t and not (is_tuple(a.typ) and a.typ == t):
                    self.fail(fi, node, f"argument {i} has type {a.typ}, expected {t}")
            nan_idx = [i for i, a in enumerate(args) if a.nan]
            if nan_idx:
                if callee.ret_type == B and all(self.nan_rejecting(callee, i) for i in nan_idx):
                    return CONST(False)
                self.fail(fi, node, "NaN passed to a function that is not a NaN-rejecting validity predicate")
            if callee.opt is not None:
                self.fail(fi, node, "call of a NaN-returning function outside `x, y = f(...)`")
            argstr = " ".join(a.paren() for a in args)
            if callee.has_pre:
                calls.append(f"pre_{callee.lean} F {argstr}")
            return E(f"{callee.lean} F {argstr}", callee.ret_type, prec=90)
        name = self.prim_name(node.func)
        args = [self.expr(fi, a, env, calls) for a in node.args] if name not in ("np.full",) else []
        base = name.split(".")[-1] if name else None
        if name in ("exp", "log", "sqrt", "lgamma", "math.exp", "math.log", "math.sqrt", "math.lgamma", "np.exp",
                    "np.log", "np.sqrt") and len(args) == 1:
            if args[0].nan:
                return NAN()
            self.need(fi, node, args[0], F)
            return E(f"{UNARY_PRIMS[base]} {args[0].paren()}", F, prec=90)
        if name in ("abs", "np.abs") and len(args) == 1:
            if args[0].nan:
                return NAN()
            self.need(fi, node, args[0], F)
            return E(f"pyabs {args[0].paren()}", F, prec=90)
        if name == "min" and len(args) == 2:
            if args[0].nan or args[1].nan:
                self.fail(fi, node, "min of NaN")
            self.need(fi, node, args[0], F)
            self.need(fi, node, args[1], F)
            return E(f"pymin {args[0].paren()} {args[1].paren()}", F, prec=90)
        if name == "np.isfinite" and len(args) == 1:
            if args[0].nan:
                return CONST(False)
            self.need(fi, node, args[0], F)
            return E(f"F.isFinite {args[0].paren()}", B, prec=90)
        if name == "np.isclose" and len(args) == 2:
            if args[0].nan:
                return CONST(False)
            if not isinstance(node.args[1], ast.Constant):
                self.fail(fi, node, "np.isclose with a non-literal second argument")
            self.need(fi, node, args[0], F)
            return E(f"isclose {args[0].paren()} {args[1].paren()}", B, prec=90)
        if name == "np.all" and len(args) == 1 and isinstance(node.args[0], ast.Compare):
            self.fail(fi, node, "np.all")      # handled in expr via compare_vec
        if name == "np.array" and len(args) == 1 and is_tuple(args[0].typ):
            return args[0]
        if name == "np.full":
            a0, a1 = node.args
            if (isinstance(a0, ast.Constant) and a0.value == 2 and self.prim_name(a1) in ("np.nan", "nan", "math.nan")):
                return NAN(PAIR)
        self.fail(fi, node, "call")

    def np_all(self, fi, node, env):
        """`np.all(v == c)` for a 2-vector v."""
        if not (isinstance(node, ast.Call) and self.prim_name(node.func) == "np.all" and len(node.args) == 1):
            return None
        c = node.args[0]
        if not (isinstance(c, ast.Compare) and len(c.ops) == 1 and isinstance(c.ops[0], ast.Eq)):
            self.fail(fi, node, "np.all of something other than `v == c`")
        v = self.expr(fi, c.left, env, [])
        k = self.expr(fi, c.comparators[0], env, [])
        if v.typ != PAIR or k.typ != F or v.nan or k.nan:
            self.fail(fi, node, "np.all operand types")
        return E(f"feq {v.paren()}.1 {k.paren()} && feq {v.paren()}.2 {k.paren()}", B, prec=35)

    # ---- statements
    def block(self, fi, stmts, env):
        """Translate a statement list (the rest of the function) to an IR tree."""
        self.count += 1
        if self.count > MAX_NODES:
            raise Unsupported(f"{fi.qual}: translation too large (duplicated continuations)")
        if not stmts:
            raise Unsupported(f"{fi.qual}: control reaches the end of the function without `return`")
        st, rest = stmts[0], stmts[1:]
        if isinstance(st, ast.Expr) and isinstance(st.value, ast.Constant) and isinstance(st.value.value, str):
            return self.block(fi, rest, env)
        if isinstance(st, ast.FunctionDef):
            return self.block(fi, rest, env)          # hoisted
        if isinstance(st, ast.Return):
            calls = []
            elts = st.value.elts if isinstance(st.value, ast.Tuple) else [st.value]
            comps = [self.expr_top(fi, x, env, calls) for x in elts]
            return Ret(comps, calls), (not isinstance(st.value, ast.Tuple))
        if isinstance(st, ast.Assert):
            calls = []
            c = self.expr_top(fi, st.test, env, calls)
            self.need(fi, st, c, B)
            msg = ast.unparse(st.test)
            if c.const is True:
                return self.block(fi, rest, env)
            body, single = self.block(fi, rest, env)
            return Assert(c.lean, calls, msg, body), single
        if isinstance(st, ast.If):
            # `if c: raise ...`  ==  assert not c
            if len(st.body) == 1 and isinstance(st.body[0], ast.Raise) and not st.orelse:
                neg = ast.UnaryOp(op=ast.Not(), operand=st.test)
                ast.copy_location(neg, st)
                a = ast.Assert(test=neg, msg=None)
                ast.copy_location(a, st)
                return self.block(fi, [a] + rest, env)
            calls = []
            c = self.expr_top(fi, st.test, env, calls)
            self.need(fi, st, c, B)
            if c.const is not None:
                return self.block(fi, (st.body if c.const else st.orelse) + rest, env)
            a, s1 = self.block(fi, st.body + rest, env)
            b, s2 = self.block(fi, st.orelse + rest, env)
            if s1 != s2:
                self.fail(fi, st, "branches return values of different shape")
            return Ite(c.lean, calls, a, b), s1
        if isinstance(st, ast.AugAssign):
            if not isinstance(st.target, ast.Name):
                self.fail(fi, st, "augmented assignment target")
            bin_ = ast.BinOp(left=ast.Name(id=st.target.id, ctx=ast.Load()), op=st.op, right=st.value)
            ast.copy_location(bin_, st)
            ast.fix_missing_locations(bin_)
            new = ast.Assign(targets=[st.target], value=bin_)
            ast.copy_location(new, st)
            return self.block(fi, [new] + rest, env)
        if isinstance(st, ast.Assign):
            if len(st.targets) != 1:
                self.fail(fi, st, "chained assignment")
            tgt = st.targets[0]
            # alias of a translated function
            if isinstance(tgt, ast.Name) and self.func_ref(st.value, env) is not None and not isinstance(st.value, ast.Call):
                env2 = dict(env)
                env2[tgt.id] = self.func_ref(st.value, env)
                return self.block(fi, rest, env2)
            if isinstance(tgt, ast.Name):
                return self.assign_name(fi, st, tgt.id, rest, env)
            if isinstance(tgt, ast.Tuple) and all(isinstance(x, ast.Name) for x in tgt.elts):
                return self.assign_tuple(fi, st, [x.id for x in tgt.elts], rest, env)
            self.fail(fi, st, "assignment target")
        self.fail(fi, st, "statement")

    def expr_top(self, fi, node, env, calls):
        r = self.np_all(fi, node, env)
        if r is not None:
            return r
        if isinstance(node, ast.BoolOp):
            # allow np.all(...) as operands of a top-level and/or
            parts = [self.np_all(fi, v, env) for v in node.values]
            if any(p is not None for p in parts):
                es = [p if p is not None else self.expr(fi, v, env, calls) for p, v in zip(parts, node.values)]
                op = " && " if isinstance(node.op, ast.And) else " || "
                return E(op.join(e.at(90) for e in es), B, prec=30)
        return self.expr(fi, node, env, calls)

    def bind(self, env, name, typ):
        env2 = dict(env)
        env2[name] = E(lname(name), typ, atomic=True)
        return env2

    def assign_name(self, fi, st, name, rest, env):
        v = st.value
        # x = e if c else nan
        if isinstance(v, ast.IfExp):
            calls = []
            c = self.expr(fi, v.test, env, calls)
            if c.const is None:
                a = self.expr(fi, v.body, env, calls)
                b = self.expr(fi, v.orelse, env, calls)
                if a.nan != b.nan:
                    if calls:
                        self.fail(fi, st, "call with a precondition in a NaN-guarded assignment")
                    good, bad = (a, b) if b.nan else (b, a)
                    env_bad = dict(env)
                    env_bad[name] = NAN(good.typ)
                    t_good, s1 = self.block(fi, rest, self.bind(env, name, good.typ))
                    t_good = Let(lname(name), good.typ, good.lean, [], t_good)
                    t_bad, s2 = self.block(fi, rest, env_bad)
                    if s1 != s2:
                        self.fail(fi, st, "branches return values of different shape")
                    return (Ite(c.lean, [], t_good, t_bad) if b.nan else Ite(c.lean, [], t_bad, t_good)), s1
        calls = []
        # x = f(...) with f returning Option
        callee = self.func_ref(v.func, env) if isinstance(v, ast.Call) else None
        if callee is not None and callee.opt is not None:
            self.fail(fi, st, "result of a NaN-returning function bound to a single name")
        e = self.expr_top(fi, v, env, calls)
        if e.typ == "I":
            self.fail(fi, st, "size bound to a name")
        if e.nan:
            env2 = dict(env)
            env2[name] = NAN(e.typ)
            return self.block(fi, rest, env2)
        body, single = self.block(fi, rest, self.bind(env, name, e.typ))
        return Let(lname(name), e.typ, e.lean, calls, body), single

    def assign_tuple(self, fi, st, names, rest, env):
        v = st.value
        calls = []
        callee = self.func_ref(v.func, env) if isinstance(v, ast.Call) else None
        if callee is not None and callee.opt is not None:
            if callee.opt != "whole":
                self.fail(fi, st, "destructuring a result with per-component NaN")
            if not callee.tree:
                self.fail(fi, st, f"call of {callee.qual} before its definition was translated")
            args = [self.expr(fi, a, env, calls) for a in v.args]
            if any(a.nan for a in args):
                self.fail(fi, st, "NaN argument")
            if len(args) != len(callee.params) or any(a.typ != t for a, (_, t) in zip(args, callee.params)):
                self.fail(fi, st, "argument types")
            if len(names) != len(callee.ret_types):
                self.fail(fi, st, "arity of destructuring")
            argstr = " ".join(a.paren() for a in args)
            if callee.has_pre:
                calls.append(f"pre_{callee.lean} F {argstr}")
            var = "r_" + callee.lean.lstrip("_")
            env_some, env_none = dict(env), dict(env)
            for n, t in zip(names, callee.ret_types):
                env_some[n] = E(lname(n), t, atomic=True)
                env_none[n] = NAN(t)
            some, s1 = self.block(fi, rest, env_some)
            for i in reversed(range(len(names))):
                some = Let(lname(names[i]), callee.ret_types[i], proj(var, i, len(names)), [], some)
            none, s2 = self.block(fi, rest, env_none)
            if s1 != s2:
                self.fail(fi, st, "branches return values of different shape")
            return MatchOpt(f"{callee.lean} F {argstr}", calls, var, some, none), s1
        e = self.expr(fi, v, env, calls)
        if e.nan or not is_tuple(e.typ) or len(e.typ[1]) != len(names):
            self.fail(fi, st, "destructuring of a non-tuple or wrong arity")
        tmp = "q_" + "_".join(names)
        atomic_src = isinstance(v, ast.Name)
        src = e.lean if atomic_src else tmp
        env2 = dict(env)
        for n, t in zip(names, e.typ[1]):
            env2[n] = E(lname(n), t, atomic=True)
        body, single = self.block(fi, rest, env2)
        for i in reversed(range(len(names))):
            body = Let(lname(names[i]), e.typ[1][i], proj(src, i, len(names)), [], body)
        if not atomic_src:
            body = Let(tmp, e.typ, e.lean, calls, body)
        return body, single

    # ---- function
    def translate_function(self, fi):
        fi.params = self.param_types(fi)
        env = {}
        for n, t in fi.params:
            env[n] = E(lname(n), t, atomic=True)
        self.count = 0
        body = [s for s in fi.node.body]
        fi.tree = False      # marks "in progress" for recursion detection
        tree, single = self.block(fi, body, env)
        fi.single = single
        rets = []
        collect(tree, rets)
        n = {len(r.comps) for r in rets}
        if len(n) != 1:
            raise Unsupported(f"{fi.qual}: return statements of different arity")
        n = n.pop()
        types = []
        for i in range(n):
            ts = {r.comps[i].typ for r in rets if not r.comps[i].nan}
            nts = {r.comps[i].typ for r in rets if r.comps[i].nan}
            if not ts:
                raise Unsupported(f"{fi.qual}: return component {i} is NaN on every path")
            if len(ts) != 1:
                raise Unsupported(f"{fi.qual}: return component {i} has types {ts}")
            t = next(iter(ts))
            if any(nt != t for nt in nts):
                raise Unsupported(f"{fi.qual}: NaN return component {i} has type {nts}, expected {t}")
            types.append(t)
        fi.ret_types = types
        patterns = {frozenset(i for i, c in enumerate(r.comps) if c.nan) for r in rets}
        if patterns == {frozenset()}:
            fi.opt = None
        elif patterns <= {frozenset(), frozenset(range(n))}:
            fi.opt = "whole"
        else:
            fi.opt = frozenset().union(*patterns)
        fi.tree = tree
        fi.pre_tree = pre_of(tree)
        fi.has_pre = fi.pre_tree is not TRUE

    def run(self):
        self.load()
        # dependency order = order of appearance within each module, modules in ROSTER order; a call to a function
        # that is not yet translated is an error (also catches recursion)
        for name in self.order:
            self.funcs[name].tree = None
        for name in self.order:
            self.translate_function(self.funcs[name])


def collect(tree, out):
    if isinstance(tree, Ret):
        out.append(tree)
    elif isinstance(tree, (Let, Assert)):
        collect(tree.body, out)
    elif isinstance(tree, Ite):
        collect(tree.a, out)
        collect(tree.b, out)
    elif isinstance(tree, MatchOpt):
        collect(tree.some, out)
        collect(tree.none, out)


# --------------------------------------------------------------------------------------------- preconditions

TRUE = object()


class PAnd(Node):
    def __init__(self, conds, body):
        self.conds, self.body = conds, body


def pre_of(tree):
    def wrap(calls, t):
        return PAnd(list(calls), t) if calls else t

    if isinstance(tree, Ret):
        return wrap(tree.calls, TRUE)
    if isinstance(tree, Let):
        b = pre_of(tree.body)
        inner = TRUE if b is TRUE else Let(tree.name, tree.typ, tree.expr, [], b)
        return wrap(tree.calls, inner)
    if isinstance(tree, Assert):
        return PAnd(list(tree.calls) + [tree.cond], pre_of(tree.body))
    if isinstance(tree, Ite):
        a, b = pre_of(tree.a), pre_of(tree.b)
        inner = TRUE if (a is TRUE and b is TRUE) else Ite(tree.cond, [], a, b)
        return wrap(tree.calls, inner)
    if isinstance(tree, MatchOpt):
        a, b = pre_of(tree.some), pre_of(tree.none)
        inner = TRUE if (a is TRUE and b is TRUE) else MatchOpt(tree.call, [], tree.var, a, b)
        return wrap(tree.calls, inner)
    raise AssertionError(tree)


# --------------------------------------------------------------------------------------------- rendering

def render_ret(fi, r):
    comps = r.comps
    n = len(comps)
    if fi.opt is None:
        inner = ", ".join(c.lean for c in comps)
        return inner if n == 1 else f"({inner})"
    if fi.opt == "whole":
        if all(c.nan for c in comps):
            return "none"
        inner = ", ".join(c.lean for c in comps)
        return f"some ({inner})" if n > 1 else f"some ({inner})"
    parts = []
    for i, c in enumerate(comps):
        if i in fi.opt:
            parts.append("none" if c.nan else f"some ({c.lean})")
        else:
            parts.append(c.lean)
    return "(" + ", ".join(parts) + ")"


def ret_type_str(fi):
    ts = fi.ret_types
    if fi.opt is None:
        return lean_type(fi.ret_type)
    if fi.opt == "whole":
        return f"Option ({lean_type(fi.ret_type)})"
    parts = []
    for i, t in enumerate(ts):
        s = lean_type(t)
        if is_tuple(t):
            s = f"({s})"
        parts.append(f"Option {s}" if i in fi.opt else s)
    return " × ".join(parts)


def render(fi, tree, ind, pre=False):
    pad = "  " * ind
    if tree is TRUE:
        return pad + "true"
    if isinstance(tree, Ret):
        return pad + render_ret(fi, tree)
    if isinstance(tree, PAnd):
        conds = " && ".join(f"({c})" if (" && " in c or " || " in c or c.startswith("if ")) else c for c in tree.conds)
        if tree.body is TRUE:
            return pad + conds
        return pad + conds + " && (\n" + render(fi, tree.body, ind + 1, pre) + ")"
    if isinstance(tree, Let):
        return f"{pad}let {tree.name} : {lean_type(tree.typ)} := {tree.expr}\n" + render(fi, tree.body, ind, pre)
    if isinstance(tree, Assert):
        return render(fi, tree.body, ind, pre)          # value mode: asserts are recorded in pre_f only
    if isinstance(tree, Ite):
        return (f"{pad}if {tree.cond} then (\n" + render(fi, tree.a, ind + 1, pre) + f")\n{pad}else (\n"
                + render(fi, tree.b, ind + 1, pre) + ")")
    if isinstance(tree, MatchOpt):
        return (f"{pad}match {tree.call} with\n{pad}| none => (\n" + render(fi, tree.none, ind + 2, pre) + ")\n"
                + f"{pad}| some {tree.var} => (\n" + render(fi, tree.some, ind + 2, pre) + ")")
    raise AssertionError(tree)


def params_str(fi):
    return " ".join(f"({lname(n)} : {lean_type(t)})" for n, t in fi.params)


def asserts_of(tree, out):
    if isinstance(tree, Assert):
        out.append(tree.msg)
        asserts_of(tree.body, out)
    elif isinstance(tree, Let):
        asserts_of(tree.body, out)
    elif isinstance(tree, Ite):
        asserts_of(tree.a, out)
        asserts_of(tree.b, out)
    elif isinstance(tree, MatchOpt):
        asserts_of(tree.some, out)
        asserts_of(tree.none, out)


VARS = ("variable {α : Type} [Add α] [Sub α] [Mul α] [Div α] [Neg α] [LT α] [LE α]\n"
        "  [DecidableLT α] [DecidableLE α] [NatCast α]")


def emit(tr):
    shas = {m: hashlib.sha256(t.encode()).hexdigest() for m, t in tr.sources.items()}
    out = ["/-", "GENERATED by translate/kernels.py (T1) from the source text of tsdate — DO NOT EDIT.",
           "Regenerated by every check that lists the `kernels` translator; rewritten only when the content changes.",
           ""]
    for m in sorted(shas):
        out.append(f"source tsdate/{m}.py sha256 {shas[m]}")
    out += ["",
            "Each `def f` is the exact-arithmetic reading of the numba kernel `f` over a generic carrier `α` with the",
            "special functions as the parameter `F : SpecFns α`.  `none` = the kernel returns NaN in that position.",
            "`def pre_f` = every `assert` (and `if ..: raise`) met on the executed path holds, including those of callees.",
            "-/", "import TsdateVerif.Model.KernelsBase", "", "namespace Tsdate.Gen.Kernels", "open Tsdate.Kernels", "",
            "set_option linter.unusedVariables false", "", "section", VARS, "",
            "/-- literal `k` of the Python source -/", "local macro:max \"n%\" k:num : term => `((($k : Nat) : α))", ""]
    table = []
    for name in tr.order:
        fi = tr.funcs[name]
        msgs = []
        asserts_of(fi.tree, msgs)
        doc = [f"`tsdate/{fi.module}.py:{fi.lineno}` `{fi.name}`."]
        if fi.opt == "whole":
            doc.append("`none` = every returned component is NaN.")
        elif fi.opt:
            doc.append("Components " + ", ".join(str(i) for i in sorted(fi.opt)) + " are `none` when NaN.")
        if msgs:
            doc.append("Asserts (in `pre_" + fi.lean + "`): " + "; ".join(f"`{m}`" for m in dict.fromkeys(msgs)) + ".")
        out.append("/-- " + "\n".join(doc) + " -/")
        out.append(f"def {fi.lean} (F : SpecFns α) {params_str(fi)} : {ret_type_str(fi)} :=")
        out.append(render(fi, fi.tree, 1))
        out.append("")
        if fi.has_pre:
            out.append(f"/-- No `assert`/`raise` fires in `{fi.name}` (nor in the kernels it calls) on these arguments. -/")
            out.append(f"def pre_{fi.lean} (F : SpecFns α) {params_str(fi)} : Bool :=")
            out.append(render(fi, fi.pre_tree, 1, pre=True))
            out.append("")
        table.append(fi)
    out += ["end", "", "end Tsdate.Gen.Kernels", ""]
    return "\n".join(out), shas


def flat_arity(t):
    return sum(flat_arity(x) for x in t[1]) if is_tuple(t) else 1


def flat_exprs(e, t):
    """flatten a (nested) tuple expression into scalar component expressions"""
    if not is_tuple(t):
        return [(e, t)]
    out = []
    n = len(t[1])
    for i, ti in enumerate(t[1]):
        out += flat_exprs(proj(e, i, n), ti)
    return out


def emit_run(tr, shas):
    """Dispatch table: run a kernel by its Python name on a flat list of scalars.
    Result: (precondition, flat list of outputs; `none` = NaN; Bool as 1/0)."""
    out = ["/-", "GENERATED by translate/kernels.py (T1) — DO NOT EDIT.  Dispatch table used by Driver/Kernels.lean:",
           "`run F name args` evaluates the translated kernel `name` on a flat list of scalars.", ""]
    for m in sorted(shas):
        out.append(f"source tsdate/{m}.py sha256 {shas[m]}")
    out += ["-/", "import TsdateVerif.Gen.Kernels", "", "namespace Tsdate.Gen.KernelsRun", "open Tsdate.Kernels Tsdate.Gen.Kernels",
            "", "section", VARS, "",
            "def ofBool (b : Bool) : Option α := some (if b then ((1 : Nat) : α) else ((0 : Nat) : α))", "",
            "/-- `none` = unknown kernel or wrong number of arguments. -/",
            "def run (F : SpecFns α) (name : String) (args : List α) : Option (Bool × List (Option α)) :="]
    first = True
    for name in tr.order:
        fi = tr.funcs[name]
        pats, call_args, k = [], [], 0
        for n, t in fi.params:
            if is_tuple(t):
                vs = [f"x{k + j}" for j in range(flat_arity(t))]
                k += len(vs)
                pats += vs
                call_args.append("(" + ", ".join(vs) + ")")
            else:
                pats.append(f"x{k}")
                call_args.append(f"x{k}")
                k += 1
        cargs = " ".join(call_args)
        pre = f"pre_{fi.lean} F {cargs}" if fi.has_pre else "true"

        def comp(e, t):
            return f"ofBool {e}" if t == B else f"some {e}"

        if fi.opt is None:
            comps = flat_exprs("r", fi.ret_type)
            body = "[" + ", ".join(comp(e, t) for e, t in comps) + "]"
        elif fi.opt == "whole":
            comps = flat_exprs("v", fi.ret_type)
            nn = len(comps)
            body = ("(match r with | none => [" + ", ".join(["none"] * nn) + "] | some v => ["
                    + ", ".join(comp(e, t) for e, t in comps) + "])")
        else:
            parts = []
            n = len(fi.ret_types)
            for i, t in enumerate(fi.ret_types):
                pe = proj("r", i, n)
                if i in fi.opt:
                    sub = flat_exprs("v", t)
                    parts.append("(match " + pe + " with | none => [" + ", ".join(["none"] * len(sub)) + "] | some v => ["
                                 + ", ".join(comp(e, tt) for e, tt in sub) + "])")
                else:
                    parts.append("[" + ", ".join(comp(e, tt) for e, tt in flat_exprs(pe, t)) + "]")
            body = " ++ ".join(parts)
        kw = "if" if first else "else if"
        first = False
        out.append(f"  {kw} name = \"{fi.name}\" then")
        out.append(f"    (match args with")
        out.append(f"    | [{', '.join(pats)}] =>")
        out.append(f"      let r := {fi.lean} F {cargs}")
        out.append(f"      some ({pre}, {body})")
        out.append(f"    | _ => none)")
    out += ["  else none", "", "/-- Names of the translated kernels with their flat input arity. -/",
            "def kernels : List (String × Nat) := ["
            + ", ".join(f"(\"{tr.funcs[n].name}\", {sum(flat_arity(t) for _, t in tr.funcs[n].params)})" for n in tr.order)
            + "]", "", "end", "", "end Tsdate.Gen.KernelsRun", ""]
    return "\n".join(out)


def write_if_changed(path, text):
    path.parent.mkdir(parents=True, exist_ok=True)
    if path.exists() and path.read_text() == text:
        return False
    path.write_text(text)
    return True


def build():
    tr = Translator()
    tr.run()
    return tr


def signature_table(tr=None):
    """For the harness: name -> dict(params=[(name, kind)], outs=[kinds], opt=...) with kind 'F'|'B'|'P'."""
    tr = tr or build()
    tab = {}
    for name in tr.order:
        fi = tr.funcs[name]

        def kind(t):
            return "P" if t == PAIR else t

        tab[fi.name] = dict(module=fi.module, params=[(n, kind(t)) for n, t in fi.params],
                            outs=[kind(t) for t in fi.ret_types], single=fi.single,
                            opt=("whole" if fi.opt == "whole" else (sorted(fi.opt) if fi.opt else None)),
                            has_pre=fi.has_pre)
    return tab


def signature_table_static():
    """Parameter layout of every roster function from the decorators alone (no body translation): what the harness
    needs to call the real kernels when the translation itself fails (stage C must not depend on stage A)."""
    tr = Translator()
    tr.load()
    tab = {}
    for name in tr.order:
        fi = tr.funcs[name]
        params = tr.param_types(fi)
        tab[fi.name] = dict(module=fi.module, params=[(n, "P" if t == PAIR else t) for n, t in params],
                            outs=None, single=None, opt=None, has_pre=None)
    return tab


def generate():
    tr = build()
    text, shas = emit(tr)
    write_if_changed(GEN_DIR / "Kernels.lean", text)
    write_if_changed(GEN_DIR / "KernelsRun.lean", emit_run(tr, shas))
    return tr


if __name__ == "__main__":
    t = generate()
    print(f"translated {len(t.order)} kernels")
