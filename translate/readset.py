"""
T4 (read-set): which attributes of tskit objects the dating path reads.

Scope.  Every function / method of tsdate reachable (by name) from `core.date`, plus
`util.constrain_ages`, minus the output stage (`get_modified_ts`, `set_time_metadata`, `record_provenance`,
which run after the dates are fixed and are the subject of C02/C04/C33).  Reachability is by simple name: a
function mentions every function, method or class of tsdate whose simple name occurs in its body
(classes bring `__init__` and all dunder methods); this over-approximates the call graph.

What is recorded.  The *universe* is every public attribute name of tskit's TreeSequence, Tree,
TableCollection, all table classes and all row classes (introspected), minus the method names of
Python's built-in containers.  Every attribute access `<expr>.<name>` with `<name>` in the universe
is a read, unless `<expr>` is an imported module or `self`/`cls` (tsdate's own objects), and so is a
constant string handed to `operator.attrgetter`.  `getattr`/`setattr`/`vars`/`__dict__` on anything
but `self`/modules are recorded as the pseudo-attribute `<dynamic>`.  This is a syntactic
over-approximation: a new harmless read still shows up and has to be added to the allowed list.

Individuals.  Reads of individual information (`individuals`, `individual`, `nodes_individual`,
`num_individuals`, `individuals_*`, attributes of the loop variable of `for i in ts.individuals()`)
are additionally tagged with the function they occur in, and for `phasing._block_singletons` /
`phasing.block_singletons` every *use* of a value derived from them is classified as guarded by
`individuals_unphased[...]` or not.

Site positions.  For every read of `sites_position` the index expression is recorded
(`sitesPositionIndex`): the dating path may look at site positions only through
`sites_position[<ts>.mutations_site]`, never at the whole per-site column.

Output: lean/TsdateVerif/Gen/ReadSet.lean.
"""

import ast
import builtins

from . import glue_lib as G

MODULES = ["core", "variational", "rescaling", "phasing", "discrete", "prior", "util", "demography",
           "node_time_class", "approx", "hypergeo", "accelerate", "cache", "provenance", "schemas"]
ROOTS = [("core", "date"), ("util", "constrain_ages")]
EXCLUDED = {"get_modified_ts", "set_time_metadata", "record_provenance"}
INDIVIDUAL_ATTRS = {"individuals", "individual", "nodes_individual", "num_individuals", "individuals_nodes",
                    "individuals_flags", "individuals_location", "individuals_parents", "individuals_metadata",
                    "individuals_population", "individuals_time"}


def tskit_universe():
    import tskit
    classes = [tskit.TreeSequence, tskit.Tree, tskit.TableCollection, tskit.Edge, tskit.Site, tskit.Mutation,
               tskit.Node, tskit.Individual, tskit.Population, tskit.Migration, tskit.Provenance, tskit.Variant,
               tskit.NodeTable, tskit.EdgeTable, tskit.SiteTable, tskit.MutationTable, tskit.IndividualTable,
               tskit.PopulationTable, tskit.MigrationTable, tskit.ProvenanceTable, tskit.ReferenceSequence]
    names = set()
    for c in classes:
        names |= {n for n in dir(c) if not n.startswith("_")}
    # dataclass fields that dir() of the class may not list
    for c in (tskit.Edge, tskit.Site, tskit.Mutation, tskit.Node, tskit.Individual, tskit.Population,
              tskit.Migration, tskit.Provenance):
        names |= set(getattr(c, "__dataclass_fields__", {}) or getattr(c, "__slots__", ()) or ())
    for b in (list, dict, set, str, tuple, frozenset, bytes):
        names -= set(dir(b))
    return names


class Mod:
    def __init__(self, name):
        self.name = name
        self.src, self.tree = G.read_module(name)
        self.funcs = G.functions_of(self.tree)
        self.classes = G.classes_of(self.tree)
        self.imported = set()
        for node in ast.walk(self.tree):
            if isinstance(node, ast.Import):
                self.imported |= {(a.asname or a.name).split(".")[0] for a in node.names}
            elif isinstance(node, ast.ImportFrom):
                # `from . import x` / `from .x import y` / `from pkg import z`: z may be a module or a name;
                # only module-like imports matter here (used as `z.attr`)
                self.imported |= {a.asname or a.name for a in node.names}


def load():
    mods = {}
    for m in MODULES:
        try:
            mods[m] = Mod(m)
        except FileNotFoundError:
            continue
    for need in ("core", "variational", "discrete", "prior", "phasing", "rescaling", "util"):
        if need not in mods:
            raise G.TranslateError(f"tsdate/{need}.py not found")
    return mods


def mentioned_names(fn):
    out = set()
    for node in ast.walk(fn):
        if isinstance(node, ast.Name):
            out.add(node.id)
        elif isinstance(node, ast.Attribute):
            out.add(node.attr)
        elif isinstance(node, ast.Constant) and isinstance(node.value, str) and node.value.isidentifier():
            out.add(node.value)          # getattr(prior, self.prior_grid_func_name) style dispatch
    return out


def reachable(mods):
    by_simple = {}          # simple name -> list of (mod, qualname)
    class_methods = {}      # class simple name -> list of (mod, qualname)
    for m in mods.values():
        for q in m.funcs:
            by_simple.setdefault(q.split(".")[-1], []).append((m.name, q))
        for cname, cls in m.classes.items():
            class_methods[cname] = [(m.name, q) for q in m.funcs if q.startswith(cname + ".")]
        # class attributes holding names of functions (prior_grid_func_name = "prior_grid")
    seen, todo = set(), []
    for mod, q in ROOTS:
        if q not in mods[mod].funcs:
            raise G.TranslateError(f"root {mod}.{q} not found")
        todo.append((mod, q))
    # string class attributes such as prior_grid_func_name = "prior_grid" are used for dispatch
    class_strings = set()
    for m in mods.values():
        for cls in m.classes.values():
            for st in cls.body:
                if isinstance(st, ast.Assign) and isinstance(st.value, ast.Constant) and isinstance(st.value.value, str):
                    class_strings.add(st.value.value)
    while todo:
        key = todo.pop()
        if key in seen:
            continue
        mod, q = key
        if q.split(".")[-1] in EXCLUDED:
            continue
        seen.add(key)
        names = mentioned_names(mods[mod].funcs[q])
        for n in list(names):
            if n in class_strings:
                pass
        for n in names | ({s for s in class_strings} if q.endswith("__init__") else set()):
            for tgt in by_simple.get(n, []):
                todo.append(tgt)
            if n in class_methods:
                for (cm, cq) in class_methods[n]:
                    simple = cq.split(".")[-1]
                    if simple.startswith("__") and simple.endswith("__"):
                        todo.append((cm, cq))
    return sorted(seen)


class ReadCollector(ast.NodeVisitor):
    def __init__(self, mod, qual, universe, out, site_index):
        self.mod, self.qual, self.universe, self.out = mod, qual, universe, out
        self.indiv_loop_vars = set()
        self.indexed = set()
        self.site_index = site_index

    def receiver_ok(self, value):
        if isinstance(value, ast.Name) and value.id in ("self", "cls"):
            return False
        root = value
        while isinstance(root, ast.Attribute):
            root = root.value
        if isinstance(root, ast.Name) and root.id in self.mod.imported:      # np.x.y, scipy.stats.z, tskit.NULL …
            return False
        return True

    def visit_For(self, node):
        it = node.iter
        if isinstance(it, ast.Call) and isinstance(it.func, ast.Attribute) and it.func.attr == "individuals" \
                and isinstance(node.target, ast.Name):
            self.indiv_loop_vars.add(node.target.id)
        self.generic_visit(node)

    def visit_Subscript(self, node):
        # how the per-site column `sites_position` is indexed: the dating path must only ever look at
        # the positions of sites that carry a mutation, i.e. `sites_position[<…>.mutations_site]`
        v = node.value
        if isinstance(v, ast.Attribute) and v.attr == "sites_position" and self.receiver_ok(v.value):
            self.indexed.add(id(v))
            self.site_index.append((self.mod.name + "." + self.qual, ast.unparse(node.slice)))
        self.generic_visit(node)

    def visit_Attribute(self, node):
        if node.attr == "sites_position" and isinstance(node.ctx, ast.Load) and self.receiver_ok(node.value) \
                and id(node) not in self.indexed:
            self.site_index.append((self.mod.name + "." + self.qual, "<whole column>"))
        if isinstance(node.ctx, ast.Load) and node.attr in self.universe and self.receiver_ok(node.value):
            recv = G.dotted(node.value) or type(node.value).__name__
            tag = node.attr
            if isinstance(node.value, ast.Name) and node.value.id in self.indiv_loop_vars:
                tag = "individual." + node.attr
            self.out.append((self.mod.name + "." + self.qual, recv, tag))
        self.generic_visit(node)

    def visit_Call(self, node):
        d = G.dotted(node.func)
        if d in ("operator.attrgetter", "attrgetter"):
            for a in node.args:
                if isinstance(a, ast.Constant) and isinstance(a.value, str):
                    for part in a.value.split("."):
                        if part in self.universe:
                            self.out.append((self.mod.name + "." + self.qual, "attrgetter", part))
                else:
                    self.out.append((self.mod.name + "." + self.qual, "attrgetter", "<dynamic>"))
        if isinstance(node.func, ast.Name) and node.func.id in ("getattr", "setattr", "vars", "hasattr") and node.args:
            tgt = node.args[0]
            if not (isinstance(tgt, ast.Name) and (tgt.id in ("self", "cls") or tgt.id in self.mod.imported)):
                if not (node.func.id == "hasattr"):
                    self.out.append((self.mod.name + "." + self.qual, G.dotted(tgt) or "expr", "<dynamic>"))
        self.generic_visit(node)


# ----------------------------------------------------------------------------- individuals: guard analysis

def guard_uses(fn, source_names, guard_array):
    """Every use of a value derived from `source_names` inside `fn`, classified.

    A variable assigned from an expression mentioning a tainted name is tainted (e.g.
    `i = nodes_individual[c]`).  A use of a tainted name is *guarded* when it occurs (a) inside the
    test `i != tskit.NULL and <guard_array>[i]` itself, or (b) in the body of an `if` whose test
    contains `<guard_array>[<tainted>]` (or `<guard_array>[<tainted>.id]`), or (c) as the right-hand side of the tainting
    assignment.  Returns list of (line, name, guarded)."""
    tainted = set(source_names)
    # propagate through simple assignments (to a fixed point)
    changed = True
    while changed:
        changed = False
        for node in ast.walk(fn):
            if isinstance(node, ast.Assign) and len(node.targets) == 1 and isinstance(node.targets[0], ast.Name):
                if any(isinstance(n, ast.Name) and n.id in tainted for n in ast.walk(node.value)):
                    if node.targets[0].id not in tainted:
                        tainted.add(node.targets[0].id)
                        changed = True
            if isinstance(node, ast.For) and isinstance(node.target, ast.Name):
                if any(isinstance(n, ast.Name) and n.id in tainted for n in ast.walk(node.iter)) or \
                        any(isinstance(n, ast.Attribute) and n.attr == "individuals" for n in ast.walk(node.iter)):
                    if node.target.id not in tainted:
                        tainted.add(node.target.id)
                        changed = True
    uses = []

    def test_guards(test):
        for n in ast.walk(test):
            if isinstance(n, ast.Subscript) and isinstance(n.value, ast.Name) and n.value.id == guard_array:
                if any(isinstance(x, ast.Name) and x.id in tainted for x in ast.walk(n.slice)):
                    return True
        return False

    def walk(node, guarded):
        if isinstance(node, ast.If):
            g = test_guards(node.test)
            walk_expr(node.test, guarded or g)      # the test itself is the guard
            for st in node.body:
                walk(st, guarded or g)
            for st in node.orelse:
                walk(st, guarded)
            return
        if isinstance(node, ast.Assign) and len(node.targets) == 1 and isinstance(node.targets[0], ast.Name) \
                and node.targets[0].id in tainted:
            # the tainting assignment itself: reading the source to define the tainted variable
            walk_expr(node.value, True)
            return
        if isinstance(node, ast.For) and isinstance(node.target, ast.Name) and node.target.id in tainted:
            walk_expr(node.iter, True)
            for st in node.body + node.orelse:
                walk(st, guarded)
            return
        for child in ast.iter_child_nodes(node):
            if isinstance(child, ast.stmt):
                walk(child, guarded)
            elif isinstance(child, ast.expr):
                walk_expr(child, guarded)
            elif isinstance(child, (ast.arguments, ast.keyword, ast.withitem, ast.ExceptHandler, ast.comprehension)):
                walk(child, guarded)

    def walk_expr(e, guarded):
        for n in ast.walk(e):
            if isinstance(n, ast.Name) and n.id in tainted and isinstance(n.ctx, ast.Load):
                uses.append((n.lineno, n.id, guarded))

    for st in fn.body:
        walk(st, False)
    return uses, sorted(tainted)


def analyse():
    mods = load()
    universe = tskit_universe()
    reach = reachable(mods)
    reads, site_index = [], []
    for mod, q in reach:
        ReadCollector(mods[mod], q, universe, reads, site_index).visit(mods[mod].funcs[q])
    # individuals
    ph = mods["phasing"]
    if "_block_singletons" not in ph.funcs or "block_singletons" not in ph.funcs:
        raise G.TranslateError("phasing.block_singletons / _block_singletons not found")
    inner = ph.funcs["_block_singletons"]
    pos, _ = G.param_names(inner)
    if "nodes_individual" not in pos or "individuals_unphased" not in pos:
        raise G.TranslateError("_block_singletons no longer takes (individuals_unphased, nodes_individual, …)")
    uses_inner, _ = guard_uses(inner, {"nodes_individual"}, "individuals_unphased")
    uses_inner = [(ln, nm, g) for ln, nm, g in uses_inner if nm != "nodes_individual" or not g or True]
    outer = ph.funcs["block_singletons"]
    # in the wrapper: the loop variable over ts.individuals()
    uses_outer, _ = guard_uses(outer, set(), "individuals_unphased")
    # the wrapper passes ts.nodes_individual positionally to the parameter `nodes_individual`
    call = [n for n in ast.walk(outer) if isinstance(n, ast.Call) and G.dotted(n.func) == "_block_singletons"]
    if len(call) != 1:
        raise G.TranslateError("block_singletons must call _block_singletons exactly once")
    passed = {}
    for i, a in enumerate(call[0].args):
        d = G.dotted(a)
        if d and d.split(".")[-1] in INDIVIDUAL_ATTRS:
            passed[pos[i]] = d
    if passed != {"nodes_individual": "ts.nodes_individual"}:
        raise G.TranslateError(f"individual information reaches _block_singletons through {passed}")
    # where is individuals_unphased built?  EP.__init__: individual_phased = np.full(ts.num_individuals, singletons_phased)
    vinit = mods["variational"].funcs.get("ExpectationPropagation.__init__")
    if vinit is None:
        raise G.TranslateError("ExpectationPropagation.__init__ not found")
    unphased_arg = None
    for n in ast.walk(vinit):
        if isinstance(n, ast.Call) and G.dotted(n.func) == "block_singletons" and len(n.args) == 2:
            unphased_arg = ast.unparse(n.args[1])
    phased_def = None
    for n in ast.walk(vinit):
        if isinstance(n, ast.Assign) and len(n.targets) == 1 and G.dotted(n.targets[0]) == "individual_phased":
            phased_def = ast.unparse(n.value)
    digest = G.sha(*[mods[m].src for m in sorted(mods)])
    return dict(reads=reads, site_index=site_index, reach=reach, uses_inner=uses_inner, uses_outer=uses_outer,
                unphased_arg=unphased_arg or "?", phased_def=phased_def or "?", digest=digest,
                modules=sorted(mods))


def render(a):
    attrs = sorted({t for _, _, t in a["reads"]})
    indiv = sorted({(f, t) for f, _, t in a["reads"] if t in INDIVIDUAL_ATTRS or t.startswith("individual.")})
    L = ["/- GENERATED by translate/readset.py from tsdate/*.py — do not edit.",
         f"   source sha256 {a['digest']} -/", "",
         "namespace Tsdate.Gen.ReadSet", "",
         f"def sourceSha : String := {G.lean_str(a['digest'])}", "",
         "/-- functions of the dating path (reachable by name from `core.date`, plus `util.constrain_ages`) -/",
         "def functions : List String := [" + ", ".join(G.lean_str(f"{m}.{q}") for m, q in a["reach"]) + "]", "",
         "/-- every tskit attribute name read on the dating path -/",
         "def readSet : List String := [" + ", ".join(G.lean_str(x) for x in attrs) + "]", "",
         "/-- (function, receiver expression, attribute) for every read, in source order -/",
         "def reads : List (String × String × String) := ["]
    seen = set()
    rows = []
    for f, r, t in a["reads"]:
        if (f, r, t) not in seen:
            seen.add((f, r, t))
            rows.append(f"  ({G.lean_str(f)}, {G.lean_str(r)}, {G.lean_str(t)})")
    L.append(",\n".join(rows))
    L += ["]", "",
          "/-- reads of individual information: (function, attribute) -/",
          "def individualReads : List (String × String) := [" + ", ".join(f"({G.lean_str(f)}, {G.lean_str(t)})" for f, t in indiv) + "]", "",
          "/-- `phasing._block_singletons`: every use of a value derived from `nodes_individual`:",
          "(line, variable, guarded by `individuals_unphased[…]`) -/",
          "def blockSingletonsUses : List (Nat × String × Bool) := [" +
          ", ".join(f"({ln}, {G.lean_str(nm)}, {'true' if g else 'false'})" for ln, nm, g in a["uses_inner"]) + "]", "",
          "/-- `phasing.block_singletons`: every use of the loop variable over `ts.individuals()` -/",
          "def blockSingletonsWrapperUses : List (Nat × String × Bool) := [" +
          ", ".join(f"({ln}, {G.lean_str(nm)}, {'true' if g else 'false'})" for ln, nm, g in a["uses_outer"]) + "]", "",
          "/-- every read of the per-site column `sites_position` on the dating path: (function, index expression);",
          "`<whole column>` when it is used without being indexed -/",
          "def sitesPositionIndex : List (String × String) := [" +
          ", ".join(f"({G.lean_str(f)}, {G.lean_str(ix)})" for f, ix in a["site_index"]) + "]", "",
          "/-- second argument of the `block_singletons(ts, …)` call in `ExpectationPropagation.__init__` -/",
          f"def unphasedArgument : String := {G.lean_str(a['unphased_arg'])}",
          "/-- definition of `individual_phased` there -/",
          f"def phasedDefinition : String := {G.lean_str(a['phased_def'])}", "",
          "end Tsdate.Gen.ReadSet", ""]
    return "\n".join(L)


def generate():
    a = analyse()
    G.write_if_changed(G.lean_dir() / "TsdateVerif" / "Gen" / "ReadSet.lean", render(a))
    return a


if __name__ == "__main__":
    a = generate()
    print(len(a["reach"]), "functions;", sorted({t for _, _, t in a["reads"]}))
    print("inner", a["uses_inner"])
    print("outer", a["uses_outer"])
    print(a["unphased_arg"], "|", a["phased_def"])
