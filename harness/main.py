"""
./check Cxx [--tier quick|thorough] [--replay file]

Stages (DESIGN.md §2.6):
  A  translators -> Gen/*.lean ; lake build of the property's theorem modules ; axiom audit ; token grep
  B  correspondence model <-> implementation        (inside prop.run)
  C  property oracle on the implementation           (inside prop.run; deeper when A or B broke)
  D  verdict, E evidence
Exit codes: 0 held / only known findings; 1 VIOLATION; 2 internal error of the check itself.
"""

import argparse
import importlib
import json
import os
import sys
import time
import traceback
from pathlib import Path

from . import common
from .common import Ctx, Result, Violation

TRUSTED_BASE = [
    "Lean 4.33 kernel; Mathlib v4.33 as proved library; axioms allowed: propext, Classical.choice, Quot.sound",
    "translators in /verif/translate and the correspondence harness in /verif/harness (sampled unless 'exhaustive')",
    "Lean Float = IEEE-754 binary64 with the same + - * / sqrt and comparisons as numpy/numba",
    "theorems are about exact arithmetic (ordered fields) unless the statement is explicitly about rounding",
    "tskit, numpy, scipy, numba, msprime, tsinfer are modelled by contract, not verified",
]


def load_known():
    """known_findings.json plus per-property fragments known_findings.d/*.json (same format)."""
    out = []
    p = common.VERIF / "known_findings.json"
    if p.exists():
        out += json.loads(p.read_text())["findings"]
    d = common.VERIF / "known_findings.d"
    if d.is_dir():
        for f in sorted(d.glob("*.json")):
            out += json.loads(f.read_text())["findings"]
    return out


def stage_a(ctx, prop, log):
    """Returns dict(obligations, discharged, failures[list of str], checker_cmd, axioms)."""
    failures = []
    # translators
    for tname in getattr(prop, "TRANSLATORS", []):
        try:
            mod = importlib.import_module(f"translate.{tname}")
            mod.generate()
        except Exception as e:  # translator met something outside its subset
            failures.append(f"translator {tname}: {type(e).__name__}: {e}")
            log(traceback.format_exc())
    mods = list(getattr(prop, "LEAN_PROPS", []))
    extra_build = list(getattr(prop, "LEAN_BUILD", []))
    names = []
    for m in mods:
        try:
            names += common.theorems_in(m)
        except OSError as e:
            failures.append(f"missing module {m}: {e}")
    cmd = "cd lean && lake build " + " ".join(mods + extra_build)
    discharged = 0
    axioms = {}
    if mods or extra_build:
        if ctx.tier == "thorough" and os.environ.get("VERIF_CLEAN_BUILD", "0") == "1":
            pass  # clean rebuild is done by ./setup.sh --clean; kept out of the per-property path
        ok, out = common.lake_build(mods + extra_build)
        if not ok:
            bad = [l for l in out.splitlines() if l.startswith("error") or "✖" in l]
            failures.append("lake build failed: " + " | ".join(bad[:6]))
            log(out[-6000:])
            # find which property modules still build, one by one
            for m in mods:
                ok1, _ = common.lake_build([m])
                if not ok1:
                    failures.append(f"theorem module no longer checks: {m}")
        built = [m for m in mods if common.lake_build([m])[0]] if not ok else mods
        if built:
            axioms, aout = common.audit_axioms(ctx.prop_id, built)
            for n, ax in axioms.items():
                if ax is None:
                    failures.append(f"axiom audit: no report for {n}")
                elif not set(ax) <= common.ALLOWED_AXIOMS:
                    failures.append(f"axiom audit: {n} uses {sorted(set(ax) - common.ALLOWED_AXIOMS)}")
                else:
                    discharged += 1
        closure = set()
        for m in mods:
            common.project_imports(m, closure)
        hits = common.forbidden_tokens(closure)
        if hits:
            failures.append("forbidden tokens: " + "; ".join(hits[:5]))
            discharged = 0
        if ctx.tier == "thorough" and built and os.environ.get("VERIF_SKIP_LEANCHECKER", "0") != "1":
            r = common._run(["lake", "env", "leanchecker", *built], cwd=common.LEAN_DIR, timeout=3000)
            cmd += " && lake env leanchecker " + " ".join(built)
            if r.returncode != 0:
                failures.append("leanchecker rejected: " + (r.stdout + r.stderr)[-400:])
    return dict(obligations=len(names), discharged=discharged, failures=failures, checker_cmd=cmd,
                axioms=axioms, theorems=names)


def _descendants(pid):
    """pids of all live descendants of pid (from /proc; no third-party modules)"""
    kids = {}
    for d in os.listdir("/proc"):
        if d.isdigit():
            try:
                with open(f"/proc/{d}/stat") as f:
                    rest = f.read().rsplit(")", 1)[1].split()
                kids.setdefault(int(rest[1]), []).append(int(d))
            except (OSError, IndexError, ValueError):
                pass
    out, todo = [], [pid]
    while todo:
        for k in kids.get(todo.pop(), []):
            out.append(k)
            todo.append(k)
    return out


def _install_watchdog(pid_label, tier):
    """A check that hangs (e.g. a dead-locked pipe to a Lean driver) must end as an internal error (exit 2),
    never block the runs after it and never be read as a verdict."""
    import signal
    limit = int(os.environ.get("VERIF_TIME_LIMIT", "1500" if tier == "quick" else "10800"))

    def on_alarm(signum, frame):
        print(f"{pid_label}: check exceeded its own time limit of {limit} s - internal error, no verdict", flush=True)
        for k in _descendants(os.getpid()):
            try:
                os.kill(k, signal.SIGKILL)
            except OSError:
                pass
        os._exit(2)

    signal.signal(signal.SIGALRM, on_alarm)
    signal.alarm(limit)


def main(argv=None):
    ap = argparse.ArgumentParser()
    ap.add_argument("prop")
    ap.add_argument("--tier", default=os.environ.get("VERIF_TIER", "quick"), choices=["quick", "thorough"])
    ap.add_argument("--replay")
    ap.add_argument("--seed", type=int, default=int(os.environ.get("VERIF_SEED", "0")))
    args = ap.parse_args(argv)
    pid = args.prop.upper()
    t0 = time.time()
    _install_watchdog(pid, args.tier)
    logdir = common.VERIF / ".cache" / "logs"
    logdir.mkdir(parents=True, exist_ok=True)
    logf = open(logdir / f"{pid}.log", "w")

    def log(s):
        logf.write(str(s) + "\n")
        logf.flush()

    common.setup_env()
    sys.path.insert(0, str(common.VERIF))
    prop = importlib.import_module(f"harness.props.{pid.lower()}")

    if args.replay:
        payload = json.loads(open(args.replay).read())
        ctx = Ctx(pid, args.tier, args.seed)
        if "theorem_or_correspondence" in payload and "input" not in payload:
            print(f"replay names a broken obligation, not an input: {payload['theorem_or_correspondence']}")
            return 0
        ok = prop.replay(ctx, payload)
        return 0 if ok else 1

    ctx = Ctx(pid, args.tier, args.seed)
    a = stage_a(ctx, prop, log)
    for f in a["failures"]:
        print(f"[A] {f}")
    if a["failures"]:
        ctx.boost = 10
    try:
        res = prop.run(ctx)
    except Exception:  # noqa: BLE001
        if not a["failures"]:
            raise          # stage A was fine: this is an internal error of the check (exit 2)
        # Stage A already broke (translator met unsupported code, a theorem no longer checks ...) and stages B/C
        # depend on what stage A produces: the property is no longer shown to hold. Report that, after giving the
        # implementation-side search a chance to find a concrete failing input.
        log(traceback.format_exc())
        a["failures"].append("stages B/C could not run on top of the broken stage A: "
                             + traceback.format_exc().strip().splitlines()[-1][:300])
        res = Result()
        res.rule = "stage A failed and stages B/C could not run (see stage_a_failures)"
        if hasattr(prop, "search"):
            try:
                res = prop.search(ctx)
            except Exception:  # noqa: BLE001
                log(traceback.format_exc())
    assert isinstance(res, Result)
    if res.corr_failures and ctx.boost == 1 and hasattr(prop, "search"):
        # correspondence broke: look harder for a concrete failing input on the implementation
        ctx.boost = 10
        more = prop.search(ctx)
        res.violations += more.violations
        res.evaluations += more.evaluations
        res.nontrivial |= more.nontrivial

    known = [k for k in load_known() if k["property"] == pid and k.get("status", "known") == "known"]
    known_kinds = {k["kind"]: k for k in known}
    new_viol = [v for v in res.violations if v.kind not in known_kinds]
    hit_known = {}
    for v in res.violations:
        if v.kind in known_kinds:
            hit_known.setdefault(v.kind, []).append(v)

    exit_code = 0
    rdir = common.VERIF / "replays"
    rdir.mkdir(exist_ok=True)
    for kind, vs in hit_known.items():
        print(f"KNOWN-FINDING: property={pid} {known_kinds[kind]['what']} (kind={kind}, {len(vs)} case(s) this run)")
    if new_viol:
        v = new_viol[0]
        path = rdir / f"{pid}-{args.tier}-{args.seed}.json"
        path.write_text(json.dumps(dict(property=pid, kind=v.kind, what=v.what, stage=v.stage, input=v.replay,
                                        others=[dict(kind=x.kind, what=x.what) for x in new_viol[1:20]]),
                                   indent=1, default=str))
        print(f"[C] {v.what}")
        print(f"VIOLATION property={pid} replay={path}")
        exit_code = 1
    elif a["failures"] or res.corr_failures:
        path = rdir / f"{pid}-{args.tier}-{args.seed}.json"
        broken = a["failures"] + [f"correspondence: {c.what}" for c in res.corr_failures[:10]]
        payload = dict(property=pid, theorem_or_correspondence=broken)
        if res.corr_failures:
            payload["correspondence_input"] = res.corr_failures[0].replay
        path.write_text(json.dumps(payload, indent=1, default=str))
        for c in res.corr_failures[:3]:
            print(f"[B] {c.what}")
        print(f"VIOLATION property={pid} replay={path} no-failing-input-found")
        exit_code = 1

    level = getattr(prop, "LEVEL", "proof")
    cov = dict(
        obligations=a["obligations"], discharged=a["discharged"], checker_cmd=a["checker_cmd"],
        trusted_base=TRUSTED_BASE + list(getattr(prop, "TRUSTED", [])),
        theorems=a["theorems"], axioms={k: v for k, v in a["axioms"].items()},
        evaluations=res.evaluations, distinct_nontrivial=len(res.nontrivial), rule=res.rule,
        samples=res.samples[:5] if res.samples else [], exhaustive=bool(res.exhaustive),
        correspondence_failures=len(res.corr_failures), stage_a_failures=a["failures"],
        known_findings_hit={k: len(v) for k, v in hit_known.items()},
    )
    cov.update(res.extra)
    ev = dict(property_id=pid, tier=args.tier, seed=args.seed, level=level, coverage=cov,
              assumptions=list(getattr(prop, "ASSUMPTIONS", [])), wall_s=round(time.time() - t0, 2),
              violations=len(new_viol))
    # VERIF_EVIDENCE_DIR: used only by tools/seed_check.sh so that a run against a seeded (patched) scratch copy
    # of the repository does not overwrite the evidence of the real tree
    edir = Path(os.environ["VERIF_EVIDENCE_DIR"]) if os.environ.get("VERIF_EVIDENCE_DIR") else common.VERIF / "evidence"
    edir.mkdir(parents=True, exist_ok=True)
    (edir / f"{pid}.json").write_text(json.dumps(ev, indent=1, default=str))
    print(f"{pid} tier={args.tier} seed={args.seed}: theorems {a['discharged']}/{a['obligations']}, "
          f"cases {res.evaluations} ({len(res.nontrivial)} distinct non-trivial), "
          f"corr-failures {len(res.corr_failures)}, violations {len(new_viol)}, "
          f"known {sum(len(v) for v in hit_known.values())}, {ev['wall_s']} s")
    return exit_code


if __name__ == "__main__":
    try:
        sys.exit(main())
    except SystemExit:
        raise
    except BaseException:
        traceback.print_exc()
        sys.exit(2)
