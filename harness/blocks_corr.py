"""
Shared code of the "Blocks" cluster (C22, C23): unphased-singleton handling.

* generators: diploid tree sequences, an own re-phasing generator (the repo's `rephase_singletons` crashes
  on some inputs), array-level mutilations for the kernel
* stage B: the Lean models (Driver/Blocks.lean) against the real numba kernels `_block_singletons`,
  `reallocate_unphased`, and against the tail of a real `ExpectationPropagation.infer` (observed from
  outside: instance attribute / module attribute rebinding, no source hooks)
* helpers for the stage-C oracles (naive per-edge mutation counts from tskit trees, mutation matching by
  (site, derived state, individual-or-node))
"""

import numpy as np

from . import common, gen
from .common import Violation, f2h, h2f

NULL = -1


# ----------------------------------------------------------------------------- generators

def gen_diploid(rng, n=None, trees=None, mpe=None, extra=0.4, gaps=0.15, big=False):
    """A diploid msprime tree sequence (every sample node belongs to a 2-node individual at time 0)."""
    n = int(rng.integers(2, 13 if big else 7)) if n is None else n
    trees = int(rng.choice([1, 2, 3, 5, 8, 15, 30] + ([60] if big else []))) if trees is None else trees
    mpe = float(rng.choice([1, 3, 8])) if mpe is None else mpe
    ts, info = gen.sim_ts(rng, n=n, trees=trees, muts_per_edge=mpe, ploidy=2)
    fired = []
    if rng.random() < gaps and ts.sequence_length > 10:
        ts, _ = gen.delete_gaps(ts, rng, k=int(rng.integers(1, 3)))
        fired.append("gaps")
    if rng.random() < extra:
        ts, k = add_twin_singletons(ts, rng, k=int(rng.integers(1, 6)))
        if k:
            fired.append("twin_singletons")
    info.update(fired=fired, trees=ts.num_trees, muts=ts.num_mutations, sites=ts.num_sites, edges=ts.num_edges,
                nodes=ts.num_nodes, individuals=ts.num_individuals)
    return ts, info


def add_twin_singletons(ts, rng, k=2):
    """Add k sites carrying a singleton on *each* of the two nodes of one individual (two mutations at the same
    position, possibly with the same derived state), plus reuse of existing sites."""
    import tskit
    tables = ts.dump_tables()
    pos_to_site = {float(p): i for i, p in enumerate(tables.sites.position)}
    added = 0
    for _ in range(k):
        if ts.num_individuals == 0:
            break
        ind = ts.individual(int(rng.integers(0, ts.num_individuals)))
        if len(ind.nodes) != 2:
            continue
        pos = float(np.floor(rng.uniform(0, ts.sequence_length)))
        tree = ts.at(pos)
        if tree.num_edges == 0:
            continue
        if pos in pos_to_site:
            s = pos_to_site[pos]
        else:
            s = tables.sites.add_row(position=pos, ancestral_state="A")
            pos_to_site[pos] = s
        same = rng.random() < 0.5
        tables.mutations.add_row(site=s, node=int(ind.nodes[0]), derived_state="T", time=tskit.UNKNOWN_TIME)
        tables.mutations.add_row(site=s, node=int(ind.nodes[1]), derived_state="T" if same else "G",
                                 time=tskit.UNKNOWN_TIME)
        added += 1
    if not added:
        return ts, 0
    tables.mutations.time = np.full(tables.mutations.num_rows, tskit.UNKNOWN_TIME)
    tables.mutations.parent = np.full(tables.mutations.num_rows, NULL, dtype=np.int32)
    tables.sort()
    tables.build_index()
    tables.compute_mutation_parents()
    return tables.tree_sequence(), added


def other_node_map(ts):
    """node -> the other node of its (2-node) individual"""
    other = {}
    for ind in ts.individuals():
        if len(ind.nodes) == 2:
            a, b = int(ind.nodes[0]), int(ind.nodes[1])
            other[a] = b
            other[b] = a
    return other


def rephase_nodes(ts, rng, p=0.5):
    """New mutations_node array: every mutation sitting on a node of a contemporary 2-node individual is moved to
    the individual's other node with probability p."""
    other = other_node_map(ts)
    node = ts.mutations_node.copy()
    moved = 0
    t = ts.nodes_time
    for m in range(node.size):
        x = int(node[m])
        if x in other and t[x] == 0.0 and t[other[x]] == 0.0 and rng.random() < p:
            node[m] = other[x]
            moved += 1
    return node.astype(np.int32), moved


def rephase_ts(ts, rng, p=0.5):
    """Own re-phasing generator: a valid tree sequence with the singletons re-distributed."""
    import tskit
    node, moved = rephase_nodes(ts, rng, p)
    tables = ts.dump_tables()
    tables.mutations.node = node
    tables.mutations.time = np.full(tables.mutations.num_rows, tskit.UNKNOWN_TIME)
    tables.mutations.parent = np.full(tables.mutations.num_rows, NULL, dtype=np.int32)
    tables.sort()
    tables.build_index()
    tables.compute_mutation_parents()
    return tables.tree_sequence(), moved


# ----------------------------------------------------------------------------- `_block_singletons` cases

def blocks_case(ts, unph, nind=None, mnode=None, tag=""):
    return dict(
        unph=np.asarray(unph, dtype=bool),
        nind=np.asarray(ts.nodes_individual if nind is None else nind, dtype=np.int32),
        mnode=np.asarray(ts.mutations_node if mnode is None else mnode, dtype=np.int32),
        mpos=np.asarray(ts.sites_position[ts.mutations_site], dtype=np.float64),
        eparent=np.asarray(ts.edges_parent, dtype=np.int32),
        child=np.asarray(ts.edges_child, dtype=np.int32),
        left=np.asarray(ts.edges_left, dtype=np.float64),
        right=np.asarray(ts.edges_right, dtype=np.float64),
        ins=np.asarray(ts.indexes_edge_insertion_order, dtype=np.int32),
        rem=np.asarray(ts.indexes_edge_removal_order, dtype=np.int32),
        L=float(ts.sequence_length), tag=tag)


def blocks_case_replay(c):
    return dict(kind="blocks", unph=[int(x) for x in c["unph"]], nind=c["nind"].tolist(), mnode=c["mnode"].tolist(),
                mpos=[f2h(x) for x in c["mpos"]], eparent=c["eparent"].tolist(), child=c["child"].tolist(),
                left=[f2h(x) for x in c["left"]], right=[f2h(x) for x in c["right"]], ins=c["ins"].tolist(),
                rem=c["rem"].tolist(), L=f2h(c["L"]), tag=c.get("tag", ""))


def blocks_case_from_replay(d):
    return dict(unph=np.array(d["unph"], dtype=bool), nind=np.array(d["nind"], dtype=np.int32),
                mnode=np.array(d["mnode"], dtype=np.int32), mpos=np.array([h2f(x) for x in d["mpos"]], dtype=np.float64),
                eparent=np.array(d["eparent"], dtype=np.int32), child=np.array(d["child"], dtype=np.int32),
                left=np.array([h2f(x) for x in d["left"]], dtype=np.float64),
                right=np.array([h2f(x) for x in d["right"]], dtype=np.float64),
                ins=np.array(d["ins"], dtype=np.int32), rem=np.array(d["rem"], dtype=np.int32), L=h2f(d["L"]),
                tag=d.get("tag", ""))


def run_blocks_impl(c):
    """The real numba kernel. Returns ("ok", edges(list of pairs), cnt(list), span(list of hex), mblock(list)) or
    ("raise", name)."""
    from tsdate.phasing import _block_singletons
    try:
        stats, edges, mblock = _block_singletons(
            c["unph"], c["nind"], c["mnode"], c["mpos"], c["eparent"], c["child"], c["left"], c["right"],
            c["ins"], c["rem"], c["L"])
    except BaseException as e:  # noqa: BLE001
        if isinstance(e, (KeyboardInterrupt, MemoryError)):
            raise
        return ("raise", type(e).__name__)
    return ("ok", [(int(a), int(b)) for a, b in edges], [float(x) for x in stats[:, 0]],
            [f2h(x) for x in stats[:, 1]], [int(x) for x in mblock])


def encode_blocks(i, c):
    return "\n".join([
        f"case {i}", "op blocks",
        "unph " + " ".join("1" if b else "0" for b in c["unph"]),
        "nind " + " ".join(str(int(x)) for x in c["nind"]),
        "mnode " + " ".join(str(int(x)) for x in c["mnode"]),
        "mpos " + " ".join(f2h(x) for x in c["mpos"]),
        "child " + " ".join(str(int(x)) for x in c["child"]),
        "left " + " ".join(f2h(x) for x in c["left"]),
        "right " + " ".join(f2h(x) for x in c["right"]),
        "ins " + " ".join(str(int(x)) for x in c["ins"]),
        "rem " + " ".join(str(int(x)) for x in c["rem"]),
        "L " + f2h(c["L"]), "end"]) + "\n"


def _sections(parts):
    """`E a b | C c | S s | M m` -> dict letter -> list of tokens"""
    out, cur = {}, None
    for p in parts:
        if p == "|":
            cur = None
        elif cur is None:
            cur = p
            out[cur] = []
        else:
            out[cur].append(p)
    return out


def decode_blocks(parts):
    if parts == ["bad-op"]:
        return ("raise", "bad-op")
    s = _sections(parts)
    e = [int(x) for x in s.get("E", [])]
    return ("ok", list(zip(e[0::2], e[1::2])), [float(x) for x in s.get("C", [])], list(s.get("S", [])),
            [int(x) for x in s.get("M", [])])


def same_blocks(impl, model):
    if impl[0] != model[0]:
        return False
    if impl[0] == "raise":
        return True            # AssertionError <-> bad-op
    return impl[1:] == model[1:]


def mutilate_arrays(rng, ts):
    """Array-level variants for the kernel (they need not be realisable as tree sequences): random unphased mask,
    nodes stripped of their individual (both nodes: phased individual; one node: the assertion path)."""
    ni = ts.num_individuals
    nind = ts.nodes_individual.astype(np.int32).copy()
    mode = str(rng.choice(["all", "all", "mask", "none", "strip_both", "strip_one"]))
    unph = np.full(ni, True)
    if mode == "mask":
        unph = rng.random(ni) < 0.5
    elif mode == "none":
        unph = np.full(ni, False)
    elif mode == "strip_both" and ni:
        for i in rng.choice(ni, size=max(1, ni // 3), replace=False):
            nind[ts.individual(int(i)).nodes] = NULL
    elif mode == "strip_one" and ni:
        i = int(rng.integers(0, ni))
        nind[ts.individual(i).nodes[int(rng.integers(0, 2))]] = NULL
    return unph, nind, mode


# ----------------------------------------------------------------------------- `reallocate_unphased` cases

def realloc_case_synth(rng):
    """Synthetic arrays for the kernel: blocks over random distinct edge pairs, phases in [0,1] with NaN and
    (rarely) out-of-range values, counts consistent or not with the number of singletons."""
    nE = int(rng.integers(2, 14))
    nB = int(rng.integers(0, 7))
    bedges = []
    for _ in range(nB):
        i, j = rng.choice(nE, size=2, replace=False)
        bedges.append((int(i), int(j)))
    nM = int(rng.integers(0, 16))
    mblock = np.full(nM, NULL, dtype=np.int32)
    phase = np.ones(nM)
    for m in range(nM):
        if nB and rng.random() < 0.6:
            mblock[m] = int(rng.integers(0, nB))
            r = rng.random()
            phase[m] = (0.5 if r < 0.1 else 0.0 if r < 0.15 else 1.0 if r < 0.2 else float(rng.random()))
            if rng.random() < 0.05:
                phase[m] = np.nan
            if rng.random() < 0.03:
                phase[m] = float(rng.choice([-0.25, 1.5]))
    lik = np.floor(rng.uniform(0, 4, size=nE))
    mode = str(rng.choice(["consistent", "consistent", "consistent", "inconsistent"]))
    if mode == "consistent":
        # put the singletons on a block edge in the input (arbitrary "input phase") so that the totals agree
        ue = sorted({e for ij in bedges for e in ij})
        for e in ue:
            lik[e] = 0.0
        for m in range(nM):
            if mblock[m] != NULL and not np.isnan(phase[m]):
                lik[bedges[mblock[m]][int(rng.integers(0, 2))]] += 1.0
    return dict(lik=lik.astype(np.float64), mblock=mblock, phase=phase.astype(np.float64),
                bedges=np.array(bedges, dtype=np.int32).reshape(-1, 2), mode=mode)


def realloc_case_replay(c):
    return dict(kind="realloc", lik=[f2h(x) for x in c["lik"]], mblock=c["mblock"].tolist(),
                phase=[f2h(x) for x in c["phase"]], bedges=c["bedges"].tolist(), mode=c.get("mode", ""))


def realloc_case_from_replay(d):
    return dict(lik=np.array([h2f(x) for x in d["lik"]], dtype=np.float64), mblock=np.array(d["mblock"], dtype=np.int32),
                phase=np.array([h2f(x) for x in d["phase"]], dtype=np.float64),
                bedges=np.array(d["bedges"], dtype=np.int32).reshape(-1, 2), mode=d.get("mode", ""))


def run_realloc_impl(c):
    from tsdate.phasing import reallocate_unphased
    lik2 = np.zeros((c["lik"].size, 2))
    lik2[:, 0] = c["lik"]
    lik2[:, 1] = 1.0
    try:
        reallocate_unphased(lik2, c["phase"], c["mblock"], np.ascontiguousarray(c["bedges"]))
    except BaseException as e:  # noqa: BLE001
        if isinstance(e, (KeyboardInterrupt, MemoryError)):
            raise
        return ("raise", type(e).__name__)
    if np.any(lik2[:, 1] != 1.0):
        return ("ok", ["span-column-touched"])
    return ("ok", [f2h(x) for x in lik2[:, 0]])


def encode_realloc(i, c):
    return "\n".join([
        f"case {i}", "op realloc",
        "lik " + " ".join(f2h(x) for x in c["lik"]),
        "mblock " + " ".join(str(int(x)) for x in c["mblock"]),
        "phase " + " ".join(f2h(x) for x in c["phase"]),
        "bedges " + " ".join(f"{int(i)} {int(j)}" for i, j in c["bedges"]),
        "end"]) + "\n"


def decode_realloc(parts):
    if parts == ["bad-op"]:
        return ("raise", "bad-op")
    return ("ok", list(_sections(parts).get("L", [])))


# ----------------------------------------------------------------------------- the tail of `infer`

def run_fit(ts, mu, *, singletons_phased=False, ep_iterations=3, max_shape=1000.0, rescale_intervals=5,
            rescale_iterations=3, rescale_segsites=False, regularise=True):
    """Run the real ExpectationPropagation, recording (from outside) the state entering the tail of `infer` and
    every call of `reallocate_unphased`.  Returns dict(ok, stage, exc, msg, fit, pre, realloc)."""
    import tsdate.variational as V
    from . import dating
    dating.quiet()
    rec = dict(ok=False, stage="init", exc=None, msg="", fit=None, pre=None, realloc=[], where=[])
    try:
        fit = V.ExpectationPropagation(ts, mutation_rate=mu, singletons_phased=singletons_phased)
    except BaseException as e:  # noqa: BLE001
        if isinstance(e, (KeyboardInterrupt, MemoryError)):
            raise
        rec.update(exc=type(e).__name__, msg=str(e)[:200])
        return rec
    rec["fit"] = fit
    orig_pm = fit.propagate_mutations

    def pm(*a):
        orig_pm(*a)
        rec["pre"] = dict(phase=fit.mutation_phase.copy(), medge=fit.mutation_edges.copy(),
                          mnode=fit.mutation_nodes.copy(), lik_e=fit.edge_likelihoods[:, 0].copy(),
                          lik_s=fit.sizebiased_likelihoods[:, 0].copy())

    fit.propagate_mutations = pm
    orig_re = V.reallocate_unphased

    def re(lik, phase, mblock, bedges):
        r = dict(lik=lik[:, 0].copy(), phase=np.array(phase, copy=True), mblock=np.array(mblock, copy=True),
                 bedges=np.array(bedges, copy=True), out=None)
        rec["realloc"].append(r)
        orig_re(lik, phase, mblock, bedges)
        r["out"] = lik[:, 0].copy()

    V.reallocate_unphased = re
    rec["stage"] = "infer"
    try:
        fit.infer(ep_iterations=ep_iterations, max_shape=max_shape, rescale_intervals=rescale_intervals,
                  rescale_iterations=rescale_iterations, regularise=regularise, rescale_segsites=rescale_segsites)
        rec["ok"] = True
        rec["stage"] = "done"
    except BaseException as e:  # noqa: BLE001
        if isinstance(e, (KeyboardInterrupt, MemoryError)):
            raise
        import traceback
        rec.update(exc=type(e).__name__, msg=str(e)[:200],
                   where=[f.name for f in traceback.extract_tb(e.__traceback__)])
    finally:
        V.reallocate_unphased = orig_re
    return rec


def raised_in_tail(rec):
    """The exception of a failed run_fit came out of the tail of infer() itself (its own statements or
    reallocate_unphased), not out of EP or the rest of rescale()."""
    if rec["ok"] or rec["stage"] != "infer" or rec["pre"] is None:
        return False
    if rec["realloc"] and rec["realloc"][-1]["out"] is None:
        return True
    return bool(rec["where"]) and rec["where"][-1] == "infer"


def tail_case(rec, rescale_intervals, rescale_iterations, rescale_segsites):
    """Model input (state entering the tail) and the implementation's state after `infer`."""
    fit, pre = rec["fit"], rec["pre"]
    used = "lik_e" if rescale_segsites else "lik_s"
    post_lik = (fit.edge_likelihoods if rescale_segsites else fit.sizebiased_likelihoods)[:, 0]
    return dict(rescale=bool(rescale_intervals > 0 and rescale_iterations > 0),
                child=np.asarray(fit.edge_children, dtype=np.int32), bedges=np.asarray(fit.block_edges, dtype=np.int32),
                mblock=np.asarray(fit.mutation_blocks, dtype=np.int32), phase=pre["phase"], medge=pre["medge"],
                mnode=pre["mnode"], lik=pre[used],
                post=dict(medge=[int(x) for x in fit.mutation_edges], mnode=[int(x) for x in fit.mutation_nodes],
                          phase=[f2h(x) for x in fit.mutation_phase], lik=[f2h(x) for x in post_lik]))


def tail_case_replay(c):
    return dict(kind="tail", rescale=int(c["rescale"]), child=c["child"].tolist(), bedges=np.asarray(c["bedges"]).tolist(),
                mblock=c["mblock"].tolist(), phase=[f2h(x) for x in c["phase"]], medge=[int(x) for x in c["medge"]],
                mnode=[int(x) for x in c["mnode"]], lik=[f2h(x) for x in c["lik"]], post=c.get("post"))


def encode_tail(i, c, old=False):
    return "\n".join([
        f"case {i}", "op tail", f"rescale {int(c['rescale'])}", f"old {int(old)}",
        "child " + " ".join(str(int(x)) for x in c["child"]),
        "bedges " + " ".join(f"{int(i)} {int(j)}" for i, j in np.asarray(c["bedges"]).reshape(-1, 2)),
        "mblock " + " ".join(str(int(x)) for x in c["mblock"]),
        "phase " + " ".join(f2h(x) for x in c["phase"]),
        "medge " + " ".join(str(int(x)) for x in c["medge"]),
        "mnode " + " ".join(str(int(x)) for x in c["mnode"]),
        "lik " + " ".join(f2h(x) for x in c["lik"]),
        "end"]) + "\n"


def decode_tail(parts):
    if parts == ["bad-op"]:
        return None
    s = _sections(parts)
    return dict(medge=[int(x) for x in s.get("E", [])], mnode=[int(x) for x in s.get("N", [])],
                phase=list(s.get("P", [])), lik=list(s.get("L", [])))


def run_model(text):
    """Run Driver/Blocks.lean; returns dict id -> list of tokens after the id."""
    if not text:
        return {}
    out = {}
    for ln in common.lean_driver("Blocks", text):
        parts = ln.split()
        if parts:
            out[parts[0]] = parts[1:]
    return out


# ----------------------------------------------------------------------------- helpers for the oracles

def naive_counts(ts, size_biased):
    """Per-edge mutation counts straight from tskit's trees (independent of tsdate's sweep): a mutation counts
    1 (plain) or the number of samples below its node (size-biased) on the edge above its node."""
    cnt = np.zeros(ts.num_edges)
    medge = np.full(ts.num_mutations, NULL)
    for tree in ts.trees():
        for site in tree.sites():
            for m in site.mutations:
                e = tree.edge(m.node)
                if e != NULL:
                    medge[m.id] = e
                    cnt[e] += float(tree.num_samples(m.node)) if size_biased else 1.0
    return cnt, medge


def mutation_keys(ts, by_individual):
    """One key per mutation: (site position, derived state, ('i', individual) or ('n', node)).  With
    by_individual the two nodes of a 2-node individual are identified."""
    ind = ts.nodes_individual
    two = {i.id for i in ts.individuals() if len(i.nodes) == 2}
    keys = []
    for m in ts.mutations():
        who = ("i", int(ind[m.node])) if (by_individual and ind[m.node] in two) else ("n", int(m.node))
        keys.append((float(ts.sites_position[m.site]), m.derived_state, who))
    return keys


# ----------------------------------------------------------------------------- end-to-end helpers (stage C)

F5_MSG = "Use fewer rescaling intervals"


def roundtrip(ts):
    """Inputs of the end-to-end oracles go through the replay format first, so that a replay is the same input."""
    return gen.ts_from_jsonable(gen.ts_to_jsonable(ts))


def draw_date_kw(rng, info, rescale=None):
    kw = dict(max_iterations=int(rng.choice([1, 2, 3, 5])))
    r = rng.random() if rescale is None else (0.9 if rescale else 0.0)
    if r < 0.25:
        kw["rescaling_intervals"] = 0
    else:
        kw["rescaling_intervals"] = int(rng.choice([1, 2, 3, 5]))
        kw["rescaling_iterations"] = int(rng.choice([1, 3, 5]))
    if rng.random() < 0.4:
        kw["match_segregating_sites"] = True
    if rng.random() < 0.2:
        kw["max_shape"] = float(rng.choice([10.0, 100.0]))
    kw["mutation_rate"] = float(info["mu"])
    return kw


def run_vg(ts, kw, singletons_phased, return_fit=False):
    """tsdate.date(method=variational_gamma); exceptions are data."""
    from . import dating
    r = dating.run_date(ts, method="variational_gamma", singletons_phased=singletons_phased,
                        return_fit=return_fit, **kw)
    r["f5"] = (not r["ok"]) and r["exc"] == "AssertionError" and F5_MSG in r["msg"]
    return r


def _md(obj):
    md = obj.metadata
    if isinstance(md, dict):
        return (float(md.get("mn", np.nan)), float(md.get("vr", np.nan)))
    return (np.nan, np.nan)


def output_signature(out):
    """Row-order independent description of the dated output: per mutation (position, derived state, node,
    time, posterior mean, posterior variance) sorted; node times; node metadata."""
    rows = []
    for m in out.mutations():
        mn, vr = _md(m)
        rows.append((float(out.sites_position[m.site]), m.derived_state, int(m.node), float(m.time), mn, vr))
    rows.sort(key=lambda r: (r[0], r[1], r[2], r[3] if r[3] == r[3] else -1.0))
    nmd = np.array([_md(n) for n in out.nodes()], dtype=float).reshape(-1, 2)
    return dict(muts=rows, nodes_time=np.array(out.nodes_time, dtype=float), nodes_md=nmd)


def _close(a, b, rtol=1e-9):
    a = np.asarray(a, dtype=float)
    b = np.asarray(b, dtype=float)
    if a.shape != b.shape:
        return False
    if a.size == 0:
        return True
    fin = np.isfinite(a) & np.isfinite(b)
    if np.any(np.isfinite(a) != np.isfinite(b)):
        return False
    scale = max(1e-300, float(np.max(np.abs(a[fin]))) if np.any(fin) else 1.0)
    return bool(np.all(np.abs(a[fin] - b[fin]) <= rtol * np.maximum(np.abs(a[fin]), np.abs(b[fin])) + 1e-12 * scale))


def compare_signatures(s0, s1):
    """Returns list of kinds in which two dated outputs differ."""
    kinds = []
    if [r[:3] for r in s0["muts"]] != [r[:3] for r in s1["muts"]]:
        kinds.append("rephasing-changes-placement")
    else:
        if not _close([r[3] for r in s0["muts"]], [r[3] for r in s1["muts"]]):
            # same placement, different times: is it only *which* of several mutations stacked on one node at one
            # site is the older one (tskit orders those by input row order)?
            a = sorted((r[0], r[2], r[3]) for r in s0["muts"])
            b = sorted((r[0], r[2], r[3]) for r in s1["muts"])
            group = {}
            for r in s0["muts"]:
                group[(r[0], r[2])] = group.get((r[0], r[2]), 0) + 1
            mism = [(x[0], x[2]) for x, y in zip(s0["muts"], s1["muts"]) if not _close([x[3]], [y[3]])]
            if ([x[:2] for x in a] == [x[:2] for x in b] and _close([x[2] for x in a], [x[2] for x in b])
                    and all(group[g] >= 2 for g in mism)):
                kinds.append("stacked-singletons-order-follows-input-rows")
            else:
                kinds.append("rephasing-changes-mutation-times")
        if not _close([r[4:6] for r in s0["muts"]], [r[4:6] for r in s1["muts"]], rtol=1e-7):
            kinds.append("rephasing-changes-mutation-metadata")
    if not _close(s0["nodes_time"], s1["nodes_time"]):
        kinds.append("rephasing-changes-node-times")
    if not _close(s0["nodes_md"], s1["nodes_md"], rtol=1e-7):
        kinds.append("rephasing-changes-node-metadata")
    return kinds


def node_change_kinds(ts_in, ts_out, singletons_phased):
    """The first two sentences of C22 on one (input, output) pair; mutations matched per site by (derived state,
    individual-or-node), never by row."""
    kinds = []
    if singletons_phased:
        if sorted(mutation_keys(ts_in, False)) != sorted(mutation_keys(ts_out, False)):
            kinds.append("node-changed-with-singletons-phased")
    else:
        if sorted(mutation_keys(ts_in, True)) != sorted(mutation_keys(ts_out, True)):
            kinds.append("node-moved-outside-individual")
    return kinds


def count_switched(ts_in, ts_out):
    a = sorted(mutation_keys(ts_in, False))
    b = sorted(mutation_keys(ts_out, False))
    return sum(1 for x, y in zip(a, b) if x != y)


def check_counts(ts, fit, segsites, rescaled, tol=1e-9):
    """C23 stated on what `infer` leaves behind.  Returns (list of (kind, what), stats)."""
    bad = []
    lik = (fit.edge_likelihoods if segsites else fit.sizebiased_likelihoods)[:, 0]
    naive, _ = naive_counts(ts, size_biased=not segsites)
    mblock = np.asarray(fit.mutation_blocks)
    bedges = np.asarray(fit.block_edges).reshape(-1, 2)
    phase = np.asarray(fit.mutation_phase)
    medge = np.asarray(fit.mutation_edges)
    sing = np.flatnonzero(mblock != NULL)
    stats = dict(singletons=int(sing.size), blocks=int(bedges.shape[0]), switched=0, nan_phase=0)
    if not rescaled:
        if not _close(lik, naive, rtol=tol):
            bad.append(("counts-touched-without-rescaling", "rescaling disabled but the mutation counts differ from a direct tally"))
        for m in sing:
            i, j = (int(x) for x in bedges[mblock[m]])
            if int(medge[m]) == j:
                stats["switched"] += 1
            if phase[m] == phase[m] and phase[m] < 0.5 - 1e-12:
                bad.append(("final-phase-below-half", f"mutation {m}: reported phase {phase[m]} < 1/2"))
                break
        return bad, stats
    blk = np.zeros(lik.size, dtype=bool)
    blk[bedges.flatten()] = True
    exp = naive.copy()
    exp[blk] = 0.0
    exp_swapped = exp.copy()
    valid = 0
    for m in sing:
        i, j = (int(x) for x in bedges[mblock[m]])
        p = float(phase[m])
        placed = int(medge[m])
        if placed not in (i, j):
            bad.append(("placed-edge-not-in-block", f"mutation {m} placed on edge {placed}, block edges {(i, j)}"))
            continue
        if placed == j:
            stats["switched"] += 1
        if p != p:
            stats["nan_phase"] += 1
            continue
        valid += 1
        if p < 0.5 - 1e-12:
            bad.append(("final-phase-below-half", f"mutation {m}: reported phase {p} < 1/2"))
        other = j if placed == i else i
        exp[placed] += p
        exp[other] += 1 - p
        if placed == j and i != j:      # what the pre-repair order (F8) computes: shares swapped for switched singletons
            exp_swapped[placed] += 1 - p
            exp_swapped[other] += p
        else:
            exp_swapped[placed] += p
            exp_swapped[other] += 1 - p
    scale = 1.0 + float(np.max(np.abs(exp))) if exp.size else 1.0
    d_blk = np.abs(lik - exp)[blk]
    d_oth = np.abs(lik - exp)[~blk]
    if d_oth.size and np.max(d_oth) > tol * scale:
        e = int(np.flatnonzero(~blk)[np.argmax(d_oth)])
        bad.append(("other-edge-count-changed", f"edge {e} (in no block): count {lik[e]} but a direct tally gives {exp[e]}"))
    if d_blk.size and np.max(d_blk) > tol * scale:
        e = int(np.flatnonzero(blk)[np.argmax(d_blk)])
        if np.max(np.abs(lik - exp_swapped)[blk]) <= tol * scale:
            bad.append(("placed-branch-gets-smaller-share",
                        f"edge {e}: count {lik[e]}, required {exp[e]}; counts equal the allocation in which every singleton moved to the second edge of its block gives that edge the smaller share"))
        else:
            bad.append(("block-edge-count-wrong", f"edge {e}: count {lik[e]}, required {exp[e]} (sum of the placed/other shares)"))
    tot = float(np.sum(lik[blk])) if np.any(blk) else 0.0
    if abs(tot - valid) > tol * (1 + valid):
        bad.append(("singleton-total-not-one", f"block edges carry {tot} mutations in total for {valid} singletons"))
    return bad, stats
