"""
Stage B/C plumbing for C16: the Lean prior-grid model (Model/PriorGrid.lean via Driver/PriorGrid.lean, run at
Float, compared bit for bit) against `create_timepoints`, `fill_priors` + `standardize`, `nonfixed_nodes` and the
explicit-timepoints path of tsdate/prior.py.  The distribution functions are oracle data computed with scipy.
"""

import numpy as np

from . import common
from .common import Violation, f2h, h2f


def hexs(xs):
    return " ".join(f2h(x) for x in xs)


def same_bits(a, b):
    a = np.asarray(a, dtype=float)
    b = np.asarray(b, dtype=float)
    return a.shape == b.shape and all(f2h(x) == f2h(y) for x, y in zip(a, b))


# ----------------------------------------------------------------------------- distribution functions (oracle data)

def dist_funcs(distr):
    """(ppf(p, alpha, beta), cdf(t, alpha, beta)) through the same scipy.stats entry points the code uses."""
    import scipy.stats
    if distr == "lognorm":
        return (lambda p, a, b: scipy.stats.lognorm.ppf(p, s=np.sqrt(b), scale=np.exp(a)),
                lambda t, a, b: scipy.stats.lognorm.cdf(t, s=np.sqrt(b), scale=np.exp(a)))
    return (lambda p, a, b: scipy.stats.gamma.ppf(p, a, scale=1 / b),
            lambda t, a, b: scipy.stats.gamma.cdf(t, a, scale=1 / b))


def indep_cdf(distr, t, alpha, beta):
    """The same distribution functions written independently of scipy.stats' parametrisation."""
    import scipy.special
    t = np.asarray(t, dtype=float)
    with np.errstate(divide="ignore", invalid="ignore"):
        if distr == "lognorm":      # alpha = mean, beta = variance of log X
            return np.where(t > 0, scipy.special.ndtr((np.log(np.where(t > 0, t, 1.0)) - alpha) / np.sqrt(beta)), 0.0)
        return scipy.special.gammainc(alpha, beta * t)      # shape alpha, rate beta


# ----------------------------------------------------------------------------- create_timepoints

def tp_case(distr, total_tips, n_points, extra_tips=()):
    """Run the real create_timepoints and build the driver block with the oracle tables."""
    from tsdate import prior
    base = prior.ConditionalCoalescentTimes(None, distr)
    for n in extra_tips:
        base.add(n)
    base.add(total_tips)
    with np.errstate(all="ignore"):
        tp = prior.create_timepoints(base, n_points)
    params = base.prior_with_max_total_tips()
    max_tips = len(params)
    perc = np.linspace(0, 1, n_points + 1)[1:-1]
    sep = 1.0 / (n_points - 1)
    ppf, cdf = dist_funcs(distr)
    ppf_rows = {i: np.asarray(ppf(perc, params[i][0], params[i][1]), dtype=float) for i in range(2, max_tips)}
    keys = set(float(x) for x in tp[1:])
    allq = set(float(x) for r in ppf_rows.values() for x in r)
    if len(allq | keys) <= 600:
        keys |= allq
    keys = np.array(sorted(k for k in keys if k == k))
    with np.errstate(all="ignore"):
        cdf_rows = {i: np.asarray(cdf(keys, params[i][0], params[i][1]), dtype=float) for i in range(3, max_tips)}
    lines = ["op tp", f"maxtips {max_tips}", f"sep {f2h(sep)}", "perc " + hexs(perc)]
    lines += [f"ppf {i} " + hexs(r) for i, r in ppf_rows.items()]
    lines.append("cdfkeys " + hexs(keys))
    lines += [f"cdf {i} " + hexs(r) for i, r in cdf_rows.items()]
    return dict(distr=distr, total_tips=total_tips, n_points=n_points, extra_tips=list(extra_tips), tp=np.asarray(tp, dtype=float),
                params=params, perc=perc, sep=sep, ppf_rows=ppf_rows, lines=lines)


def tp_oracle(c):
    """The statement on the returned timepoints. Returns list of (kind, what)."""
    tp, distr, params, perc, sep = c["tp"], c["distr"], c["params"], c["perc"], c["sep"]
    bad = []
    if not (tp[0] == 0.0):
        bad.append(("timegrid-not-starting-at-0", f"timepoints[0] = {tp[0]!r}"))
    if not np.all(np.diff(tp) > 0):
        bad.append(("timegrid-not-strictly-increasing", f"{int(np.sum(~(np.diff(tp) > 0)))} non-increasing step(s)"))
    if not np.all(np.isfinite(tp)):
        bad.append(("timegrid-not-finite", "non-finite timepoint"))
        return bad
    allq = np.array(sorted(float(x) for r in c["ppf_rows"].values() for x in r))
    for t in tp[1:]:
        j = np.searchsorted(allq, t)
        near = min(abs(allq[min(j, len(allq) - 1)] - t), abs(allq[max(j - 1, 0)] - t))
        if near > 1e-12 * max(1.0, abs(t)):
            bad.append(("timepoint-not-a-prior-quantile", f"timepoint {t!r} is no quantile of any row's prior"))
            break
    base = set(f2h(x) for x in c["ppf_rows"][2])
    if not base <= set(f2h(x) for x in tp):
        bad.append(("base-quantiles-missing", "a quantile of the k=2 prior is not on the grid"))
    # coverage: every percentile of every row is within max_sep of a grid point (in that row's cdf)
    for i in range(3, len(params)):
        proj = indep_cdf(distr, tp[1:], params[i][0], params[i][1])
        d = np.min(np.abs(perc[:, None] - proj[None, :]), axis=1)
        if np.any(d > sep + 1e-9):
            bad.append(("quantile-coverage-gap", f"row {i}: a percentile is {float(d.max())!r} > max_sep={sep!r} away from every grid point"))
            break
    return bad


# ----------------------------------------------------------------------------- prior grids

class Capture:
    """Observe the arguments `make_discretised_prior` hands to `fill_priors` (coalescent timepoints, parameters)."""

    def __enter__(self):
        from tsdate import prior
        self.prior = prior
        self.orig = prior.fill_priors
        self.calls = []

        def wrapper(node_parameters, timepoints, ts, population_size, **kw):
            self.calls.append(dict(params=np.array(node_parameters), tp_coal=np.array(timepoints), kw=dict(kw)))
            return self.orig(node_parameters, timepoints, ts, population_size, **kw)
        prior.fill_priors = wrapper
        return self

    def __exit__(self, *a):
        self.prior.fill_priors = self.orig


def row_F(distr, tp_coal, alpha, beta):
    _, cdf = dist_funcs(distr)
    with np.errstate(all="ignore"):
        return np.asarray(cdf(tp_coal, alpha, beta), dtype=float)


def row_oracle(distr, row, tp_coal, alpha, beta):
    """The statement on one stored row."""
    bad = []
    if not np.all(np.isfinite(row)):
        return [("prior-row-not-finite", "non-finite entry")]
    if row[0] != 0.0:
        bad.append(("prior-row-nonzero-at-time-0", f"row[0] = {row[0]!r}"))
    if np.any(row < 0):
        bad.append(("prior-row-negative", f"min entry {float(row.min())!r}"))
    if row.max() != 1.0:
        bad.append(("prior-row-max-not-1", f"largest entry {float(row.max())!r}"))
    F = indep_cdf(distr, tp_coal, alpha, beta)
    mass = np.diff(F)
    if mass.max() > 0:
        want = np.concatenate([[0.0], mass / mass.max()])
        err = float(np.max(np.abs(want - row)))
        if err > 1e-7:
            bad.append(("prior-row-not-interval-masses", f"row differs from the normalised interval masses by {err:.3g}"))
    return bad


def model_blocks_row(cid, F):
    return (cid, ["op row", "F " + hexs(F)])


def run_driver(blocks):
    text = "".join(f"case {i}\n" + "\n".join(ls) + "\nend\n" for i, ls in blocks)
    out = {}
    for ln in common.lean_driver("PriorGrid", text):
        p = ln.split()
        if p:
            out[p[0]] = None if p[1:] == ["bad-op"] else p[1:]
    return out


# ----------------------------------------------------------------------------- hypotheses of the theorems

def row_hypotheses(F):
    F = np.asarray(F, dtype=float)
    mono = bool(np.all(np.diff(F) >= 0))
    M = F.max()
    pos = bool(M > 0)
    rowmax = bool(pos and np.max(np.diff(F / M)) > 0)
    return mono, pos, rowmax
