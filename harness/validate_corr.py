"""
Stage B plumbing for C35: abstract parameter classes of Model/Validate.lean <-> concrete keyword
arguments of the real `tsdate.date`, classification of real exceptions by guard site, and the
deviation lattice (all single and pairwise deviations from a valid call, random deeper ones).
"""

import itertools
import traceback

import numpy as np

from . import common

TRI = ("absent", "good", "bad")

# field -> default class per method kind, alternatives
FIELDS = dict(
    rate=("good", ["absent", "bad"]),
    pop=(None, ["absent", "good", "bad", "dictGood", "dictBad", "dictKeys"]),   # default depends on method
    priors=("0", ["1"]), ne=("0", ["1"]), rec=("0", ["1"]), rp=("0", ["1"]),
    ci=("absent", ["good", "bad"]), mbl=("absent", ["good", "bad"]),
    mi=("absent", ["good", "bad"]), ms=("absent", ["good", "bad"]), vgo=("0", ["1"]),
    eps=("absent", ["good", "bad"]), ps=("absent", ["good", "bad"]), nt=("absent", ["good", "bad"]),
    ioo=("0", ["1"]), au=("0", ["1"]), rf=("0", ["1"]), rl=("0", ["1"]),
)
INPUT_FIELDS = dict(nomut=("0", ["1"]), multi=("1", ["0"]), unary=("0", ["1"]), contemp=("1", ["0"]))
ORDER = ["method", "rate", "pop", "priors", "ne", "rec", "rp", "ci", "mbl", "mi", "ms", "vgo", "eps", "ps", "nt",
         "ioo", "au", "rf", "rl"]
IORDER = ["nomut", "multi", "unary", "contemp"]


def base_params(method):
    p = {k: v[0] for k, v in FIELDS.items()}
    p["method"] = method
    p["pop"] = "absent" if method in ("vg", "unknown") else "good"
    return p


def base_input():
    return {k: v[0] for k, v in INPUT_FIELDS.items()}


def deviations(method):
    """all (field, value) single deviations for a method (parameter and input fields)"""
    b = base_params(method)
    out = []
    for f, (_, alts) in FIELDS.items():
        for a in alts:
            if a != b[f]:
                out.append((f, a))
    for f, (_, alts) in INPUT_FIELDS.items():
        for a in alts:
            out.append((f, a))
    out.append(("method", "unknown"))
    return out


def apply_devs(method, devs):
    p, i = base_params(method), base_input()
    for f, a in devs:
        if f in i:
            i[f] = a
        else:
            p[f] = a
    return p, i


def encode(cid, p, i):
    return (f"case {cid}\np " + " ".join(f"{k}={p[k]}" for k in ORDER) + "\ni "
            + " ".join(f"{k}={i[k]}" for k in IORDER) + "\nend\n")


# ----------------------------------------------------------------------------- inputs

def make_inputs(rng):
    """One tree sequence per combination of the four input facts, facts measured with tsdate's own
    predicates.  Returns dict key -> (ts, info)."""
    import msprime
    import tskit
    from tsdate import prior as tsprior
    from tsdate import util as tsutil
    out = {}
    for nomut, multi, unary, contemp in itertools.product("01", repeat=4):
        for attempt in range(40):
            seed = int(rng.integers(1, 2**31 - 1))
            Ne = 1000.0
            if contemp == "1":
                samples = [msprime.SampleSet(4 if unary == "1" else 3, time=0, ploidy=1)]
            else:
                samples = [msprime.SampleSet(3 if unary == "1" else 2, time=0, ploidy=1),
                           msprime.SampleSet(1, time=float(rng.uniform(50, 400)), ploidy=1)]
            L = 1000.0
            rho = 0.0 if multi == "0" else 3.0 / (4 * Ne * L)
            ts = msprime.sim_ancestry(samples=samples, population_size=Ne, sequence_length=L,
                                      recombination_rate=rho, random_seed=seed, discrete_genome=True)
            if unary == "1":
                keep = [int(s) for s in ts.samples()][:-1] if contemp == "1" else [int(s) for s in ts.samples()]
                if contemp == "0":
                    # drop one contemporary sample so that its parent becomes unary
                    keep = keep[1:]
                ts = ts.simplify(keep, keep_unary=True, filter_nodes=True)
            area = float(np.sum((ts.edges_right - ts.edges_left) * (ts.nodes_time[ts.edges_parent] - ts.nodes_time[ts.edges_child])))
            mu = 8.0 * ts.num_edges / max(area, 1e-300)
            if nomut == "0":
                ts = msprime.sim_mutations(ts, rate=mu, random_seed=seed + 1, discrete_genome=True)
            # measured facts
            f_nomut = "1" if ts.num_mutations == 0 else "0"
            f_multi = "1" if ts.num_trees > 1 else "0"
            u1 = bool(tsutil.contains_unary_nodes(ts))
            try:
                u2 = bool(tsprior.has_locally_unary_nodes(ts))
            except Exception:  # noqa: BLE001
                u2 = u1
            f_contemp = "1" if np.all(ts.nodes_time[ts.samples()] == 0) else "0"
            if u1 != u2:
                continue
            if (f_nomut, f_multi, "1" if u1 else "0", f_contemp) == (nomut, multi, unary, contemp):
                # every non-sample node must have a child and every node be attached (no other rejection reasons)
                out[(nomut, multi, unary, contemp)] = (ts, dict(Ne=Ne, mu=mu, seed=seed))
                break
    return out


# ----------------------------------------------------------------------------- concretisation

_CYCLE = {}


def reset_cycle():
    _CYCLE.clear()


def pick(name, options):
    """representatives of an abstract class are used in turn, so that every one of them is exercised"""
    k = _CYCLE.get(name, 0)
    _CYCLE[name] = k + 1
    return options[k % len(options)]


def concretize(rng, p, i, ts, info, priors_cache):
    """abstract classes -> (method or None, kwargs).  Returns None if the combination has no concrete
    representative for this input (e.g. priors cannot be built)."""
    import tsdate
    kw = {}
    method = dict(vg="variational_gamma", io="inside_outside", mx="maximization", unknown="no_such_method")[p["method"]]
    mu, Ne = info["mu"], info["Ne"]
    kw["mutation_rate"] = {"absent": None, "good": float(mu * rng.choice([1.0, 0.5, 3.0])),
                           "bad": pick("c1", [0, 0.0, -1e-8, float("nan")])}[p["rate"]]
    if p["pop"] != "absent":
        kw["population_size"] = {
            "good": pick("c2", [Ne, int(Ne), "obj"]),
            "bad": pick("c3", [0, -1.0, float("nan"), float("inf")]),
            "dictGood": dict(population_size=[Ne, 2 * Ne], time_breaks=[100.0]),
            "dictBad": dict(population_size=[Ne, -2 * Ne], time_breaks=[100.0]),
            "dictKeys": dict(foo=1),
        }[p["pop"]]
        if isinstance(kw["population_size"], str):
            kw["population_size"] = tsdate.demography.PopulationSizeHistory(Ne)
    if p["priors"] == "1":
        key = (id(ts), p["au"])
        if key not in priors_cache:
            try:
                priors_cache[key] = tsdate.build_prior_grid(ts, population_size=Ne, allow_unary=(i["unary"] == "1"))
            except Exception:  # noqa: BLE001
                priors_cache[key] = None
        if priors_cache[key] is None:
            return None
        kw["priors"] = priors_cache[key]
    if p["ne"] == "1":
        kw["Ne"] = Ne
    if p["rec"] == "1":
        kw["recombination_rate"] = 1e-8
    if p["rp"] == "1":
        kw["return_posteriors"] = bool(rng.integers(0, 2))
    if p["ci"] != "absent":
        kw["constr_iterations"] = pick("ci" + p["ci"], [0, 1, 5, True] if p["ci"] == "good" else [-1, 1.0, "a", 2.5])
    if p["mbl"] != "absent":
        kw["min_branch_length"] = pick("mbl" + p["mbl"], [1e-8, 1e-3, 1.0] if p["mbl"] == "good" else [0, -1.0, float("nan")])
    if p["mi"] != "absent":
        kw["max_iterations"] = pick("mi" + p["mi"], [1, 3, 2] if p["mi"] == "good" else [0, -1, float("nan")])
    if p["ms"] != "absent":
        kw["max_shape"] = pick("ms" + p["ms"], [2.0, 1000, 1.5] if p["ms"] == "good" else [1, 0.5, float("nan")])
    if p["vgo"] == "1":
        k = int(rng.integers(0, 4))
        kw.update([dict(rescaling_intervals=int(rng.choice([0, 3]))), dict(rescaling_iterations=int(rng.choice([0, 2]))),
                   dict(match_segregating_sites=bool(rng.integers(0, 2))), dict(regularise_roots=False)][k])
    if p["eps"] != "absent":
        kw["eps"] = pick("eps" + p["eps"], [1e-8, 0, 1e-6] if p["eps"] == "good" else [-1e-8, -1.0, float("nan")])
    if p["ps"] != "absent":
        kw["probability_space"] = pick("ps" + p["ps"], ["linear", "logarithmic"] if p["ps"] == "good" else ["foo", "log"])
    if p["nt"] != "absent":
        kw["num_threads"] = pick("nt" + p["nt"], [0, 1, 1, 2] if p["nt"] == "good" else [-1, -2, -1, -3])
    if p["ioo"] == "1":
        kw.update(pick("c7", [dict(outside_standardize=bool(rng.integers(0, 2))), dict(ignore_oldest_root=bool(rng.integers(0, 2)))]))
    if p["au"] == "1":
        kw["allow_unary"] = True
    if p["rf"] == "1":
        kw["return_fit"] = True
    if p["rl"] == "1":
        kw["return_likelihood"] = True
    return method, kw


def jsonable_kw(kw):
    out = {}
    for k, v in kw.items():
        if isinstance(v, (int, float, str, bool, type(None), dict, list)):
            out[k] = repr(v) if isinstance(v, float) else v
        else:
            out[k] = f"<{type(v).__name__}>"
    return out


# ----------------------------------------------------------------------------- running and classifying

SITES = [
    ("ValueError", "method must be one of", "methodUnknown"),
    ("ValueError", "`eps` parameter has been disambiguated", "epsVariational"),
    ("ValueError", "No mutations present", "noMutations"),
    ("TypeError", "PopulationSizeHistory.__init__() got an unexpected keyword", "popDictKeys"),
    ("TypeError", "unexpected keyword argument", "foreignKeyword"),
    ("ValueError", '"return_posteriors" parameter has been deprecated', "returnPosteriors"),
    ("NotImplementedError", "recombination clock", "recombination"),
    ("ValueError", "Population sizes must be", "popValues"),
    ("ValueError", "constrained least squares iterations", "constrIterations"),
    ("ValueError", "Minimum branch length must be positive", "minBranchLength"),
    ("ValueError", "Priors are not used", "priorsUnused"),
    ("ValueError", "Population size is not used", "popUnused"),
    ("ValueError", "Maximum number of EP iterations", "maxIterations"),
    ("ValueError", "Maximum posterior shape", "maxShape"),
    ("ValueError", "requires mutation rate", "rateMissing"),
    ("ValueError", "Mutation rate must be positive", "rateNotPositive"),
    ("ValueError", "unary nodes", "unaryNodes"),
    ("ValueError", "Only provide one of Ne", "neAndPopulationSize"),
    ("ValueError", "Must specify population size", "popMissing"),
    ("ValueError", "Cannot specify population size if specifying priors", "popAndPriors"),
    ("ValueError", "noncontemporaneous", "nonContemporaneous"),
    ("NotImplementedError", "topology-only clock", "topologyOnlyClock"),
    ("ValueError", "Invalid discrete probability space", "probabilitySpace"),
    ("ValueError", "Number of processes must be at least 1", "numThreads"),
    ("ValueError", "dangling nodes", "danglingNodes"),
    ("NotImplementedError", "Samples must all be at time 0", "samplesNotAtZero"),
    ("ValueError", "disconnected nodes", "disconnectedNodes"),
    ("ValueError", "Node age constraints are inconsistent", "inconsistentConstraints"),
    ("ValueError", "Normalisation not implemented for ancient samples", "ancientSamplesNormalisation"),
    ("ValueError", "Singleton blocking assumes", "singletonBlocking"),
]


def model_site(s):
    return "popValues" if s in ("popDictValues", "popNotPositive") else s


def innermost_tsdate_frame(tb):
    site = "?"
    for fr in traceback.extract_tb(tb):
        if "/tsdate/" in fr.filename.replace("\\", "/"):
            site = f"{fr.filename.rsplit('/', 1)[-1]}:{fr.name}"
    return site


def call_date(ts, method, kw):
    """Returns (outcome string comparable with the model, detail dict)."""
    import tsdate
    import tskit
    from . import dating
    dating.quiet()
    try:
        r = tsdate.date(ts, method=method, **kw)
    except BaseException as e:  # noqa: BLE001
        if isinstance(e, (KeyboardInterrupt, MemoryError)):
            raise
        name, msg = type(e).__name__, str(e)
        for t, sub, site in SITES:
            if t == name and sub in msg:
                return f"{name}:{site}", dict(exc=name, msg=msg[:200])
        return f"{name}:?", dict(exc=name, msg=msg[:200], where=innermost_tsdate_frame(e.__traceback__))
    if isinstance(r, tuple):
        kinds = [type(x).__name__ for x in r]
    else:
        kinds = [type(r).__name__]
    fitnames = ("ExpectationPropagation", "BeliefPropagation")
    if kinds[0] != "TreeSequence":
        return "ok:?" + ",".join(kinds), dict(kinds=kinds)
    rest = kinds[1:]
    if rest == []:
        s = "ts"
    elif len(rest) == 1 and rest[0] in fitnames:
        s = "tsFit"
    elif len(rest) == 1:
        s = "tsLik"
    elif len(rest) == 2 and rest[0] in fitnames:
        s = "tsFitLik"
    else:
        s = "?" + ",".join(kinds)
    return "ok:" + s, dict(kinds=kinds)
