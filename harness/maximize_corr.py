"""
Shared code for C13 (and the maximization part of C11): run the real
`BeliefPropagation.outside_maximization` (through `tsdate.maximization(..., return_fit=True)`), hand
the implementation's own inside matrix, edge order and Poisson likelihood tables to the Lean model
(Driver/Maximize.lean) and diff the assigned grid indices; plus the Python oracle that recomputes
the documented rule from `fit.inside` and the timepoints.
"""

import numpy as np

from . import common, dating, gen
from .common import Violation, f2h, f2q


def draw_timepoints(rng, Ne):
    k = int(rng.integers(3, 10))
    kind = rng.choice(["geom", "lin", "rand"])
    if kind == "geom":
        t = Ne * np.geomspace(0.01, 8.0, k - 1)
    elif kind == "lin":
        t = Ne * np.linspace(0.05, 6.0, k - 1)
    else:
        t = np.sort(Ne * rng.uniform(0.005, 8.0, size=k - 1))
    t = np.unique(np.concatenate([[0.0], t]))
    return t


def make_input(rng, **kw):
    """A contemporaneous-sample tree sequence with several trees (=> nodes with several parents)."""
    n = int(rng.integers(2, 8))
    trees = int(rng.choice([1, 2, 3, 5, 8, 12]))
    ts, info = gen.gen_ts(rng, n=n, trees=trees, polytomy=0.2, permute=0.3, **kw)
    return ts, info


def run_impl(ts, info, space, eps, tp, method="maximization", **extra):
    """Returns dict(ok, fit, out, exc, msg)."""
    import tsdate
    dating.quiet()
    try:
        prior = tsdate.build_prior_grid(ts, population_size=info["Ne"], timepoints=tp.copy())
        fn = getattr(tsdate, method)
        out, fit = fn(ts, mutation_rate=info["mu"], priors=prior, probability_space=space, eps=eps,
                      return_fit=True, **extra)
        return dict(ok=True, fit=fit, out=out, exc=None, msg="")
    except BaseException as e:  # noqa: BLE001
        if isinstance(e, (KeyboardInterrupt, MemoryError)):
            raise
        return dict(ok=False, fit=None, out=None, exc=type(e).__name__, msg=str(e)[:200])


def poisson_fn(space):
    import scipy.stats
    return scipy.stats.poisson.logpmf if space == "logarithmic" else scipy.stats.poisson.pmf


def extract(fit, space, eps):
    """Everything the model needs, taken from the fit object of the real run."""
    ts = fit.ts
    tp = np.asarray(fit.lik.timepoints, dtype=float)
    G = tp.size
    fixed = np.zeros(ts.num_nodes, dtype=bool)
    fixed[list(fit.fixednodes)] = True
    order = [(int(e.parent), int(e.child), int(e.id)) for e in fit.edges_by_child_then_parent_desc(grouped=False)]
    inside = {u: np.array(fit.inside[u], dtype=float) for u in range(ts.num_nodes) if not fixed[u]}
    poisson = poisson_fn(space)
    mut_edges = fit.lik.mut_edges
    mu = fit.lik.mut_rate
    lik = {}
    for (p, c, eid) in order:
        if fixed[c]:
            continue
        span = ts.edge(eid).span
        rows = []
        with np.errstate(all="ignore"):
            for k in range(G):
                # exactly the expression of outside_maximization (elementwise, so a prefix of this row)
                rows.append(poisson(mut_edges[eid], (tp[k] - tp[: k + 1] + eps) * mu * span))
        lik[eid] = np.concatenate(rows)
    idx = np.searchsorted(tp, fit.posterior_mean)
    exact = bool(np.all(tp[np.minimum(idx, G - 1)] == fit.posterior_mean))
    return dict(n=ts.num_nodes, G=G, tp=tp, fixed=fixed, order=order, inside=inside, lik=lik,
                idx=idx.astype(int), on_grid=exact, space=space, eps=eps, mu=mu,
                mut_edges={eid: int(mut_edges[eid]) for (_, _, eid) in order},
                spans={eid: float(ts.edge(eid).span) for (_, _, eid) in order})


def encode(i, d, carrier="f"):
    enc = f2h if carrier == "f" else f2q
    lines = [f"case {i}", "space " + ("log" if d["space"] == "logarithmic" else "lin"), f"carrier {carrier}",
             f"n {d['n']}", f"G {d['G']}", "fixed " + " ".join("1" if b else "0" for b in d["fixed"]),
             "order " + " ".join(f"{p} {c} {e}" for (p, c, e) in d["order"])]
    for u, row in d["inside"].items():
        lines.append(f"inside {u} " + " ".join(enc(x) for x in row))
    for e, tab in d["lik"].items():
        lines.append(f"lik {e} " + " ".join(enc(x) for x in tab))
    lines.append("end")
    return "\n".join(lines) + "\n"


def run_model(cases, carrier="f"):
    """cases: list of extract() dicts. Returns {i: dict(idx, hyp_order, hyp_pos) or None}"""
    text = "".join(encode(i, d, carrier) for i, d in enumerate(cases))
    out = {}
    for ln in common.lean_driver("Maximize", text):
        parts = ln.split()
        if not parts:
            continue
        i = int(parts[0])
        if parts[1:] == ["bad-op"]:
            out[i] = None
            continue
        h = parts.index("hyp")
        out[i] = dict(idx=np.array([int(x) for x in parts[2:h]], dtype=int), hyp_order=parts[h + 1] == "1",
                      hyp_pos=parts[h + 2] == "1")
    return out


def finite_for_rat(d):
    return d["space"] == "linear" and all(np.all(np.isfinite(v)) for v in d["inside"].values()) \
        and all(np.all(np.isfinite(v)) for v in d["lik"].values())


# ----------------------------------------------------------------------------- the oracle

def groups_of(order):
    """child -> list of (parent, edge id) in iteration order"""
    g = {}
    for (p, c, e) in order:
        g.setdefault(c, []).append((p, e))
    return g


def rule_scores(d, c, idx):
    """score of the documented rule for child c at t = 0..y, from the implementation's own inside row
    and the timepoints (written independently of the model: one vectorised expression per edge)."""
    poisson = poisson_fn(d["space"])
    tp, eps, mu = d["tp"], d["eps"], d["mu"]
    parents = groups_of(d["order"])[c]
    y = min(int(idx[p]) for p, _ in parents)
    with np.errstate(all="ignore"):
        if d["space"] == "logarithmic":
            s = d["inside"][c][: y + 1].copy()
            for p, e in parents:
                s = s + poisson(d["mut_edges"][e], (tp[idx[p]] - tp[: y + 1] + eps) * mu * d["spans"][e])
        else:
            s = d["inside"][c][: y + 1].copy()
            for p, e in parents:
                s = s * poisson(d["mut_edges"][e], (tp[idx[p]] - tp[: y + 1] + eps) * mu * d["spans"][e])
    return y, s


def near_max(space, s, i, tol=1e-9):
    m = np.max(s)
    if space == "logarithmic":
        return s[i] >= m - tol * max(1.0, abs(m))
    return s[i] >= m * (1 - tol)


def oracle(d):
    """Checks the statement of C13 on the implementation's output. Returns (violations, stats)."""
    bad = []
    st = dict(multi_parent=0, min_moved=0, degenerate=0, tie_accepted=0)
    idx, G, fixed = d["idx"], d["G"], d["fixed"]
    if not d["on_grid"] or np.any(idx < 0) or np.any(idx >= G):
        bad.append(("not-a-grid-timepoint", "posterior_mean contains a value that is not one of the timepoints"))
        return bad, st
    children = groups_of(d["order"])
    for (p, c, e) in d["order"]:
        if idx[c] > idx[p]:
            bad.append(("child-later-than-parent", f"node {c} at index {idx[c]} above its parent {p} at {idx[p]}"))
            break
    for u in range(d["n"]):
        if fixed[u]:
            if idx[u] != 0:
                bad.append(("fixed-node-moved", f"sample {u} not at the first timepoint"))
            continue
        if u not in children:
            row = d["inside"][u]
            if np.any(np.isnan(row)):
                st["degenerate"] += 1
                continue
            if idx[u] != int(np.argmax(row)):
                if near_max(d["space"], row, idx[u]):
                    st["tie_accepted"] += 1
                else:
                    bad.append(("root-not-argmax-inside", f"root {u}: index {idx[u]} but argmax inside = {int(np.argmax(row))}"))
            continue
        y, s = rule_scores(d, u, idx)
        ps = {int(idx[p]) for p, _ in children[u]}
        if len(children[u]) > 1:
            st["multi_parent"] += 1
        if len(ps) > 1:
            st["min_moved"] += 1
        if np.any(np.isnan(s)) or np.max(s) == (-np.inf if d["space"] == "logarithmic" else 0.0):
            st["degenerate"] += 1
            continue
        if idx[u] > y:
            bad.append(("child-later-than-parent", f"node {u} at index {idx[u]} above its youngest parent ({y})"))
            continue
        want = int(np.argmax(s))
        if idx[u] != want:
            if near_max(d["space"], s, idx[u]):
                st["tie_accepted"] += 1
            else:
                kind = "not-argmax-of-rule-multi-parent" if len(children[u]) > 1 else "not-argmax-of-rule"
                bad.append((kind, f"node {u}: index {idx[u]} but the rule gives {want} (scores {s.tolist()[:8]})"))
    return bad, st


# ----------------------------------------------------------------------------- replay plumbing

def replay_dict(ts, info, space, eps, tp):
    return dict(kind="maximization", ts=gen.ts_to_jsonable(ts), Ne=info["Ne"], mu=info["mu"], space=space,
                eps=f2h(eps), timepoints=[f2h(x) for x in tp])


def from_replay(d):
    ts = gen.ts_from_jsonable(d["ts"])
    info = dict(Ne=d["Ne"], mu=d["mu"])
    return ts, info, d["space"], common.h2f(d["eps"]), np.array([common.h2f(x) for x in d["timepoints"]])
