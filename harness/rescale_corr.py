"""
Stage B/C plumbing for C25 and C37: the Lean `Rescale` model against the real functions of
tsdate/rescaling.py (`mutational_area`, `mutational_timescale`, `piecewise_scale_point_estimate`,
`piecewise_scale_posterior`) and the breakpoint recovery inside `ExpectationPropagation.rescale`.
"""

import contextlib
from fractions import Fraction

import numpy as np

from . import common, gen
from .common import f2h, f2q, h2f, q2frac

F5_MSG = "Use fewer rescaling intervals"
ZERO_SPAN_MSG = "Zero edge span in interval"


# ----------------------------------------------------------------------------- inputs

def tree_input_from_ts(rng, ts, mu, size_biased=None, perturb=True):
    """(times, lik[E,2], parent, child) as `rescale()` / `rescale_tree_sequence` build them"""
    from tsdate.rescaling import count_mutations
    sb = bool(rng.random() < 0.5) if size_biased is None else size_biased
    lik, _ = count_mutations(ts, size_biased=sb)
    lik = lik.copy()
    lik[:, 1] *= mu
    t = ts.nodes_time.astype(float).copy()
    mode = "asis"
    if perturb:
        mode = str(rng.choice(["asis", "jitter", "ties", "shuffle-internal", "scaled"]))
        internal = np.where(t > 0)[0]
        if mode == "jitter" and internal.size:
            t[internal] *= rng.uniform(0.5, 2.0, size=internal.size)
        elif mode == "ties" and internal.size > 1:
            k = int(rng.integers(1, internal.size))
            pick = rng.choice(internal, size=k, replace=False)
            t[pick] = t[int(rng.choice(internal))]
        elif mode == "shuffle-internal" and internal.size > 1:
            t[internal] = rng.permutation(t[internal])
        elif mode == "scaled":
            t *= float(rng.choice([1e-6, 1e-3, 1e3, 1e6]))
    return dict(times=t, lik=np.ascontiguousarray(lik), parent=ts.edges_parent.astype(np.int32),
                child=ts.edges_child.astype(np.int32), mode=mode, size_biased=sb)


def synthetic_tree_input(rng):
    """small random DAG-free inputs: arbitrary times (ties, some negative-length edges), arbitrary edges"""
    n = int(rng.integers(2, 9))
    if rng.random() < 0.5:
        t = rng.integers(0, 5, size=n).astype(float)          # many ties
    else:
        t = np.round(rng.uniform(0, 10, size=n), 2)
    t[int(rng.integers(0, n))] = 0.0
    E = int(rng.integers(1, 13))
    p = rng.integers(0, n, size=E)
    c = rng.integers(0, n, size=E)
    keep = p != c
    p, c = p[keep], c[keep]
    if p.size == 0:
        p, c = np.array([1]), np.array([0])
    y = rng.integers(0, 6, size=p.size).astype(float)
    sp = np.round(rng.uniform(0.1, 5, size=p.size), 1)
    return dict(times=t, lik=np.ascontiguousarray(np.column_stack([y, sp])), parent=p.astype(np.int32),
                child=c.astype(np.int32), mode="synthetic", size_biased=False)


def gen_breaks(rng, top=None):
    k = int(rng.integers(2, 9))
    ob = np.concatenate([[0.0], np.cumsum(np.exp(rng.uniform(-3, 3, size=k - 1)))])
    if top is not None:
        ob = ob * top / ob[-1]
    rb = np.concatenate([[0.0], np.cumsum(np.exp(rng.uniform(-3, 3, size=k - 1)))])
    return ob, rb


def gen_points(rng, ob, n=8):
    pts = [0.0] + [float(x) for x in ob]
    for x in ob[1:]:
        pts += [float(np.nextafter(x, np.inf)), float(np.nextafter(x, 0.0))]
    pts += [float(x) for x in rng.uniform(0, ob[-1] * 1.5, size=n)]
    return np.array(pts)


# ----------------------------------------------------------------------------- real code

def real_area(c):
    from tsdate.rescaling import mutational_area
    return mutational_area(c["times"], c["lik"], c["parent"], c["child"])


def real_timescale(c, max_intervals):
    """-> (origin, adjust) | ('assert', msg) | ('raise', type)"""
    from tsdate.rescaling import mutational_timescale
    fixed = np.zeros(c["times"].size, dtype=bool)
    try:
        with np.errstate(all="ignore"):
            return mutational_timescale(c["times"], c["lik"], fixed, c["parent"], c["child"], int(max_intervals))
    except AssertionError as e:
        return ("assert", str(e))
    except Exception as e:  # noqa: BLE001
        return ("raise", type(e).__name__ + ": " + str(e)[:80])


def real_pwl(xs, fixed, ob, rb):
    from tsdate.rescaling import piecewise_scale_point_estimate
    try:
        return piecewise_scale_point_estimate(np.asarray(xs, dtype=float), np.asarray(fixed, dtype=bool),
                                              np.asarray(ob, dtype=float), np.asarray(rb, dtype=float))
    except AssertionError as e:
        return ("assert", str(e))


def real_posterior(post, fixed, ob, rb, quantile_width=0.5, max_shape=1000.0):
    from tsdate.rescaling import piecewise_scale_posterior
    try:
        return piecewise_scale_posterior(np.ascontiguousarray(post, dtype=float), np.asarray(fixed, dtype=bool),
                                         np.asarray(ob, dtype=float), np.asarray(rb, dtype=float),
                                         float(quantile_width), float(max_shape))
    except AssertionError as e:
        return ("assert", str(e))


def gammainc_inv(a, q):
    from tsdate.hypergeo import _gammainc_inv
    return float(_gammainc_inv(float(a), float(q)))


def gamma_iqr(qlo, qhi, lo, hi, max_shape):
    from tsdate.approx import approximate_gamma_iqr
    return approximate_gamma_iqr(float(qlo), float(qhi), float(lo), float(hi), float(max_shape))


@contextlib.contextmanager
def record_rescale():
    """Record every call the EP `rescale()` method makes to the rescaling functions (rebinding the names
    that tsdate.variational looks up at call time; no source hooks)."""
    import tsdate.variational as v
    calls = dict(timescale=[], point=[], posterior=[])
    o_ts, o_pt, o_po = v.mutational_timescale, v.piecewise_scale_point_estimate, v.piecewise_scale_posterior

    def w_ts(nodes_time, lik, fixed, ep, ec, m):
        rec = dict(times=np.array(nodes_time, copy=True), lik=np.array(lik, copy=True), fixed=np.array(fixed, copy=True),
                   parent=np.array(ep, copy=True), child=np.array(ec, copy=True), maxint=int(m), out=None)
        calls["timescale"].append(rec)
        out = o_ts(nodes_time, lik, fixed, ep, ec, m)
        rec["out"] = (np.array(out[0], copy=True), np.array(out[1], copy=True))
        return out

    def w_pt(x, fixed, ob, rb):
        rec = dict(xs=np.array(x, copy=True), fixed=np.array(fixed, copy=True), ob=np.array(ob, copy=True),
                   rb=np.array(rb, copy=True), out=None)
        calls["point"].append(rec)
        out = o_pt(x, fixed, ob, rb)
        rec["out"] = np.array(out, copy=True)
        return out

    def w_po(post, fixed, ob, rb, qw, ms):
        rec = dict(post=np.array(post, copy=True), fixed=np.array(fixed, copy=True), ob=np.array(ob, copy=True),
                   rb=np.array(rb, copy=True), qw=float(qw), max_shape=float(ms), out=None)
        calls["posterior"].append(rec)
        out = o_po(post, fixed, ob, rb, qw, ms)
        rec["out"] = np.array(out, copy=True)
        return out

    v.mutational_timescale, v.piecewise_scale_point_estimate, v.piecewise_scale_posterior = w_ts, w_pt, w_po
    try:
        yield calls
    finally:
        v.mutational_timescale, v.piecewise_scale_point_estimate, v.piecewise_scale_posterior = o_ts, o_pt, o_po


def make_fit(ts, mu, ep_iterations=2):
    """an ExpectationPropagation object after EP, before any rescaling"""
    import tsdate.variational as v
    from . import dating
    dating.quiet()
    fit = v.ExpectationPropagation(ts, mutation_rate=mu, allow_unary=False, singletons_phased=True)
    fit.infer(ep_iterations=ep_iterations, max_shape=1000, rescale_intervals=0, rescale_iterations=0,
              regularise=True, rescale_segsites=False)
    return fit


# ----------------------------------------------------------------------------- statement-level references

def direct_overlap(c):
    """The statement of the property for mutational_area, computed directly in exact rationals:
    for every interval between consecutive distinct node times, the sum over edges of positive length that span it
    of (mutations / length) and of span."""
    t = [Fraction(float(x)) for x in c["times"]]
    d = sorted(set(t))
    counts, offset = [], []
    for k in range(len(d) - 1):
        lo, hi = d[k], d[k + 1]
        cy = Fraction(0)
        cs = Fraction(0)
        for e in range(len(c["parent"])):
            tp, tc = t[int(c["parent"][e])], t[int(c["child"][e])]
            if tp > tc and tc <= lo and hi <= tp:
                cy += Fraction(float(c["lik"][e, 0])) / (tp - tc)
                cs += Fraction(float(c["lik"][e, 1]))
        counts.append(cy)
        offset.append(cs)
    dur = [d[k + 1] - d[k] for k in range(len(d) - 1)]
    if d:
        dur = ([d[1] - 0] + dur[1:]) if len(d) > 1 else []          # the code's epoch_breaks[0] is 0.0, not min(t)
    index = [sum(1 for x in d if x < ti) for ti in t]
    return counts, offset, dur, index


def pwl_reference(ob, rb, x):
    """piecewise-linear interpolation through (ob, rb), constant after the last break, in exact rationals"""
    ob = [Fraction(float(v)) for v in ob]
    rb = [Fraction(float(v)) for v in rb]
    x = Fraction(float(x))
    if x >= ob[-1]:
        return rb[-1]
    i = max(k for k in range(len(ob)) if ob[k] <= x)
    return rb[i] + (rb[i + 1] - rb[i]) / (ob[i + 1] - ob[i]) * (x - ob[i])


# ----------------------------------------------------------------------------- line protocol

def _v(xs, num):
    f = f2h if num == "f" else f2q
    return " ".join(f(x) for x in xs)


def _tree_lines(c, num):
    return ["times " + _v(c["times"], num), "y " + _v(c["lik"][:, 0], num), "span " + _v(c["lik"][:, 1], num),
            "edges " + " ".join(f"{int(p)} {int(ch)}" for p, ch in zip(c["parent"], c["child"]))]


def enc_area(i, c, num="f"):
    return "\n".join([f"case {i}", "op area", f"num {num}"] + _tree_lines(c, num) + ["end"]) + "\n"


def enc_timescale(i, c, maxint, num="f"):
    return "\n".join([f"case {i}", "op timescale", f"num {num}"] + _tree_lines(c, num) + [f"maxint {int(maxint)}", "end"]) + "\n"


def enc_pwl(i, xs, fixed, ob, rb, num="f"):
    return "\n".join([f"case {i}", "op pwl", f"num {num}", "xs " + _v(xs, num),
                      "fixed " + " ".join("1" if b else "0" for b in fixed), "ob " + _v(ob, num), "rb " + _v(rb, num),
                      "end"]) + "\n"


def enc_post(i, alpha, beta, qlo, qhi, ob, rb, num="f"):
    return "\n".join([f"case {i}", "op post", f"num {num}", "alpha " + _v(alpha, num), "beta " + _v(beta, num),
                      "qlo " + _v(qlo, num), "qhi " + _v(qhi, num), "ob " + _v(ob, num), "rb " + _v(rb, num), "end"]) + "\n"


def enc_recover(i, rbreaks, rtimes, times, fixed, num="f"):
    return "\n".join([f"case {i}", "op recover", f"num {num}", "rbreaks " + _v(rbreaks, num), "rtimes " + _v(rtimes, num),
                      "times " + _v(times, num), "fixed " + " ".join("1" if b else "0" for b in fixed), "end"]) + "\n"


def parse_reply(line, num="f"):
    """-> 'assert' | 'bad-op' | dict tag -> list"""
    head, _, rest = line.partition(" ")
    rest = rest.strip()
    if rest in ("assert", "bad-op"):
        return rest
    conv = h2f if num == "f" else q2frac
    out = {}
    for grp in rest.split("|"):
        w = grp.split()
        if w:
            out[w[0]] = [int(x) for x in w[1:]] if w[0] == "i" else [conv(x) for x in w[1:]]
    return out


class Batch:
    def __init__(self):
        self.parts, self.nums, self.out = [], [], None

    def add(self, enc, *args, num="f"):
        i = len(self.parts)
        self.parts.append(enc(i, *args, num=num))
        self.nums.append(num)
        return i

    def run(self):
        lines = common.lean_driver("Rescale", "".join(self.parts)) if self.parts else []
        self.out = {}
        for ln in lines:
            if ln.strip():
                cid = int(ln.split()[0])
                self.out[cid] = parse_reply(ln, self.nums[cid])

    def get(self, i):
        return self.out.get(i)


def bits_equal(a, b):
    a, b = list(a), list(b)
    return len(a) == len(b) and all(f2h(x) == f2h(y) for x, y in zip(a, b))


def max_ulps(a, b):
    a, b = list(a), list(b)
    if len(a) != len(b):
        return float("inf")
    m = 0
    for x, y in zip(a, b):
        if not (np.isfinite(x) and np.isfinite(y)):
            if f2h(x) != f2h(y):
                return float("inf")
            continue
        m = max(m, common.ulps(float(x), float(y)))
    return m
