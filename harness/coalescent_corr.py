"""
Stage B for C14: the Lean model of the conditional-coalescent recursion (Model/Coalescent.lean, run at
Rat by Driver/Coalescent.lean) against the real functions of tsdate/prior.py, plus the independent
closed form (Wiuf & Donnelly) evaluated in Python `fractions` for the oracle.
"""

from fractions import Fraction
from math import comb

import numpy as np

from . import common
from .common import Violation, f2h, f2q, h2f, q2frac

RTOL = 1e-9          # tolerance policy of DESIGN §2.2 (observed ~1e-14)


def rel(a, b):
    a = float(a)
    b = float(b)
    if a == b:
        return 0.0
    if not (np.isfinite(a) and np.isfinite(b)):
        return float("inf")
    return abs(a - b) / max(abs(a), abs(b), 1e-300)


# ----------------------------------------------------------------------------- closed form (spec, Python side)

def closed_form(n):
    """{k: (mean, var)} for k = 2..n as exact Fractions from P(a|k,n) = C(a,2)C(n-a-1,k-2)/C(n,k+1)."""
    m = [Fraction(0)] * (n + 2)
    v = [Fraction(0)] * (n + 2)
    for a in range(n - 1, 0, -1):        # m[a] = sum_{i=a+1}^{n} 2/(i(i-1))
        r = Fraction(2, (a + 1) * a)
        m[a] = m[a + 1] + r
        v[a] = v[a + 1] + r * r
    out = {}
    for k in range(2, n):
        den = comb(n, k + 1)
        m1 = Fraction(0)
        m2 = Fraction(0)
        tot = 0
        for a in range(2, n - k + 2):
            w = comb(a, 2) * comb(n - a - 1, k - 2)
            tot += w
            m1 += w * m[a]
            m2 += w * (v[a] + m[a] * m[a])
        assert tot == den, (n, k)
        m1 /= den
        m2 /= den
        out[k] = (m1, m2 - m1 * m1)
    out[n] = (m[1], v[1])
    return out


# ----------------------------------------------------------------------------- model runs

def run_driver(blocks):
    """blocks: list of (id, lines). Returns {id: tokens or None}."""
    text = "".join(f"case {i}\n" + "\n".join(ls) + "\nend\n" for i, ls in blocks)
    out = {}
    for ln in common.lean_driver("Coalescent", text):
        p = ln.split()
        if p:
            out[p[0]] = None if p[1:] == ["bad-op"] else p[1:]
    return out


def blocks_ccv(ns):
    return [(f"ccv{n}", ["op ccv", f"n {n}"]) for n in ns]


def model_ccv(ns, res=None):
    """{n: {k: (mean, var)}} from the Lean model at Rat."""
    res = run_driver(blocks_ccv(ns)) if res is None else res
    out = {}
    for n in ns:
        t = res.get(f"ccv{n}")
        if t is None:
            out[n] = None
            continue
        out[n] = {int(t[j]): (q2frac(t[j + 1]), q2frac(t[j + 2])) for j in range(0, len(t), 3)}
    return out


def impl_moments(n):
    """The two moment columns the real code feeds to / gets from `_marginalize_over_ancestors`."""
    from tsdate import prior
    rates = np.array([2 / (i * (i - 1)) if i > 1 else 0.0 for i in range(1, n + 1)])
    mean = rates.copy()
    variance = rates.copy() ** 2
    for i in range(rates.size - 2, 0, -1):
        mean[i] += mean[i + 1]
        variance[i] += variance[i + 1]
    return prior._marginalize_over_ancestors(np.stack((mean, variance + mean**2), 1))


def corr_ccv(ns, stats, res=None):
    """conditional_coalescent_variance(n) and the first-moment column vs the model, all k."""
    from tsdate import prior
    fails = []
    model = model_ccv(ns, res)
    worst = 0.0
    for n in ns:
        v = prior.conditional_coalescent_variance(n)
        mom = impl_moments(n)
        md = model[n]
        if md is None or sorted(md) != list(range(2, n + 1)) or len(v) != n + 1:
            fails.append(Violation("ccv-model-shape", f"model output for n={n} missing or wrong shape",
                                   dict(kind="ccv", n=n), stage="B"))
            continue
        bad = []
        for k in range(2, n + 1):
            e_var = rel(md[k][1], v[k])
            e_mean = rel(md[k][0], mom[k, 0])
            worst = max(worst, e_var, e_mean)
            if not (e_var <= RTOL and e_mean <= RTOL):
                bad.append((k, e_mean, e_var))
        if v[0] != 0.0 or v[1] != 0.0:
            bad.append((0, float(v[0]), float(v[1])))
        if bad:
            k, em, ev = bad[0]
            fails.append(Violation("ccv-model-differs",
                                   f"conditional_coalescent_variance({n}) differs from the Lean model at {len(bad)} k "
                                   f"(first k={k}: rel err mean {em:.3g}, var {ev:.3g})",
                                   dict(kind="ccv", n=n), stage="B"))
    stats["ccv_worst_rel"] = max(stats.get("ccv_worst_rel", 0.0), worst)
    return model, fails


def cases_marg(rng, n_cases, nmax):
    cases = []
    for i in range(n_cases):
        n = int(rng.integers(2, nmax + 1))
        mode = str(rng.choice(["int", "dyadic", "unit"]))
        if mode == "int":
            val = rng.integers(1, 1000, size=n).astype(float)
        elif mode == "dyadic":
            val = rng.integers(1, 2**20, size=n) / 2.0**10
        else:
            val = np.zeros(n)
            val[int(rng.integers(1, n))] = 1.0     # picks out a single Pr(a | k, n)
        cases.append((i, n, val, mode))
    return cases


def blocks_marg(cases):
    return [(f"m{i}", ["op marg", f"n {n}", "val " + " ".join(f2q(x) for x in val)]) for i, n, val, _ in cases]


def corr_marg(cases, stats, res=None):
    """`_marginalize_over_ancestors` on arbitrary positive columns vs the model."""
    from tsdate import prior
    res = run_driver(blocks_marg(cases)) if res is None else res
    fails = []
    worst = 0.0
    for i, n, val, mode in cases:
        out = prior._marginalize_over_ancestors(np.stack((val, val), 1))
        t = res.get(f"m{i}")
        md = None if t is None else {int(t[j]): q2frac(t[j + 1]) for j in range(0, len(t), 2)}
        ok = md is not None and sorted(md) == list(range(2, n + 1))
        if ok:
            for k in range(2, n + 1):
                e = rel(md[k], out[k, 0])
                if float(md[k]) == 0.0 and abs(out[k, 0]) < 1e-300:
                    e = 0.0
                worst = max(worst, e)
                if not e <= RTOL:
                    ok = False
                    break
        if not ok:
            fails.append(Violation("marg-model-differs",
                                   f"_marginalize_over_ancestors differs from the Lean model (n={n}, {mode} column)",
                                   dict(kind="marg", n=n, val=[f2h(x) for x in val]), stage="B"))
    stats["marg_worst_rel"] = max(stats.get("marg_worst_rel", 0.0), worst)
    stats["marg_cases"] = stats.get("marg_cases", 0) + len(cases)
    return fails


def blocks_tau(ns):
    return [(f"t{n}", ["op tau", f"n {n}"]) for n in ns]


def corr_tau(ns, stats, res=None):
    from tsdate import prior
    res = run_driver(blocks_tau(ns)) if res is None else res
    fails = []
    for n in ns:
        t = res.get(f"t{n}")
        ok = t is not None and len(t) == 2 * (n - 1) + 2 and t[-2] == "mrca"
        if ok:
            for j in range(0, 2 * (n - 1), 2):
                k = int(t[j])
                te = prior.ConditionalCoalescentTimes.tau_expect(np.int64(k), n)
                if rel(q2frac(t[j + 1]), te) > 1e-14:
                    ok = False
            if rel(q2frac(t[-1]), prior.ConditionalCoalescentTimes.tau_var_mrca(n)) > 1e-12:
                ok = False
        if not ok:
            fails.append(Violation("tau-model-differs", f"tau_expect / tau_var_mrca differ from the Lean model for n={n}",
                                   dict(kind="tau", n=n), stage="B"))
    stats["tau_ns"] = len(ns)
    return fails


def blocks_approx(pairs):
    blocks = []
    for i, (m, v) in enumerate(pairs):
        blocks.append((f"g{i}", ["op gamma", f"m {f2q(m)}", f"v {f2q(v)}"]))
        blocks.append((f"l{i}", ["op lognorm", f"m {f2h(m)}", f"v {f2h(v)}"]))
    return blocks


def corr_approx(pairs, stats, res=None):
    """gamma_approx (Rat model) and lognorm_approx (Float model) on (mean, var) pairs."""
    from tsdate import prior
    res = run_driver(blocks_approx(pairs)) if res is None else res
    fails = []
    worst_l = 0
    for i, (m, v) in enumerate(pairs):
        ga, gb = prior.gamma_approx(m, v)
        la, lb = prior.lognorm_approx(m, v)
        g = res.get(f"g{i}")
        ln = res.get(f"l{i}")
        okg = g is not None and rel(q2frac(g[0]), ga) <= 1e-13 and rel(q2frac(g[1]), gb) <= 1e-13
        okl = ln is not None
        if okl:
            ma, mb = h2f(ln[0]), h2f(ln[1])
            # same IEEE operations; libm log may differ by an ulp and alpha subtracts two logs
            tol = 8 * np.finfo(float).eps * max(abs(np.log(m)), abs(lb), 1e-300)
            okl = abs(ma - la) <= tol and abs(mb - lb) <= 4 * np.finfo(float).eps * max(abs(lb), 1e-300) + 1e-300
            worst_l = max(worst_l, common.ulps(mb, float(lb)) if np.isfinite(mb) and np.isfinite(lb) else 0)
        if not (okg and okl):
            fails.append(Violation("approx-model-differs",
                                   f"{'gamma_approx' if not okg else 'lognorm_approx'} differs from the Lean model "
                                   f"at mean={m!r}, var={v!r}",
                                   dict(kind="approx", m=f2h(m), v=f2h(v)), stage="B"))
    stats["approx_pairs"] = stats.get("approx_pairs", 0) + len(pairs)
    stats["lognorm_beta_worst_ulps"] = max(stats.get("lognorm_beta_worst_ulps", 0), int(worst_l))
    return fails
