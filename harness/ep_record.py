"""
Record the argument vectors that real `variational_gamma` runs hand to the EP moment kernels (C18's quantifier:
"cavity shapes/rates, mutation counts, spans and fixed ages in the ranges EP produces").

Run as a *subprocess* with NUMBA_DISABLE_JIT=1 (set here before numba is imported): tsdate then executes as plain
Python, so the 14 `tsdate.approx.*_projection` wrappers — looked up on the module at call time by the closures in
`tsdate/variational.py` — can be rebound to recording wrappers.  No source hook, nothing in /repo is touched.

    python -m harness.ep_record <seed> <n_tree_sequences> <out.json> [per_kernel]

Output: {"vectors": {wrapper name: [flat arg vector, ...]}, "calls": {wrapper: total calls}, "runs": [...]}
(a uniform reservoir sample of at most `per_kernel` calls per wrapper over all runs).
"""

import json
import os
import sys

os.environ["NUMBA_DISABLE_JIT"] = "1"


def main(argv):
    seed, n_ts, out = int(argv[1]), int(argv[2]), argv[3]
    cap = int(argv[4]) if len(argv) > 4 else 400
    from . import common
    common.setup_env()
    import numpy as np
    import tsdate
    from tsdate import approx

    from . import gen
    rng = np.random.default_rng([seed, 1818])
    vectors, calls = {}, {}

    def wrap(name):
        f = getattr(approx, name)

        def w(*args):
            flat = []
            for a in args:
                flat += np.asarray(a, dtype=float).ravel().tolist()
            k = calls.get(name, 0)
            calls[name] = k + 1
            res = vectors.setdefault(name, [])
            if len(res) < cap:
                res.append(flat)
            else:
                j = int(rng.integers(0, k + 1))
                if j < cap:
                    res[j] = flat
            return f(*args)
        setattr(approx, name, w)

    for n in dir(approx):
        if n.endswith("_projection"):
            wrap(n)
    runs = []
    for i in range(n_ts):
        historical = rng.random() < 0.35
        n = int(rng.integers(3, 14))
        trees = int(rng.choice([1, 2, 3, 5, 8, 15]))
        mpe = float(rng.choice([0.3, 1, 3, 8]))
        ploidy = 2 if rng.random() < 0.45 else 1
        try:
            ts, info = gen.sim_ts(rng, n=n, trees=trees, muts_per_edge=mpe, historical=historical, ploidy=ploidy)
        except Exception as e:  # generator trouble is not our subject
            runs.append(dict(error=f"gen: {type(e).__name__}"))
            continue
        if ts.num_mutations == 0:
            continue
        internal = 0
        if rng.random() < 0.35:
            # internal samples: flag one or two non-sample nodes as samples (fixed at their true age), so that the
            # fixed-parent kernels (leafward, sideways, ...) are reached
            import tskit
            tables = ts.dump_tables()
            flags = tables.nodes.flags.copy()
            cand = np.where((flags & tskit.NODE_IS_SAMPLE) == 0)[0]
            cand = cand[np.isin(cand, ts.edges_child)]           # not a root
            if cand.size:
                pick = rng.choice(cand, size=min(cand.size, int(rng.integers(1, 3))), replace=False)
                flags[pick] |= tskit.NODE_IS_SAMPLE
                tables.nodes.flags = flags
                ts = tables.tree_sequence()
                internal = int(pick.size)
        kw = dict(mutation_rate=info["mu"] * float(rng.choice([1, 1, 1e-3, 1e3])))
        if ploidy == 2 and rng.random() < 0.7:
            kw["singletons_phased"] = False
        if rng.random() < 0.4:
            kw["rescaling_intervals"] = int(rng.choice([0, 1, 10]))
        if rng.random() < 0.3:
            kw["max_iterations"] = int(rng.choice([1, 5, 50]))
        if rng.random() < 0.2:
            kw["max_shape"] = float(rng.choice([10, 100]))
        rec = dict(n=n, trees=int(ts.num_trees), muts=int(ts.num_mutations), historical=bool(historical), internal_samples=internal,
                   kw={k: (v if not isinstance(v, float) else repr(v)) for k, v in kw.items()})
        try:
            with np.errstate(all="ignore"):
                tsdate.date(ts, method="variational_gamma", progress=False, **kw)
            rec["ok"] = True
        except Exception as e:
            rec["ok"] = False
            rec["exc"] = f"{type(e).__name__}: {str(e)[:80]}"
        runs.append(rec)
    json.dump(dict(vectors=vectors, calls=calls, runs=runs), open(out, "w"))


if __name__ == "__main__":
    main(sys.argv)
