"""
Stage B (and the naive oracles of stage C) for the sweep cluster: C24 (`_count_mutations`,
`mutation_span_array`, custom sample sets) and C30 (`_contains_unary_nodes`, `has_locally_unary_nodes`).

The Lean models (Model/Sweep, Model/CountMut, Model/Unary) are run through Driver/Sweep.lean at Float on
inputs serialised from real tskit tree sequences (edge table + tskit's own insertion/removal indexes +
mutation nodes/positions + masks) and compared with the real numba kernels: integers exactly, floats
bit-for-bit (the model performs the same IEEE operations in the same order as the kernel).
"""

import numpy as np

from . import common, gen
from .common import Violation, f2h, h2f


# ----------------------------------------------------------------------------- inputs

def tables_of(ts):
    return dict(
        L=float(ts.sequence_length), N=int(ts.num_nodes),
        left=np.ascontiguousarray(ts.edges_left, dtype=np.float64),
        right=np.ascontiguousarray(ts.edges_right, dtype=np.float64),
        parent=np.ascontiguousarray(ts.edges_parent, dtype=np.int32),
        child=np.ascontiguousarray(ts.edges_child, dtype=np.int32),
        ins=np.ascontiguousarray(ts.indexes_edge_insertion_order, dtype=np.int32),
        rem=np.ascontiguousarray(ts.indexes_edge_removal_order, dtype=np.int32),
        mnode=np.ascontiguousarray(ts.mutations_node, dtype=np.int32),
        mpos=np.ascontiguousarray(ts.sites_position[ts.mutations_site], dtype=np.float64),
        ntime=np.ascontiguousarray(ts.nodes_time, dtype=np.float64),
        flags=np.ascontiguousarray(ts.nodes_flags, dtype=np.int64),
        breaks=np.ascontiguousarray(ts.breakpoints(as_array=True), dtype=np.float64),
    )


def shuffle_ties(rng, tb):
    """Another valid pair of indexes: permute edges within groups of equal left / right coordinate."""
    out = dict(tb)
    for name, key in (("ins", tb["left"]), ("rem", tb["right"])):
        idx = tb[name].copy()
        k = key[idx]
        i = 0
        while i < idx.size:
            j = i
            while j < idx.size and k[j] == k[i]:
                j += 1
            idx[i:j] = rng.permutation(idx[i:j])
            i = j
        out[name] = np.ascontiguousarray(idx, dtype=np.int32)
    return out


def scale_coordinates(ts, c):
    """Multiply every genomic coordinate by c (non-integer coordinates; order and equalities kept
    because x -> fl(c*x) is monotone; equal inputs give equal outputs)."""
    t = ts.dump_tables()
    import tskit
    new = tskit.TableCollection(sequence_length=float(ts.sequence_length) * c)
    new.nodes.replace_with(t.nodes)
    new.individuals.replace_with(t.individuals)
    new.populations.replace_with(t.populations)
    new.edges.set_columns(left=t.edges.left * c, right=t.edges.right * c, parent=t.edges.parent, child=t.edges.child)
    pos = t.sites.position * c
    if np.unique(pos).size != pos.size or (pos.size and pos.max() >= new.sequence_length):
        return None
    new.sites.set_columns(position=pos, ancestral_state=t.sites.ancestral_state,
                          ancestral_state_offset=t.sites.ancestral_state_offset)
    new.mutations.replace_with(t.mutations)
    new.mutations.time = np.full(t.mutations.num_rows, tskit.UNKNOWN_TIME)
    try:
        new.sort()
        new.build_index()
        new.compute_mutation_parents()
        return new.tree_sequence()
    except Exception:
        return None


def keep_unary_subset(ts, rng):
    """Simplify to a subset of the samples keeping unary nodes (plenty of locally unary nodes)."""
    s = list(ts.samples())
    if len(s) < 3:
        return None
    k = int(rng.integers(2, len(s)))
    sub = sorted(int(x) for x in rng.choice(s, size=k, replace=False))
    try:
        return ts.simplify(sub, keep_unary=True, filter_sites=False)
    except Exception:
        return None


def add_site_mutations(ts, rng, k=2, where="any"):
    """k new sites with one mutation each on a random node that is in the tree there (where='any') or on
    any sample node even when it is isolated there (where='sample')."""
    import tskit
    tables = ts.dump_tables()
    used = set(float(x) for x in tables.sites.position)
    L = ts.sequence_length
    added = 0
    for _ in range(20 * k):
        if added >= k:
            break
        pos = float(np.floor(rng.uniform(0, L))) if L >= 4 else float(rng.uniform(0, L))
        if pos in used or not (0 <= pos < L):
            continue
        if where == "sample":
            node = int(rng.choice(ts.samples()))
        else:
            tree = ts.at(pos)
            nodes = [u for u in tree.nodes()]
            if not nodes:
                continue
            node = int(rng.choice(nodes))
        s = tables.sites.add_row(position=pos, ancestral_state="A")
        tables.mutations.add_row(site=s, node=node, derived_state="T", time=tskit.UNKNOWN_TIME)
        used.add(pos)
        added += 1
    tables.mutations.time = np.full(tables.mutations.num_rows, tskit.UNKNOWN_TIME)
    tables.sort()
    tables.build_index()
    tables.compute_mutation_parents()
    return tables.tree_sequence(), added


def delete_flanks(ts, rng):
    L = ts.sequence_length
    if L < 12:
        return ts
    a = float(np.floor(rng.uniform(1, L / 4)))
    b = float(np.ceil(rng.uniform(3 * L / 4, L - 1)))
    which = rng.integers(0, 3)
    ivs = [[0, a]] if which == 0 else ([[b, L]] if which == 1 else [[0, a], [b, L]])
    return ts.delete_intervals(ivs, simplify=False)


def add_dead_branch(ts, rng):
    """Attach a new non-sample leaf (no samples below it) under a random parent over part of one of
    the parent's edges: tskit's node iterators do not visit such nodes, the kernels must."""
    if ts.num_edges == 0:
        return ts, 0
    t = ts.dump_tables()
    e = ts.edge(int(rng.integers(0, ts.num_edges)))
    tp = ts.nodes_time[e.parent]
    if not tp > 0:
        return ts, 0
    l, r = e.left, e.right
    if r - l >= 2 and rng.random() < 0.7:
        mid = float(np.floor(rng.uniform(l + 1, r)))
        (l, r) = (l, mid) if rng.random() < 0.5 else (mid, r)
    u = t.nodes.add_row(flags=0, time=float(tp) / 2)
    t.edges.add_row(l, r, e.parent, u)
    try:
        t.sort()
        t.build_index()
        t.compute_mutation_parents()
        return t.tree_sequence(), 1
    except Exception:
        return ts, 0


def truncate_edge(ts, rng):
    """Cut away the left or the right part of one edge (its child is a root there).  On a simplified input
    this creates a *single* unary event: the parent loses one child at the cut (edge removed) or gains it
    there (edge inserted), while its other edges are unchanged at that position."""
    if ts.num_edges == 0:
        return ts, None
    t = ts.dump_tables()
    cand = [e for e in ts.edges() if e.right - e.left >= 2]
    if not cand:
        return ts, None
    e = cand[int(rng.integers(0, len(cand)))]
    mid = float(np.floor(rng.uniform(e.left + 1, e.right)))
    keep_left = bool(rng.random() < 0.5)
    left = t.edges.left.copy()
    right = t.edges.right.copy()
    if keep_left:
        right[e.id] = mid
    else:
        left[e.id] = mid
    t.edges.set_columns(left=left, right=right, parent=t.edges.parent, child=t.edges.child)
    try:
        t.sort()
        t.build_index()
        t.compute_mutation_parents()
        return t.tree_sequence(), ("removal" if keep_left else "insertion")
    except Exception:
        return ts, None


def truncate_leaf_edge(ts, rng):
    """Cut away part of one edge above a sample node: that sample is isolated there (missing data on one
    haplotype)."""
    t = ts.dump_tables()
    samples = set(int(u) for u in ts.samples())
    cand = [e for e in ts.edges() if e.child in samples and e.right - e.left >= 3]
    if not cand:
        return None
    e = cand[int(rng.integers(0, len(cand)))]
    a = float(np.floor(rng.uniform(e.left + 1, e.right - 1)))
    left = t.edges.left.copy()
    right = t.edges.right.copy()
    if rng.random() < 0.5:
        right[e.id] = a
    else:
        left[e.id] = a
    t.edges.set_columns(left=left, right=right, parent=t.edges.parent, child=t.edges.child)
    try:
        t.sort()
        t.build_index()
        t.compute_mutation_parents()
        return t.tree_sequence()
    except Exception:
        return None


def gen_single_event(rng):
    """A clean simulated input (no unary nodes) with exactly one edge truncated."""
    ts, info = gen.sim_ts(rng, n=int(rng.integers(3, 9)), trees=int(rng.choice([1, 1, 2, 3, 5, 8])),
                          historical=bool(rng.random() < 0.3))
    ts2, how = truncate_edge(ts, rng)
    info = dict(info)
    info["fired"] = (["historical"] if info.get("historical") else []) + ([f"single_event_{how}"] if how else [])
    info.update(trees=ts2.num_trees, nodes=ts2.num_nodes, edges=ts2.num_edges, muts=ts2.num_mutations, sites=ts2.num_sites)
    return ts2, info


EXTRA_FLAG_BITS = [1 << 17, 1 << 18, 1 << 20, 1 << 30, 2, 1 << 16, 1 << 19]


def add_flag_bits(ts, rng, mode=None):
    """Set flag bits other than NODE_IS_SAMPLE (bit 0) on nodes: msprime's RE/CA/MIG event bits, tsinfer-like
    and user bits.  mode 'unary': every locally unary non-sample node gets one (plus a few others);
    'random': a random subset of all nodes, samples included (their bit 0 is kept)."""
    mode = mode or str(rng.choice(["unary", "unary", "random"]))
    flags = ts.nodes_flags.astype(np.uint32).copy()
    n = ts.num_nodes
    if mode == "unary":
        pick = np.zeros(n, dtype=bool)
        un = sorted(naive_unary_nodes(ts))
        pick[un] = True
        pick |= rng.random(n) < 0.15
    else:
        pick = rng.random(n) < 0.5
    for u in np.where(pick)[0]:
        k = int(rng.integers(1, 3))
        for b in rng.choice(EXTRA_FLAG_BITS, size=k, replace=False):
            flags[u] |= np.uint32(int(b))
    t = ts.dump_tables()
    t.nodes.flags = flags
    return t.tree_sequence(), mode


def gen_full_arg(rng):
    """msprime full ARG: recombination / common-ancestor nodes carry NODE_IS_RE_EVENT / NODE_IS_CA_EVENT and
    are unary in the local trees."""
    import msprime
    n = int(rng.integers(2, 6))
    seed = int(rng.integers(1, 2**31 - 1))
    L = float(rng.choice([1e3, 1e4]))
    trees = int(rng.choice([2, 3, 5]))
    Ne = 1e3
    rho = (trees - 1) / (4 * Ne * L * sum(1.0 / i for i in range(1, max(2, n))))
    ts = msprime.sim_ancestry(samples=[msprime.SampleSet(n, ploidy=1)], population_size=Ne, sequence_length=L,
                              recombination_rate=rho, record_full_arg=True, random_seed=seed, discrete_genome=True)
    area = float(np.sum((ts.edges_right - ts.edges_left) * (ts.nodes_time[ts.edges_parent] - ts.nodes_time[ts.edges_child])))
    mu = 3.0 * ts.num_edges / max(area, 1e-300)
    ts = msprime.sim_mutations(ts, rate=mu, random_seed=seed + 1, discrete_genome=True)
    info = dict(n=n, ploidy=1, trees=ts.num_trees, Ne=Ne, L=L, mu=mu, historical=False, sites=ts.num_sites,
                muts=ts.num_mutations, edges=ts.num_edges, nodes=ts.num_nodes, seed=seed, fired=["full_arg"])
    return ts, info


def sample_unary(ts, rng):
    """Turn some locally unary non-sample nodes into samples (masked by variational_gamma's detector,
    seen by the discrete-time one)."""
    import tskit
    un = sorted(naive_unary_nodes(ts))
    if not un:
        return ts, 0
    flags = ts.nodes_flags.copy()
    pick = rng.choice(un, size=int(rng.integers(1, len(un) + 1)), replace=False)
    flags[pick] |= tskit.NODE_IS_SAMPLE
    t = ts.dump_tables()
    t.nodes.flags = flags
    return t.tree_sequence(), len(pick)


def gen_input(rng, unary_bias=0.35):
    """One tree sequence for the sweep checks + list of the mutilations that fired."""
    ploidy = 2 if rng.random() < 0.2 else 1
    ts, info = gen.gen_ts(rng, historical=0.3, gaps=0.3, rootmuts=0.3, polytomy=0.25, internal_samples=0.15,
                          permute=0.2, ploidy=ploidy, n=int(rng.integers(2, 8)))
    fired = list(info["fired"])
    if rng.random() < unary_bias:
        ts2 = keep_unary_subset(ts, rng)
        if ts2 is not None and ts2.num_edges > 0:
            ts = ts2
            fired.append("keep_unary")
    if rng.random() < 0.2:
        ts2 = delete_flanks(ts, rng)
        if ts2.num_edges > 0:
            ts = ts2
            fired.append("flanks")
    if rng.random() < 0.35:
        ts, k = add_site_mutations(ts, rng, k=int(rng.integers(1, 4)), where="sample" if rng.random() < 0.5 else "any")
        if k:
            fired.append("extra_muts")
    if rng.random() < 0.15:
        ts, k = add_dead_branch(ts, rng)
        if k:
            fired.append("dead_branch")
    if rng.random() < 0.15:
        ts, k = sample_unary(ts, rng)
        if k:
            fired.append("sample_unary")
    if rng.random() < 0.2:
        c = float(rng.choice([1 / 3, 0.1, np.pi, 1e-3 / 7, 123.456]))
        ts2 = scale_coordinates(ts, c)
        if ts2 is not None:
            ts = ts2
            fired.append("noninteger_coords")
    info = dict(info)
    info["fired"] = fired
    info.update(trees=ts.num_trees, nodes=ts.num_nodes, edges=ts.num_edges, muts=ts.num_mutations, sites=ts.num_sites)
    return ts, info


def random_mask(rng, ts):
    """A custom sample set (boolean per node)."""
    n = ts.num_nodes
    mode = str(rng.choice(["subset", "internal", "random", "empty", "all", "one"]))
    m = np.zeros(n, dtype=bool)
    s = np.array(list(ts.samples()), dtype=int)
    if mode == "subset" and s.size:
        m[rng.choice(s, size=int(rng.integers(1, s.size + 1)), replace=False)] = True
    elif mode == "internal":
        m[s] = True
        m[rng.integers(0, n, size=max(1, n // 4))] = True
    elif mode == "random":
        m = rng.random(n) < 0.5
    elif mode == "all":
        m[:] = True
    elif mode == "one" and n:
        m[int(rng.integers(0, n))] = True
    return np.ascontiguousarray(m), mode


# ----------------------------------------------------------------------------- Lean side

def _edges_field(tb):
    parts = []
    for l, r, p, c in zip(tb["left"], tb["right"], tb["parent"], tb["child"]):
        parts += [f2h(l), f2h(r), str(int(p)), str(int(c))]
    return "edges " + " ".join(parts)


def _head(i, op, tb):
    return [f"case {i}", f"op {op}", f"L {f2h(tb['L'])}", _edges_field(tb),
            "ins " + " ".join(str(int(x)) for x in tb["ins"]),
            "rem " + " ".join(str(int(x)) for x in tb["rem"])]


def encode_count(i, tb, mask, sb, wantspan=False):
    return "\n".join(_head(i, "count", tb) + [
        f"sb {1 if sb else 0}",
        "sample " + " ".join("1" if b else "0" for b in mask),
        "mnode " + " ".join(str(int(x)) for x in tb["mnode"]),
        "mpos " + " ".join(f2h(x) for x in tb["mpos"]),
        "ntime " + " ".join(f2h(x) for x in tb["ntime"]),
        "breaks " + " ".join(f2h(x) for x in tb["breaks"]),
        f"wantspan {1 if wantspan else 0}",
        "end"]) + "\n"


def encode_unary(i, tb, mask):
    return "\n".join(_head(i, "unary", tb) + [
        f"n {tb['N']}",
        "mask " + " ".join("1" if b else "0" for b in mask),
        "end"]) + "\n"


def encode_unary_wrapper(i, tb, skip):
    return "\n".join(_head(i, "unaryw", tb) + [
        "flags " + " ".join(str(int(f)) for f in tb["flags"]),
        f"skip {1 if skip else 0}",
        "end"]) + "\n"


def _ints(s):
    return np.array([int(x) for x in s.split()], dtype=np.int64)


def _floats(s):
    return np.array([h2f(x) for x in s.split()], dtype=np.float64)


def run_model(text):
    """id -> parsed reply (None for bad-op)."""
    out = {}
    for ln in common.lean_driver("Sweep", text):
        parts = ln.split(None, 2)
        if len(parts) < 2:
            continue
        i = int(parts[0])
        if parts[1] == "bad-op":
            out[i] = None
        elif parts[1] == "count":
            f = [x.strip() for x in parts[2].split("|")]
            table = None
            if len(f) > 7 and f[7]:
                table = [_ints(row) for row in f[7].split(";")]
            out[i] = dict(flags=f[0], mut_edge=_ints(f[1]), edge_muts=_floats(f[2]), edge_span=_floats(f[3]),
                          spec_edge=_ints(f[4]), node_samples=_floats(f[5]), spec_weight=_ints(f[6]),
                          span_weights=table)
        elif parts[1] == "unary":
            f = parts[2].split()
            out[i] = dict(flags=f[0], contains=f[1] == "1", locally=f[2] == "1")
        elif parts[1] == "unaryw":
            f = parts[2].split()
            out[i] = dict(flags=f[0], contains=f[1] == "1")
    return out


# ----------------------------------------------------------------------------- implementation side

def impl_count_raw(tb, mask, sb):
    from tsdate.rescaling import _count_mutations
    stats, me = _count_mutations(np.ascontiguousarray(mask, dtype=bool), tb["mnode"], tb["mpos"], tb["parent"],
                                 tb["child"], tb["left"], tb["right"], tb["ins"], tb["rem"], tb["L"], bool(sb))
    return np.asarray(stats), np.asarray(me)


def impl_unary_raw(tb, mask):
    from tsdate.util import _contains_unary_nodes
    return bool(_contains_unary_nodes(np.ascontiguousarray(mask, dtype=bool), tb["parent"], tb["left"], tb["right"],
                                      tb["ins"], tb["rem"], tb["L"], tb["N"]))


def bits_equal(a, b):
    a = np.asarray(a, dtype=np.float64)
    b = np.asarray(b, dtype=np.float64)
    if a.shape != b.shape:
        return False
    return all(f2h(x) == f2h(y) for x, y in zip(a, b))


# ----------------------------------------------------------------------------- naive oracles (tskit tree iterator)

def naive_mut_edge(ts):
    """edge above each mutation's node in the tree at the mutation's position, -1 above a root."""
    out = np.full(ts.num_mutations, -1, dtype=np.int64)
    for tree in ts.trees():
        ea = tree.edge_array
        for site in tree.sites():
            for m in site.mutations:
                out[m.id] = ea[m.node]
    return out


def naive_tallies(ts, mask, sb):
    """Direct per-tree tally: (edges_mutations, edges_span, mutations_edge).  In the size-biased variant
    each mutation and each unit of span is weighted by the number of `mask` nodes at or below the
    edge's child in that local tree.  Uses the per-tree parent/edge arrays over *all* nodes (tskit's
    node iterators skip subtrees without samples)."""
    E, N = ts.num_edges, ts.num_nodes
    em = np.zeros(E)
    sp = np.zeros(E)
    me = naive_mut_edge(ts)
    el, er = ts.edges_left, ts.edges_right
    if not sb:
        for m in range(ts.num_mutations):
            if me[m] >= 0:
                em[me[m]] += 1
        return em, er - el, me
    mask = np.asarray(mask, dtype=bool)
    order = np.argsort(ts.nodes_time, kind="stable")
    for tree in ts.trees():
        l, r = tree.interval
        par = tree.parent_array
        ea = tree.edge_array
        below = mask.astype(np.int64).copy()
        for u in order:
            p = par[u]
            if p >= 0:
                below[p] += below[u]
        for u in range(N):
            if ea[u] >= 0:
                sp[ea[u]] += below[u] * (r - l)
        for site in tree.sites():
            for m in site.mutations:
                if ea[m.node] >= 0:
                    em[ea[m.node]] += below[m.node]
    return em, sp, me


def naive_mut_weights(ts, mask):
    """number of `mask` nodes at or below each mutation's node in the tree at the mutation's site"""
    mask = np.asarray(mask, dtype=bool)
    order = np.argsort(ts.nodes_time, kind="stable")
    out = np.zeros(ts.num_mutations, dtype=np.int64)
    for tree in ts.trees():
        if tree.num_sites == 0:
            continue
        par = tree.parent_array
        below = mask.astype(np.int64).copy()
        for u in order:
            p = par[u]
            if p >= 0:
                below[p] += below[u]
        for site in tree.sites():
            for m in site.mutations:
                out[m.id] = below[m.node]
    return out


def naive_unary_nodes(ts, ignore=()):
    """set of nodes with exactly one child in some local tree (naive scan over every tree and node)."""
    N = ts.num_nodes
    hit = np.zeros(N, dtype=bool)
    for tree in ts.trees():
        hit |= tree.num_children_array[:N] == 1
    out = set(int(u) for u in np.where(hit)[0])
    return out - set(int(x) for x in ignore)


def spec_spans(tb, table):
    """the span integral of the specification from the model's table of weights at the break points"""
    b = tb["breaks"]
    d = np.diff(b)
    return np.array([float(np.sum(np.asarray(row[:-1], dtype=np.float64) * d)) for row in table])


def span_table_cost(tb):
    return int(tb["left"].size) * int(tb["breaks"].size) * int(tb["N"])


def integer_coords(tb):
    xs = np.concatenate([tb["left"], tb["right"], tb["mpos"], [tb["L"]]])
    return bool(np.all(xs == np.floor(xs)) and np.all(np.abs(xs) < 2**40))


def close_spans(a, b, L, exact):
    """spans: exact when all coordinates are integers (every intermediate is an exactly representable
    integer), else within 1e-12 relative to the sequence length times the largest weight."""
    a = np.asarray(a, dtype=float)
    b = np.asarray(b, dtype=float)
    if exact:
        return bool(np.array_equal(a, b))
    scale = max(1.0, float(np.max(np.abs(b))) if b.size else 1.0, abs(L))
    return bool(np.all(np.abs(a - b) <= 1e-12 * scale))
