"""
Helpers to call the real tsdate on generated inputs and capture what the oracles need.
No source hooks: `util.constrain_ages` is observed by rebinding the module attribute that
`core.get_modified_ts` looks up at call time.
"""

import contextlib
import logging
import warnings

import numpy as np


def tsdate_mod():
    import tsdate
    return tsdate


@contextlib.contextmanager
def record_constrain():
    """Record (nodes_time_in, eps, iters, nodes_time_out) of every util.constrain_ages call."""
    import tsdate.util as util
    calls = []
    orig = util.constrain_ages

    def wrapper(ts, nodes_time, epsilon=1e-6, max_iterations=0):
        tin = np.array(nodes_time, dtype=float, copy=True)
        rec = dict(tin=tin, eps=float(epsilon), iters=int(max_iterations), out=None)
        calls.append(rec)            # recorded before the call so that a raise still leaves the input
        out = orig(ts, nodes_time, epsilon, max_iterations)
        rec["out"] = np.array(out, copy=True)
        return out

    util.constrain_ages = wrapper
    try:
        yield calls
    finally:
        util.constrain_ages = orig


def quiet():
    logging.getLogger("tsdate").setLevel(logging.ERROR)
    logging.getLogger().setLevel(logging.ERROR)
    warnings.simplefilter("ignore")
    np.seterr(all="ignore")


def run_date(ts, method="variational_gamma", **kw):
    """Call tsdate.date; returns dict(ok, out, exc, msg). Exceptions are data, not failures."""
    tsdate = tsdate_mod()
    quiet()
    try:
        out = tsdate.date(ts, method=method, **kw)
        return dict(ok=True, out=out, exc=None, msg="")
    except BaseException as e:  # noqa: BLE001  (SystemExit etc. would be a finding too)
        if isinstance(e, (KeyboardInterrupt, MemoryError)):
            raise
        return dict(ok=False, out=None, exc=type(e).__name__, msg=str(e)[:300])


def method_options(rng, method, info, light=True):
    """Draw an option set for a method (all accepted by the API)."""
    kw = {}
    if method == "variational_gamma":
        kw["max_iterations"] = int(rng.choice([1, 2, 5, 10]))
        r = rng.random()
        if r < 0.35:
            kw["rescaling_intervals"] = 0
        elif r < 0.7:
            kw["rescaling_intervals"] = int(rng.choice([1, 2, 5, 20]))
        if rng.random() < 0.3:
            kw["match_segregating_sites"] = True
        if rng.random() < 0.3:
            kw["max_shape"] = float(rng.choice([2.0, 10.0, 100.0]))
    else:
        kw["population_size"] = info["Ne"]
        if rng.random() < 0.5:
            kw["probability_space"] = str(rng.choice(["linear", "logarithmic"]))
        if rng.random() < 0.3:
            kw["eps"] = float(rng.choice([1e-10, 1e-8, 1e-6]))
    return kw
