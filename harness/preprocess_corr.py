"""
C28: inputs/options for `preprocess_ts`, stage-B correspondence with the Lean `Preprocess.plan` model (Float,
bit-for-bit on the interval list; exact on options and errors) and the stage-C oracle on the returned tree sequence.
"""

import contextlib
import json
import warnings

import numpy as np

from . import common, dating, gen, split_corr as sc
from .common import Violation, f2h, h2f

ERR_OF_MSG = {
    "Cannot specify both remove_telomeres and erase_flanks": "bothTelomeresAndFlanks",
    "Cannot specify both delete_intervals and minimum_gap/erase_flanks": "intervalsAndGapOrFlanks",
    "Invalid tree sequence: no sites present": "noSites",
}


# ----------------------------------------------------------------------------- inputs

def gen_input(rng):
    ts, info = gen.gen_ts(rng, historical=0.3, polytomy=0.15, internal_samples=0.1, rootmuts=0.2, metadata=0.3,
                          L=float(rng.choice([40, 200, 1000, 5000])), muts_per_edge=float(rng.choice([0.1, 0.3, 1, 3])),
                          ploidy=int(rng.choice([1, 1, 2])))
    fired = list(info["fired"])
    if rng.random() < 0.35:
        ts, ivs = sc.cut_intervals(ts, rng, int(rng.integers(1, 4)))
        if ivs:
            fired.append("gaps")
    if rng.random() < 0.25:
        ts, k = sc.add_mutations_anywhere(ts, rng, int(rng.integers(1, 4)))
        if k:
            fired.append("muts_anywhere")
    if rng.random() < 0.07:
        tables = ts.dump_tables()
        tables.mutations.clear()
        tables.sites.clear()
        ts = tables.tree_sequence()
        fired.append("no_sites")
    if rng.random() < 0.2:
        f = float(rng.choice([0.37, 1.0 / 3.0, 2.5, 1e-3, 1e3]))
        ts2 = sc.rescale_coords(ts, f)
        if ts2 is not ts:
            ts = ts2
            fired.append("noninteger_coords")
    info["fired"] = fired
    return ts, info


def gen_options(rng, ts):
    L = ts.sequence_length
    kw = {}
    pos = ts.sites_position
    r = rng.random()
    if r < 0.55:
        cands = [0.0, 1.0, 2.0, 2.5, 3.0, 5.0, 10.0, L / 20, L / 4, -1.0, 1e6]
        if pos.size > 1:
            d = np.diff(pos)
            cands += [float(rng.choice(d)), float(np.nextafter(rng.choice(d), np.inf)), float(np.median(d))]
        kw["minimum_gap"] = float(rng.choice(cands))
    if rng.random() < 0.45:
        kw["erase_flanks"] = bool(rng.random() < 0.5)
    if rng.random() < 0.25:
        kw["remove_telomeres"] = bool(rng.random() < 0.5)
        if rng.random() < 0.8:
            kw.pop("erase_flanks", None)
    if rng.random() < 0.22:
        if rng.random() < 0.7:
            kw.pop("minimum_gap", None)
            kw.pop("erase_flanks", None)
            kw.pop("remove_telomeres", None)
        k = int(rng.integers(0, 4))
        cuts = np.sort(rng.choice(np.arange(0, int(min(L, 1e6)) + 1), size=min(2 * k, int(L) + 1), replace=False)).astype(float)
        ivs = [[float(cuts[2 * i]), float(cuts[2 * i + 1])] for i in range(len(cuts) // 2)]
        if L != int(L):
            ivs = [[a * L / (int(L) + 1), b * L / (int(L) + 1)] for a, b in ivs]
        kw["delete_intervals"] = ivs
    for name, p in (("split_disjoint", 0.5), ("record_provenance", 0.4)):
        if rng.random() < p:
            kw[name] = bool(rng.random() < 0.5)
    for name in ("filter_populations", "filter_individuals", "filter_sites"):
        if rng.random() < 0.3:
            kw[name] = bool(rng.random() < 0.6)
    if rng.random() < 0.08:
        kw["keep_unary"] = True
    return kw


# ----------------------------------------------------------------------------- running the real function

@contextlib.contextmanager
def capture():
    """Record what preprocess_ts hands to tskit and whether it splits."""
    import tskit
    import tsdate.util as util
    rec = dict(delete_intervals=None, simplify_kwargs=None, node_map=None, split_called=False, pre_split_nodes=None)
    o_del, o_simp, o_split = tskit.TableCollection.delete_intervals, tskit.TableCollection.simplify, util.split_disjoint_nodes

    def w_del(self, intervals, *a, **k):
        rec["delete_intervals"] = [[float(x), float(y)] for x, y in intervals]
        rec["delete_kwargs"] = dict(k)
        return o_del(self, intervals, *a, **k)

    def w_simp(self, *a, **k):
        out = o_simp(self, *a, **k)
        if rec["node_map"] is None:
            rec["node_map"] = np.array(out, copy=True)
            rec["simplify_kwargs"] = dict(k)
        return out

    def w_split(ts, **k):
        rec["split_called"] = True
        rec["pre_split_nodes"] = ts.num_nodes
        return o_split(ts, **k)

    tskit.TableCollection.delete_intervals, tskit.TableCollection.simplify, util.split_disjoint_nodes = w_del, w_simp, w_split
    try:
        yield rec
    finally:
        tskit.TableCollection.delete_intervals, tskit.TableCollection.simplify, util.split_disjoint_nodes = o_del, o_simp, o_split


def run_impl(ts, kw):
    from tsdate.util import preprocess_ts
    with capture() as rec:
        try:
            with warnings.catch_warnings():
                warnings.simplefilter("ignore")
                out = preprocess_ts(ts, **kw)
            return dict(ok=True, out=out, rec=rec)
        except Exception as e:  # noqa: BLE001
            return dict(ok=False, exc=type(e).__name__, msg=str(e)[:300], rec=rec)


# ----------------------------------------------------------------------------- model

def ob(v):
    return "none" if v is None else ("1" if v else "0")


def encode(i, ts, kw):
    iv = kw.get("delete_intervals")
    return "\n".join([
        f"case {i}",
        "sites " + " ".join(f2h(x) for x in ts.sites_position),
        f"L {f2h(ts.sequence_length)}",
        "mingap " + ("none" if kw.get("minimum_gap") is None else f2h(kw["minimum_gap"])),
        "flanks " + ob(kw.get("erase_flanks")), "telomeres " + ob(kw.get("remove_telomeres")),
        "split " + ob(kw.get("split_disjoint")), "prov " + ob(kw.get("record_provenance")),
        "intervals " + ("none" if iv is None else " ".join(f"{f2h(a)} {f2h(b)}" for a, b in iv)),
        "end"]) + "\n"


def run_model(cases):
    text = "".join(encode(i, ts, kw) for i, (ts, kw) in enumerate(cases))
    outs = {}
    for ln in common.lean_driver("Preprocess", text):
        p = ln.split()
        if not p:
            continue
        i = int(p[0])
        if p[1] == "error":
            outs[i] = dict(err=p[2])
        elif p[1] == "ok":
            outs[i] = dict(err=None, split=p[2] == "1", prov=p[3] == "1", mingap=p[4], flanks=p[5], ivs=p[6:])
        else:
            outs[i] = None
    return outs


def replay_of(ts, kw):
    return dict(kind="preprocess", ts=sc.ts_b64(ts), kw={k: (v if not isinstance(v, float) else float(v).hex()) for k, v in kw.items()},
                kw_repr={k: repr(v) for k, v in kw.items()})


def case_from_replay(d):
    kw = {k: (float.fromhex(v) if isinstance(v, str) else v) for k, v in d["kw"].items()}
    return sc.ts_from_b64(d["ts"]), kw


def provenance_params(ts_in, out):
    if out.num_provenances == ts_in.num_provenances:
        return None
    rec = json.loads(out.provenance(out.num_provenances - 1).record)
    return rec.get("parameters", {})


def compare(cases, impls):
    """Stage B: errors, resolved options and the interval list (bit-for-bit)."""
    model = run_model(cases)
    fails = []
    for i, ((ts, kw), r) in enumerate(zip(cases, impls)):
        m = model.get(i)
        rp = replay_of(ts, kw)
        if m is None:
            fails.append(Violation("preprocess-model-rejects", "Lean model answered bad-op", rp, stage="B"))
            continue
        if m["err"] is not None:
            got = None if r["ok"] else (ERR_OF_MSG.get(r["msg"]) if r["exc"] == "ValueError" else f"{r['exc']}")
            if got != m["err"]:
                fails.append(Violation("preprocess-model-differs",
                                       f"model: ValueError {m['err']}; implementation: {'returned' if r['ok'] else r['exc'] + ': ' + r['msg'][:80]} "
                                       f"(options {sorted(kw)})", rp, stage="B"))
            continue
        if not r["ok"]:
            if r["rec"]["delete_intervals"] is not None and r["rec"]["node_map"] is None and "delete_intervals" in kw:
                continue        # tskit rejected the *user's* intervals: outside the model, classified by the oracle
            fails.append(Violation("preprocess-model-differs", f"implementation raised {r['exc']}: {r['msg'][:100]}; model returns a plan",
                                   rp, stage="B"))
            continue
        rec = r["rec"]
        ivs = rec["delete_intervals"] or []
        got = [f2h(x) for iv in ivs for x in iv]
        diffs = []
        if got != m["ivs"]:
            diffs.append(f"interval list {[(h2f(a), h2f(b)) for a, b in zip(m['ivs'][::2], m['ivs'][1::2])]} (model) vs {ivs}")
        if rec["split_called"] != m["split"]:
            diffs.append(f"split_disjoint {m['split']} (model) vs {rec['split_called']}")
        params = provenance_params(ts, r["out"])
        if (params is not None) != m["prov"]:
            diffs.append(f"record_provenance {m['prov']} (model) vs {params is not None}")
        if params is not None:
            pm = params.get("minimum_gap")
            pf = params.get("erase_flanks")
            if ("none" if pm is None else f2h(pm)) != m["mingap"]:
                diffs.append(f"recorded minimum_gap {pm} vs model {m['mingap']}")
            if ob(pf) != m["flanks"]:
                diffs.append(f"recorded erase_flanks {pf} vs model {m['flanks']}")
            for k in ("keep_unary",):          # extra simplify keywords are recorded too (since /repo adc1393)
                if k in kw and params.get(k) != kw[k]:
                    diffs.append(f"recorded {k} {params.get(k)!r} vs given {kw[k]!r}")
            pi = params.get("delete_intervals")
            if pi is not None and [f2h(x) for iv in pi for x in iv] != m["ivs"]:
                diffs.append("recorded delete_intervals differ from the model's")
        if diffs:
            fails.append(Violation("preprocess-model-differs", "; ".join(diffs)[:300] + f" (options {kw})", rp, stage="B"))
    return fails


# ----------------------------------------------------------------------------- oracle

def allowed_regions(ts, kw):
    """Where the statement allows topology to be removed (independent of the model)."""
    if kw.get("delete_intervals") is not None:
        return [tuple(iv) for iv in kw["delete_intervals"]], True
    pos = ts.sites_position
    L = ts.sequence_length
    mg = 1000000 if kw.get("minimum_gap") is None else kw["minimum_gap"]
    ef = kw.get("erase_flanks")
    if ef is None:
        ef = kw.get("remove_telomeres")
    if ef is None:
        ef = True
    regs = []
    if ef and pos.size:
        regs.append((0.0, float(pos[0])))
        regs.append((float(pos[-1]), float(L)))
    for a, b in zip(pos[:-1], pos[1:]):
        if b - a >= mg:
            regs.append((float(a), float(b)))
    return regs, False


def pair_matrix(tree, samples):
    import tskit
    n = len(samples)
    M = np.full((n, n), np.inf)
    for i in range(n):
        for j in range(i + 1, n):
            u = tree.mrca(samples[i], samples[j])
            if u != tskit.NULL:
                M[i, j] = tree.time(u)
    return M


def oracle(ts, kw, r):
    """The statement of C28 on the returned tree sequence: list of (kind, what)."""
    import tskit
    if not r["ok"]:
        if r["exc"] == "ValueError" and r["msg"] in ERR_OF_MSG:
            return []
        if "delete_intervals" in kw and r["rec"]["delete_intervals"] is not None and r["rec"]["node_map"] is None:
            return []            # tskit rejected the user's interval list
        return [(f"preprocess-raised-{r['exc']}", f"preprocess_ts raised {r['exc']}: {r['msg'][:160]}")]
    out, rec = r["out"], r["rec"]
    bad = []
    deleted = rec["delete_intervals"] or []
    regs, user = allowed_regions(ts, kw)
    # 1. deleted regions are allowed regions
    if user:
        if [list(x) for x in regs] != [list(x) for x in deleted]:
            bad.append(("user-intervals-altered", f"tskit received {deleted}, the user gave {regs}"))
    else:
        for a, b in deleted:
            if not any(lo <= a and b <= hi for lo, hi in regs) or not a < b:
                bad.append(("deletes-outside-flanks-and-gaps", f"interval [{a}, {b}) is not inside a flank or a gap between adjacent sites >= minimum_gap"))
                break
    in_deleted = lambda x: any(a <= x < b for a, b in deleted)  # noqa: E731
    # 1b. what is handed to tskit besides the intervals
    want_simp = dict(filter_populations=kw.get("filter_populations", False), filter_individuals=kw.get("filter_individuals", False),
                     filter_sites=kw.get("filter_sites", False), record_provenance=False)
    want_simp.update({k: kw[k] for k in ("keep_unary",) if k in kw})
    if rec["simplify_kwargs"] != want_simp:
        bad.append(("simplify-options-not-passed", f"simplify called with {rec['simplify_kwargs']}, expected {want_simp}"))
    if deleted and rec.get("delete_kwargs") != dict(simplify=False, record_provenance=False):
        bad.append(("delete-intervals-options", f"delete_intervals called with {rec.get('delete_kwargs')}"))
    # 2. sites
    pos_in = ts.sites_position
    want = np.array([x for x in pos_in if not (user and in_deleted(x))])
    fs = bool(kw.get("filter_sites", False))
    if not fs:
        if not np.array_equal(out.sites_position, want):
            lost = sorted(set(pos_in.tolist()) - set(out.sites_position.tolist()))
            bad.append(("site-deleted", f"site(s) at {lost[:4]} outside user-given intervals were removed "
                        f"(erase_flanks/alias={kw.get('erase_flanks')}/{kw.get('remove_telomeres')}, minimum_gap={kw.get('minimum_gap')})"))
    elif not set(out.sites_position.tolist()) <= set(want.tolist()):
        bad.append(("site-invented", "output has a site the input does not have"))
    # 3. samples and their genotypes
    s_in, s_out = ts.samples(), out.samples()
    if s_in.size != s_out.size or not np.array_equal(ts.nodes_time[s_in], out.nodes_time[s_out]):
        bad.append(("samples-changed", "samples (count/order/time) changed"))
    else:
        g_in, g_out = sc.genotypes(ts), sc.genotypes(out)
        for x in out.sites_position:
            if g_in.get(float(x)) != g_out.get(float(x)):
                bad.append(("genotypes-changed", f"decoded genotypes differ at kept site {x}"))
                break
        if not kw.get("filter_populations", False) and not np.array_equal(ts.nodes_population[s_in], out.nodes_population[s_out]):
            bad.append(("samples-changed", "sample populations changed"))
    # 4. node times of retained nodes
    nm = rec["node_map"]
    if nm is not None:
        keep = nm >= 0
        if np.any(out.nodes_time[nm[keep]] != ts.nodes_time[keep]):
            bad.append(("node-time-changed", "a retained node's time changed"))
    # 5. topology: nothing left inside deleted regions, untouched elsewhere (vs the simplified input)
    for a, b in deleted:
        hit = (out.edges_left < b) & (out.edges_right > a)
        if np.any(hit):
            bad.append(("edge-spans-deleted-region", f"{int(hit.sum())} output edge(s) overlap the deleted interval [{a}, {b})"))
            break
    skw = {k: kw[k] for k in ("keep_unary",) if k in kw}
    try:
        base = ts.simplify(filter_populations=kw.get("filter_populations", False), filter_individuals=kw.get("filter_individuals", False),
                           filter_sites=False, **skw)
        bps = np.unique(np.concatenate([base.breakpoints(as_array=True), out.breakpoints(as_array=True),
                                        np.array([x for iv in deleted for x in iv] + [0.0])]))
        bps = bps[bps < ts.sequence_length]
        t1, t2 = base.first(), out.first()
        sb, so = list(base.samples()), list(out.samples())
        for k, x in enumerate(bps):
            nxt = bps[k + 1] if k + 1 < bps.size else ts.sequence_length
            mid = float(x)
            if in_deleted(mid):
                continue
            t1.seek(mid)
            t2.seek(mid)
            if len(sb) <= 8:
                same = np.array_equal(pair_matrix(t1, sb), pair_matrix(t2, so))
            else:
                same = t1.num_edges == t2.num_edges
            if not same or t1.num_edges != t2.num_edges:
                bad.append(("topology-removed-outside-deleted-regions",
                            f"local tree on [{x}, {nxt}) differs from the simplified input although the region is not deleted"))
                break
    except Exception as e:  # noqa: BLE001
        bad.append(("oracle-error", f"{type(e).__name__}: {e}"))
    # 6. simplified; 7. contiguity after splitting
    if not skw:
        try:
            s2 = out.simplify(filter_populations=False, filter_individuals=False, filter_sites=False)
            if s2.num_nodes != out.num_nodes or s2.num_edges != out.num_edges:
                bad.append(("output-not-simplified", f"simplifying the output changes it: nodes {out.num_nodes}->{s2.num_nodes}, "
                            f"edges {out.num_edges}->{s2.num_edges}"))
        except Exception as e:  # noqa: BLE001
            bad.append(("oracle-error", f"{type(e).__name__}: {e}"))
    sd = kw.get("split_disjoint")
    if sd is None or sd:
        is_sample = (out.nodes_flags & tskit.NODE_IS_SAMPLE) != 0
        ivs = {}
        for l, rr, p, ch in zip(out.edges_left, out.edges_right, out.edges_parent, out.edges_child):
            ivs.setdefault(int(p), []).append((l, rr))
            ivs.setdefault(int(ch), []).append((l, rr))
        for v, xs in ivs.items():
            if is_sample[v]:
                continue
            xs.sort()
            run = xs[0][1]
            for l, rr in xs[1:]:
                if l > run:
                    bad.append(("ancestry-gap-after-split", f"non-sample node {v} has a gap in its ancestry before {l}"))
                    break
                run = max(run, rr)
            else:
                continue
            break
    return bad


def quiet():
    dating.quiet()
    import logging
    logging.getLogger("tsdate.util").setLevel(logging.ERROR)
