"""
Stage B/C plumbing for C15: per-tree records extracted with tskit, the Lean span-accumulator model
(Model/Spans.lean via Driver/Spans.lean, run at Rat), the real `SpansBySamples` / `MixturePrior`, the
flush sets the real code uses (observed with sys.setprofile), and an independent direct tally.
"""

import sys
from fractions import Fraction

import numpy as np

from . import common, gen
from .common import Violation, f2q, q2frac

RTOL = 1e-12


def rel(a, b):
    a = float(a)
    b = float(b)
    if a == b:
        return 0.0
    if not (np.isfinite(a) and np.isfinite(b)):
        return float("inf")
    return abs(a - b) / max(abs(a), abs(b), 1e-300)


# ----------------------------------------------------------------------------- generator

def isolate_samples(ts, rng, k=1):
    """Make k (sample, interval) pairs missing: the sample's edge is removed over the interval and the
    result simplified, so that the sample is an isolated node there (tskit's missing data)."""
    tables = ts.dump_tables()
    L = ts.sequence_length
    samples = [int(s) for s in ts.samples()]
    picks = []
    for _ in range(k):
        s = int(rng.choice(samples))
        a = float(np.floor(rng.uniform(0, max(1.0, L - 1))))
        b = float(min(L, a + np.ceil(rng.uniform(1, max(2.0, L / 3)))))
        if rng.random() < 0.25:
            a = 0.0
        if rng.random() < 0.25:
            b = L
        picks.append((s, a, b))
    new = []
    for e in ts.edges():
        segs = [(e.left, e.right)]
        for s, a, b in picks:
            if e.child != s:
                continue
            nxt = []
            for x, y in segs:
                if b <= x or a >= y:
                    nxt.append((x, y))
                else:
                    if x < a:
                        nxt.append((x, a))
                    if b < y:
                        nxt.append((b, y))
            segs = nxt
        new += [(x, y, e.parent, e.child) for x, y in segs]
    tables.edges.clear()
    for x, y, p, c in new:
        tables.edges.add_row(x, y, p, c)
    tables.sort()
    tables.build_index()
    tables.compute_mutation_parents()
    return tables.tree_sequence().simplify(), picks


def gen_span_ts(rng, nmax=9):
    """A simplified tree sequence with all samples at time 0 + which features fired."""
    ts, info = gen.sim_ts(rng, n=int(rng.integers(2, nmax + 1)), ploidy=1,
                          trees=int(rng.choice([1, 2, 3, 5, 8, 15, 30])), muts_per_edge=0.3)
    fired = []
    if rng.random() < 0.35:
        ts2, ok = gen.polytomise(ts, rng, frac=float(rng.choice([0.2, 0.5])))
        if ok and ts2.num_edges > 0:
            ts = ts2
            fired.append("polytomy")
    if rng.random() < 0.5:
        ts2, _ = isolate_samples(ts, rng, k=int(rng.integers(1, 4)))
        if ts2.num_edges > 0:
            ts = ts2
            fired.append("missing")
    if rng.random() < 0.2 and ts.sequence_length > 10:
        L = ts.sequence_length
        a = float(np.floor(rng.uniform(0, L - 2)))
        b = float(min(L, a + np.ceil(rng.uniform(1, L / 5))))
        if rng.random() < 0.3:
            a = 0.0
        ts2 = ts.delete_intervals([(a, b)])
        if ts2.num_edges > 0:
            ts = ts2
            fired.append("gap")
    if rng.random() < 0.15:
        c = float(rng.choice([0.5, 1 / 3, 7.25]))        # non-integer coordinates
        tables = ts.dump_tables()
        tables.edges.left = tables.edges.left * c
        tables.edges.right = tables.edges.right * c
        tables.sites.position = tables.sites.position * c
        tables.sequence_length = ts.sequence_length * c
        ts = tables.tree_sequence()
        fired.append("scaled")
    info = dict(samples=ts.num_samples, trees=ts.num_trees, nodes=ts.num_nodes, fired=fired)
    return ts, info


def mirror_ts(rng, mmax=6):
    """Structured family for the mixture-prior stage: a base msprime topology over m samples (integer breakpoints)
    is laid down twice, side by side, with fresh internal node ids; two extra samples x, y hang off a cherry P next
    to it in one half, while in the other half y is missing (isolated) and x joins the root directly.  Every internal
    node of the base therefore has a mirror image with the *same* (descendant tips, span) records under a *different*
    number of samples in the tree."""
    import msprime
    import tskit
    m = int(rng.integers(3, mmax + 1))
    H = float(rng.choice([20, 50, 100, 400]))
    trees = int(rng.choice([3, 5, 8, 12]))
    hsum = sum(1.0 / i for i in range(1, m))
    base = msprime.sim_ancestry(samples=[msprime.SampleSet(m, ploidy=1)], population_size=100, sequence_length=H,
                                recombination_rate=(trees - 1) / (4 * 100 * H * max(hsum, 1.0)),
                                random_seed=int(rng.integers(1, 2**31 - 1)), discrete_genome=True)
    if rng.random() < 0.3:
        b2, ok = gen.polytomise(base, rng, frac=0.3)
        if ok and b2.num_edges > 0 and b2.num_samples == m:
            base = b2
    tmax = float(base.nodes_time.max())
    tables = tskit.TableCollection(sequence_length=2 * H)
    for _ in range(m + 2):
        tables.nodes.add_row(flags=tskit.NODE_IS_SAMPLE, time=0)
    x, y = m, m + 1
    P = tables.nodes.add_row(flags=0, time=tmax + 0.5)
    R = tables.nodes.add_row(flags=0, time=tmax + 1.0)
    full_first = bool(rng.random() < 0.5)          # which half has all samples
    bsamples = [int(s) for s in base.samples()]
    smap = {s: i for i, s in enumerate(bsamples)}
    for half in (0, 1):
        off = half * H
        ids = dict(smap)
        for u in range(base.num_nodes):
            if u not in ids:
                ids[u] = tables.nodes.add_row(flags=0, time=float(base.nodes_time[u]))
        for e in base.edges():
            tables.edges.add_row(e.left + off, e.right + off, ids[e.parent], ids[e.child])
        for tree in base.trees():
            tables.edges.add_row(tree.interval[0] + off, tree.interval[1] + off, R, ids[tree.root])
        if (half == 0) == full_first:
            tables.edges.add_row(off, off + H, P, x)
            tables.edges.add_row(off, off + H, P, y)
            tables.edges.add_row(off, off + H, R, P)
        else:
            tables.edges.add_row(off, off + H, R, x)
    tables.sort()
    tables.edges.squash()
    tables.sort()
    ts = tables.tree_sequence().simplify()
    info = dict(samples=ts.num_samples, trees=ts.num_trees, nodes=ts.num_nodes, fired=["mirror"])
    return ts, info


def colliding_pairs(sp, ts):
    """Pairs of non-sample nodes, each confined to trees of one sample count (different for the two), each with 2..5
    (descendant tips, span) components, whose component records are byte-identical."""
    samples = set(int(s) for s in ts.samples())
    seen = {}
    pairs = []
    for u in range(ts.num_nodes):
        if u in samples:
            continue
        spans = sp.get_spans(u)
        if len(spans) != 1:
            continue
        T, arr = next(iter(spans.items()))
        if not 2 <= arr.shape[0] <= 5:
            continue
        key = arr.tobytes()
        for T2, v in seen.get(key, []):
            if T2 != T:
                pairs.append((v, u))
        seen.setdefault(key, []).append((int(T), u))
    return pairs


# ----------------------------------------------------------------------------- records / tally (tskit side)

def tree_records(ts):
    """Per local tree: (left, right, T, desc) with desc[u] = number of samples below the non-sample node u
    if u is in the tree, else -1.  T = sample nodes that have a parent in the tree."""
    import tskit
    is_sample = np.zeros(ts.num_nodes, dtype=bool)
    is_sample[ts.samples()] = True
    recs = []
    for tree in ts.trees():
        par = tree.parent_array[:-1]
        T = int(np.sum(is_sample & (par != tskit.NULL)))
        desc = np.full(ts.num_nodes, -1, dtype=np.int64)
        nch = tree.num_children_array[:-1]
        for u in np.where((nch > 0) & ~is_sample)[0]:
            desc[u] = tree.num_samples(int(u))
        recs.append((float(tree.interval[0]), float(tree.interval[1]), T, desc))
    return recs


def direct_tally(recs):
    """{u: {(T, k): Fraction span}} — the statement's right-hand side."""
    out = {}
    for left, right, T, desc in recs:
        span = Fraction(right) - Fraction(left)
        for u in np.where(desc >= 0)[0]:
            d = out.setdefault(int(u), {})
            key = (T, int(desc[u]))
            d[key] = d.get(key, Fraction(0)) + span
    return out


def minimal_flush(recs):
    """For each transition: the nodes whose (presence, T, k) changes."""
    out = []
    for (l0, r0, T0, d0), (l1, r1, T1, d1) in zip(recs[:-1], recs[1:]):
        if T0 != T1:
            ch = (d0 >= 0) | (d1 >= 0)
        else:
            ch = d0 != d1
        out.append([int(u) for u in np.where(ch)[0]])
    return out


def adequate(recs, flush):
    """The hypothesis `Adequate` of Props/C15 evaluated on given flush sets."""
    if len(flush) != len(recs) - 1:
        return False
    if recs and recs[0][0] != 0.0:
        return False
    for i, need in enumerate(minimal_flush(recs)):
        if recs[i + 1][0] != recs[i][1]:
            return False
        if not set(need) <= set(flush[i]):
            return False
    return True


# ----------------------------------------------------------------------------- implementation side

def run_impl(ts):
    """SpansBySamples(ts) with the (tree index, node) of every `save_to_spans` call observed."""
    from tsdate import prior
    calls = []

    def prof(frame, event, arg):
        if event == "call" and frame.f_code.co_name == "save_to_spans":
            loc = frame.f_locals
            calls.append((int(loc["prev_tree"].index), int(loc["node"])))

    sys.setprofile(prof)
    try:
        sp = prior.SpansBySamples(ts)
    finally:
        sys.setprofile(None)
    return sp, calls


def impl_spans(sp, ts):
    """({u: {(T, k): float}}, zero_entries) from get_spans for every non-sample node."""
    samples = set(int(s) for s in ts.samples())
    out = {}
    zeros = 0
    for u in range(ts.num_nodes):
        if u in samples:
            continue
        d = {}
        try:
            spans = sp.get_spans(u)
        except KeyError:
            spans = {}
        for T, arr in spans.items():
            for k, v in zip(arr["descendant_tips"], arr["span"]):
                if float(v) == 0.0:
                    zeros += 1
                    continue
                d[(int(T), int(k))] = d.get((int(T), int(k)), 0.0) + float(v)
        out[u] = d
    return out, zeros


def code_flush(calls, ts):
    samples = set(int(s) for s in ts.samples())
    fl = [set() for _ in range(max(0, ts.num_trees - 1))]
    for ti, node in calls:
        if ti < ts.num_trees - 1 and node not in samples:
            fl[ti].add(node)
    return [sorted(s) for s in fl]


def parent_arrays(ts):
    """Per local tree: (T, parent array with -1 for none, in-tree flags) for the flush-rule model."""
    import tskit
    is_sample = np.zeros(ts.num_nodes, dtype=bool)
    is_sample[ts.samples()] = True
    out = []
    for tree in ts.trees():
        par = tree.parent_array[:-1].copy()
        nch = tree.num_children_array[:-1]
        T = int(np.sum(is_sample & (par != tskit.NULL)))
        out.append((T, par, (par != tskit.NULL) | (nch > 0)))
    return out


def code_flush_all(calls, ts):
    """Observed flush sets including sample nodes (every node `save_to_spans` is called on)."""
    fl = [set() for _ in range(max(0, ts.num_trees - 1))]
    for ti, node in calls:
        if ti < ts.num_trees - 1:
            fl[ti].add(node)
    return fl


def rule_block(cid, ts, parr):
    lines = ["op rule", f"n {ts.num_nodes}"]
    for T, par, inp in parr:
        lines.append(f"ptree {T} " + " ".join(str(int(x)) for x in par))
        lines.append("inprev " + " ".join("1" if b else "0" for b in inp))
    return (cid, lines)


def parse_rule(tokens):
    out = []
    for t in tokens:
        if t == "f":
            out.append(set())
        else:
            out[-1].add(int(t))
    return out


# ----------------------------------------------------------------------------- model side

def spans_block(cid, n_nodes, recs, flush):
    lines = ["op spans", f"n {n_nodes}"]
    for i, (l, r, T, desc) in enumerate(recs):
        if i > 0:
            lines.append("flush " + " ".join(str(u) for u in flush[i - 1]))
        lines.append(f"tree {f2q(l)} {f2q(r)} {T} " + " ".join(str(int(x)) for x in desc))
    return (cid, lines)


def mix_block(cid, groups):
    """groups: list of lists of (w, m, v) floats/Fractions."""
    def q(x):
        return f"{x.numerator}/{x.denominator}" if isinstance(x, Fraction) else f2q(x)
    return (cid, ["op mix"] + ["group " + " ".join(f"{q(w)} {q(m)} {q(v)}" for w, m, v in g) for g in groups])


def params_block(cid, sp, table_of, order):
    """`op params`: the span tables of the nodes in `order` (as get_spans returns them) + the table rows they use."""
    lines = ["op params"]
    used = set()
    node_lines = []
    for u in order:
        toks = []
        for T, arr in sp.get_spans(int(u)).items():
            toks.append(f"g {int(T)}")
            for k, w in zip(arr["descendant_tips"], arr["span"]):
                toks.append(f"{int(k)} {f2q(w)}")
                used.add((int(T), int(k)))
        node_lines.append("node " + " ".join(toks))
    for T, k in sorted(used):
        m, v = table_of(T, k)
        lines.append(f"tab {T} {k} {f2q(m)} {f2q(v)}")
    return (cid, lines + node_lines)


def run_driver(blocks):
    text = "".join(f"case {i}\n" + "\n".join(ls) + "\nend\n" for i, ls in blocks)
    out = {}
    for ln in common.lean_driver("Spans", text):
        p = ln.split()
        if p:
            out[p[0]] = None if p[1:] == ["bad-op"] else p[1:]
    return out


def parse_spans(tokens):
    """-> ({u: {(T,k): Fraction}}, {u: Fraction})"""
    b, s = {}, {}
    i = 0
    while i < len(tokens):
        if tokens[i] == "b":
            u, T, k = int(tokens[i + 1]), int(tokens[i + 2]), int(tokens[i + 3])
            b.setdefault(u, {})[(T, k)] = q2frac(tokens[i + 4])
            i += 5
        elif tokens[i] == "s":
            s[int(tokens[i + 1])] = q2frac(tokens[i + 2])
            i += 3
        else:
            raise ValueError(f"bad token {tokens[i]}")
    return b, s


def same_spans(model_b, impl_b, nodes):
    """Compare {u: {(T,k): value}} maps on the given nodes; zero-valued entries are ignored on both sides."""
    for u in nodes:
        a = {k: v for k, v in model_b.get(u, {}).items() if v != 0}
        b = impl_b.get(u, {})
        if set(a) != set(b):
            return False, u
        for key in a:
            if rel(a[key], b[key]) > RTOL:
                return False, u
    return True, None


# ----------------------------------------------------------------------------- mixture helpers

def mixture_groups(spans_u, table_of):
    """[(w, m, v)] per total-tips group, from {(T,k): span} and the coalescent tables table_of[T][k] = (mean, var)."""
    groups = {}
    for (T, k), w in sorted(spans_u.items()):
        m, v = table_of(T, k)
        groups.setdefault(T, []).append((w, m, v))
    return [groups[T] for T in sorted(groups)]


def spec_mixture(groups):
    """Mixture mean and variance straight from the statement (Fractions)."""
    flat = [(Fraction(w), Fraction(m), Fraction(v)) for g in groups for w, m, v in g]
    W = sum(w for w, _, _ in flat)
    mean = sum(w * m for w, m, _ in flat) / W
    var = sum(w * (v + m * m) for w, m, v in flat) / W - mean * mean
    return mean, var
