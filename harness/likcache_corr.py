"""
Plumbing for C09: canonical digests of dated tree sequences (provenance timestamps stripped), the
real likelihood cache under several thread counts, the model's cache (Driver/LikCache.lean), and a
worker entry point for the fresh-process / PYTHONHASHSEED runs:

    PYTHONHASHSEED=k /venv/bin/python -m harness.likcache_corr <jobs.json>   → digests as JSON on stdout
"""

import hashlib
import json
import os
import sys

import numpy as np

from . import common
from .common import f2h


# ----------------------------------------------------------------------------- digests

def _h(*parts):
    h = hashlib.sha256()
    for p in parts:
        if isinstance(p, str):
            p = p.encode()
        h.update(len(p).to_bytes(8, "little"))
        h.update(p)
    return h.hexdigest()


def provenance_canon(record_json):
    """provenance record without the fields that legitimately vary between runs"""
    d = json.loads(record_json)
    d.pop("resources", None)
    d.get("parameters", {}).pop("num_threads", None)      # the varied input of the thread-count runs
    env = d.get("environment", {})
    env.get("os", {}).pop("node", None)
    return json.dumps(d, sort_keys=True)


def tables_digest(ts):
    """sha256 over every column of every table (bytes), schemas, time units and provenance records
    minus timestamp/resources.  Two tree sequences with equal digests have bit-identical node times,
    metadata and mutation nodes."""
    t = ts.dump_tables()
    parts = [repr(t.sequence_length), str(t.time_units), repr(t.metadata_schema), bytes(t.metadata_bytes if hasattr(t, "metadata_bytes") else b"")]
    for name in ("individuals", "nodes", "edges", "migrations", "sites", "mutations", "populations"):
        tab = getattr(t, name)
        d = tab.asdict()
        for col in sorted(d):
            v = d[col]
            if isinstance(v, np.ndarray):
                parts.append(name + "." + col)
                parts.append(np.ascontiguousarray(v).tobytes())
            else:
                parts.append(name + "." + col + "=" + repr(v))
    for row in t.provenances:
        parts.append(provenance_canon(row.record))
    return _h(*parts)


def result_digest(r):
    """digest of whatever date() returned (tree sequence, optional likelihood)"""
    if isinstance(r, tuple):
        out = [tables_digest(r[0])]
        for x in r[1:]:
            if x is None or isinstance(x, (float, np.floating)):
                out.append("lik=" + (f2h(float(x)) if x is not None else "None"))
        return _h(*out)
    return tables_digest(r)


# ----------------------------------------------------------------------------- the real cache

def real_cache(ts, timepoints, mutation_rate, num_threads, log_space, eps=1e-8):
    """list of (muts, span, digest-of-pmf) in dict order, after precalculate_mutation_likelihoods"""
    from tsdate import discrete
    cls = discrete.LogLikelihoods if log_space else discrete.Likelihoods
    lik = cls(ts, timepoints, mutation_rate, None, eps=eps, fixed_node_set=set(ts.samples()), progress=False)
    lik.precalculate_mutation_likelihoods(num_threads=num_threads)
    out = []
    for (muts, span), v in lik.unfixed_likelihood_cache.items():
        dig = "None" if v is None else hashlib.sha1(np.ascontiguousarray(v, dtype=float).tobytes()).hexdigest()[:20]
        out.append((int(muts), float(span), dig))
    return out, lik


def key_str(muts, span):
    return f"{int(muts)}:{f2h(span)}"


def model_cache_block(cid, ts, lik, values, orders, positional=False):
    """edges in table order with (key, child fixed); `values` = {(muts, span): digest}"""
    fixed = lik.fixednodes
    lines = [f"case {cid}", "kind cache"]
    for muts, e in zip(lik.mut_edges, ts.edges()):
        lines.append(f"edge {key_str(muts, e.span)} {1 if e.child in fixed else 0}")
    for (m, s), d in values.items():
        lines.append(f"val {key_str(m, s)} {d}")
    for o in orders:
        lines.append("order " + " ".join(key_str(m, s) for m, s in o))
    if positional:
        lines.append("positional 1")
    lines.append("end")
    return "\n".join(lines) + "\n"


# ----------------------------------------------------------------------------- jobs (shared by in-process and worker runs)

def run_job(ts, job):
    """job: dict(method=…, kw=…, prior=None|dict(Ne=…)) → digest string or 'EXC:<type>:<msg>'"""
    import tsdate
    from . import dating
    dating.quiet()
    kw = dict(job["kw"])
    if job.get("prior"):
        kw["priors"] = tsdate.build_prior_grid(ts, population_size=job["prior"]["Ne"])
    try:
        r = tsdate.date(ts, method=job["method"], **kw)
    except BaseException as e:  # noqa: BLE001
        if isinstance(e, (KeyboardInterrupt, MemoryError)):
            raise
        return f"EXC:{type(e).__name__}:{str(e)[:80]}"
    return result_digest(r)


def worker_main(path):
    common.setup_env()
    import tskit
    spec = json.loads(open(path).read())
    out = {}
    for item in spec["items"]:
        ts = tskit.load(item["ts"])
        for j, job in enumerate(item["jobs"]):
            out[f"{item['id']}/{j}"] = run_job(ts, job)
    json.dump(dict(hashseed=os.environ.get("PYTHONHASHSEED"), digests=out), sys.stdout)


if __name__ == "__main__":
    worker_main(sys.argv[1])
