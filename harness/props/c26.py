"""
C26 — changepoint helpers meet their specification.

A  theorems in Props/C26: `fixed_cp_spec` (searchsorted-right semantics, monotone, ends 0 and n), `dp_optimal`
   (un-pruned recursion is optimal for every loss), `pelt_sound_of_superadditive`, `pelt_counterexample` (finding F6).
B  the Lean models at Float against the numba helpers: exhaustively over all small count/offset vectors x penalties x
   minima x epochs (the driver enumerates the same domain in the same order), plus random longer vectors.
C  the statement on the real code: exact-rational boundary spec for `_fixed_changepoints`; brute force over all
   segmentations for `_poisson_changepoints`; every deviation classified by mechanism.
"""

from fractions import Fraction

import numpy as np

from .. import changepoints_corr as cc, common
from ..common import Result, Violation, f2h

META = dict(
    level='Lean theorems: _fixed_changepoints model returns boundaries that start at 0, end at n, are non-decreasing, and interior boundary k is exactly the last index with cumulative fraction <= k/epochs (all non-negative count vectors with positive total, all epochs, exact arithmetic); the un-pruned optimal-partitioning recursion returns a minimum-cost segmentation for EVERY loss function, penalty and length (strong induction); PELT pruning is sound when the loss is superadditive; finding F6 proved on the model: with minimum count/offset constraints pruning discards infeasible candidates for good and the result is not optimal (counts [5,5,4,2], offsets [4,1,3,2], min_counts 3, min_offset 4). Models tied to the numba code exhaustively over all vectors up to the stated length over counts {0..5} x offsets {1..4} x penalties x minima x epochs, and on random longer vectors. Clause 2 of the property is FALSE of the code with minimum constraints or zero counts (known findings F6) and proved of the model without them (pelt_optimal_unconstrained, also for Real.log); clause 1 holds: the exact-tie defect F13 found here was repaired in /repo 412a87a and fixed_cp_spec is stated for the cross-multiplied comparison the code now performs.',
    note='Lean kernel + {propext, Classical.choice, Quot.sound}; exhaustive small-domain + sampled correspondence at Float (libm log shared); numpy searchsorted/cumsum, numba linspace and typed-dict iteration order by contract',
    technique='strong induction on the DP recursion over an ordered monoid with top; counting lemma for searchsorted; decide on a concrete witness; exhaustive model/implementation enumeration',
    ref='§3 C26',
)
LEAN_PROPS = ["TsdateVerif.Props.C26"]
LEAN_BUILD = ["TsdateVerif.Model.Proto", "TsdateVerif.Model.Changepoints"]
ASSUMPTIONS = [
    "np.searchsorted(side='right') on a non-decreasing array = number of entries <= z; numba linspace(0,1,m+1)[k] = 0.0 + k*(1.0/m), last entry 1.0",
    "numba typed-dict iteration is insertion-ordered; math.log of Lean Float and of numba agree (same libm) - disagreements near cost ties are reported, not hidden",
    "theorems are over exact arithmetic (ordered field / ordered monoid with top); NaN is outside them and is a recorded finding",
]

FULL_C = [0, 1, 2, 3, 4, 5]
FULL_O = [1, 2, 3, 4]
MINIMA = [(0.0, 0.0), (1.0, 0.0), (3.0, 4.0), (0.0, 2.0)]
EPOCHS = [1, 2, 3, 4, 6]


def enum_specs(ctx):
    if ctx.tier == "quick":
        return [dict(lens=[1, 2, 3], calpha=FULL_C, oalpha=FULL_O, epochs=EPOCHS, pens=[0.0, 2.0], minima=MINIMA),
                dict(lens=[4], calpha=[0, 2, 5], oalpha=[1, 4], epochs=EPOCHS, pens=[0.0, 2.0], minima=MINIMA)]
    # thorough: the full alphabet up to length 3 with three penalties, length 4 with the full count alphabet and offsets
    # {1,2,4} (the full offset alphabet there is 331 776 vectors x 8 option sets: outside the 20 min budget), lengths 5-6
    # over the reduced alphabets
    return [dict(lens=[1, 2, 3], calpha=FULL_C, oalpha=FULL_O, epochs=EPOCHS, pens=[0.0, 1.0, 2.0], minima=MINIMA),
            dict(lens=[4], calpha=FULL_C, oalpha=[1, 2, 4], epochs=EPOCHS, pens=[0.0, 2.0], minima=MINIMA),
            dict(lens=[5, 6], calpha=[0, 2, 5], oalpha=[1, 4], epochs=EPOCHS, pens=[0.0, 2.0], minima=MINIMA)]


def superadditive(tab, d):
    """hypothesis of `pelt_sound_of_superadditive`, evaluated on this input"""
    for i in range(d):
        for j in range(i + 1, d):
            for t in range(j + 1, d + 1):
                if tab[i][j] + tab[j][t] > tab[i][t] + 1e-12 * max(1.0, abs(tab[i][t])):
                    return False
    return True


def check_fixed(res, stats, counts, epochs, got, model, model_q=None):
    """Since fix 412a87a the helper compares Y[i]*epochs with k*Y[n]: exact for integer-valued masses, so every
    deviation from the exact-rational statement on such inputs is a violation; for non-integer masses only a
    deviation at a near tie (rounding of the cumulative sums / products) is tolerated and counted."""
    replay = dict(kind="fixed", counts=[f2h(x) for x in counts], epochs=int(epochs))
    n = len(counts)
    if any(float(c) < 0 for c in counts):
        stats["fixed_pre_false"] += 1
        return
    stats["fixed_pre_true"] += 1
    if model != got:
        res.corr_failures.append(Violation(
            "fixed-model-differs", f"_fixed_changepoints({list(counts)}, {epochs}) = {got}, Lean model at Float = {model}",
            dict(replay, impl=got, model=model), "B"))
    shape_ok = len(got) == epochs + 1 and got[0] == 0 and got[-1] == n and all(a <= b for a, b in zip(got[:-1], got[1:]))
    if not shape_ok:
        res.violations.append(Violation(
            "fixed-boundaries-not-monotone-0-to-n", f"_fixed_changepoints({list(counts)}, {epochs}) = {got}: not non-decreasing from 0 to {n}", replay))
        return
    tot = float(np.sum(np.asarray(counts, dtype=float)))
    if tot <= 0:
        stats["fixed_zero_total"] += 1          # mass fractions undefined: only the shape is claimed
        return
    want, ties = cc.spec_fixed(counts, epochs)
    if model_q is not None and model_q != want:
        res.corr_failures.append(Violation(
            "fixed-exact-model-differs-from-spec", f"exact model {model_q} vs statement {want} on {list(counts)}, {epochs}", replay, "B"))
    if got != want:
        integral = all(float(c).is_integer() for c in counts) and tot * epochs < 2.0 ** 52
        if integral:
            kind = "fixed-boundary-wrong-on-exact-tie" if any(ties) else "fixed-boundary-wrong"
            res.violations.append(Violation(kind, f"_fixed_changepoints({list(counts)}, {epochs}) = {got}, statement gives {want}", replay))
        elif cc.near_tie(counts, epochs):
            stats["fixed_near_tie_rounding"] += 1
        else:
            res.violations.append(Violation(
                "fixed-boundary-wrong", f"_fixed_changepoints({list(counts)}, {epochs}) = {got}, statement gives {want}", replay))
    stats["fixed_exact_ties_honoured"] += int(any(ties) and got == want)
    if len(set(got)) > 2:
        res.nontrivial.add(common.canon_key(replay))


def check_pelt(res, stats, counts, offs, pen, minc, mino, got, model_p, model_d):
    replay = dict(kind="pelt", counts=[f2h(x) for x in counts], offs=[f2h(x) for x in offs], pen=f2h(pen),
                  minc=f2h(minc), mino=f2h(mino))
    if got != model_p:
        res.corr_failures.append(Violation(
            "pelt-model-differs", f"_poisson_changepoints({list(counts)}, {list(offs)}, {pen}, {minc}, {mino}) = {got}, "
            f"Lean model = {model_p}", dict(replay, impl=got, model=model_p), "B"))
    kind, what, info = cc.classify_pelt(counts, offs, pen, minc, mino, got)
    d = len(counts)
    if info.get("vacuous"):
        stats["pelt_no_feasible"] += 1
        return
    tab = cc.loss_table(counts, offs, minc, mino)
    has_zero = any(float(c) == 0 for c in counts)
    # the un-pruned recursion of the model must be optimal (theorem dp_optimal) whenever no NaN arises
    if not has_zero:
        cd = cc.INF if model_d == "K" else cc.seg_cost(tab, pen, model_d)
        if cd > info["optimum_cost"] + 1e-9 * max(1.0, abs(info["optimum_cost"])):
            res.corr_failures.append(Violation("dp-model-not-optimal", f"un-pruned model returned {model_d}, optimum {info['optimum']}", replay, "B"))
    sup = superadditive(tab, d)
    stats["hyp_superadditive"] += int(sup)
    stats["pelt_cases"] += 1
    if sup and kind is not None and not has_zero:
        res.corr_failures.append(Violation("pelt-sound-theorem-contradicted",
                                           f"loss superadditive on this input but the code is not optimal: {what}", replay, "B"))
    if kind is not None:
        stats["pelt_kinds"][kind] = stats["pelt_kinds"].get(kind, 0) + 1
        res.violations.append(Violation(
            kind, f"_poisson_changepoints(counts={list(counts)}, offsets={list(offs)}, penalty={pen}, min_counts={minc}, "
            f"min_offset={mino}): {what}", replay))
    if isinstance(got, list) and len(got) > 2:
        res.nontrivial.add(common.canon_key(replay))


def random_cases(ctx):
    rng = ctx.rng(1)
    fixed, pelt = [], []
    # corpus first
    pelt.append(([5.0, 5.0, 4.0, 2.0], [4.0, 1.0, 3.0, 2.0], 0.0, 3.0, 4.0))
    pelt.append(([1.0, 1.0, 1.0], [2.0, 1.0, 1.0], 0.0, 0.0, 2.0))
    fixed.append(([1.0] * 6, 6))
    fixed.append(([1.0] * 12, 6))
    for _ in range(ctx.n(400, 8000)):
        n = int(rng.integers(1, 41))
        fam = str(rng.choice(["float", "int", "equal", "zeros", "spiky"]))
        if fam == "float":
            c = np.exp(rng.uniform(-6, 6, size=n))
        elif fam == "int":
            c = rng.integers(1, 9, size=n).astype(float)
        elif fam == "equal":
            c = np.full(n, float(rng.choice([1.0, 0.1, 3.0, 7.5])))
        elif fam == "zeros":
            c = rng.integers(0, 3, size=n).astype(float)
        else:
            c = np.exp(rng.uniform(-2, 2, size=n))
            c[int(rng.integers(0, n))] *= 1e6
        e = int(rng.choice([1, 2, 3, 5, 6, 7, 10, 12, 20, 49, 100, 1000]))
        fixed.append(([float(x) for x in c], e))
    for _ in range(ctx.n(300, 6000)):
        n = int(rng.integers(1, 13))
        fam = str(rng.choice(["poisson", "int", "float", "change"]))
        offs = rng.integers(1, 6, size=n).astype(float) if rng.random() < 0.5 else np.exp(rng.uniform(-1, 3, size=n))
        if fam == "poisson":
            c = rng.poisson(offs * float(rng.choice([0.5, 2, 10]))).astype(float)
        elif fam == "int":
            c = rng.integers(1, 12, size=n).astype(float)
        elif fam == "float":
            c = np.exp(rng.uniform(-1, 4, size=n))
        else:
            k = int(rng.integers(0, n + 1))
            rate = np.where(np.arange(n) < k, 0.5, 8.0)
            c = np.maximum(1.0, np.round(offs * rate))
        pen = float(rng.choice([0.0, 0.0, 0.5, 2.0, 3.84, 10.0]))
        if rng.random() < 0.5:
            minc, mino = 0.0, 0.0
        else:
            minc = float(rng.choice([0.0, 1.0, 3.0, 10.0]))
            mino = float(rng.choice([0.0, 1.0, 4.0, 8.0]))
        pelt.append(([float(x) for x in c], [float(x) for x in offs], pen, minc, mino))
    return fixed, pelt


def run(ctx):
    res = Result()
    import tsdate  # noqa: F401
    stats = dict(fixed_pre_true=0, fixed_pre_false=0, fixed_zero_total=0, fixed_exact_ties_honoured=0, fixed_near_tie_rounding=0,
                 pelt_cases=0, pelt_no_feasible=0, hyp_superadditive=0, pelt_kinds={}, enum_domains=[], random_fixed=0,
                 random_pelt=0)
    specs = enum_specs(ctx)
    fixed, pelt = random_cases(ctx)
    parts = [cc.enc_enum(i, s) for i, s in enumerate(specs)]
    base = len(specs)
    ids = []
    for (c, e) in fixed:
        ids.append(("F", len(parts)))
        parts.append(cc.enc_fixed(base + len(ids), c, e, "f"))
        parts.append(cc.enc_fixed(base + len(ids), c, e, "q"))
    for (c, o, pen, mc, mo) in pelt:
        parts.append(cc.enc_pelt(base + len(ids) + 1, c, o, pen, mc, mo))
        ids.append(("P", None))
    lines = cc.run_driver("".join(parts))
    pos = 0
    # ---- exhaustive domains, in lock step with the driver's enumeration
    for si, spec in enumerate(specs):
        n0 = pos
        for case in cc.enum_cases(spec):
            line = lines[pos]
            pos += 1
            res.evaluations += 1
            if case[0] == "F":
                _, cv, e = case
                counts = [float(x) for x in cv]
                check_fixed(res, stats, counts, e, cc.real_fixed(counts, e), cc.parse_fixed_line(line))
            else:
                _, cv, ov, pen, mc, mo = case
                counts, offs = [float(x) for x in cv], [float(x) for x in ov]
                mp, md = cc.parse_pelt_line(line)
                check_pelt(res, stats, counts, offs, pen, mc, mo, cc.real_pelt(counts, offs, pen, mc, mo), mp, md)
        done = lines[pos].split()
        pos += 1
        if done[1] != "done" or int(done[2]) != pos - 1 - n0:
            raise RuntimeError(f"enumeration out of step: {done} vs {pos - 1 - n0}")
        stats["enum_domains"].append(dict(lens=spec["lens"], counts_alphabet=spec["calpha"], offsets_alphabet=spec["oalpha"],
                                          epochs=spec["epochs"], penalties=spec["pens"], minima=spec["minima"],
                                          cases=pos - 1 - n0))
    # ---- random longer vectors
    for (c, e) in fixed:
        lf, lq = lines[pos], lines[pos + 1]
        pos += 2
        res.evaluations += 1
        stats["random_fixed"] += 1
        mf = None if lf.split()[1:] == ["bad-op"] else [int(x) for x in lf.split()[2:]]
        mq = None if lq.split()[1:] == ["bad-op"] else [int(x) for x in lq.split()[2:]]
        check_fixed(res, stats, c, e, cc.real_fixed(c, e), mf, mq)
    for (c, o, pen, mc, mo) in pelt:
        ln = lines[pos]
        pos += 1
        res.evaluations += 1
        stats["random_pelt"] += 1
        mp, md = cc.parse_pelt_line(ln.split(" ", 1)[1])
        check_pelt(res, stats, c, o, pen, mc, mo, cc.real_pelt(c, o, pen, mc, mo), mp, md)
    res.exhaustive = True
    res.sample(dict(kind="pelt", counts=[5, 5, 4, 2], offsets=[4, 1, 3, 2], penalty=0, min_counts=3, min_offset=4,
                    code=cc.real_pelt([5, 5, 4, 2], [4, 1, 3, 2], 0, 3, 4), optimum=[0, 2, 4]))
    res.sample(dict(kind="fixed", counts=[1] * 6, epochs=6, code=cc.real_fixed([1.0] * 6, 6), statement=[0, 1, 2, 3, 4, 5, 6]))
    res.sample(dict(kind="fixed", counts=[0, 0, 0], epochs=2, code=cc.real_fixed([0.0] * 3, 2), statement="any non-decreasing 0..n"))
    res.rule = ("B+C exhaustive: every counts vector over the stated alphabet and every offsets vector over the stated alphabet, "
                "for every listed length, penalty, (min_counts, min_offset) pair and epochs value (domains in "
                "coverage.input_distribution.enum_domains; the Lean driver enumerates the same domain in the same order and the "
                "outputs are compared line by line), plus random vectors up to length 40 (fixed) / 12 (PELT, brute-forced). "
                "Non-trivial = result has at least one interior boundary; distinct by canonical hash of the input.")
    stats["hyp_superadditive_rate"] = stats["hyp_superadditive"] / max(1, stats["pelt_cases"])
    stats["hyp_fixedPre_rate"] = stats["fixed_pre_true"] / max(1, stats["fixed_pre_true"] + stats["fixed_pre_false"])
    res.extra = dict(input_distribution=stats)
    return res


def search(ctx):
    """implementation-side only: random PELT inputs without minimum constraints and with positive counts"""
    res = Result()
    stats = dict(pelt_cases=0, pelt_no_feasible=0, hyp_superadditive=0, pelt_kinds={})
    rng = ctx.rng(9)
    for _ in range(ctx.n(300, 1000)):
        n = int(rng.integers(2, 12))
        offs = rng.integers(1, 6, size=n).astype(float)
        c = rng.integers(1, 30, size=n).astype(float)
        pen = float(rng.choice([0.0, 1.0, 3.0]))
        got = cc.real_pelt(c, offs, pen, 0.0, 0.0)
        res.evaluations += 1
        check_pelt(res, stats, list(c), list(offs), pen, 0.0, 0.0, got, got, got)
    res.corr_failures = []
    return res


def replay(ctx, payload):
    from ..common import h2f
    d = payload.get("input") or payload.get("correspondence_input")
    import tsdate  # noqa: F401
    if d["kind"] == "fixed":
        counts, e = [h2f(x) for x in d["counts"]], int(d["epochs"])
        got = cc.real_fixed(counts, e)
        out = cc.run_driver(cc.enc_fixed(0, counts, e, "f"))
        print("counts", counts, "epochs", e)
        print("implementation:", got)
        print("model (Float) :", out[0])
        tot = sum(counts)
        if tot > 0:
            want, ties = cc.spec_fixed(counts, e)
            print("statement     :", want, "(exact ties at k:", [k + 1 for k, t in enumerate(ties) if t], ")")
            return got == want
        return got[0] == 0 and got[-1] == len(counts) and all(a <= b for a, b in zip(got[:-1], got[1:]))
    if d["kind"] == "pelt":
        counts, offs = [h2f(x) for x in d["counts"]], [h2f(x) for x in d["offs"]]
        pen, mc, mo = h2f(d["pen"]), h2f(d["minc"]), h2f(d["mino"])
        got = cc.real_pelt(counts, offs, pen, mc, mo)
        out = cc.run_driver(cc.enc_pelt(0, counts, offs, pen, mc, mo))
        kind, what, info = cc.classify_pelt(counts, offs, pen, mc, mo, got)
        print("counts", counts, "offsets", offs, "penalty", pen, "min_counts", mc, "min_offset", mo)
        print("implementation:", got)
        print("model         :", out[0], "(P = code's pruned recursion, D = un-pruned)")
        print("brute force   :", info.get("optimum"), info.get("optimum_cost"), "->", kind or "ok", what)
        return kind is None
    return False
