"""
C10 — inside-outside is exact on a single tree.

A  theorems in Props/C10 (packed triangular indexing, reduceat row sums, inside pass = matrix recursion,
   normaliser and posterior = exhaustive enumeration of the discretised model).
B  correspondence: real Likelihoods/LogLikelihoods + BeliefPropagation.inside_pass/outside_pass vs the Lean
   model (Driver/Discrete.lean) at Float (both spaces) and at Rat (linear, exact), on the implementation's own
   likelihood tables, prior rows, span fractions and edge orders; every inside row, outside row, denominator
   and the marginal likelihood are compared.
C  oracle: the public API `tsdate.inside_outside(..., return_fit=True, return_likelihood=True)` against a
   brute-force enumeration of prior x Poisson edge likelihood x [child <= parent] over all rooted tree shapes
   (binary and polytomies) x mutation counts x grids x priors x spaces x eps.
"""

import itertools

import numpy as np

from .. import common, discrete_corr as dc
from ..common import Result, Violation, f2h

META = dict(
    level='Full: Lean theorems over the packed model of tsdate/discrete.py, for all grid sizes, all single trees (binary and polytomies), all priors/likelihood tables: packings are bijections onto [0,G(G+1)/2), reduceat row sums = unpacked matrix-vector products, concatenate(row_indices) = transpose; the inside pass satisfies the order-free recursion for any child-first order (any probability space); inside_marginal: returned likelihood = exhaustive normaliser; posterior_exact: inside x outside = non-zero multiple of the exhaustive marginal for every non-sample node, standardised or not, without assuming anything about the 0/0 convention (non-negativity argument); posterior_exact_hom transfers both to log space through C12; post-processing (standardize, to_probabilities) normalises when max over columns 1: is non-zero, and a proved counterexample otherwise (known finding: all posterior mass at the first timepoint -> nan). Model tied to the real inside_pass/outside_pass/post-processing on every intermediate array (Float both spaces, Rat exact); public API vs exhaustive enumeration over all tree shapes up to 5 (thorough 6) leaves.',
    note='Lean kernel + {propext, Classical.choice, Quot.sound}; sampled correspondence at Float/Rat with rtol 1e-9; Poisson pmf and prior grid are inputs; exact arithmetic (under/overflow outside)',
    technique='refinement: packed fold model = matrix recursion = brute-force sum (variable elimination by induction) + model/implementation correspondence',
    ref='§3 C10',
)
LEAN_PROPS = ["TsdateVerif.Props.C10"]
LEAN_BUILD = ["TsdateVerif.Model.Proto", "TsdateVerif.Model.Discrete"]
ASSUMPTIONS = [
    "likelihood tables (scipy Poisson pmf/logpmf) and prior rows are inputs of the model, passed through from the implementation",
    "theorems are over exact arithmetic (fields / ordered fields); IEEE rounding, underflow and overflow are outside them",
    "samples are fixed at grid index 0 (the code's own convention: timediff = timepoints - timepoints[0] + eps)",
    "tskit edge order (parents contiguous, children before parents) is a checked hypothesis (GroupsOK), evaluated on every generated input",
]

GRIDS = {
    "g3": [0.0, 1.0, 2.0],
    "g4": [0.0, 0.5, 1.7, 4.0],
    "g5": [0.0, 0.3, 1.0, 2.2, 5.0],
}
RTOL = 1e-9


def groups_ok(r):
    """Decidable hypothesis of the inside theorems, evaluated on the real edge list: each non-fixed parent
    forms one contiguous run, and no non-fixed child of a run is the parent of that or a later run."""
    fixed = r["fixed"]
    runs = []
    for (i, p, c) in r["edges"]:
        if runs and runs[-1][0] == p:
            runs[-1][1].append(c)
        else:
            runs.append((p, [c]))
    parents = [p for p, _ in runs if not fixed[p]]
    if len(parents) != len(set(parents)):
        return False
    for k, (p, kids) in enumerate(runs):
        if fixed[p]:
            continue
        later = {q for q, _ in runs[k:] if not fixed[q]}
        if any((not fixed[c]) and c in later for c in kids):
            return False
    return True


def single_tree_ok(r):
    """every non-fixed node except one (the root) is the child of exactly one edge; one root entry"""
    kids = [c for (_, _, c) in r["edges"]]
    nonfixed = r["nonfixed"]
    roots = [u for u in nonfixed if kids.count(u) == 0]
    return len(roots) == 1 and all(kids.count(u) == 1 for u in nonfixed if u != roots[0]) \
        and len(r["roots"]) == 1 and r["roots"][0][0] == roots[0] and all(x == 1.0 for x in r["frac"])


def outside_ok(r):
    """Decidable hypothesis `outsideOK` of posterior_exact, on the real edges_by_child_desc order: every
    non-fixed child forms one run consisting of a single input edge, every input edge with a non-fixed child
    has its run, and no parent of a run is the child of that or a later run."""
    fixed = r["fixed"]
    runs = []
    for (i, p, c) in r["order"]:
        if runs and runs[-1][0] == c:
            runs[-1][1].append((i, p, c))
        else:
            runs.append((c, [(i, p, c)]))
    keys = [c for c, _ in runs if not fixed[c]]
    if len(keys) != len(set(keys)):
        return False
    edges = set(r["edges"])
    for k, (c, es) in enumerate(runs):
        if fixed[c]:
            continue
        if len(es) != 1 or es[0] not in edges:
            return False
        later = {q for q, _ in runs[k:] if not fixed[q]}
        if es[0][1] in later:
            return False
    have = {es[0] for c, es in runs if not fixed[c]}
    return all(fixed[c] or (i, p, c) in have for (i, p, c) in r["edges"])


def nonneg_ok(r):
    """non-negativity hypotheses of posterior_exact (linear space): inside rows and likelihood tables"""
    if r["space"] != dc.LIN:
        return None
    return all(np.all(v >= 0) for v in r["inside"].values()) and all(np.all(v >= 0) for v in r["lik"].values())


def mut_patterns(rng, n_edges, internal_edge_idx, how_many, max_m):
    """mutation-count vectors: all zero, one with a mutation on an internal-internal edge, random ones"""
    pats = [tuple([0] * n_edges)]
    if internal_edge_idx:
        v = [0] * n_edges
        v[internal_edge_idx[0]] = 1
        v[0] = max_m
        pats.append(tuple(v))
    while len(pats) < how_many:
        pats.append(tuple(int(x) for x in rng.integers(0, max_m + 1, size=n_edges)))
    return pats[:how_many]


def api_case(ts, tp, rows, mu, eps, space, std_out, cache):
    """The observable of C10: node posteriors and marginal likelihood returned by the public API."""
    import tsdate
    from .. import dating
    dating.quiet()
    pr = dc.make_priors(ts, tp, rows)
    try:
        out = tsdate.inside_outside(ts, mutation_rate=mu, priors=pr, eps=eps, probability_space=space,
                                    outside_standardize=std_out, cache_inside=cache, return_fit=True,
                                    return_likelihood=True, progress=False)
    except BaseException as e:  # noqa: BLE001
        if isinstance(e, (KeyboardInterrupt, MemoryError)):
            raise
        return dict(ok=False, exc=type(e).__name__, msg=str(e)[:200])
    dts, fit, lik = out
    post = fit.node_posteriors()
    G = len(tp)
    arr = np.array(post.tolist(), dtype=float).reshape(ts.num_nodes, G)
    meta = {}
    for n in dts.nodes():
        if isinstance(n.metadata, dict) and "mn" in n.metadata:
            meta[n.id] = (float(n.metadata["mn"]), float(n.metadata["vr"]))
    return dict(ok=True, post=arr, lik=float(lik), meta=meta)


def case_replay(shape, muts, perm, grid, kind, rows, mu, eps, space, std_out, cache, root_muts=0, stacked=0):
    return dict(kind="shape", shape=repr(shape), muts=list(map(int, muts)), perm=None if perm is None else list(map(int, perm)),
                root_muts=int(root_muts), stacked=int(stacked),
                grid=grid, prior_kind=kind, rows={str(u): [f2h(x) for x in r] for u, r in rows.items()},
                mu=f2h(mu), eps=f2h(eps), space=space, std_out=bool(std_out), cache=bool(cache))


def check_case(ts, tp, rows, mu, eps, space, std_out, cache, replay, res, stats, want_corr=True):
    """Run one input through C (API vs brute force) and collect the B case.  Returns the impl record or None."""
    Z, marg = dc.brute_force(ts, rows, tp, mu, eps)
    res.evaluations += 1
    if not (Z > 0):
        stats["degenerate_zero_normaliser"] += 1
        return None
    api = api_case(ts, tp, rows, mu, eps, space, std_out, cache)
    # finding F-C10-a: some node's exact posterior sits entirely on the first timepoint
    point_mass = [u for u, m in marg.items() if not np.any(np.asarray(m)[1:] > 0)]
    if not api["ok"]:
        stats["raised"][api["exc"]] = stats["raised"].get(api["exc"], 0) + 1
        if point_mass and api["exc"] == "LibraryError" and "NONFINITE" in api["msg"].upper().replace(" ", "").replace("_", ""):
            res.violations.append(Violation(
                "posterior-all-mass-at-first-timepoint",
                f"inside_outside raised {api['exc']}: {api['msg']}; node(s) {point_mass} have exact posterior [1,0,...,0] "
                f"(normaliser {Z!r} > 0): standardize() divides by the maximum over columns 1:", replay))
        else:
            res.violations.append(Violation(f"inside-outside-raised:{api['exc']}",
                                            f"inside_outside raised {api['exc']}: {api['msg']} on a single tree with positive normaliser",
                                            replay))
        return None
    zl = api["lik"] if space == dc.LIN else np.exp(api["lik"])
    if not dc.close(zl, Z, rtol=RTOL):
        res.violations.append(Violation(f"marginal-likelihood-differs:{space}",
                                        f"returned likelihood {zl!r} != exact normaliser {Z!r} ({space})", replay))
    for u, m in marg.items():
        want = dc.normalise(m)
        got = api["post"][u]
        if not np.allclose(got, want, rtol=RTOL, atol=1e-13):
            i = int(np.argmax(np.abs(got - want)))
            res.violations.append(Violation(
                f"posterior-differs-from-enumeration:{space}:{'std' if std_out else 'raw'}",
                f"node {u} posterior {got.tolist()} != exact {want.tolist()} (index {i}, {space}, outside_standardize={std_out})",
                replay))
            break
        # posterior mean / variance written to the node metadata (core.mean_var)
        if u in api["meta"]:
            tpa = np.asarray(tp, dtype=float)
            mn = float(np.sum(want * tpa))
            vr = float(np.sum(want * (tpa - mn) ** 2))
            gm, gv = api["meta"][u]
            if not (dc.close(gm, mn, rtol=1e-8, atol=1e-9) and dc.close(gv, vr, rtol=1e-7, atol=1e-9)):
                res.violations.append(Violation(
                    f"posterior-mean-var-differs:{space}",
                    f"node {u} metadata (mn, vr) = ({gm!r}, {gv!r}) but the exact posterior has ({mn!r}, {vr!r})", replay))
                break
    if not want_corr:
        return None
    pr = dc.make_priors(ts, tp, rows)
    try:
        r = dc.run_impl(ts, pr, mu, eps, space, std_in=True, cache=cache, std_out=std_out)
    except BaseException as e:  # noqa: BLE001
        if isinstance(e, (KeyboardInterrupt, MemoryError)):
            raise
        stats["raised"][type(e).__name__] = stats["raised"].get(type(e).__name__, 0) + 1
        return None
    r["replay"] = replay
    r["py_brute"] = (Z, marg)
    r["want_brute"] = (r["G"] ** len(r["nonfixed"]) <= 130) and space == dc.LIN
    return r


def enumerate_inputs(ctx, kmax, n_muts, res, stats):
    """All tree shapes with 2..kmax leaves x mutation patterns x grids x priors x spaces."""
    rng = ctx.rng(1)
    corr = []
    tss_seen = stats.setdefault("_tss", [])
    for k in range(2, kmax + 1):
        for shape in dc.tree_shapes(k):
            kk, n, edges, height = dc.shape_edges(shape)
            internal_edges = [i for i, (p, c) in enumerate(edges) if c >= kk]
            pats = mut_patterns(rng, len(edges), internal_edges, n_muts, 2)
            for muts in pats:
                perm = None if rng.random() < 0.5 else [int(x) for x in rng.permutation(np.arange(kk, n))]
                # mutations above the root (on no edge) and sites with several mutations
                root_muts = int(rng.choice([0, 1, 2]))
                stacked = int(rng.choice([0, 0, 1]))
                ts = dc.ts_from_shape(shape, muts, perm=perm, root_muts=root_muts, stacked=stacked)
                stats["root_mutations"] = stats.get("root_mutations", 0) + int(root_muts + stacked > 0)
                tss_seen.append(ts)
                n_int = n - kk
                gnames = [g for g in GRIDS if len(GRIDS[g]) ** n_int <= 700]
                for gname in gnames:
                    tp = GRIDS[gname]
                    kind = str(rng.choice(["flat", "rand", "zero0", "sparse"]))
                    if k <= 3 and gname == "g3" and muts == pats[0]:
                        kind = "first"      # all prior mass on the first timepoint (finding F-C10-a)
                    rows = dc.random_prior_rows(rng, ts, len(tp), kind)
                    mu = float(rng.choice([5e-4, 1e-3, 3e-3]))
                    eps = float(rng.choice([1e-8, 1e-2, 0.0, 0.25]))
                    for space in (dc.LIN, dc.LOG):
                        std_out = bool(rng.random() < 0.5)
                        cache = bool(rng.random() < 0.5)
                        replay = case_replay(shape, muts, perm, gname, kind, rows, mu, eps, space, std_out, cache,
                                             root_muts, stacked)
                        r = check_case(ts, tp, rows, mu, eps, space, std_out, cache, replay, res, stats)
                        stats["shapes"][k] = stats["shapes"].get(k, 0) + 1
                        stats["grids"][gname] = stats["grids"].get(gname, 0) + 1
                        stats["prior_kinds"][kind] = stats["prior_kinds"].get(kind, 0) + 1
                        stats["spaces"][space] = stats["spaces"].get(space, 0) + 1
                        if r is None:
                            continue
                        nontrivial = any(muts[i] > 0 for i in internal_edges) or (root_muts + stacked > 0)
                        if nontrivial:
                            res.nontrivial.add(common.canon_key([repr(shape), list(muts), gname, space, kind, eps, mu]))
                        res.sample(dict(shape=repr(shape), muts=list(muts), grid=tp, prior=kind, mu=mu, eps=eps,
                                        space=space, outside_standardize=std_out, marginal_likelihood=r["marg"]))
                        corr.append(r)
    return corr


def multitree_inputs(ctx, n_cases, stats):
    """Small multi-tree inputs (span fractions != 1) for the correspondence only."""
    import tsdate
    from .. import gen
    rng = ctx.rng(2)
    out = []
    tries = 0
    while len(out) < n_cases and tries < 10 * n_cases:
        tries += 1
        ts, info = gen.gen_ts(rng, n=int(rng.integers(2, 6)), trees=int(rng.choice([2, 3, 5])),
                              muts_per_edge=float(rng.choice([0.3, 1, 2])), rootmuts=0.5)
        stats.setdefault("_tss", []).append(ts)
        if ts.num_trees < 2 or ts.num_mutations == 0:
            continue
        tp_n = int(rng.integers(3, 7))
        try:
            pr = tsdate.build_prior_grid(ts, info["Ne"], timepoints=tp_n)
        except BaseException:  # noqa: BLE001
            continue
        space = str(rng.choice([dc.LIN, dc.LOG]))
        std_out = bool(rng.random() < 0.5)
        eps = float(rng.choice([1e-8, 1e-6]))
        cache = bool(rng.random() < 0.5)
        try:
            r = dc.run_impl(ts, pr, info["mu"], eps, space, std_in=True, cache=cache, std_out=std_out)
        except BaseException as e:  # noqa: BLE001
            stats["raised"][type(e).__name__] = stats["raised"].get(type(e).__name__, 0) + 1
            continue
        from .. import gen as g2
        r["replay"] = dict(kind="multitree", ts=g2.ts_to_jsonable(ts), Ne=info["Ne"], mu=f2h(info["mu"]), space=space,
                           std_out=std_out, G=r["G"], timepoints=tp_n, eps=f2h(eps), cache=cache)
        stats["multitree"] += 1
        out.append(r)
    return out


def correspondence(recs, res, stats):
    """Stage B on the collected implementation records."""
    cases = []
    for r in recs:
        cases.append((r, "float"))
        if r["space"] == dc.LIN and all(x == 1.0 for x in r["frac"]) and all(f == 1.0 for _, f in r["roots"]):
            cases.append((r, "rat"))
    extra = {}
    outs = dc.run_model(cases, dc.mutedges_text(stats.get("_tss", [])), extra)
    stats["_mutedges_lines"] = extra
    same = tot = 0
    hyp = dict(groups_ok=0, single_tree=0, denoms_nonzero=0, outside_ok=0, nonneg_ok=0, nonneg_n=0,
               outside_finite=0, n=0)
    for (r, carrier), m in zip(cases, outs):
        stats["model_runs"][carrier] = stats["model_runs"].get(carrier, 0) + 1
        if carrier == "float":
            hyp["n"] += 1
            hyp["groups_ok"] += int(groups_ok(r))
            hyp["single_tree"] += int(single_tree_ok(r))
            null = 0.0 if r["space"] == dc.LIN else -np.inf
            hyp["denoms_nonzero"] += int(all(d > null for d in r["denom"].values()))
            hyp["outside_ok"] += int(outside_ok(r))
            nn = nonneg_ok(r)
            if nn is not None:
                hyp["nonneg_n"] += 1
                hyp["nonneg_ok"] += int(nn)
            # standardisers non-zero <=> no nan/+inf produced by the outside pass
            hyp["outside_finite"] += int(all(np.all(~np.isnan(v)) and not np.any(v == np.inf) for v in r["outside"].values()))
        if m is None:
            res.corr_failures.append(Violation("discrete-model-rejects-input", "Lean driver answered bad-op on an input the implementation accepted",
                                               r["replay"], stage="B"))
            continue
        bad = dc.compare(r, m, rtol=RTOL)
        if bad:
            f = bad[0]
            res.corr_failures.append(Violation(
                f"discrete-model-differs:{f[0]}:{r['space']}:{carrier}",
                f"{f[0]} of node {f[1]}[{f[2]}]: implementation {f[3]!r} vs Lean model ({carrier}) {f[4]!r}; {len(bad)} value(s) differ",
                r["replay"], stage="B"))
        if carrier == "float":
            s, t = dc.bit_equal(r, m)
            same += s
            tot += t
        if carrier == "rat" and m.get("brute") is not None:
            # the theorems, checked exactly on this input: inside_marginal and posterior_exact at Rat
            b = m["brute"]
            stats["exact_theorem_checks"] = stats.get("exact_theorem_checks", 0) + 1
            if b["Z"] != m["marg"]:
                res.corr_failures.append(Violation("lean-model-vs-lean-spec:marginal",
                                                   f"Lean model marginal likelihood {float(m['marg'])!r} != Lean bruteZ {float(b['Z'])!r} (exact rationals)",
                                                   r["replay"], stage="B"))
            for u in r["nonfixed"]:
                P = [x * y for x, y in zip(m["inside"][u], m["outside"][u])]
                M = b["marg"][u]
                if any(P[i] * M[j] != P[j] * M[i] for i in range(len(P)) for j in range(len(P))) or (any(M) and not any(P)):
                    res.corr_failures.append(Violation("lean-model-vs-lean-spec:posterior",
                                                       f"Lean model inside*outside of node {u} is not proportional to Lean bruteMarginal (exact rationals)",
                                                       r["replay"], stage="B"))
                    break
            # the Lean spec and the Python enumeration state the same thing
            if "py_brute" in r:
                Zp, margp = r["py_brute"]
                if not dc.close(Zp, b["Z"], rtol=1e-9):
                    res.corr_failures.append(Violation("lean-spec-vs-python-enumeration",
                                                       f"Lean bruteZ {float(b['Z'])!r} != Python enumeration {Zp!r}", r["replay"], stage="B"))
    stats["float_values_bit_identical"] = [same, tot]
    stats["hypothesis_hit_rates"] = hyp


def mutedges_stage(res, stats):
    """B for `get_mut_edges`: implementation vs Lean `mutEdges` vs independent count, exactly, on every generated
    tree sequence (root mutations, several mutations per site, multi-tree inputs with mutations above roots)."""
    from .. import gen
    tss = stats.pop("_tss", [])
    lines = stats.pop("_mutedges_lines", None)
    stats["mutedges_checked"] = len(tss)
    stats["mutedges_with_null_edge"] = int(sum(1 for ts in tss if np.any(ts.mutations_edge == -1)))
    for (i, impl, model, ind) in dc.mutedges_correspondence(tss, lines):
        ts = tss[i]
        res.corr_failures.append(Violation(
            "mut-edges-differ",
            f"get_mut_edges {impl} vs Lean mutEdges {model} vs counted from the trees {ind} "
            f"({int(np.sum(ts.mutations_edge == -1))} mutation(s) above a root)",
            dict(kind="mutedges", ts=gen.ts_to_jsonable(ts)), stage="B"))


def new_stats():
    return dict(shapes={}, grids={}, prior_kinds={}, spaces={}, raised={}, degenerate_zero_normaliser=0,
                multitree=0, model_runs={})


def run(ctx):
    res = Result()
    import tsdate  # noqa: F401
    stats = new_stats()
    kmax = 5 if ctx.tier == "quick" else 6
    n_muts = 2 if ctx.tier == "quick" else 4
    if ctx.boost > 1:
        n_muts *= 3
    recs = enumerate_inputs(ctx, kmax, n_muts, res, stats)
    recs += multitree_inputs(ctx, ctx.n(25, 300), stats)
    res.evaluations += stats["multitree"]
    correspondence(recs, res, stats)
    mutedges_stage(res, stats)
    res.exhaustive = False
    res.rule = ("every rooted tree shape (binary and polytomies, every internal node >= 2 children) with 2..%d leaves x "
                "mutation-count vectors (all-zero, one with a mutation on an internal-internal edge, random <= 2 per edge) x "
                "grids %s x prior kinds (flat, random, zero first slice, sparse zeros) x both probability spaces x eps in "
                "{0, 1e-8, 1e-2, 0.25} x outside_standardize x cache_inside x random renumbering of internal nodes; the public "
                "API result is compared with exhaustive enumeration (C), every intermediate array with the Lean model at "
                "Float and Rat (B); plus small multi-tree inputs for B. Non-trivial = at least one edge between two "
                "non-sample nodes carries a mutation; distinct by canonical hash of (shape, mutations, grid, space, prior "
                "kind, eps, mu)." % (kmax, sorted(GRIDS)))
    res.extra = dict(input_distribution=stats)
    return res


def search(ctx):
    res = Result()
    stats = new_stats()
    rng = ctx.rng(3)
    for _ in range(ctx.n(20, 60)):
        k = int(rng.integers(2, 6))
        shapes = dc.tree_shapes(k)
        shape = shapes[int(rng.integers(0, len(shapes)))]
        kk, n, edges, _ = dc.shape_edges(shape)
        muts = [int(x) for x in rng.integers(0, 4, size=len(edges))]
        ts = dc.ts_from_shape(shape, muts, perm=[int(x) for x in rng.permutation(np.arange(kk, n))])
        gname = str(rng.choice([g for g in GRIDS if len(GRIDS[g]) ** (n - kk) <= 700]))
        tp = GRIDS[gname]
        kind = str(rng.choice(["flat", "rand", "zero0", "sparse"]))
        rows = dc.random_prior_rows(rng, ts, len(tp), kind)
        mu, eps = float(rng.choice([5e-4, 1e-3, 3e-3])), float(rng.choice([1e-8, 1e-2, 0.0, 0.25]))
        for space in (dc.LIN, dc.LOG):
            for std_out in (False, True):
                replay = case_replay(shape, muts, None, gname, kind, rows, mu, eps, space, std_out, False)
                replay["ts"] = None
                check_case(ts, tp, rows, mu, eps, space, std_out, False, replay, res, stats, want_corr=False)
    return res


def _rebuild(d):
    shape = eval(d["shape"], {"__builtins__": {}})  # nested tuples only
    ts = dc.ts_from_shape(shape, d["muts"], perm=d["perm"], root_muts=d.get("root_muts", 0), stacked=d.get("stacked", 0))
    rows = {int(u): np.array([common.h2f(x) for x in r]) for u, r in d["rows"].items()}
    return ts, GRIDS[d["grid"]], rows, common.h2f(d["mu"]), common.h2f(d["eps"])


def replay(ctx, payload):
    import tsdate  # noqa: F401
    d = payload["input"] if "input" in payload else payload.get("correspondence_input")
    res, stats = Result(), new_stats()
    if d["kind"] == "mutedges":
        from .. import gen
        ts = gen.ts_from_jsonable(d["ts"])
        bad = dc.mutedges_correspondence([ts])
        from tsdate.discrete import Likelihoods
        print("get_mut_edges          :", [int(x) for x in Likelihoods.get_mut_edges(ts)])
        print("counted from the trees :", [int(x) for x in dc.mut_edges_independent(ts)])
        print("Lean mutEdges          :", "agrees" if not bad else bad[0][2])
        return not bad
    if d["kind"] == "shape":
        ts, tp, rows, mu, eps = _rebuild(d)
        print(ts.draw_text())
        r = check_case(ts, tp, rows, mu, eps, d["space"], d["std_out"], d["cache"], d, res, stats)
        Z, marg = dc.brute_force(ts, rows, tp, mu, eps)
        api = api_case(ts, tp, rows, mu, eps, d["space"], d["std_out"], d["cache"])
        print("exact normaliser        :", Z)
        print("returned likelihood     :", api.get("lik"), "(log)" if d["space"] == dc.LOG else "")
        for u, m in marg.items():
            print(f"node {u} exact posterior   :", dc.normalise(m).tolist())
            print(f"node {u} returned posterior:", api["post"][u].tolist() if api["ok"] else api)
        recs = [r] if r is not None else []
    else:
        from .. import gen
        ts = gen.ts_from_jsonable(d["ts"])
        pr = tsdate.build_prior_grid(ts, d["Ne"], timepoints=d["timepoints"])
        print(f"multi-tree correspondence input: {ts.num_trees} trees, {ts.num_nodes} nodes, G={len(pr.timepoints)}")
        r = dc.run_impl(ts, pr, common.h2f(d["mu"]), common.h2f(d["eps"]), d["space"], std_in=True,
                        cache=d["cache"], std_out=d["std_out"])
        r["replay"] = d
        recs = [r]
    if recs:
        correspondence(recs, res, stats)
        for c in res.corr_failures:
            print("model vs implementation :", c.what)
        if not res.corr_failures:
            print("model vs implementation : identical within 1e-9 (Float and Rat)")
    for v in res.violations:
        print("violation:", v.kind, "-", v.what)
    return not res.violations and not res.corr_failures
