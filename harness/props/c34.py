"""
C34 — the command-line interface is faithful to the Python API.

A  translate/cli.py regenerates Gen/Cli.lean (parser introspection + flattened runner ASTs);
   Props/C34 re-proves faithfulness for every argument namespace from the regenerated program.
B  exhaustive correspondence on the option lattice: the real `tsdate_main(argv)` with the API
   functions replaced by recorders vs the Lean interpreter run on the namespace the real parser
   produced (outcome, keyword order, values); the boolean converter vs `convertBool`.
C  the statement itself: (i) on the whole lattice, every option given on the command line reaches
   the recorded API call under its documented name with the value given, boolean words honoured,
   invalid words rejected; (ii) real runs on files: CLI output == API output modulo provenance
   timing, CLI fails iff the API call fails, a failing CLI run writes no output.
"""

import os

import numpy as np

from .. import cli_corr as cc, common, gen
from ..common import Result, Violation

META = dict(
    level='Lean theorems over the regenerated CLI model (Gen/Cli.lean: parse table by introspection of the real argparse parser, run_date/run_preprocess flattened from their ASTs), for every argument namespace: `tsdate preprocess` passes every option to preprocess_ts under its name (full); `tsdate date` errors explicitly, or passes every option under the documented keyword, or the option was not given - for all options except -e under variational_gamma (partial; the negation of the full statement is proved: -e is silently ignored there, a known finding that stays because tests/test_cli.py of the repository expects `--epsilon 1e-3` to succeed under the default method); successful runs load args.tree_sequence, call the right function once and dump to args.output; every keyword passed is a parameter of the API function reached (signatures regenerated from core.py/util.py); boolean converters map False/false/0/no to False and True/true/1/yes to True. Tie: translator every run + exhaustive lattice (8192 date + 1568 preprocess command lines) of real tsdate_main runs with recorded API calls vs the Lean interpreter; real CLI-vs-API file comparison on a sample. Outside: argparse itself, numeric conversion of option values, tskit.load failure path.',
    note='Lean kernel + {propext, Classical.choice, Quot.sound}; translator translate/cli.py (~300 lines) trusted but cross-checked by executing the generated program against the real runner on the whole lattice; argparse by contract',
    technique='source-to-Lean translation of the runners + generic soundness theorem of a decidable static check + exhaustive correspondence over the option lattice',
    ref='§3 C34',
)
LEAN_PROPS = ["TsdateVerif.Props.C34"]
LEAN_BUILD = ["TsdateVerif.Model.Proto", "TsdateVerif.Gen.Cli"]
TRANSLATORS = ["cli", "provparams"]
ASSUMPTIONS = [
    "argparse (option matching, nargs, choices, store_true/count actions) is taken by contract; the namespace handed to the model is the one the real parser produced",
    "float()/int() conversion of option values is not modelled (values cross as parsed objects)",
    "the CLI is run in-process through tsdate.cli.tsdate_main (the console-script entry point), not through a shell",
]
TRUSTED = ["translate/cli.py (parser introspection, AST flattening); harness/cli_corr.py recorders around tskit.load / tsdate.date / tsdate.preprocess_ts"]

EPS_KIND = "epsilon-silently-ignored-variational-gamma"


# ----------------------------------------------------------------------------- B + C(i): lattice with recorders

def lattice_stage(ctx, res, stats):
    rng = ctx.rng(1)
    texts, pending = [], {}
    idx = 0
    for sub, lat in (("date", cc.date_lattice(rng)), ("preprocess", cc.preprocess_lattice(rng))):
        for item in lat:
            argv, given = item[0], item[1]
            dep = item[2] if len(item) > 2 else False
            idx += 1
            cid = f"{sub[0]}{idx}"
            impl = cc.stub_run(argv)
            ns = cc.parse_only(argv)
            res.evaluations += 1
            stats["lattice"][sub] = stats["lattice"].get(sub, 0) + 1
            stats["impl_outcomes"][impl[0]] = stats["impl_outcomes"].get(impl[0], 0) + 1
            rp = dict(kind="argv", argv=argv, given={k: (v if not isinstance(v, float) else repr(v)) for k, v in given.items()})
            # ---- C(i): the statement on the recorded call
            for kind, what in lattice_oracle(sub, argv, given, dep, impl, ns):
                res.violations.append(Violation(kind, f"`tsdate {' '.join(argv)}`: {what}", rp))
            if ns is None:
                if impl[0] != "parse-error":
                    res.corr_failures.append(Violation("cli-parse-disagrees", f"parser rejects {argv} but tsdate_main gave {impl[0]}", rp, "B"))
                continue
            texts.append(cc.encode_ns(cid, sub, ns))
            pending[cid] = (argv, impl, rp, given)
    # boolean converter tie
    import tsdate.cli as cli
    conv_types = {}
    parser = cli.tsdate_cli_parser()
    for sp in [a for a in parser._actions if hasattr(a, "choices") and isinstance(a.choices, dict)]:
        for p in sp.choices.values():
            for a in p._actions:
                if a.type is not None and getattr(a.type, "__name__", "") in ("bool", "str_to_bool"):
                    conv_types[a.type.__name__] = a.type
    words = cc.TRUE_WORDS + cc.FALSE_WORDS + cc.BAD_WORDS + ["tRuE", "fAlSe", "NO", "YES"]
    conv_expect = {}
    for tname, fn in conv_types.items():
        for w in words:
            if " " in w:
                continue
            cid = f"c{len(conv_expect)}"
            try:
                r = "T" if fn(w) else "F"
            except Exception:  # noqa: BLE001
                r = "E"
            conv_expect[cid] = (tname, w, r)
            texts.append(cc.encode_conv(cid, tname, w))
    stats["bool_converters"] = sorted(conv_types)
    replies = cc.run_model(texts)
    for cid, (tname, w, r) in conv_expect.items():
        res.evaluations += 1
        m = replies.get(cid)
        if m != ("conv", r):
            res.corr_failures.append(Violation("bool-converter-model-differs", f"{tname}({w!r}) = {r} but model says {m}",
                                               dict(kind="conv", type=tname, word=w), "B"))
    for cid, (argv, impl, rp, given) in pending.items():
        m = replies.get(cid)
        ok = False
        if m is None or m[0] == "bad-op":
            ok = False
        elif m[0] == "error":
            ok = impl[0] == "error" and cc.messages_match(m[1], impl[1])
        elif m[0] == "call":
            ok = impl[0] == "call" and impl[1] == m[1] and impl[2] == m[2] and impl[3] == m[3] and \
                [tuple(x) for x in impl[4]] == [tuple(x) for x in m[4]]
        stats["model_outcomes"][m[0] if m else "none"] = stats["model_outcomes"].get(m[0] if m else "none", 0) + 1
        if not ok:
            res.corr_failures.append(Violation(
                "cli-model-differs", f"`tsdate {' '.join(argv)}`: real runner gave {str(impl)[:160]} but the regenerated model gives {str(m)[:160]}",
                dict(rp, impl=impl, model=m), "B"))
        if given and impl[0] in ("call", "error"):
            res.nontrivial.add(common.canon_key(argv))
            if impl[0] == "call" and len(given) >= 3:
                res.sample(dict(argv=argv, api_call=impl[1], kwargs=dict(impl[4])))


def lattice_oracle(sub, argv, given, dep, impl, ns):
    bad = []
    if sub == "date":
        if dep:
            if impl[0] != "error":
                bad.append(("deprecated-positional-not-rejected", f"positional population size accepted ({impl[0]})"))
            return bad
        if impl[0] == "call":
            kw = dict(impl[4])
            method = given.get("--method", "variational_gamma")
            for flag, v in given.items():
                name = cc.DATE_API_NAME[flag]
                if kw.get(name) != cc.tok(v):
                    if flag == "-e" and method == "variational_gamma":
                        bad.append((EPS_KIND, f"-e {v} accepted but never reaches the API call (no error either)"))
                    else:
                        bad.append((f"option-not-passed:{name}", f"{flag} {v} given but API call has {name}={kw.get(name)}"))
            if impl[1] != "tsdate.date" or impl[2] != cc.tok(argv[1]) or impl[3] != cc.tok(argv[2]):
                bad.append(("wrong-call-or-files", f"called {impl[1]} on {impl[2]} dumping to {impl[3]}"))
        elif impl[0] not in ("error",):
            bad.append((f"cli-{impl[0]}", f"unexpected outcome {impl}"))
        return bad
    # preprocess
    words = {f: given.get(f) for f in ("--erase-flanks", "--split-disjoint")}
    invalid = [f for f, w in words.items() if w is not None and cc.word_value(w) is None]
    if invalid:
        if impl[0] != "parse-error":
            bad.append(("invalid-boolean-word-accepted", f"{invalid[0]} {words[invalid[0]]!r} not rejected ({impl[0]})"))
        return bad
    if impl[0] != "call":
        bad.append((f"cli-{impl[0]}", f"valid preprocess command line gave {impl}"))
        return bad
    kw = dict(impl[4])
    for f, name in (("--erase-flanks", "erase_flanks"), ("--split-disjoint", "split_disjoint")):
        want = True if words[f] is None else cc.word_value(words[f])
        if kw.get(name) != cc.tok(want):
            k = "boolean-option-cannot-be-switched-off" if want is False else "boolean-option-not-passed"
            bad.append((f"{k}:{name}", f"{f} {words[f]!r} should give {name}={want}, API call has {kw.get(name)}"))
    if "--minimum_gap" in given and kw.get("minimum_gap") != cc.tok(given["--minimum_gap"]):
        bad.append(("option-not-passed:minimum_gap", f"minimum_gap={kw.get('minimum_gap')}"))
    if impl[1] != "tsdate.preprocess_ts" or impl[2] != cc.tok(argv[1]) or impl[3] != cc.tok(argv[2]):
        bad.append(("wrong-call-or-files", f"called {impl[1]} on {impl[2]} dumping to {impl[3]}"))
    return bad


# ----------------------------------------------------------------------------- C(ii): real runs on files

def date_cases(rng, info, n_random):
    mu, ne = info["mu"], info["Ne"]
    M, N = ["-m", mu], ["-n", ne]
    fixed = []
    vg = "variational_gamma"
    for meth_flag in ([], ["--method", vg]):
        fixed += [
            (meth_flag, [M, ["--rescaling-intervals", 0]]), (meth_flag, [M, ["--rescaling-intervals", 2], ["--max-iterations", 3]]),
            (meth_flag, [M, ["-b", 0.01], ["--rescaling-intervals", 0]]), (meth_flag, [M, ["-p"], ["--rescaling-intervals", 0]]),
            (meth_flag, [M, ["-e", 0.5], ["--rescaling-intervals", 0]]), (meth_flag, [M, N]), (meth_flag, [M, ["-t", 1]]),
            (meth_flag, [M, ["--probability-space", "linear"]]), (meth_flag, [["--rescaling-intervals", 0]]),
            (meth_flag, [M, ["-r", 1e-8], ["--rescaling-intervals", 0]]), (meth_flag, [M]),
        ]
    for meth in ("inside_outside", "maximization"):
        mf = ["--method", meth]
        fixed += [
            (mf, [M, N]), (mf, [M, N, ["-e", 1e-4]]), (mf, [M, N, ["--probability-space", "linear"]]),
            (mf, [M, N, ["--probability-space", "logarithmic"], ["-t", 1]]), (mf, [M, N, ["-b", 0.5]]), (mf, [M, N, ["-p"]]),
            (mf, [M]), (mf, [M, N, ["--max-iterations", 3]]), (mf, [M, N, ["--rescaling-intervals", 3]]), (mf, [N]),
            (mf, [M, N, ["-r", 1e-8]]),
        ]
    pool = [M, N, ["-e", 1e-5], ["-b", 0.1], ["-p"], ["--rescaling-intervals", 0], ["--rescaling-intervals", 4],
            ["--max-iterations", 2], ["-t", 1], ["--probability-space", "linear"], ["--probability-space", "logarithmic"]]
    for _ in range(n_random):
        meth = rng.choice(["", vg, "inside_outside", "maximization"])
        mf = [] if meth == "" else ["--method", str(meth)]
        opts = [M] if rng.random() < 0.9 else []
        seen = {"-m"}
        for j in rng.permutation(len(pool))[: int(rng.integers(0, 5))]:
            o = pool[int(j)]
            if o[0] not in seen:
                seen.add(o[0])
                opts.append(o)
        fixed.append((mf, opts))
    return fixed


MBL_DEFAULT = [None]


def run_date_files(ctx, res, stats):
    rng = ctx.rng(2)
    import tskit
    MBL_DEFAULT[0] = cc.parse_only(["date", "a", "b"])["min_branch_length"]
    d = cc.workdir()
    n_inputs = ctx.n(2, 12)
    for k in range(n_inputs):
        ts, info = gen.sim_ts(rng, n=int(rng.integers(3, 7)), trees=int(rng.choice([1, 2, 4])), muts_per_edge=4.0)
        if ts.num_mutations < 4:
            continue
        inp, outp = str(d / f"in{k}.trees"), str(d / f"out{k}.trees")
        ts.dump(inp)
        cases = date_cases(rng, info, ctx.n(12, 60)) if k == 0 else date_cases(rng, info, ctx.n(6, 40))[-ctx.n(6, 40):]
        for mf, opts in cases:
            argv = ["date", inp, outp] + mf
            # "the same option values": mutation_rate is a required keyword of date() (None when not given), the value
            # of the -p flag when it is absent is False, and the value of -b when it is absent is the parser's default
            # (min_branch_length is written to the provenance record since adc1393, so None vs 1e-8 would show there)
            kwargs = {"mutation_rate": None, "progress": False, "min_branch_length": MBL_DEFAULT[0]}
            given = {}
            for o in opts:
                argv += [o[0]] + ([repr(o[1]) if not isinstance(o[1], str) else o[1]] if len(o) > 1 else [])
                kwargs[cc.DATE_API_NAME[o[0]]] = o[1] if len(o) > 1 else True
                given[o[0]] = o[1] if len(o) > 1 else True
            if mf:
                kwargs["method"] = mf[1]
            one_file_case(res, stats, "date", argv, inp, outp, ts, kwargs, given, mf[1] if mf else "variational_gamma")


def preprocess_input(rng):
    for _ in range(100):
        ts, info = gen.sim_ts(rng, n=int(rng.integers(3, 7)), trees=int(rng.choice([3, 6, 10])), muts_per_edge=1.5, L=1e4)
        if ts.num_sites < 8:
            continue
        pos = ts.sites_position
        # keep only sites in the middle 60 % so that flanks exist; delete a stretch without simplifying -> disjoint nodes
        t = ts.dump_tables()
        L = ts.sequence_length
        t.delete_sites(np.where((pos < 0.2 * L) | (pos > 0.8 * L))[0])
        t.delete_intervals([[0.45 * L, 0.55 * L]], simplify=False, record_provenance=False)
        out = t.tree_sequence()
        if out.num_sites >= 5:
            return out
    raise RuntimeError("no preprocess input")


def run_preprocess_files(ctx, res, stats):
    rng = ctx.rng(3)
    d = cc.workdir()
    words = [None, "True", "False", "no", "1", "f", "YES"]
    for k in range(ctx.n(1, 6)):
        ts = preprocess_input(rng)
        inp, outp = str(d / f"pin{k}.trees"), str(d / f"pout{k}.trees")
        ts.dump(inp)
        gaps = np.diff(ts.sites_position)
        gapv = float(np.sort(gaps)[len(gaps) // 2]) if len(gaps) else 10.0     # the median gap: about half the gaps are cut
        outs = {}
        for gap in (None, gapv):
            for ef in words:
                for sd in words:
                    argv, kwargs, given = ["preprocess", inp, outp], {}, {}
                    if gap is not None:
                        argv += ["--minimum_gap", repr(gap)]
                        kwargs["minimum_gap"] = gap
                        given["--minimum_gap"] = gap
                    if ef is not None:
                        argv += ["--erase-flanks", ef]
                        kwargs["erase_flanks"] = cc.word_value(ef)
                        given["--erase-flanks"] = ef
                    if sd is not None:
                        argv += ["--split-disjoint", sd]
                        kwargs["split_disjoint"] = cc.word_value(sd)
                        given["--split-disjoint"] = sd
                    o = one_file_case(res, stats, "preprocess_ts", argv, inp, outp, ts, kwargs, given, None)
                    if o is not None:
                        outs[(gap, kwargs.get("erase_flanks", True), kwargs.get("split_disjoint", True))] = (o.num_nodes, o.num_edges, o.num_trees)
        # does each switch matter on this input? (evidence that the lattice is not degenerate)
        for g in (None, gapv):
            a, b = outs.get((g, True, True)), outs.get((g, False, True))
            if a and b and a != b:
                stats["erase_flanks_changes_output"] += 1
            a, b = outs.get((g, True, True)), outs.get((g, True, False))
            if a and b and a != b:
                stats["split_disjoint_changes_output"] += 1
        a, b = outs.get((None, True, True)), outs.get((gapv, True, True))
        if a and b and a != b:
            stats["minimum_gap_changes_output"] += 1


def one_file_case(res, stats, fn_name, argv, inp, outp, ts, kwargs, given, method):
    import tskit
    sub = argv[0]
    c = cc.real_cli(argv, outp)
    a = cc.real_api("date" if fn_name == "date" else "preprocess_ts", ts, kwargs)
    res.evaluations += 1
    shown = [os.path.basename(x) if x in (inp, outp) else x for x in argv]
    rp = dict(kind="files", argv_tail=argv[3:], sub=sub, ts=gen.ts_to_jsonable(ts) if sub == "date" else None,
              ts_file_note=None if sub == "date" else "preprocess input is rebuilt from the seed", api_kwargs={k: (v if not isinstance(v, float) else repr(v)) for k, v in kwargs.items()})
    key = ("ok" if c["ok"] else "fail") + "/" + ("ok" if a["ok"] else "fail")
    stats["file_runs"][f"{sub}:{key}"] = stats["file_runs"].get(f"{sub}:{key}", 0) + 1
    label = f"`tsdate {' '.join(shown)}`"
    out = None
    if c["ok"] and a["ok"]:
        if not c["wrote"]:
            res.violations.append(Violation("no-output-written", f"{label}: CLI succeeded but wrote no output", rp))
            return None
        out = tskit.load(outp)
        diff = cc.compare_outputs(out, a["out"])
        if diff is not None:
            res.violations.append(Violation(f"output-differs:{diff.split(' ')[0]}", f"{label}: CLI output differs from the API result in {diff}", rp))
        else:
            res.nontrivial.add(common.canon_key([sub] + argv[3:] + [ts.num_nodes, ts.num_mutations]))
            res.sample(dict(argv=shown, api_kwargs=rp["api_kwargs"], nodes=out.num_nodes, identical_modulo_provenance_timing=True))
    elif c["ok"] and not a["ok"]:
        if "-e" in given and method == "variational_gamma" and "eps" in a["msg"]:
            kind = EPS_KIND
        else:
            kind = f"cli-succeeds-api-raises-{a['exc']}"
        res.violations.append(Violation(kind, f"{label}: CLI wrote an output but the API call with the same option values raises {a['exc']}: {a['msg'][:100]}", rp))
    elif not c["ok"] and a["ok"]:
        res.violations.append(Violation(f"cli-fails-api-succeeds-{c['exc']}", f"{label}: CLI failed ({c['exc']}: {c['msg'][:100]}) but the API call succeeds", rp))
    else:
        stats["both_fail"][f"{c['exc']}|{a['exc']}"] = stats["both_fail"].get(f"{c['exc']}|{a['exc']}", 0) + 1
    if not c["ok"] and c["wrote"]:
        res.violations.append(Violation("failed-run-wrote-output", f"{label}: CLI exited with an error but left an output file", rp))
    return out


def new_stats():
    return dict(lattice={}, impl_outcomes={}, model_outcomes={}, file_runs={}, both_fail={}, erase_flanks_changes_output=0,
                split_disjoint_changes_output=0, minimum_gap_changes_output=0)


def run(ctx):
    res = Result()
    import tsdate  # noqa: F401
    stats = new_stats()
    try:
        lattice_stage(ctx, res, stats)
        run_date_files(ctx, res, stats)
        run_preprocess_files(ctx, res, stats)
    finally:
        cc.cleanup()
    res.exhaustive = True
    res.rule = ("B/C(i): exhaustive over the option lattice — `date`: 4 method choices x given/not-given of 9 valued options x -p x deprecated "
                "positional (8192 command lines, flag aliases mixed in); `preprocess`: --minimum_gap given/not x 28 spellings (valid true, valid false, "
                "invalid, absent) for each of --erase-flanks/--trim_telomeres and --split-disjoint (1568); each run through the real tsdate_main with "
                "recorded API calls and through the Lean interpreter of the regenerated program. C(ii): real CLI runs on files vs the API call with the "
                "same option values, outputs compared modulo provenance timing. Non-trivial = at least one option given and the run reached a guard or "
                "the API call (B), or CLI and API both succeeded with identical output (C); distinct by command line.")
    res.extra = dict(input_distribution=stats)
    return res


def search(ctx):
    res = Result()
    stats = new_stats()
    try:
        run_date_files(ctx, res, stats)
        run_preprocess_files(ctx, res, stats)
    finally:
        cc.cleanup()
    return res


def replay(ctx, payload):
    import tsdate  # noqa: F401
    d = payload.get("input") or payload.get("correspondence_input")
    res, stats = Result(), new_stats()
    if d["kind"] == "argv":
        argv = d["argv"]
        impl = cc.stub_run(argv)
        ns = cc.parse_only(argv)
        print("real tsdate_main (API recorded):", impl)
        if ns is not None:
            m = cc.run_model([cc.encode_ns("r", argv[0], ns)]).get("r")
            print("Lean model of the runner      :", m)
        given = {k: (float(v) if isinstance(v, str) and k not in ("--method", "--probability-space", "--erase-flanks", "--split-disjoint") and k != "-p" else v)
                 for k, v in d.get("given", {}).items()}
        bad = lattice_oracle(argv[0], argv, given, len(argv) > 3 and argv[0] == "date" and not argv[3].startswith("-"), impl, ns)
        print("violations:", bad)
        return not bad
    if d["kind"] == "conv":
        print(d)
        return False
    ts = gen.ts_from_jsonable(d["ts"]) if d.get("ts") else preprocess_input(ctx.rng(3))
    wd = cc.workdir()
    try:
        inp, outp = str(wd / "in.trees"), str(wd / "out.trees")
        ts.dump(inp)
        argv = [d["sub"], inp, outp] + d["argv_tail"]
        kwargs = {k: (float(v) if isinstance(v, str) and k not in ("method", "probability_space") else v) for k, v in d["api_kwargs"].items()}
        given = {a: True for a in d["argv_tail"] if a.startswith("-")}
        one_file_case(res, stats, "date" if d["sub"] == "date" else "preprocess_ts", argv, inp, outp, ts, kwargs, given, kwargs.get("method", "variational_gamma"))
    finally:
        cc.cleanup()
    print("file runs:", stats["file_runs"], stats["both_fail"])
    for v in res.violations:
        print("violation:", v.kind, "-", v.what)
    return not res.violations
