"""
C07 — rescaling genome coordinates and mutation rate together leaves dates unchanged.

A  theorems in Props/C07 (coordinate grading: mu*span and span ratios have degree 0; likelihood tables,
   span fractions, span-weighted mixture prior, the whole discrete view, edge likelihoods of the
   variational method unchanged for every c != 0; `_count_mutations` (plain) returns the same counts and
   mutation->edge map and spans x c, derived from the sweep cluster committed correctness theorem).
B  the executable models (Driver/Scale.lean, Float) against the real code, at base AND rescaled
   coordinates: Poisson parameters recorded by rebinding scipy.stats.poisson, spans / span fractions,
   mixture_expect_and_var, edge_likelihoods, SpansBySamples.second_pass (rebound, inputs with unary nodes);
   count_mutations compared across scales on the real function.
C  metamorphic oracle on tsdate.date: sequence length, edge ends, site positions x c and mutation_rate / c
   for c in {4, 0.37, 1e-3, 1e3}, all three methods, outputs equal within the tolerances of DESIGN.md §2.2.
"""

import numpy as np

from .. import common, gen, scale_corr as sc
from ..common import Result, Violation

META = dict(
    level='Lean theorems, for every c != 0 (c > 0 where positions are compared) over any linear ordered field: every Poisson parameter dt*mu*span, every span fraction and root fraction, the span-weighted mixture prior, hence the whole unit-free view of a discrete run and its time grid are unchanged, so posterior means/variances of inside_outside and the maximization estimates are identical for ANY recursion reading only that view; `_count_mutations` (plain variant, over the sweep cluster model and its committed correctness theorem) returns the same counts and mutation-to-edge map and spans x c on valid tables, edge likelihoods (count, span*mu) of the variational method are therefore unchanged, hence so is any function of them (EP, rescaling, constraint). the second pass of SpansBySamples (spans a skipped unary node borrows from a dated ancestor, allow_unary=True) is homogeneous of degree one, so the mixture prior built from it is unchanged (second_pass_weights_invariant). Partial: the size-biased count_mutations variant and the first and third passes of SpansBySamples (tskit tree iteration) are not covered by a theorem here (their coordinate behaviour is checked on the real functions across scales); floating point by tolerance only. Models tied to the code bit-for-bit at Float at base and rescaled coordinates, including the real second pass on inputs with unary nodes (hand-built two-tree shape and simplify(keep_unary=True) subsets; the evidence reports how many reach it); date() checked metamorphically over 4 coordinate scale factors.',
    note='Lean kernel + {propext, Classical.choice, Quot.sound}; exact arithmetic; sampled correspondence; scipy pmf/cdf uninterpreted; imports the sweep cluster CountMut model and countWith_correct (tied to the real kernel by C24)',
    technique='second grading of the degree discipline (coordinate degree) + bit-exact model/code correspondence + metamorphic oracle',
    ref='§3 C07',
)
LEAN_PROPS = ["TsdateVerif.Props.C07"]
LEAN_BUILD = ["TsdateVerif.Model.Proto", "TsdateVerif.Model.Scale", "TsdateVerif.Model.Constrain"]
ASSUMPTIONS = [
    "theorems are about exact arithmetic; floating-point agreement by tolerance (discrete 1e-9, variational 1e-6 means / 1e-5 variances)",
    "the Poisson pmf, prior cdfs and the inside/outside/maximization/EP recursions are arbitrary functions of arguments proved unchanged",
    "size-biased count_mutations and the first/third pass of SpansBySamples (tskit tree iteration) are outside the theorems; the tree walk of the second pass (which ancestor, which tree) is an input of the model; their coordinate behaviour (same counts and mutation-to-edge map, spans x c) is checked on the real functions across scales",
]

def classify_raise(r):
    return f"{r['exc']}"


def count_mutations_piece(ts, ts_c, c, res, stats, replay):
    """count_mutations on the real function: counts and mutation->edge map identical, spans x c."""
    from tsdate import rescaling
    for sb in (False, True):
        a, ea = rescaling.count_mutations(ts, size_biased=sb)
        b, eb = rescaling.count_mutations(ts_c, size_biased=sb)
        res.evaluations += 1
        name = "size_biased" if sb else "plain"
        if not np.array_equal(ea, eb):
            res.violations.append(Violation(f"count-mutations-edge-map-changes:{name}",
                                            f"count_mutations({name}): mutations_edge differs at coordinate scale c={c!r}", replay))
        if not np.array_equal(a[:, 0], b[:, 0]):
            res.violations.append(Violation(f"count-mutations-counts-change:{name}",
                                            f"count_mutations({name}): per-edge mutation counts differ at c={c!r}", replay))
        e = sc.relerr(a[:, 1] * c, b[:, 1])
        stats["max_relerr"][f"count_mutations:{name}:span"] = max(stats["max_relerr"].get(f"count_mutations:{name}:span", 0.0), e)
        if e > 1e-9:
            res.violations.append(Violation(f"count-mutations-span-not-scaled:{name}",
                                            f"count_mutations({name}): spans at c={c!r} differ from c x spans by rel. {e:.3g}", replay))


# (method, historical samples, unary flavour).  Unary inputs (dated with allow_unary=True) are the only way into
# SpansBySamples.second_pass / third_pass; "two_tree" is the hand-built shape that reaches the second pass, "subset" a
# simplify(keep_unary=True) of a subset of samples, drawn until the second pass assigns a node (budgeted).
SCHEDULE = [("variational_gamma", False, None), ("inside_outside", None, "two_tree"), ("maximization", None, None),
            ("variational_gamma", True, None), ("inside_outside", None, None), ("maximization", None, "two_tree"),
            ("inside_outside", None, "subset"), ("variational_gamma", None, "two_tree"), ("maximization", None, "subset"),
            ("inside_outside", None, None), ("variational_gamma", None, "subset"), ("maximization", None, None)]


def one_case(ctx, rng, res, stats, batch, checks, scales, corr=True, idx=None):
    if idx is None:
        method, hist, unary = str(rng.choice(["variational_gamma", "inside_outside", "maximization"])), None, None
    else:
        method, hist, unary = SCHEDULE[idx % len(SCHEDULE)]
    ts, info = sc.draw_ts(rng, method, hist, unary=unary)
    if unary:
        stats["unary_inputs"][unary] = stats["unary_inputs"].get(unary, 0) + 1
        # the second pass of SpansBySamples on this input and on its rescaled version: model vs code
        for tag, tsx in (("base", ts), (f"c={scales[0]!r}", sc.scale_coords_ts(ts, scales[0]))):
            ch, _ = sc.corr_second_pass(tsx, batch, f"second_pass:{tag}", stats)
            checks += [(x, None) for x in ch]
    kw = sc.explicit_defaults(sc.draw_options(rng, ts, info, method))
    discrete = method != "variational_gamma"
    stats["methods"][method] = stats["methods"].get(method, 0) + 1
    if discrete:
        kw["return_fit"] = True
        with sc.record_discrete() as rec:
            r0 = sc.run(ts, kw)
    else:
        r0 = sc.run(ts, kw)
    res.evaluations += 1
    base = None
    if not r0["ok"]:
        cl = classify_raise(r0)
        stats["raised"][cl] = stats["raised"].get(cl, 0) + 1
    else:
        base = sc.outputs(r0["out"][0] if discrete else r0["out"])
        if corr and discrete:
            checks += [(x, None) for x in sc.corr_discrete(ts, kw, rec, r0["out"][1], batch, f"base:{method}")]
            ch, _ = sc.corr_mixture(ts, batch, "mixture:base")
            checks += [(x, None) for x in ch]
    tsj = gen.ts_to_jsonable(ts)
    for j, c in enumerate(scales):
        ts_c = sc.scale_coords_ts(ts, c)
        kw_c = sc.c07_kwargs(kw, c)
        replay = dict(kind="date", ts=tsj, kw=sc.kw_jsonable({k: v for k, v in kw.items() if k != "return_fit"}),
                      c=float(c).hex())
        if discrete and j == 0:
            with sc.record_discrete() as rec_c:
                r1 = sc.run(ts_c, kw_c)
        else:
            r1 = sc.run(ts_c, kw_c)
        res.evaluations += 1
        stats["scales"][repr(c)] = stats["scales"].get(repr(c), 0) + 1
        if j == 0:
            count_mutations_piece(ts, ts_c, c, res, stats, dict(replay, kind="count_mutations"))
        if base is None or not r1["ok"]:
            if (base is None) != (not r1["ok"]):
                who = r1 if base is not None else r0
                cl = classify_raise(who)
                res.violations.append(Violation(
                    f"raises-at-one-scale:{method}:{cl}",
                    f"{method}: date() {'raised' if base is not None else 'returned'} at coordinate scale c={c!r} but not at "
                        f"c=1: {who['exc']}: {who['msg'][:120]}", replay))
            continue
        o1 = sc.outputs(r1["out"][0] if discrete else r1["out"])
        errs = sc.compare(base, o1, 1.0, method)
        f13 = None
        if any(e > sc.field_tol(f, method) for f, e in errs.items()):
            f13 = sc.near_tie_rescaling(ts, {k: v for k, v in kw.items() if k != "return_fit"}, ts_c,
                                        {k: v for k, v in kw_c.items() if k != "return_fit"}, 1.0)
            if f13:
                stats["f13_near_tie"] = stats.get("f13_near_tie", 0) + 1
                res.violations.append(Violation(
                    f"{sc.NEAR_TIE}:{method}",
                    f"{method}: outputs at coordinate scale c={c!r} differ from the unscaled outputs by rel. {max(errs.values()):.3g}; "
                    f"with rescaling_intervals=0 they agree; unrescaled posterior means have exact ties {f13['exact_ties']} / near "
                    f"ties {f13['near_ties']} in the two runs (mutational_timescale is discontinuous at ties)", replay))
        for f, e in errs.items():
            key = f"{method}:{f}"
            if not f13:
                stats["max_relerr"][key] = max(stats["max_relerr"].get(key, 0.0), e if np.isfinite(e) else 1e300)
            if e > sc.field_tol(f, method) and not f13:
                res.violations.append(Violation(
                    f"not-invariant:{method}:{f}",
                    f"{method}: {f} at coordinate scale c={c!r} differs from the unscaled output by rel. {e:.3g} "
                    f"(tolerance {sc.field_tol(f, method):g})", replay))
        if np.any(base["nodes_time"] > 0):
            res.nontrivial.add(common.canon_key([tsj["edges"], tsj["mutations"], method, float(c).hex(),
                                                 sorted((k, str(v)) for k, v in kw.items())]))
        if corr and discrete and j == 0:
            checks += [(x, None) for x in sc.corr_discrete(ts_c, kw_c, rec_c, r1["out"][1], batch, f"c={c!r}:{method}")]
            ch, _ = sc.corr_mixture(ts_c, batch, f"mixture:c={c!r}")
            checks += [(x, None) for x in ch]
        if corr and not discrete and j == 0:
            # edge likelihoods of the variational method at both scales, model vs code
            for tag, tsx, mux in (("base", ts, kw["mutation_rate"]), (f"c={c!r}", ts_c, kw_c["mutation_rate"])):
                stats_, lik, _ = sc.vg_inputs(tsx, mux, False)
                i = batch.add("edgelik", dict(y=sc._hx(stats_[:, 0]), span=sc._hx(stats_[:, 1]), mu=sc.f2h(mux)), dict(tag=tag))

                def chk(rep, i=i, lik=lik, tag=tag):
                    r = rep.get(i)
                    if r is None or not sc.same_bits(sc.fsec(r[0]), lik[:, 1]):
                        return [("edge-likelihoods-differ", f"{tag}: model span*mu differs from edge_likelihoods[:,1]")]
                    return []
                checks.append((chk, None))
    if len(res.samples) < 5 and base is not None:
        res.sample(dict(method=method, nodes=ts.num_nodes, trees=ts.num_trees, mutations=ts.num_mutations,
                        sequence_length=ts.sequence_length, scales=scales,
                        options={k: (v if isinstance(v, (int, str, bool)) else repr(v)[:60]) for k, v in kw.items()
                                 if k not in ("return_fit",)}))


def corpus(ctx, res, stats):
    """Minimised inputs of earlier findings always run first (corpus/C07/*.json)."""
    import json
    for f in sorted((common.VERIF / "corpus" / "C07").glob("*.json")):
        d = json.loads(f.read_text())
        ts = gen.ts_from_jsonable(d["ts"])
        kw = sc.explicit_defaults(sc.kw_from_jsonable(d["kw"]))
        c = float.fromhex(d["c"])
        ts_c, kw_c = sc.scale_coords_ts(ts, c), sc.c07_kwargs(kw, c)
        r0, r1 = sc.run(ts, kw), sc.run(ts_c, kw_c)
        res.evaluations += 2
        stats["corpus"] = stats.get("corpus", 0) + 1
        if not (r0["ok"] and r1["ok"]):
            continue
        errs = sc.compare(sc.outputs(r0["out"]), sc.outputs(r1["out"]), 1.0, kw["method"])
        if any(e > sc.field_tol(fl, kw["method"]) for fl, e in errs.items()):
            f13 = sc.near_tie_rescaling(ts, kw, ts_c, kw_c, 1.0)
            kind = f"{sc.NEAR_TIE}:{kw['method']}" if f13 else f"not-invariant:{kw['method']}:{max(errs, key=errs.get)}"
            res.violations.append(Violation(kind, f"corpus {f.name}: {kw['method']} outputs at coordinate scale c={c!r} differ "
                                                  f"by rel. {max(errs.values()):.3g}" + (f" (near-tie pattern {f13})" if f13 else ""),
                                            dict(kind="date", ts=d["ts"], kw=d["kw"], c=d["c"])))


def new_stats():
    return dict(methods={}, raised={}, scales={}, max_relerr={}, driver_cases={}, unary_inputs={})


def finish_batch(res, stats, batch, checks):
    rep = batch.run()
    for m in batch.meta:
        stats["driver_cases"][m["op"]] = stats["driver_cases"].get(m["op"], 0) + 1
    for chk, _ in checks:
        for kind, what in chk(rep):
            res.corr_failures.append(Violation(kind, what, dict(kind="correspondence", what=what), stage="B"))


def run(ctx):
    res = Result()
    import tsdate  # noqa: F401
    stats = new_stats()
    batch = sc.Batch()
    checks = []
    corpus(ctx, res, stats)
    rng = ctx.rng(1)
    scales = list(sc.C07_SCALES) if ctx.tier == "quick" else list(sc.C07_SCALES) + [3.141592653589793, 1e-6, 1e6, 2.5e-2]
    for i in range(ctx.n(30, 240)):
        one_case(ctx, rng, res, stats, batch, checks, scales, corr=(i % 2 == 0), idx=i)
    finish_batch(res, stats, batch, checks)
    stats["hypotheses"] = dict(c_nonzero="always (scale factors of the statement are positive)")
    res.rule = ("C: date() on msprime inputs (3-7 samples, 1-8 trees, >=5 mutations; historical samples / unphased singletons "
                "for the variational method; scalar / piecewise population size; default / integer / user timepoints) at the "
                "original coordinates and with sequence length, edge ends and site positions x c, mutation rate / c for "
                "c in {4, 0.37, 1e-3, 1e3} (thorough: 8 factors); count_mutations (plain and size-biased) compared across "
                "scales; B: Poisson parameters, spans, span fractions, mixture prior moments, edge likelihoods of the same "
                "runs vs the Lean model at Float at both scales. Non-trivial = a run that dated at least one non-sample "
                "node; distinct by canonical hash of (input, method, options, c).")
    res.extra = dict(input_distribution=stats)
    return res


def search(ctx):
    res = Result()
    stats = new_stats()
    batch = sc.Batch()
    rng = ctx.rng(5)
    for j in range(ctx.n(10, 40)):
        one_case(ctx, rng, res, stats, batch, [], list(sc.C07_SCALES) + [3.141592653589793, 1e-6], corr=False, idx=j)
    return res


def replay(ctx, payload):
    d = payload["input"] if "input" in payload else payload.get("correspondence_input")
    if d.get("kind") in ("date", "count_mutations"):
        ts = gen.ts_from_jsonable(d["ts"])
        kw = sc.explicit_defaults(sc.kw_from_jsonable(d["kw"]))
        c = float.fromhex(d["c"])
        ts_c = sc.scale_coords_ts(ts, c)
        if d["kind"] == "count_mutations":
            from tsdate import rescaling
            ok = True
            for sb in (False, True):
                a, ea = rescaling.count_mutations(ts, size_biased=sb)
                b, eb = rescaling.count_mutations(ts_c, size_biased=sb)
                same = np.array_equal(ea, eb) and np.array_equal(a[:, 0], b[:, 0])
                e = sc.relerr(a[:, 1] * c, b[:, 1])
                print(f"size_biased={sb}: counts/edge map identical: {same}; span rel. error {e:.3g}")
                ok &= same and e <= 1e-9
            return ok
        r0 = sc.run(ts, kw)
        r1 = sc.run(ts_c, sc.c07_kwargs(kw, c))
        print("c =", c, "options:", kw)
        print("original coordinates:", "returned" if r0["ok"] else f"raised {r0['exc']}: {r0['msg']}")
        print("scaled coordinates  :", "returned" if r1["ok"] else f"raised {r1['exc']}: {r1['msg']}")
        if not (r0["ok"] and r1["ok"]):
            return r0["ok"] == r1["ok"]
        errs = sc.compare(sc.outputs(r0["out"]), sc.outputs(r1["out"]), 1.0, kw["method"])
        ok = True
        for f, e in errs.items():
            flag = e <= sc.field_tol(f, kw["method"])
            ok &= flag
            print(f"  {f}: rel. error {e:.3g} (tolerance {sc.field_tol(f, kw['method']):g}) {'ok' if flag else 'VIOLATED'}")
        return ok
    print("correspondence failure:", d)
    return False
