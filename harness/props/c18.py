"""
C18 — EP moment updates respect support and match the true tilted moments.

A  theorems in Props/C18 over the GENERATED kernels (translate/kernels.py -> Gen/Kernels.lean): every projection
   wrapper skips explicitly or returns a proper gamma with exactly the kernel's mean/variance; the closed-form
   cases (child at 0, twin, both ends fixed, block, mutation midpoint algebra, first-moment identities) are exact;
   wrappers add no failure; hyperu/1F1 kernels never trip an assert.  For EVERY interpretation of exp/log/sqrt/lgamma.
B  the generated definitions executed at Float (Driver/Kernels.lean) against the numba kernels, bit for bit.
C  oracle: the real kernels against direct numerical integration of the stated tilted densities
   (harness/kernels_oracle.py): skip-or-finite, support clauses exact, means within 5 %, closed forms to 1e-12;
   and the code's closed-form algebra re-run with EXACT special functions (mpmath) against the same quadrature
   (means 1e-8, variances 1e-5): isolates formula errors from the accuracy of the Laplace approximation.
"""

import math

import numpy as np

from .. import common, kernels_corr as kc, kernels_oracle as ko
from ..common import Result, Violation, f2h, h2f

META = dict(
    level='Lean theorems over the kernels GENERATED from tsdate/approx.py+hypergeo.py on every run (45 defs), for all inputs over any ordered field and ANY interpretation of the special functions: each of the 14 projection wrappers either skips explicitly (node parameters returned unchanged) or returns shape>0, rate>0 with exactly the mean/variance of its moments kernel (phase in [0,1] where checked); child-at-0 and twin updates are exactly conjugate; edge/block/mutation-midpoint closed forms and first-moment identities exact; wrappers add no raise; hyperu/1F1 kernels trip no assert. Generated definitions tied to numba bit-for-bit at Float. PARTIAL: the few-percent accuracy of the Laplace approximations and the support inequalities that depend on it are NOT proved (special functions are parameters); they are examined by a quadrature oracle only.',
    note='Lean kernel + {propext, Classical.choice, Quot.sound}; translator T1 (checked by bit-exact Float execution against numba on sampled inputs); exact-arithmetic theorems (rounding outside); accuracy clause by sampled quadrature only',
    technique='source-to-Lean translation of straight-line numba kernels + algebraic theorems for every special-function instance + bit-exact execution tie + quadrature oracle',
    ref='§3 C18',
)
LEAN_PROPS = ["TsdateVerif.Props.C18", "TsdateVerif.Props.C18Closed"]
LEAN_BUILD = ["TsdateVerif.Gen.KernelsRun", "TsdateVerif.Model.Proto"]
TRANSLATORS = ["kernels"]
ASSUMPTIONS = [
    "theorems hold for every interpretation of exp/log/sqrt/lgamma/isfinite, in exact arithmetic; floating-point rounding, overflow and underflow are outside them",
    "accuracy of the Laplace approximations (means within 5 % of quadrature) is sampled, not proved",
    "translator T1 is trusted to the extent that the generated definitions agree bit-for-bit with numba on the sampled inputs",
]

C18_KERNELS = [n for n in [
    "_betaln", "_hyperu_laplace", "_hyp1f1_laplace", "_hyp2f1_laplace", "approximate_gamma_mom",
    "_valid_moments", "_valid_gamma", "_valid_hyp1f1", "_valid_hyperu", "_valid_hyp2f1",
    "moments", "rootward_moments", "leafward_moments", "unphased_moments", "twin_moments", "sideways_moments",
    "mutation_moments", "mutation_rootward_moments", "mutation_leafward_moments", "mutation_unphased_moments",
    "mutation_twin_moments", "mutation_sideways_moments", "mutation_edge_moments", "mutation_block_moments",
    "gamma_projection", "leafward_projection", "rootward_projection", "unphased_projection", "twin_projection",
    "sideways_projection", "mutation_gamma_projection", "mutation_leafward_projection",
    "mutation_rootward_projection", "mutation_edge_projection", "mutation_unphased_projection",
    "mutation_twin_projection", "mutation_sideways_projection", "mutation_block_projection"]]

ACC = 0.05          # "within a few percent"
HARD = 0.10         # beyond this an exceedance outside the listed regimes is not "marginal"
EXACT = 1e-12


# ----------------------------------------------------------------------------- the population EP really produces

LAYOUT = {      # flat argument layout of each projection wrapper
    "gamma_projection": ("a_i-1", "b_i", "a_j-1", "b_j", "y", "mu"),
    "unphased_projection": ("a_i-1", "b_i", "a_j-1", "b_j", "y", "mu"),
    "mutation_gamma_projection": ("a_i-1", "b_i", "a_j-1", "b_j", "y", "mu"),
    "mutation_unphased_projection": ("a_i-1", "b_i", "a_j-1", "b_j", "y", "mu"),
    "rootward_projection": ("t_j", "a_i-1", "b_i", "y", "mu"),
    "mutation_rootward_projection": ("t_j", "a_i-1", "b_i", "y", "mu"),
    "leafward_projection": ("t_i", "a_j-1", "b_j", "y", "mu"),
    "mutation_leafward_projection": ("t_i", "a_j-1", "b_j", "y", "mu"),
    "sideways_projection": ("t_i", "a_j-1", "b_j", "y", "mu"),
    "mutation_sideways_projection": ("t_i", "a_j-1", "b_j", "y", "mu"),
    "twin_projection": ("a_i-1", "b_i", "y", "mu"),
    "mutation_twin_projection": ("a_i-1", "b_i", "y", "mu"),
    "mutation_edge_projection": ("t_i", "t_j"),
    "mutation_block_projection": ("t_i", "t_j"),
}
SECTION = {
    "gamma_projection": "moments", "mutation_gamma_projection": "moments",
    "unphased_projection": "unphased", "mutation_unphased_projection": "unphased",
    "rootward_projection": "rootward", "mutation_rootward_projection": "rootward",
    "leafward_projection": "leafward", "mutation_leafward_projection": "leafward",
    "sideways_projection": "sideways", "mutation_sideways_projection": "sideways",
    "twin_projection": "twin", "mutation_twin_projection": "twin",
    "mutation_edge_projection": "edge", "mutation_block_projection": "block",
}


def record_population(ctx):
    """Vectors handed to the 14 wrappers by real variational_gamma runs (harness/ep_record.py, a subprocess with the JIT
    disabled so that the wrappers can be rebound; cached per source fingerprint, seed and tier)."""
    import json
    import subprocess
    import sys
    n_ts, cap = ctx.n(16, 200), ctx.n(60, 1500)
    d = common.CACHE / "ep_vectors"
    d.mkdir(parents=True, exist_ok=True)
    f = d / f"{common.source_fingerprint()[:16]}-{ctx.seed}-{n_ts}-{cap}.json"
    if not f.exists():
        env = dict(__import__("os").environ, NUMBA_DISABLE_JIT="1")
        r = subprocess.run([sys.executable, "-m", "harness.ep_record", str(ctx.seed), str(n_ts), str(f) + ".tmp", str(cap)],
                           cwd=common.VERIF, env=env, capture_output=True, text=True, timeout=3000)
        if r.returncode != 0:
            raise RuntimeError("ep_record failed: " + r.stderr[-800:])
        (d / (f.name + ".tmp")).replace(f)
        for old in sorted(d.glob("*.json"), key=lambda x: x.stat().st_mtime)[:-12]:
            old.unlink()
    return json.loads(f.read_text())


def to_vector(name, flat):
    v = {}
    for k, x in zip(LAYOUT[name], flat):
        if k.endswith("-1"):
            v[k[:-2]] = x + 1.0
        else:
            v[k] = x
    return v


def perturb(rng, v):
    """a nearby vector: every natural parameter (shape - 1, rate), span*rate and fixed age multiplied by
    exp(N(0, 0.2)); counts unchanged"""
    w = {}
    for k, x in v.items():
        f = float(np.exp(0.2 * rng.normal()))
        if k == "y":
            w[k] = x
        elif k in ("a_i", "a_j"):
            w[k] = 1.0 + (x - 1.0) * f          # the natural parameter shape - 1 is what EP adds and subtracts
        else:
            w[k] = x * f
    if "t_i" in w and "t_j" in w and not w["t_i"] > w["t_j"]:
        w["t_i"], w["t_j"] = v["t_i"], v["t_j"]
    return w


def swap_labels(v):
    w = dict(v)
    w["a_i"], w["b_i"], w["a_j"], w["b_j"] = v["a_j"], v["b_j"], v["a_i"], v["b_i"]
    return w


def ratio_neighbour(rng, v):
    """same shapes, count and span; the two cavity rates replaced by a pair with the same geometric mean (or the
    scale of the span when a rate is zero) and a ratio drawn log-uniformly from 1e-6 .. 1e6"""
    w = dict(v)
    bi, bj = v["b_i"], v["b_j"]
    g = math.sqrt(bi * bj) if bi > 0 and bj > 0 else max(bi, bj, v["mu"])
    r = 10.0 ** rng.uniform(-6.0, 6.0)
    w["b_i"], w["b_j"] = g * math.sqrt(r), g / math.sqrt(r)
    return w


def rel(x, ref):
    return abs(x - ref) / abs(ref) if ref != 0 else (0.0 if x == 0 else math.inf)


class Oracle:
    def __init__(self, res):
        self.res = res
        self.src = "recorded"
        self.stats = dict(updates={}, skipped={}, acc={}, support_checked=0, closed_form=0, kinds={}, hyp={})

    def viol(self, kind, what, name, args):
        self.stats["kinds"][kind] = self.stats["kinds"].get(kind, 0) + 1
        self.res.violations.append(Violation(kind, what, dict(kind="oracle", name=name, args=[f2h(x) for x in args])))

    def acc(self, name, comp, got, true, args, small, cancel=False, absolute=False):
        e = abs(got - true) if absolute else rel(got, true)
        d = self.stats["acc"].setdefault(f"{name}.{comp}", dict(n_recorded=0, n_perturbed=0, over5_recorded=0,
                                                                 over5_perturbed=0, worst=0.0))
        d["n_" + self.src] = d.get("n_" + self.src, 0) + 1
        d["worst"] = max(d["worst"], e)
        if not (e <= ACC):
            d["over5_" + self.src] = d.get("over5_" + self.src, 0) + 1
            regime = ("cancellation" if cancel else "shape<1" if small else "marginal(<=10%)" if e <= HARD else "regular")
            self.viol(f"accuracy>5%:{name}.{comp}:{regime}",
                      f"{name}{tuple(args)} ({self.src} EP vector): {comp} = {got!r}, quadrature {true!r} (error {e:.3g}, "
                      f"regime {regime})", name, args)

    def count(self, name, skipped):
        k = "skipped" if skipped else "updates"
        self.stats[k][name] = self.stats[k].get(name, 0) + 1


def check_projection(o, name, args, out, n_pars, phase=False):
    """skip-or-finite on a wrapper's flat output: node wrappers (logl, pars...) / mutation wrappers (phase, pars)."""
    head, pars = out[0], out[1:]
    if head != head:
        o.count(name, True)
        if phase and not all(p != p for p in pars):
            o.viol(f"skip-not-explicit:{name}", f"{name}{tuple(args)}: phase NaN but parameters {pars}", name, args)
        return False
    o.count(name, False)
    for k in range(n_pars):
        s, r = pars[2 * k], pars[2 * k + 1]
        if not (math.isfinite(s) and math.isfinite(r) and s + 1 > 0 and r > 0):
            o.viol(f"improper-gamma:{name}", f"{name}{tuple(args)} returned natural parameters ({s!r}, {r!r})", name, args)
            return False
    if phase and not (0.0 <= head <= 1.0):
        o.viol(f"phase-out-of-range:{name}", f"{name}{tuple(args)} returned phase {head!r}", name, args)
    return True


def call(name, args):
    return kc.run_real(name, args)


def one_vector(o, sec, v, res, mut=True):
    """All clauses of C18 for the kernels of section `sec` on the argument vector `v`; the mutation-age kernels are
    included only when `mut` (the vector was handed to a mutation wrapper)."""
    y = v.get("y", 1.0)
    mu = v.get("mu")

    def run(name, args):
        res.evaluations += 1
        r = call(name, args)
        if r[0] != "ok":
            o.viol(f"raises-{r[0]}:{name}",
                   f"{name}{tuple(args)} raised {r[1][:100]!r} instead of skipping or returning moments", name, args)
            return None
        return r[1]

    if sec == "rootward":
        tj, a_i, b_i = v["t_j"], v["a_i"], v["b_i"]
        small = a_i < 0.999
        pi, pij = [a_i - 1, b_i], [y, mu]
        args = [tj, a_i, b_i, y, mu]
        m = run("rootward_moments", args)
        p = run("rootward_projection", [tj] + pi + pij)
        if m is None or p is None:
            return
        if check_projection(o, "rootward_projection", [tj] + pi + pij, p, 1):
            mn = (p[1] + 1) / p[2]
            o.stats["support_checked"] += 1
            if not mn > tj:
                o.viol("mean-outside-support:rootward_projection", f"rootward_projection{tuple([tj] + pi + pij)}: mean {mn!r} not above fixed child {tj!r}", "rootward_projection", [tj] + pi + pij)
            tr = ko.rootward_true(tj, a_i, b_i, y, mu) if mu + b_i > 0 else None
            if tj == 0.0:
                o.stats["closed_form"] += 1
                if abs(p[1] - (a_i - 1 + y)) > EXACT * max(1.0, a_i + y) or rel(p[2], b_i + mu) > EXACT:
                    o.viol("conjugate-not-exact:rootward_projection", f"rootward_projection at t_j=0 {tuple(pi + pij)} returned {p[1:]}, expected ({a_i - 1 + y}, {b_i + mu})", "rootward_projection", [tj] + pi + pij)
            elif tr is not None:
                o.acc("rootward_moments", "mn", m[1], tr[0], args, small)
                res.nontrivial.add(common.canon_key(["rootward"] + [f2h(x) for x in args]))
            if mut and y >= 1:
                mm = run("mutation_rootward_moments", args)
                pm = run("mutation_rootward_projection", [tj] + pi + pij)
                if mm is not None and pm is not None and mm[0] == mm[0]:
                    if check_projection(o, "mutation_rootward_projection", [tj] + pi + pij, pm, 1, phase=True):
                        o.stats["support_checked"] += 1
                        if not (tj < mm[0] < mn * (1 + 1e-9)):
                            o.viol("mean-outside-support:mutation_rootward", f"mutation_rootward_moments{tuple(args)}: mutation mean {mm[0]!r} not between child {tj!r} and parent mean {mn!r}", "mutation_rootward_moments", args)
                    if tr is not None:
                        o.acc("mutation_rootward_moments", "mn", mm[0], (tr[0] + tj) / 2, args, small)
    elif sec == "leafward":
        t_i, a_j, b_j = v["t_i"], v["a_j"], v["b_j"]
        small = a_j < 0.999
        pj, pij = [a_j - 1, b_j], [y, mu]
        args = [t_i, a_j, b_j, y, mu]
        m = run("leafward_moments", args)
        p = run("leafward_projection", [t_i] + pj + pij)
        if m is not None and p is not None and check_projection(o, "leafward_projection", [t_i] + pj + pij, p, 1):
            mn = (p[1] + 1) / p[2]
            o.stats["support_checked"] += 1
            if not (0 < mn < t_i):
                o.viol("mean-outside-support:leafward_projection", f"leafward_projection{tuple([t_i] + pj + pij)}: mean {mn!r} not below fixed parent {t_i!r}", "leafward_projection", [t_i] + pj + pij)
            tr = ko.leafward_true(t_i, a_j, b_j, y, mu)
            if tr is not None:
                o.acc("leafward_moments", "mn", m[1], tr[0], args, small)
                res.nontrivial.add(common.canon_key(["leafward"] + [f2h(x) for x in args]))
            if mut and y >= 1:
                mm = run("mutation_leafward_moments", args)
                pm = run("mutation_leafward_projection", [t_i] + pj + pij)
                if mm is not None and pm is not None and mm[0] == mm[0]:
                    if check_projection(o, "mutation_leafward_projection", [t_i] + pj + pij, pm, 1, phase=True):
                        o.stats["support_checked"] += 1
                        if not (mn * (1 - 1e-9) < mm[0] < t_i):
                            o.viol("mean-outside-support:mutation_leafward", f"mutation_leafward_moments{tuple(args)}: mutation mean {mm[0]!r} not between child mean {mn!r} and parent {t_i!r}", "mutation_leafward_moments", args)
                    if tr is not None:
                        o.acc("mutation_leafward_moments", "mn", mm[0], (tr[0] + t_i) / 2, args, small)
    elif sec in ("moments", "unphased"):
        a_i, b_i, a_j, b_j = v["a_i"], v["b_i"], v["a_j"], v["b_j"]
        small = min(a_i, a_j) < 0.999
        pi, pj, pij = [a_i - 1, b_i], [a_j - 1, b_j], [y, mu]
        args = [a_i, b_i, a_j, b_j, y, mu]
        if sec == "moments":
            m = run("moments", args)
            p = run("gamma_projection", pi + pj + pij)
            if m is not None and p is not None and check_projection(o, "gamma_projection", pi + pj + pij, p, 2):
                mi, mj = (p[1] + 1) / p[2], (p[3] + 1) / p[4]
                o.stats["support_checked"] += 1
                if not (mi > mj > 0):
                    o.viol("mean-outside-support:gamma_projection", f"gamma_projection{tuple(pi + pj + pij)}: parent mean {mi!r} not above child mean {mj!r}", "gamma_projection", pi + pj + pij)
                tr = ko.moments_true(*args)
                if tr is not None:
                    z = (mu - b_j) / (mu + b_i)
                    kappa = -z * tr[2] / tr[0]        # mn_i = B/t + z mn_j: cancellation only when z < 0
                    o.acc("moments", "mn_i", m[1], tr[0], args, small, cancel=(kappa > 2 and rel(m[3], tr[2]) <= ACC))
                    o.acc("moments", "mn_j", m[3], tr[2], args, small)
                    res.nontrivial.add(common.canon_key(["moments"] + [f2h(x) for x in args]))
                if mut and y >= 1:
                    mm = run("mutation_moments", args)
                    pm = run("mutation_gamma_projection", pi + pj + pij)
                    if mm is not None and pm is not None and mm[0] == mm[0]:
                        if check_projection(o, "mutation_gamma_projection", pi + pj + pij, pm, 1, phase=True):
                            o.stats["support_checked"] += 1
                            if not (mj * (1 - 1e-9) < mm[0] < mi * (1 + 1e-9)):
                                o.viol("mean-outside-support:mutation_moments", f"mutation_moments{tuple(args)}: mutation mean {mm[0]!r} not between the node means {mj!r}, {mi!r}", "mutation_moments", args)
                        trm = ko.mutation_moments_true(*args)
                        if trm is not None:
                            o.acc("mutation_moments", "mn", mm[0], trm[0], args, small)
        else:
            m = run("unphased_moments", args)
            p = run("unphased_projection", pi + pj + pij)
            if m is not None and p is not None and check_projection(o, "unphased_projection", pi + pj + pij, p, 2):
                tr = ko.unphased_true(*args) if (mu + b_i > 0 and mu + b_j > 0) else None
                if tr is not None:
                    # E[t_i] is computed as B/t - z E[t_j]: a relative error e of E[t_j] becomes kappa * e
                    kappa = (mu + b_j) / (mu + b_i) * tr[2] / tr[0]
                    o.acc("unphased_moments", "mn_i", m[1], tr[0], args, small,
                          cancel=(kappa > 1 and rel(m[3], tr[2]) <= ACC))
                    o.acc("unphased_moments", "mn_j", m[3], tr[2], args, small)
                    res.nontrivial.add(common.canon_key(["unphased"] + [f2h(x) for x in args]))
            if mut and y >= 1:       # a dated mutation's block carries at least that mutation
                mm = run("mutation_unphased_moments", args)
                pm = run("mutation_unphased_projection", pi + pj + pij)
                if mm is not None and pm is not None and mm[1] == mm[1]:
                    check_projection(o, "mutation_unphased_projection", pi + pj + pij, pm, 1, phase=True)
                    trm = ko.mutation_unphased_true(*args) if (mu + b_i > 0 and mu + b_j > 0) else None
                    if trm is not None:
                        o.acc("mutation_unphased_moments", "pr", mm[0], trm[0], args, small, absolute=True)
                        o.acc("mutation_unphased_moments", "mn", mm[1], trm[1], args, small)
    elif sec == "sideways":
        t_i, a_j, b_j = v["t_i"], v["a_j"], v["b_j"]
        small = a_j < 0.999
        pj, pij = [a_j - 1, b_j], [y, mu]
        args = [t_i, a_j, b_j, y, mu]
        m = run("sideways_moments", args)
        p = run("sideways_projection", [t_i] + pj + pij)
        if m is not None and p is not None and check_projection(o, "sideways_projection", [t_i] + pj + pij, p, 1):
            tr = ko.sideways_true(t_i, a_j, b_j, y, mu) if mu + b_j > 0 else None
            if tr is not None:
                o.acc("sideways_moments", "mn", m[1], tr[0], args, small)
                res.nontrivial.add(common.canon_key(["sideways"] + [f2h(x) for x in args]))
        if mut and y >= 1:
            mm = run("mutation_sideways_moments", args)
            pm = run("mutation_sideways_projection", [t_i] + pj + pij)
            if mm is not None and pm is not None and mm[1] == mm[1]:
                check_projection(o, "mutation_sideways_projection", [t_i] + pj + pij, pm, 1, phase=True)
                trm = ko.mutation_sideways_true(t_i, a_j, b_j, y, mu) if mu + b_j > 0 else None
                if trm is not None:
                    o.acc("mutation_sideways_moments", "pr", mm[0], trm[0], args, small, absolute=True)
                    o.acc("mutation_sideways_moments", "mn", mm[1], trm[1], args, small)
    elif sec == "twin":
        a_i, b_i = v["a_i"], v["b_i"]
        pi, pij = [a_i - 1, b_i], [y, mu]
        p = run("twin_projection", pi + pij)
        if p is not None and check_projection(o, "twin_projection", pi + pij, p, 1):
            o.stats["closed_form"] += 1
            if abs(p[1] - (a_i - 1 + y)) > EXACT * max(1.0, a_i + y) or rel(p[2], b_i + 2 * mu) > EXACT:
                o.viol("conjugate-not-exact:twin_projection", f"twin_projection{tuple(pi + pij)} returned {p[1:]}, expected ({a_i - 1 + y}, {b_i + 2 * mu})", "twin_projection", pi + pij)
        pm = run("mutation_twin_projection", pi + pij) if mut else None
        if pm is not None and check_projection(o, "mutation_twin_projection", pi + pij, pm, 1, phase=True):
            o.stats["closed_form"] += 1
            s, r = a_i + y, b_i + 2 * mu
            mn_t, va_t = s / (2 * r), s * (s + 4) / (12 * r * r)
            mn, va = (pm[1] + 1) / pm[2], (pm[1] + 1) / pm[2] ** 2
            if pm[0] != 0.5 or rel(mn, mn_t) > 1e-9 or rel(va, va_t) > 1e-6:
                o.viol("closed-form-not-exact:mutation_twin_projection", f"mutation_twin_projection{tuple(pi + pij)}: mean {mn!r} var {va!r} phase {pm[0]!r}, expected {mn_t!r} {va_t!r} 0.5", "mutation_twin_projection", pi + pij)
    elif sec in ("edge", "block"):
        t_i, t_j = v["t_i"], v["t_j"]
        hi, lo = max(t_i, t_j), min(t_i, t_j)
        if sec == "edge":
            pe = run("mutation_edge_projection", [hi, lo])
            if pe is not None and check_projection(o, "mutation_edge_projection", [hi, lo], pe, 1, phase=True):
                o.stats["closed_form"] += 1
                mn, va = (pe[1] + 1) / pe[2], (pe[1] + 1) / pe[2] ** 2
                if rel(mn, (hi + lo) / 2) > 1e-12 or rel(va, (hi - lo) ** 2 / 12) > 1e-9 or not (lo < mn < hi):
                    o.viol("closed-form-not-exact:mutation_edge_projection", f"mutation_edge_projection({hi!r}, {lo!r}): mean {mn!r} var {va!r}", "mutation_edge_projection", [hi, lo])
        elif t_i > 0 and t_j > 0:
            pb = run("mutation_block_projection", [t_i, t_j])
            if pb is not None and check_projection(o, "mutation_block_projection", [t_i, t_j], pb, 1, phase=True):
                o.stats["closed_form"] += 1
                mn = (pb[1] + 1) / pb[2]
                mn_t = (t_i ** 2 + t_j ** 2) / (2 * (t_i + t_j))
                if rel(pb[0], t_i / (t_i + t_j)) > 1e-12 or rel(mn, mn_t) > 1e-9 or not (0 < mn < hi):
                    o.viol("closed-form-not-exact:mutation_block_projection", f"mutation_block_projection({t_i!r}, {t_j!r}): phase {pb[0]!r} mean {mn!r}", "mutation_block_projection", [t_i, t_j])


def oracle_on_population(o, pop, rng, res, nb_cap=40):
    """Every recorded vector and one perturbed neighbour of it through the clauses of its kernel."""
    reached = {}
    for name, vecs in sorted(pop["vectors"].items()):
        if name not in LAYOUT:
            continue
        reached[name] = len(vecs)
        n_nb = 0
        for flat in vecs:
            v = to_vector(name, flat)
            if not all(math.isfinite(x) for x in v.values()):
                continue
            mut = name.startswith("mutation_")
            o.src = "recorded"
            one_vector(o, SECTION[name], v, res, mut)
            o.src = "perturbed"
            one_vector(o, SECTION[name], perturb(rng, v), res, mut)
            if SECTION[name] in ("moments", "unphased") and n_nb < nb_cap:
                # both parents' cavities come from EP on real data and can belong to nodes of very different ages:
                # neighbours with the two cavity rates in a ratio of 1e-6 .. 1e6, and (the unphased density is
                # symmetric in its two parents) the same vectors with the labels i and j exchanged
                n_nb += 1
                w = ratio_neighbour(rng, v)
                o.src = "ratio"
                one_vector(o, SECTION[name], w, res, mut)
                if SECTION[name] == "unphased":
                    o.src = "swapped"
                    one_vector(o, "unphased", swap_labels(v), res, mut)
                    o.src = "ratio-swapped"
                    one_vector(o, "unphased", swap_labels(w), res, mut)
    # the block kernel between two fixed parents is reached only with unphased singletons below two fixed nodes:
    # when the recorded runs did not reach it, exercise its closed form on pairs of recorded fixed ages
    ages = [f[0] for n in ("rootward_projection", "leafward_projection", "sideways_projection") for f in pop["vectors"].get(n, []) if f[0] > 0]
    o.src = "recorded"
    for k in range(0, min(len(ages) - 1, 60), 2):
        one_vector(o, "block", dict(t_i=ages[k], t_j=ages[k + 1]), res)
        one_vector(o, "edge", dict(t_i=ages[k], t_j=ages[k + 1]), res)
    return reached


def exact_algebra(o, rng, n, res):
    """The code's own closed-form algebra (pure-Python `py_func`s of the current source) with mpmath's exact
    2F1 / 1F1 / U in place of the Laplace approximations must reproduce the quadrature moments: means to 1e-8,
    variances to 1e-5 (they are differences of large terms), phase probabilities to 1e-8."""
    lg = kc.logu
    worst = {}

    def cmp(name, comp, got, true, args, tol):
        e = rel(got, true)
        worst[f"{name}.{comp}"] = max(worst.get(f"{name}.{comp}", 0.0), e)
        if not e <= tol:
            o.viol(f"algebra-not-exact:{name}.{comp}",
                   f"{name}{tuple(args)} with EXACT special functions gives {comp} = {got!r}, quadrature {true!r} "
                   f"(relative error {e:.2e}): the closed-form algebra around the special function is wrong", name, args)

    with ko.ExactSpecial() as X:
        for _ in range(n):
            a_i, a_j = lg(rng, 1, 40), lg(rng, 1, 40)
            b_i, b_j, mu = lg(rng, 1e-3, 1), lg(rng, 1e-3, 1), lg(rng, 1e-3, 1)
            y = float(rng.choice([0, 1, 2, 5, 12]))
            t_i = float(a_j / b_j * np.exp(rng.normal() * 0.5))
            t_j = float(a_i / b_i * np.exp(rng.normal() * 0.5))
            res.evaluations += 8
            try:
                for name, args, true, comps in (
                    ("rootward_moments", [t_j, a_i, b_i, y, mu], ko.rootward_true(t_j, a_i, b_i, y, mu), ((1, 0, "mn", 1e-8), (2, 1, "va", 1e-5))),
                    ("leafward_moments", [t_i, a_j, b_j, y, mu], ko.leafward_true(t_i, a_j, b_j, y, mu), ((1, 0, "mn", 1e-8), (2, 1, "va", 1e-5))),
                    ("sideways_moments", [t_i, a_j, b_j, y, mu], ko.sideways_true(t_i, a_j, b_j, y, mu), ((1, 0, "mn", 1e-8), (2, 1, "va", 1e-5))),
                    ("moments", [a_i, b_i, a_j, b_j, y, mu], ko.moments_true(a_i, b_i, a_j, b_j, y, mu),
                     ((1, 0, "mn_i", 1e-8), (2, 1, "va_i", 1e-5), (3, 2, "mn_j", 1e-8), (4, 3, "va_j", 1e-5))),
                    ("unphased_moments", [a_i, b_i, a_j, b_j, y, mu], ko.unphased_true(a_i, b_i, a_j, b_j, y, mu),
                     ((1, 0, "mn_i", 1e-8), (2, 1, "va_i", 1e-5), (3, 2, "mn_j", 1e-8), (4, 3, "va_j", 1e-5))),
                    ("mutation_moments", [a_i, b_i, a_j, b_j, y, mu], ko.mutation_moments_true(a_i, b_i, a_j, b_j, y, mu),
                     ((0, 0, "mn", 1e-8), (1, 1, "va", 1e-5))),
                    ("mutation_unphased_moments", [a_i, b_i, a_j, b_j, y, mu], ko.mutation_unphased_true(a_i, b_i, a_j, b_j, y, mu),
                     ((0, 0, "pr", 1e-8), (1, 1, "mn", 1e-8), (2, 2, "va", 1e-5))),
                    ("mutation_sideways_moments", [t_i, a_j, b_j, max(y, 1.0), mu], ko.mutation_sideways_true(t_i, a_j, b_j, max(y, 1.0), mu),
                     ((0, 0, "pr", 1e-8), (1, 1, "mn", 1e-8), (2, 2, "va", 1e-5))),
                ):
                    got = X.call(name, *args)
                    if true is None:
                        continue
                    for gi, ti, comp, tol in comps:
                        if comp.startswith("va"):
                            # sq - mn^2 in doubles: relative error ~ eps * mn^2 / va on top of the algebra
                            tol = tol + 1e-11 * true[ti - 1] ** 2 / true[ti]
                        cmp(name, comp, float(got[gi]), true[ti], args, tol)
                # the mutation kernels that reuse a node kernel
                r = X.call("mutation_rootward_moments", t_j, a_i, b_i, y, mu)
                tr = ko.rootward_true(t_j, a_i, b_i, y, mu)
                cmp("mutation_rootward_moments", "mn", float(r[0]), (tr[0] + t_j) / 2, [t_j, a_i, b_i, y, mu], 1e-8)
                cmp("mutation_rootward_moments", "va", float(r[1]), tr[1] / 3 + (tr[0] - t_j) ** 2 / 12, [t_j, a_i, b_i, y, mu],
                    1e-5 + 1e-11 * tr[0] ** 2 / tr[1])
                r = X.call("mutation_leafward_moments", t_i, a_j, b_j, y, mu)
                tr = ko.leafward_true(t_i, a_j, b_j, y, mu)
                cmp("mutation_leafward_moments", "mn", float(r[0]), (tr[0] + t_i) / 2, [t_i, a_j, b_j, y, mu], 1e-8)
                cmp("mutation_leafward_moments", "va", float(r[1]), tr[1] / 3 + (tr[0] - t_i) ** 2 / 12, [t_i, a_j, b_j, y, mu],
                    1e-5 + 1e-11 * tr[0] ** 2 / tr[1])
            except (AssertionError, ZeroDivisionError, ValueError) as e:
                o.viol("algebra-exact-mode-raises", f"exact-mode evaluation raised {type(e).__name__}: {e}", "moments",
                       [a_i, b_i, a_j, b_j, y, mu])
    o.stats["exact_algebra_worst"] = worst


def observation_y0(rng, n):
    """OBSERVATION, outside C18's quantifier (propagate_mutations never passes y = 0 to a mutation kernel):
    the fraction of shapes for which mutation_sideways_moments(.., y=0, ..) trips `assert b >= a` after rounding."""
    bad = 0
    for _ in range(n):
        r = call("mutation_sideways_moments", [100.0, kc.logu(rng, 0.05, 1000.0), 1e-3, 0.0, 1e-3])
        bad += r[0] == "assert"
    return bad / max(n, 1)


def run(ctx):
    res = Result()
    import tsdate  # noqa: F401
    # ---- B
    cases = kc.make_cases(ctx, ctx.n(40, 1500), names=C18_KERNELS)
    try:
        reals, models, fails, stats = kc.correspondence(ctx, cases)
    except Exception as e:      # e.g. the driver does not build; stage C below must still run
        reals, models, fails, stats = [("raise", "")] * len(cases), [None] * len(cases), [], {}
        res.corr_failures.append(Violation("kernel-correspondence-not-run", f"stage B could not run: {type(e).__name__}: {str(e)[:200]}",
                                           dict(kind="none"), stage="B"))
    if kc.TRANSLATION_ERROR:
        res.corr_failures.append(Violation("kernel-translation-failed",
                                           f"source is outside the translator's subset ({kc.TRANSLATION_ERROR[:200]}); stage B ran "
                                           "against the last committed translation", dict(kind="none"), stage="B"))
    res.corr_failures += fails
    res.evaluations += len(cases)
    for c, r, m in zip(cases, reals, models):
        if r[0] == "ok" and m is not None and any(x == x for x in r[1]):
            res.nontrivial.add(common.canon_key([c["name"]] + [f2h(x) for x in c["args"]]))
    lg_err = kc.LAST.get("lgamma_driver_max_rel_err")
    # hypothesis hit rates of the theorems, evaluated on the generated correspondence inputs
    hyp = dict(pre_true=0, pre_false=0, skipped=0, returned=0)
    for c, r, m in zip(cases, reals, models):
        if m is None:
            continue
        hyp["pre_true" if m[0] else "pre_false"] += 1
        if c["name"].endswith("_projection") and r[0] == "ok":
            hyp["skipped" if r[1][0] != r[1][0] else "returned"] += 1
    # ---- C
    o = Oracle(res)
    rng = ctx.rng(13)
    worst_int = ko.selfcheck(ctx.rng(14), ctx.n(3, 12))
    if worst_int > 1e-8:
        raise RuntimeError(f"quadrature oracle disagrees with mpmath.quad by {worst_int:.2e}")
    pop = record_population(ctx)
    reached = oracle_on_population(o, pop, rng, res, nb_cap=ctx.n(40, 600))
    for name, vecs in sorted(pop["vectors"].items())[:3]:
        if vecs:
            res.sample(dict(kernel=name, recorded_args=[repr(x) for x in vecs[0]]))
    exact_algebra(o, ctx.rng(17), ctx.n(25, 600), res)
    # degenerate edge: both ends at the same age must be skipped (zero variance), never projected
    for t in (1.0, 123.456, 1e6):
        res.evaluations += 1
        r = call("mutation_edge_projection", [t, t])
        if r[0] != "ok" or not all(x != x for x in r[1]):
            o.viol("degenerate-edge-not-skipped", f"mutation_edge_projection({t}, {t}) returned {r} instead of skipping", "mutation_edge_projection", [t, t])
    runs = pop.get("runs", [])
    o.stats["ep_population"] = dict(
        runs=len(runs), runs_ok=sum(1 for r in runs if r.get("ok")),
        run_errors=sorted({r.get("exc", r.get("error", "?"))[:60] for r in runs if not r.get("ok")}),
        wrapper_calls=pop.get("calls", {}), vectors_used=reached,
        wrappers_not_reached=sorted(set(LAYOUT) - set(reached)),
        over5_recorded=sum(d["over5_recorded"] for d in o.stats["acc"].values()),
        over5_perturbed=sum(d["over5_perturbed"] for d in o.stats["acc"].values()))
    o.stats["observations"] = dict(mutation_sideways_y0_assert_rate=observation_y0(ctx.rng(15), ctx.n(300, 3000)))
    res.rule = ("B: 38 translated kernels x generated argument vectors (log-uniform ranges, boundary points of every "
                "_valid_* predicate, NaN/inf/0 specials), numba vs generated Lean at Float, bit-for-bit; non-trivial = "
                "the real kernel returned at least one number. C: the argument vectors that real variational_gamma runs "
                "hand to the 14 wrappers (recorded by rebinding tsdate.approx.* in a JIT-disabled subprocess: haploid/"
                "diploid, phased/unphased singletons, historical and internal samples, option variants) and one "
                "perturbed neighbour of each (x exp(N(0,0.2))), through the wrapper and its moments kernel vs numerical "
                "integration of the stated density; plus the code's algebra with exact special functions on moderate "
                "synthetic vectors. Non-trivial = update not skipped and computed by a Laplace-approximated kernel; "
                "distinct by hash of the argument bits.")
    o.stats["hyp"] = hyp
    res.extra = dict(input_distribution=dict(correspondence=stats, oracle=o.stats),
                     oracle_calls=dict(lgamma_driver_max_rel_err=lg_err, quadrature_vs_mpmath=worst_int),
                     hypothesis_hit_rates=hyp)
    return res


def search(ctx):
    res = Result()
    o = Oracle(res)
    pop = record_population(ctx)
    oracle_on_population(o, pop, ctx.rng(16), res)
    exact_algebra(o, ctx.rng(18), ctx.n(10, 60), res)
    return res


def replay(ctx, payload):
    d = payload["input"] if "input" in payload else payload.get("correspondence_input")
    name = d["name"]
    args = [h2f(x) for x in d["args"]]
    import tsdate  # noqa: F401
    real = kc.run_real(name, args)
    c = dict(name=name, args=args)
    model = kc.run_model([c])[0]
    print(f"{name}{tuple(args)}")
    print("implementation:", real)
    print("model (Lean, Float):", model)
    st, detail = kc.compare_case(c, real, model)
    print("correspondence:", st, detail)
    if d.get("kind") == "oracle":
        res = Result()
        o = Oracle(res)
        fam = {"rootward_moments": ko.rootward_true, "leafward_moments": ko.leafward_true,
               "sideways_moments": ko.sideways_true, "moments": ko.moments_true, "unphased_moments": ko.unphased_true,
               "mutation_moments": ko.mutation_moments_true, "mutation_unphased_moments": ko.mutation_unphased_true,
               "mutation_sideways_moments": ko.mutation_sideways_true}
        if name in fam:
            print("quadrature of the stated density:", fam[name](*args))
        return False
    return not st.startswith("FAIL")
