"""
C38 — ignore_oldest_root ignores exactly the oldest root.

A  theorems in Props/C38: which messages an ignored set drops (`ignore_root_spec`); renumbering
   invariance when the ignored set is defined by time (`oldest_root_rule_invariant`); the code's rule
   `parent == num_nodes - 1` is NOT invariant (`code_rule_not_invariant`, a kernel-checked witness);
   the two rules agree when the oldest root has the highest id.
B  the Lean linear-space inside/outside model run on the implementation's own prior rows and
   likelihood tables vs the real `inside_pass`/`outside_pass(ignore_oldest_root=True)`, under both
   rules: the implementation must match the specified rule, or (finding F11) the code's rule.
C  oracle on the implementation: (1) for every non-fixed node, the outside row recomputed from its
   parents' rows with exactly the oldest root's messages dropped; (2) dates under renumbering.
"""

import numpy as np

from .. import common, gen, order_corr as oc
from ..common import Result, Violation

META = dict(
    level='Lean theorems over a model of the grouped outside pass with an arbitrary ignored set: exactly the messages of ignored parents are dropped; with the ignored set defined by time (roots of greatest time) the result is invariant under renumbering of nodes and edge rows and under any valid traversal order; the rule the code implements (parent id == num_nodes-1) is proved NOT invariant on a kernel-checked witness (finding F11, reproduced on the real code, listed as known) and proved equal to the specified rule when the unique oldest root has the highest id. Model tied to the real inside/outside passes (linear space, tolerance 1e-9) on the implementation own tables under both rules; both probability spaces covered by the oracle. The property itself is VIOLATED by the current code (known finding).',
    note='Lean kernel + {propext, Classical.choice, Quot.sound}; sampled correspondence; value**fraction is a parameter of the model; log space only through the oracle',
    technique='relabelling + order-independence theorems for a grouped DAG fold; decide-checked counterexample; local recomputation oracle + metamorphic renumbering',
    ref='§3 C38, §4 F11',
)
LEAN_PROPS = ["TsdateVerif.Props.C38"]
LEAN_BUILD = ["TsdateVerif.Model.Proto", "TsdateVerif.Model.Passes"]
ASSUMPTIONS = [
    "the oldest root is the root (node that is the root of some tree with edges) of greatest input time; inputs where that is not unique are skipped and counted",
    "theorems are about exact arithmetic; the correspondence is at Float with relative tolerance 1e-9",
]

KNOWN = "ignores-highest-id-not-oldest-root"


def witness_pair():
    """The two isomorphic inputs of Tsdate.C38.code_rule_not_invariant, as real tree sequences
    (3 samples, one tree, a = parent(0,1), root = parent(a,2); B swaps the ids of a and root)."""
    import tskit
    out = []
    for a, root in ((3, 4), (4, 3)):
        t = tskit.TableCollection(sequence_length=100.0)
        times = {0: 0.0, 1: 0.0, 2: 0.0, a: 1.0, root: 2.0}
        for u in range(5):
            t.nodes.add_row(flags=tskit.NODE_IS_SAMPLE if u < 3 else 0, time=times[u])
        for p, c in ((a, 0), (a, 1), (root, 2), (root, a)):
            t.edges.add_row(0, 100.0, p, c)
        muts = {0: 1, 1: 2, 2: 3, a: 2}
        pos = 0
        for node, k in muts.items():
            for _ in range(k):
                s = t.sites.add_row(position=float(pos), ancestral_state="A")
                t.mutations.add_row(site=s, node=node, derived_state="T")
                pos += 1
        t.sort()
        t.build_index()
        t.compute_mutation_parents()
        out.append(t.tree_sequence())
    old2new = np.array([0, 1, 2, 4, 3])
    return out[0], out[1], old2new, dict(Ne=10.0, mu=1e-2)


def local_check(fit, ts, standardize):
    """(kind or None, detail) for one run with ignore_oldest_root=True."""
    roots, oldest = oc.roots_of(ts)
    if oldest is None:
        return "skip", "oldest root not unique"
    last = ts.num_nodes - 1
    ok, worst = oc.outside_matches(fit, oc.recompute_outside(fit, {oldest}, standardize))
    if ok:
        return None, ""
    okc, _ = oc.outside_matches(fit, oc.recompute_outside(fit, {last}, standardize))
    if okc and last != oldest:
        return KNOWN, (f"outside rows equal the loop with node {last} (highest id) ignored, not with the oldest "
                       f"root {oldest} ignored (rel. difference {worst:.2e})")
    okn, _ = oc.outside_matches(fit, oc.recompute_outside(fit, set(), standardize))
    if okn:
        return "ignore-oldest-root-has-no-effect", f"outside rows equal the loop with nothing ignored (oldest root {oldest})"
    return "ignored-set-unexplained", (f"outside rows match neither 'oldest root {oldest} ignored' nor 'node {last} ignored' "
                                       f"nor 'nothing ignored' (rel. difference {worst:.2e})")


def dates(r):
    return np.array(r["out"].nodes_time, dtype=float)


def check_pair(res, stats, tsA, tsB, old2new, info, space, eps, tp, std, tag):
    rA = oc.run_io(tsA, info, space, eps, tp, True, std)
    rB = oc.run_io(tsB, info, space, eps, tp, True, std)
    res.evaluations += 1
    rep = oc.replay_dict(tsA, info, space=space, eps=eps, timepoints=tp, standardize=bool(std),
                         old2new=np.asarray(old2new), tag=tag)
    if not (rA["ok"] and rB["ok"]):
        bad = rA if not rA["ok"] else rB
        stats["raised"][bad["exc"]] = stats["raised"].get(bad["exc"], 0) + 1
        return None
    kinds = []
    for name, r, ts in (("original", rA, tsA), ("renumbered", rB, tsB)):
        k, what = local_check(r["fit"], ts, std)
        if k == "skip":
            stats["skipped_ambiguous_oldest"] += 1
            return None
        if k:
            kinds.append(k)
            res.violations.append(Violation(k, f"{tag} {space} ({name} numbering): {what}", rep))
    # metamorphic: same dates through the renumbering
    a, b = dates(rA), dates(rB)[old2new]
    if not oc.close(a, b):
        kind = KNOWN if KNOWN in kinds else "renumbering-changes-result"
        res.violations.append(Violation(
            kind, f"{tag} {space}: dates change under renumbering with ignore_oldest_root=True "
                  f"(max rel. difference {oc.reldiff(a, b):.2e})", rep))
        stats["metamorphic_differs"] += 1
    # what makes the case non-trivial: ignoring matters (the oldest root has a non-sample child)
    _, oldest = oc.roots_of(tsA)
    kids = [c for c in oc.children_of(tsA, oldest) if c not in rA["fit"].fixednodes]
    lastA, lastB = tsA.num_nodes - 1, tsB.num_nodes - 1
    _, oldestB = oc.roots_of(tsB)
    stats["oldest_is_last"] += int(oldest == lastA) + int(oldestB == lastB)
    stats["oldest_not_last"] += int(oldest != lastA) + int(oldestB != lastB)
    if kids:
        res.nontrivial.add(common.canon_key([rep["ts"]["edges"], [int(x) for x in old2new], space, std]))
    return rA, rB


def correspondence(res, stats, runs):
    """Lean model under both rules vs the implementation (linear space runs only)."""
    texts, metas = [], []
    for (r, ts, std, rep) in runs:
        d = oc.extract_io(r["fit"])
        for rule in ("code", "oldest"):
            texts.append(oc.encode_io(len(texts), d, rule, std))
            metas.append((r, d, rule, rep))
    if not texts:
        return
    out = oc.run_driver("".join(texts))
    per = {}
    for j, (r, d, rule, rep) in enumerate(metas):
        ln = out.get(j, "")
        m = None if "bad-op" in ln else oc.parse_io(ln, d["G"])
        if m is None:
            res.corr_failures.append(Violation("pass-model-rejects", "Lean driver answered bad-op", rep, stage="B"))
            continue
        bad = oc.compare_io(r["fit"], m)
        per.setdefault(id(r), dict(rep=rep, d=d))[rule] = bad
        stats["hyp_valid_orders"] += int(m["hyp_ins"] and m["hyp_out"])
        stats["model_runs"] += 1
    for v in per.values():
        if "code" not in v or "oldest" not in v:
            continue
        stats["matches_spec_model"] += int(not v["oldest"])
        stats["matches_code_model"] += int(not v["code"])
        if v["oldest"] and v["code"]:
            res.corr_failures.append(Violation(
                "outside-pass-matches-neither-rule",
                "the real outside pass equals the Lean model neither under the specified rule nor under the code's rule: "
                + "; ".join(v["oldest"][:2]), v["rep"], stage="B"))


def new_stats():
    return dict(raised={}, skipped_ambiguous_oldest=0, metamorphic_differs=0, oldest_is_last=0, oldest_not_last=0,
                hyp_valid_orders=0, model_runs=0, matches_spec_model=0, matches_code_model=0, spaces={})


def run_random(ctx, res, stats, n_cases, stream, with_model=True):
    rng = ctx.rng(stream)
    lin_runs = []
    done = 0
    tries = 0
    while done < n_cases and tries < 4 * n_cases:
        tries += 1
        ts, info = oc.draw_input(rng)
        if ts.num_mutations == 0 or ts.num_nodes - ts.num_samples < 2:
            continue
        space = str(rng.choice(["linear", "logarithmic"]))
        eps = float(rng.choice([1e-8, 1e-6, 1e-3]))
        tp = oc.draw_timepoints(rng, info["Ne"])
        std = bool(rng.random() < 0.6)
        ts2, old2new = oc.renumber(ts, rng)
        got = check_pair(res, stats, ts, ts2, old2new, info, space, eps, tp, std, "random")
        if got is None:
            continue
        done += 1
        stats["spaces"][space] = stats["spaces"].get(space, 0) + 1
        res.sample(dict(nodes=ts.num_nodes, trees=ts.num_trees, space=space, standardize=std,
                        oldest_root=oc.roots_of(ts)[1], oldest_root_renumbered=oc.roots_of(ts2)[1],
                        highest_id=ts.num_nodes - 1))
        if space == "linear" and with_model:
            rep = oc.replay_dict(ts, info, space=space, eps=eps, timepoints=tp, standardize=std,
                                 old2new=np.asarray(old2new), tag="random")
            lin_runs.append((got[0], ts, std, rep))
            lin_runs.append((got[1], ts2, std, rep))
    return lin_runs


def run(ctx):
    res = Result()
    import tsdate  # noqa: F401
    stats = new_stats()
    # the witness of the Lean counterexample, on the real code, both spaces
    tsA, tsB, old2new, info = witness_pair()
    lin_runs = []
    for space in ("linear", "logarithmic"):
        got = check_pair(res, stats, tsA, tsB, old2new, info, space, 1e-6, np.array([0.0, 5.0, 20.0, 60.0]),
                         False, "witness")
        if got and space == "linear":
            rep = oc.replay_dict(tsA, info, space=space, eps=1e-6, timepoints=np.array([0.0, 5.0, 20.0, 60.0]),
                                 standardize=False, old2new=old2new, tag="witness")
            lin_runs += [(got[0], tsA, False, rep), (got[1], tsB, False, rep)]
    lin_runs += run_random(ctx, res, stats, ctx.n(30, 250), 1)
    correspondence(res, stats, lin_runs)
    res.rule = ("pairs (input, renumbering of its non-sample nodes) of msprime tree sequences with 2-7 samples at time 0 "
                "and 1-12 trees, plus the 5-node witness of the Lean counterexample; inside_outside with "
                "ignore_oldest_root=True, both probability spaces, outside_standardize on/off. Per pair: outside rows "
                "recomputed from the parents' rows with exactly the oldest root ignored, dates compared through the "
                "renumbering; linear-space runs also against the Lean pass model under both rules. Non-trivial = the oldest "
                "root has a non-sample child (ignoring changes something); distinct by hash of (edges, renumbering, space).")
    res.extra = dict(input_distribution=stats)
    return res


def search(ctx):
    res = Result()
    stats = new_stats()
    run_random(ctx, res, stats, ctx.n(10, 40), 5, with_model=False)
    return res


def replay(ctx, payload):
    d = payload["input"] if "input" in payload else payload.get("correspondence_input")
    ts = gen.ts_from_jsonable(d["ts"])
    info = dict(Ne=d["Ne"], mu=d["mu"])
    tp = np.array([common.h2f(x) for x in d["timepoints"]])
    eps = common.h2f(d["eps"])
    old2new = np.array(d["old2new"])
    order = np.argsort(old2new)
    tables = ts.dump_tables()
    tables.subset(order.astype(np.int32), record_provenance=False)
    tables.sort()
    tables.build_index()
    tables.compute_mutation_parents()
    ts2 = tables.tree_sequence()
    res, stats = Result(), new_stats()
    got = check_pair(res, stats, ts, ts2, old2new, info, d["space"], eps, tp, d["standardize"], "replay")
    if got is None:
        print("the implementation raised or the oldest root is ambiguous")
        return False
    print("dates, original numbering  :", dates(got[0]).tolist())
    print("dates, renumbered (mapped) :", dates(got[1])[old2new].tolist())
    for v in res.violations:
        print(f"violation kind={v.kind}: {v.what}")
    return not res.violations
