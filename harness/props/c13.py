"""
C13 — maximization picks ordered grid timepoints by the documented rule.

A  theorems in Props/C13 over the model of `outside_maximization` (Model/Maximize.lean).
B  the Lean model (Float carrier, same IEEE operations; and exact rationals on a subset) run on the
   implementation's own inside matrix, edge order and Poisson tables vs the real
   `outside_maximization` (via `tsdate.maximization(..., return_fit=True)`): assigned grid indices equal.
C  oracle: the documented rule recomputed in Python from `fit.inside` and the timepoints.
"""

import numpy as np

from .. import common, gen, maximize_corr as mc
from ..common import Result, Violation

META = dict(
    level='Lean theorems over a model of BeliefPropagation.outside_maximization (any number of nodes/edges/grid points, any likelihood function, both probability spaces): every assigned index is a grid index; no child index exceeds any parent index; nodes that are never a child get the first argmax of their inside row; every other node gets the first argmax over 0..min parent index of inside x product of its edges likelihoods at the parents final indices, the per-edge standardising constants provably not affecting the argmax (positive constants in linear space, any finite constant in log space). Hypotheses (edges of a child adjacent, parents assigned before read) are decidable, evaluated by the driver on every input, and proved for the sort key of edges_by_child_then_parent_desc in Props/C11. Model tied to the real code by running it on the implementation own inside matrix and Poisson tables (indices equal exactly at Float; exact rationals on a subset). Partial: -inf log-values and NaN/underflowed rows are outside the theorems (exact ordered field / ordered group); the Poisson pmf is a parameter.',
    note='Lean kernel + {propext, Classical.choice, Quot.sound}; sampled correspondence on msprime inputs; scipy poisson pmf and the inside pass are inputs (data), not verified here',
    technique='refinement proof (loop invariant on the running minimum and the standardised partial products) + data-passing correspondence + rule oracle',
    ref='§3 C13',
)
LEAN_PROPS = ["TsdateVerif.Props.C13"]
LEAN_BUILD = ["TsdateVerif.Model.Proto", "TsdateVerif.Model.Maximize"]
ASSUMPTIONS = [
    "the edge likelihood is a parameter of the model (scipy.stats.poisson pmf/logpmf values are passed as data)",
    "theorems are in exact arithmetic; the Float run of the model performs the same IEEE operations as numpy",
    "np.argmax is 'first maximum'; NaN rows are excluded (counted as degenerate)",
]


def one_case(rng):
    ts, info = mc.make_input(rng)
    space = str(rng.choice(["linear", "logarithmic"]))
    eps = float(rng.choice([1e-6, 1e-6, 1e-10, 1e-3, 1.0]))
    tp = mc.draw_timepoints(rng, info["Ne"])
    return ts, info, space, eps, tp


def nontrivial_key(d):
    ch = mc.groups_of(d["order"])
    multi = [c for c, ps in ch.items() if not d["fixed"][c] and len({int(d["idx"][p]) for p, _ in ps}) > 1]
    if not multi:
        return None
    return common.canon_key([d["order"], d["idx"].tolist(), d["space"], common.f2h(d["eps"])])


def run_cases(ctx, n_cases, stream, res, stats):
    import time
    t0 = time.time()
    rng = ctx.rng(stream)
    cases, metas = [], []
    tries = 0
    while len(cases) < n_cases and tries < 5 * n_cases:
        tries += 1
        ts, info, space, eps, tp = one_case(rng)
        if ts.num_mutations == 0:
            continue
        r = mc.run_impl(ts, info, space, eps, tp)
        if not r["ok"]:
            stats["raised"][r["exc"]] = stats["raised"].get(r["exc"], 0) + 1
            continue
        d = mc.extract(r["fit"], space, eps)
        cases.append(d)
        metas.append(mc.replay_dict(ts, info, space, eps, tp))
        stats["spaces"][space] = stats["spaces"].get(space, 0) + 1
        stats["trees"].append(ts.num_trees)
        stats["grid"].append(int(d["G"]))
    stats["t_impl"] = round(time.time() - t0, 1)
    t1 = time.time()
    # ---- C: the rule, recomputed from fit.inside
    for d, m in zip(cases, metas):
        res.evaluations += 1
        bad, st = mc.oracle(d)
        for k in st:
            stats[k] = stats.get(k, 0) + st[k]
        for kind, what in bad:
            res.violations.append(Violation(kind, f"{d['space']}: {what}", m))
        key = nontrivial_key(d)
        if key:
            res.nontrivial.add(key)
        res.sample(dict(nodes=d["n"], grid=int(d["G"]), space=d["space"], eps=d["eps"], edges=len(d["order"]),
                        assigned=d["idx"].tolist()))
    stats["t_oracle"] = round(time.time() - t1, 1)
    t2 = time.time()
    # ---- B: Lean model on the implementation's data
    model = mc.run_model(cases, "f")
    stats["t_lean_float"] = round(time.time() - t2, 1)
    t3 = time.time()
    for i, (d, m) in enumerate(zip(cases, metas)):
        o = model.get(i)
        if o is None:
            res.corr_failures.append(Violation("maximize-model-rejects", "Lean driver answered bad-op", m, stage="B"))
            continue
        stats["hyp_valid_order"] += int(o["hyp_order"])
        stats["hyp_consts_positive"] += int(o["hyp_pos"])
        degenerate = any(np.any(np.isnan(v)) for v in d["inside"].values())
        if degenerate:
            stats["nan_excluded"] += 1
            continue
        if o["idx"].shape != d["idx"].shape or np.any(o["idx"] != d["idx"]):
            diff = np.where(o["idx"] != d["idx"])[0].tolist() if o["idx"].shape == d["idx"].shape else "shape"
            res.corr_failures.append(Violation(
                "maximize-model-differs",
                f"outside_maximization differs from the Lean model (Float) at nodes {diff} ({d['space']}, G={d['G']})",
                dict(m, impl=d["idx"].tolist(), model=o["idx"].tolist()), stage="B"))
    # exact rationals on the small linear-space cases
    sub = [(i, d) for i, d in enumerate(cases) if mc.finite_for_rat(d) and d["G"] <= 7 and len(d["order"]) <= 40][: min(60, max(3, n_cases // 4))]
    if sub:
        rat = mc.run_model([d for _, d in sub], "q")
        for j, (i, d) in enumerate(sub):
            o = rat.get(j)
            stats["rat_cases"] += 1
            if o is None:
                res.corr_failures.append(Violation("maximize-model-rejects", "Lean driver (Rat) answered bad-op", metas[i], stage="B"))
            elif np.any(o["idx"] != d["idx"]):
                # exact arithmetic may break a numerical tie differently: accept only if the oracle sees a tie
                ok = True
                for u in np.where(o["idx"] != d["idx"])[0]:
                    if u in mc.groups_of(d["order"]):
                        y, s = mc.rule_scores(d, u, d["idx"])
                        ok &= bool(o["idx"][u] <= y and mc.near_max(d["space"], s, o["idx"][u]))
                    else:
                        ok &= bool(mc.near_max(d["space"], d["inside"][u], o["idx"][u]))
                if ok:
                    stats["rat_tie_differences"] += 1
                else:
                    res.corr_failures.append(Violation(
                        "maximize-model-differs-exact",
                        "outside_maximization differs from the Lean model run in exact rationals beyond a numerical tie",
                        dict(metas[i], impl=d["idx"].tolist(), model=o["idx"].tolist()), stage="B"))
    stats["t_lean_rat"] = round(time.time() - t3, 1)
    return cases


def new_stats():
    return dict(raised={}, spaces={}, trees=[], grid=[], hyp_valid_order=0, hyp_consts_positive=0, nan_excluded=0,
                rat_cases=0, rat_tie_differences=0)


def finish_stats(stats):
    for k in ("trees", "grid"):
        v = stats[k]
        stats[k] = dict(min=int(min(v)), max=int(max(v)), mean=float(np.mean(v))) if v else {}
    return stats


def run(ctx):
    import time
    res = Result()
    t0 = time.time()
    import tsdate  # noqa: F401
    stats = new_stats()
    stats["t_import"] = round(time.time() - t0, 1)
    run_cases(ctx, ctx.n(60, 700), 1, res, stats)
    res.rule = ("msprime tree sequences (2-7 samples at time 0, 1-12 trees, optional polytomies / node renumbering) x "
                "probability space x eps x 3-9 custom timepoints; real outside_maximization vs the Lean model on the "
                "implementation's own inside rows, edge order and Poisson tables (indices compared exactly), and vs the "
                "rule recomputed from fit.inside. Non-trivial = some non-sample node has parents assigned to different "
                "grid indices (the running minimum and the slicing matter); distinct by hash of (order, indices, space, eps).")
    n = max(1, res.evaluations)
    res.extra = dict(input_distribution=finish_stats(stats),
                     hypothesis_hit_rates=dict(valid_order=stats["hyp_valid_order"] / n,
                                               consts_positive=stats["hyp_consts_positive"] / n))
    return res


def search(ctx):
    res = Result()
    stats = new_stats()
    run_cases(ctx, ctx.n(20, 100), 7, res, stats)
    res.corr_failures = []     # the deeper search only looks for property violations on the implementation
    return res


def replay(ctx, payload):
    d0 = payload["input"] if "input" in payload else payload.get("correspondence_input")
    ts, info, space, eps, tp = mc.from_replay(d0)
    r = mc.run_impl(ts, info, space, eps, tp)
    if not r["ok"]:
        print(f"maximization raised {r['exc']}: {r['msg']}")
        return False
    d = mc.extract(r["fit"], space, eps)
    bad, st = mc.oracle(d)
    o = mc.run_model([d], "f").get(0)
    print("implementation indices:", d["idx"].tolist())
    print("model indices         :", None if o is None else o["idx"].tolist())
    print("rule violations       :", bad)
    return not bad and o is not None and bool(np.all(o["idx"] == d["idx"]))
