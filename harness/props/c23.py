"""
C23 — rescaling credits each unphased singleton to its two branches by phase probability.

A  theorems in Props/C23 over the Lean model of `reallocate_unphased` and of the tail of `infer`
   (place -> rescale/reallocate -> flip): block-edge counts are rebuilt from the phases alone, every other
   edge keeps its count, a singleton adds phi and 1-phi (total one) to its two block edges, the branch it is
   placed on gets max(phi, 1-phi) >= 1/2 which is also the reported phase; and the pre-repair order
   (flip before rescale, finding F8) gives the placed branch the smaller share (general theorem + concrete witness).
B  model (Float) vs numba `reallocate_unphased` bit-for-bit on synthetic arrays (incl. NaN / out-of-range
   phases: AssertionError <-> bad-op) and on the calls recorded from real fits; model of the tail vs the state
   real `ExpectationPropagation.infer` runs leave behind (mutation_edges, mutation_nodes, mutation_phase, the
   count column handed to the rescaling), bit-for-bit.
C  the statement on `tsdate.date(..., singletons_phased=False, return_fit=True)`: counts used by the rescaling
   (fit.edge_likelihoods / fit.sizebiased_likelihoods) against an independent tally from tskit trees plus the
   placed/other shares computed from fit.mutation_edges, fit.mutation_phase, fit.block_edges.
"""

import numpy as np

from .. import blocks_corr as bc, common, gen
from ..common import Result, Violation

META = dict(
    level='Lean theorems over executable models of `reallocate_unphased` and of the end of `ExpectationPropagation.infer` (switch edges/nodes by phase, rescale, flip phases), over any ordered field and for every run in which the kernel does not assert: after reallocation an edge of a singleton block holds exactly the sum of the shares credited to it (input count forgotten), every other edge keeps its count, each blocked singleton with a valid phase credits phi to the first and 1-phi to the second edge of its block (sum over all edges = 1), and in the current order of infer() the edge a singleton is placed on receives max(phi,1-phi) >= 1/2, equal to the reported mutation_phase. Regression guard: for the pre-repair order (flip before rescale, finding F8) the placed edge of every switched singleton provably receives phi < 1/2, plus a kernel-evaluated concrete counterexample. Models tied bit-for-bit (Float) to the numba kernel and to the state real infer() runs leave behind. Partial: that the fitted phase is the posterior probability of the first branch (EP) and what mutational_timescale does with the counts are outside; floating-point rounding of the additions is outside the theorems (covered bit-exactly by the correspondence).',
    note='Lean kernel + {propext, Classical.choice, Quot.sound}; sampled bit-exact correspondence with numba; np.isclose closing assertion is a model parameter; EP phase semantics not proved',
    technique='fold invariant (sum of credits) by list induction + case analysis of the switch; executable model tied bit-for-bit; counterexample by kernel evaluation',
    ref='§3 C23',
)
LEAN_PROPS = ["TsdateVerif.Props.C23"]
LEAN_BUILD = ["TsdateVerif.Model.Proto", "TsdateVerif.Model.Blocks"]
ASSUMPTIONS = [
    "the closing np.isclose assertion of reallocate_unphased is an arbitrary predicate in the theorems (statements are about runs that do not raise)",
    "the two edges of a block are distinct: hypothesis of placed_branch_gets_larger_share, discharged for the blocks _block_singletons computes by placed_branch_gets_larger_share_of_computed_blocks under 'the edge insertion index lists no edge twice' (tskit contract; hit rate measured as hyp_block_edges_distinct / blocks_seen)",
    "that mutation_phase is the fitted probability of the first block edge is EP's business (C18/C21), not proved here",
]


def same_tail(mo, post, with_lik=True):
    keys = ("medge", "mnode", "phase") + (("lik",) if with_lik else ())
    return mo is not None and all(mo[k] == post[k] for k in keys)


def prepare_b(ctx, res, stats, n_synth, n_fits):
    rng = ctx.rng(1)
    synth = [bc.realloc_case_synth(rng) for _ in range(n_synth)]
    synth_impl = [bc.run_realloc_impl(c) for c in synth]
    tails, recorded = [], []
    for _ in range(n_fits):
        ts, info = bc.gen_diploid(rng, gaps=0.0, mpe=float(rng.choice([3, 8])), big=(ctx.tier == "thorough"))
        if ts.num_mutations == 0:
            continue
        ri = int(rng.choice([0, 1, 1, 2, 3, 5]))
        it = int(rng.choice([1, 3]))
        seg = bool(rng.random() < 0.5)
        rec = bc.run_fit(ts, info["mu"], singletons_phased=False, rescale_intervals=ri, rescale_iterations=it,
                         rescale_segsites=seg, ep_iterations=int(rng.integers(1, 5)))
        for r in rec["realloc"]:
            if r["out"] is not None:
                recorded.append(dict(lik=r["lik"], mblock=np.asarray(r["mblock"], dtype=np.int32),
                                     phase=np.asarray(r["phase"], dtype=np.float64),
                                     bedges=np.asarray(r["bedges"], dtype=np.int32).reshape(-1, 2), mode="recorded",
                                     out=[common.f2h(x) for x in r["out"]]))
        if not rec["ok"]:
            key = "F5" if (rec["exc"] == "AssertionError" and bc.F5_MSG in rec["msg"]) else f"{rec['stage']}:{rec['exc']}"
            stats["fit_raised"][key] = stats["fit_raised"].get(key, 0) + 1
            if bc.raised_in_tail(rec):
                res.corr_failures.append(Violation(
                    "infer-tail-model-differs",
                    f"the tail of infer() raised {rec['exc']} ({rec['msg'][:100]}) where the Lean model returns a state",
                    dict(kind="date", ts=gen.ts_to_jsonable(ts), kw=dict(mutation_rate=float(info["mu"]), max_iterations=1,
                         rescaling_intervals=ri, rescaling_iterations=it, match_segregating_sites=seg)), stage="B"))
            continue
        tails.append(bc.tail_case(rec, ri, it, seg))
    text = ("".join(bc.encode_realloc(f"s{i}", c) for i, c in enumerate(synth))
            + "".join(bc.encode_realloc(f"r{i}", c) for i, c in enumerate(recorded))
            + "".join(bc.encode_tail(f"t{i}", c) for i, c in enumerate(tails)))
    return text, (synth, synth_impl, recorded, tails)


def eval_b(res, stats, model, prepared):
    synth, synth_impl, recorded, tails = prepared
    for i, (c, im) in enumerate(zip(synth, synth_impl)):
        res.evaluations += 1
        mo = bc.decode_realloc(model.get(f"s{i}", ["bad-op"]))
        stats["synthetic"][c["mode"] + ":" + im[0]] = stats["synthetic"].get(c["mode"] + ":" + im[0], 0) + 1
        same = im[0] == mo[0] and (im[0] == "raise" or im[1] == mo[1])
        if not same:
            res.corr_failures.append(Violation(
                "realloc-model-differs",
                f"reallocate_unphased differs from the Lean model on synthetic arrays ({c['mode']}): impl {im[0]}, model {mo[0]}",
                dict(bc.realloc_case_replay(c), impl=list(im), model=list(mo)), stage="B"))
        if im[0] == "ok" and np.any(c["mblock"] != bc.NULL):
            res.nontrivial.add(common.canon_key(bc.realloc_case_replay(c)))
    for i, c in enumerate(recorded):
        res.evaluations += 1
        mo = bc.decode_realloc(model.get(f"r{i}", ["bad-op"]))
        if not (mo[0] == "ok" and mo[1] == c["out"]):
            res.corr_failures.append(Violation(
                "realloc-model-differs",
                "reallocate_unphased as called by rescale() differs from the Lean model (bit-for-bit comparison of the count column)",
                dict(bc.realloc_case_replay(c), impl=c["out"], model=list(mo)), stage="B"))
    for i, c in enumerate(tails):
        res.evaluations += 1
        mo = bc.decode_tail(model.get(f"t{i}", ["bad-op"]))
        if not same_tail(mo, c["post"]):
            which = [k for k in ("medge", "mnode", "phase", "lik") if mo is None or mo[k] != c["post"][k]]
            res.corr_failures.append(Violation(
                "infer-tail-model-differs",
                f"state after infer() differs from the Lean model of its tail (place -> reallocate -> flip) in {which}",
                dict(bc.tail_case_replay(c), model=mo), stage="B"))
        be = np.asarray(c["bedges"]).reshape(-1, 2)
        stats["blocks_seen"] += int(be.shape[0])
        stats["hyp_block_edges_distinct"] += int(np.sum(be[:, 0] != be[:, 1])) if be.size else 0
        sw = int(np.sum(np.array(c["mnode"]) != np.array(c["post"]["mnode"])))
        stats["switched_in_fits"] += sw
        if sw and c["rescale"]:
            res.nontrivial.add(common.canon_key(bc.tail_case_replay(c)))
    if synth:
        c = synth[0]
        res.sample(dict(kind="realloc", edges=int(c["lik"].size), blocks=c["bedges"].tolist(), mblock=c["mblock"].tolist(),
                        phase=[float(x) for x in c["phase"]], outcome=synth_impl[0][0]))
    if tails:
        c = tails[0]
        res.sample(dict(kind="tail", mutations=len(c["mnode"]), blocks=int(np.asarray(c["bedges"]).reshape(-1, 2).shape[0]),
                        singletons=int(np.sum(c["mblock"] != bc.NULL)), rescale=c["rescale"]))


def one_input(rng, res, stats):
    ts, info = bc.gen_diploid(rng, gaps=0.0, mpe=float(rng.choice([3, 8])))
    if ts.num_mutations == 0:
        return
    ts = bc.roundtrip(ts)
    kw = bc.draw_date_kw(rng, info, rescale=(rng.random() < 0.85))
    seg = bool(kw.get("match_segregating_sites", False))
    rescaled = kw["rescaling_intervals"] > 0 and kw.get("rescaling_iterations", 5) > 0
    r = bc.run_vg(ts, kw, False, return_fit=True)
    res.evaluations += 1
    replay = dict(kind="date", ts=gen.ts_to_jsonable(ts), kw=kw)
    if not r["ok"]:
        k = "F5" if r["f5"] else r["exc"]
        stats["date_raised"][k] = stats["date_raised"].get(k, 0) + 1
        if not r["f5"]:
            # did the exception come out of reallocate_unphased (its own assertions) on this valid input?
            rec = bc.run_fit(ts, kw["mutation_rate"], singletons_phased=False, ep_iterations=kw["max_iterations"],
                             max_shape=kw.get("max_shape", 1000.0), rescale_intervals=kw["rescaling_intervals"],
                             rescale_iterations=kw.get("rescaling_iterations", 5), rescale_segsites=seg)
            if rec["realloc"] and rec["realloc"][-1]["out"] is None:
                res.violations.append(Violation(
                    "reallocate-raised-on-valid-input",
                    f"reallocate_unphased raised {rec['exc']} inside rescale() on a valid diploid input", replay))
            elif bc.raised_in_tail(rec):
                res.violations.append(Violation(
                    "infer-tail-raised-on-valid-input",
                    f"the end of infer() (switch / flip) raised {rec['exc']}: {rec['msg'][:120]} on a valid diploid input", replay))
        return
    _, fit = r["out"]
    bad, st = bc.check_counts(ts, fit, seg, rescaled)
    for kind, what in bad:
        res.violations.append(Violation(kind, f"{'segregating-sites' if seg else 'path-length'} rescaling: {what}", replay))
    for k in ("singletons", "switched", "nan_phase"):
        stats["oracle_" + k] += st[k]
    stats["oracle_rescaled" if rescaled else "oracle_not_rescaled"] += 1
    if rescaled and st["switched"]:
        res.nontrivial.add(common.canon_key(replay))
    res.sample(dict(kind="date", samples=int(ts.num_samples), trees=int(ts.num_trees), mutations=int(ts.num_mutations),
                    kw=kw, singletons=st["singletons"], switched=st["switched"]), limit=4)


def new_stats():
    return dict(synthetic={}, fit_raised={}, date_raised={}, blocks_seen=0, hyp_block_edges_distinct=0, switched_in_fits=0,
                oracle_singletons=0, oracle_switched=0, oracle_nan_phase=0, oracle_rescaled=0, oracle_not_rescaled=0)


def run(ctx):
    import time
    res = Result()
    import tsdate  # noqa: F401
    stats = new_stats()
    t0 = time.time()
    text, prepared = prepare_b(ctx, res, stats, ctx.n(150, 4000), ctx.n(20, 300))
    t1 = time.time()
    model = bc.run_model(text)
    eval_b(res, stats, model, prepared)
    t2 = time.time()
    rng = ctx.rng(3)
    for _ in range(ctx.n(30, 500)):
        one_input(rng, res, stats)
    stats["stage_seconds"] = dict(implementation_side_of_B=round(t1 - t0, 1), lean_driver=round(t2 - t1, 1),
                                  end_to_end=round(time.time() - t2, 1))
    res.rule = ("B: `reallocate_unphased` (numba) vs Lean model at Float, bit-for-bit, on synthetic arrays (random blocks, "
                "phases incl. 0, 1/2, 1, NaN, out-of-range, consistent and inconsistent totals) and on the calls recorded from "
                "real fits; tail of real infer() runs (diploid msprime inputs, both rescaling modes) vs model, bit-for-bit. "
                "C: counts used by the rescaling after date(singletons_phased=False, return_fit=True) vs independent tally + "
                "placed/other shares. Non-trivial = a reallocation with at least one blocked singleton (synthetic), or a real "
                "fit with rescaling on in which at least one singleton was switched to the second edge of its block; distinct "
                "by canonical hash of the input.")
    res.extra = dict(input_distribution=stats)
    return res


def search(ctx):
    res = Result()
    stats = new_stats()
    rng = ctx.rng(4)
    for _ in range(ctx.n(10, 60)):
        one_input(rng, res, stats)
    return res


def replay(ctx, payload):
    import tsdate  # noqa: F401
    d = payload["input"] if "input" in payload else payload.get("correspondence_input")
    if d["kind"] == "realloc":
        c = bc.realloc_case_from_replay(d)
        im = bc.run_realloc_impl(c)
        mo = bc.decode_realloc(bc.run_model(bc.encode_realloc("r", c)).get("r", ["bad-op"]))
        print("implementation:", im)
        print("model         :", mo)
        return im[0] == mo[0] and (im[0] == "raise" or im[1] == mo[1])
    if d["kind"] == "tail":
        c = dict(rescale=bool(d["rescale"]), child=np.array(d["child"]), bedges=np.array(d["bedges"]).reshape(-1, 2),
                 mblock=np.array(d["mblock"]), phase=[common.h2f(x) for x in d["phase"]], medge=d["medge"], mnode=d["mnode"],
                 lik=[common.h2f(x) for x in d["lik"]])
        out = bc.run_model(bc.encode_tail("new", c) + bc.encode_tail("old", c, old=True))
        mo, mo_old = bc.decode_tail(out.get("new", ["bad-op"])), bc.decode_tail(out.get("old", ["bad-op"]))
        print("implementation (recorded) counts:", [common.h2f(x) for x in d["post"]["lik"]][:30])
        print("model, current order            :", None if mo is None else [common.h2f(x) for x in mo["lik"]][:30])
        print("model, pre-repair order (F8)    :", None if mo_old is None else [common.h2f(x) for x in mo_old["lik"]][:30])
        return same_tail(mo, d["post"])
    ts = gen.ts_from_jsonable(d["ts"])
    kw = d["kw"]
    r = bc.run_vg(ts, kw, False, return_fit=True)
    print("date():", "returned" if r["ok"] else f"raised {r['exc']}: {r['msg']}")
    if not r["ok"]:
        return False
    seg = bool(kw.get("match_segregating_sites", False))
    rescaled = kw["rescaling_intervals"] > 0 and kw.get("rescaling_iterations", 5) > 0
    bad, st = bc.check_counts(ts, r["out"][1], seg, rescaled)
    print("oracle:", st)
    print("violations:", bad)
    return not bad
