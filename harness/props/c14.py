"""
C14 — conditional coalescent prior moments are exact.

A  theorems in Props/C14: the code's downward recursion (multiplicative form) equals the Wiuf–Donnelly closed
   form at every stage, for every n, k; the closed form sums to one; first-moment column = tau_expect;
   returned variance = second moment - mean^2 under the closed form; root row = tau_var_mrca;
   gamma_approx / lognorm_approx reproduce mean and variance exactly.
B  the Lean model run at Rat vs the real `conditional_coalescent_variance`, `_marginalize_over_ancestors`
   (also on arbitrary columns), `tau_expect`, `tau_var_mrca`, `gamma_approx`, `lognorm_approx` (Float),
   and the rows of `ConditionalCoalescentTimes`.
C  oracle: rows (alpha, beta, mean, var) of ConditionalCoalescentTimes[n] vs the closed form evaluated
   independently in Python `fractions`, and the moment-matching equations on (alpha, beta).
"""

import numpy as np

from .. import coalescent_corr as cc, common
from ..common import Result, Violation, f2h, h2f

META = dict(
    level='Lean theorems for every n and every 2 <= k <= n (no bound), over any field of characteristic 0: the recursion of _marginalize_over_ancestors (modelled in multiplicative form) yields the Wiuf-Donnelly closed form C(a,2)C(n-a-1,k-2)/C(n,k+1) at every stage; each output row is the closed-form expectation of the input column; the closed form sums to 1; the first-moment column equals tau_expect(k,n); conditional_coalescent_variance = closed-form second moment minus mean squared (root row = tau_var_mrca); gamma_approx and lognorm_approx (for any exp/log with exp(log x)=x, exp(x+y)=exp x exp y; instantiated at the reals) reproduce mean and variance exactly. Model tied to the real functions by executing it at Rat for all k, n up to the tier bound (rtol 1e-9) and on arbitrary input columns. Outside the theorems: that the closed form is the Kingman conditional law (cited, Wiuf & Donnelly 1999), floating-point/log-space rounding, the interpolated approximate-prior path (tau_var_lookup).',
    note='Lean kernel + {propext, Classical.choice, Quot.sound}; hand-written model tied by sampled exact-rational correspondence; closed form cited',
    technique='induction on the recursion with binomial identities (upper-index Vandermonde proved by double induction) + exact-rational model/implementation correspondence',
    ref='§3 C14',
)
LEAN_PROPS = ["TsdateVerif.Props.C14"]
LEAN_BUILD = ["TsdateVerif.Model.Proto", "TsdateVerif.Model.Coalescent"]
ASSUMPTIONS = [
    "the Wiuf-Donnelly closed form is the law of the number of extant ancestors under the Kingman coalescent; waiting times are hypoexponential (cited mathematics)",
    "theorems are in exact arithmetic; the log-space float implementation is compared with the exact model within rtol 1e-9",
    "approximate priors (n >= 10000 or approximate_priors=True: interpolation in a precomputed table) are outside the model",
]


def choose_ns(ctx):
    rng = ctx.rng(1)
    if ctx.tier == "quick":
        base = list(range(2, 49))
        extra = [64, 100] + [int(x) for x in rng.integers(65, 300, size=2)]
    else:
        base = list(range(2, 161))
        extra = [200, 256, 400, 700, 1000] + [int(x) for x in rng.integers(161, 800, size=6)]
    if ctx.boost > 1:
        extra += [int(x) for x in rng.integers(50, 400, size=6)]
    return base, sorted(set(extra) - set(base))


def check_rows(n, distr, rows, closed, model_row, res, stats):
    """The statement of C14 on the rows of ConditionalCoalescentTimes[n]."""
    tol_mean, tol_var = 1e-12, cc.RTOL
    for k in range(2, n + 1):
        alpha, beta, mean, var = (float(x) for x in rows[k])
        cm, cv = closed[k]
        key = dict(kind="row", n=n, k=k, distr=distr)
        res.evaluations += 1
        if k < n and n - k >= 2:
            res.nontrivial.add((n, k))
        bad = None
        if cc.rel(cm, mean) > tol_mean:
            bad = ("prior-mean-not-exact", f"mean {mean!r} vs closed form {float(cm)!r}")
        elif cc.rel(cv, var) > tol_var:
            bad = ("prior-variance-not-exact", f"variance {var!r} vs closed form {float(cv)!r} "
                   f"(rel {cc.rel(cv, var):.3g})")
        elif distr == "gamma":
            if cc.rel(alpha / beta, mean) > 1e-12 or cc.rel(alpha / beta**2, var) > 1e-12:
                bad = ("gamma-params-not-moment-matched", f"alpha/beta={alpha / beta!r}, alpha/beta^2={alpha / beta**2!r}")
        else:
            lm = np.exp(alpha + beta / 2)
            lv = np.expm1(beta) * np.exp(2 * alpha + beta)
            if cc.rel(lm, mean) > 1e-11 or cc.rel(lv, var) > 1e-8:
                bad = ("lognorm-params-not-moment-matched", f"lognormal mean {lm!r}, variance {lv!r}")
        if bad:
            res.violations.append(Violation(bad[0], f"ConditionalCoalescentTimes[{n}][{k}] ({distr}): {bad[1]} "
                                            f"(row mean {mean!r}, var {var!r})", key))
        stats["rows"] += 1
        # rows vs the Lean model (mean, var)
        if model_row is not None:
            mm, mv = model_row[k]
            if cc.rel(mm, mean) > tol_mean or cc.rel(mv, var) > tol_var:
                res.corr_failures.append(Violation("row-model-differs",
                                                   f"ConditionalCoalescentTimes[{n}][{k}] mean/var differ from the Lean model",
                                                   key, stage="B"))


def run(ctx):
    res = Result()
    from tsdate import prior
    stats = dict(rows=0, ns_all=None, ns_extra=None, nonroot=0, root=0)
    base, extra = choose_ns(ctx)
    ns = base + extra
    stats["ns_all"] = f"{base[0]}..{base[-1]}"
    stats["ns_extra"] = extra
    # ---- implementation side first: rows for both distributions, (mean, var) pairs for the approximations
    rng = ctx.rng(3)
    pairs = []
    rows_of = {}
    for n in ns:
        for distr in ("gamma", "lognorm"):
            cct = prior.ConditionalCoalescentTimes(None, distr)
            cct.add(n)
            rows_of[n, distr] = cct[n]
        rows = rows_of[n, "gamma"]
        for k in rng.choice(np.arange(2, n + 1), size=min(3, n - 1), replace=False):
            pairs.append((float(rows[k][2]), float(rows[k][3])))
    for _ in range(ctx.n(40, 400)):     # extreme (mean, var) pairs for the two approximations
        pairs.append((float(10 ** rng.uniform(-6, 3)), float(10 ** rng.uniform(-9, 4))))
    marg_cases = cc.cases_marg(ctx.rng(2), ctx.n(60, 600), 40 if ctx.tier == "quick" else 120)
    tau_ns = base[:40] + extra[:2]
    # ---- one run of the Lean driver for everything
    out = cc.run_driver(cc.blocks_ccv(ns) + cc.blocks_marg(marg_cases) + cc.blocks_tau(tau_ns) + cc.blocks_approx(pairs))
    # ---- B: model (Rat) vs implementation
    model, fails = cc.corr_ccv(ns, stats, out)
    res.corr_failures += fails
    res.corr_failures += cc.corr_marg(marg_cases, stats, out)
    res.corr_failures += cc.corr_tau(tau_ns, stats, out)
    res.corr_failures += cc.corr_approx(pairs, stats, out)
    # ---- C: rows vs closed form (Python fractions), both distributions
    for n in ns:
        closed = cc.closed_form(n)
        for distr in ("gamma", "lognorm"):
            check_rows(n, distr, rows_of[n, distr], closed, model.get(n), res, stats)
        stats["nonroot"] += n - 2
        stats["root"] += 1
        if len(res.samples) < 5 and n in (3, 7, 48, 64):
            k = max(2, n // 2)
            res.sample(dict(n=n, k=k, closed_mean=str(closed[k][0]), closed_var=float(closed[k][1]),
                            row=[float(x) for x in rows_of[n, "lognorm"][k]]))
    # ---- C (large n, cheap): conclusions of closed_sums_to_one / mean_eq_tau_expect on the implementation itself
    big = [1500] + [int(x) for x in ctx.rng(5).integers(300, 4000, size=ctx.n(2, 8))]
    stats["large_n"] = big
    for n in big:
        mom = cc.impl_moments(n)
        ones = prior._marginalize_over_ancestors(np.ones((n, 2)))
        ks = np.arange(2, n)
        res.evaluations += 1
        e1 = np.max(np.abs(ones[2:n, 0] - 1.0))
        e2 = np.max(np.abs(mom[2:n, 0] - (ks - 1) / n) / ((ks - 1) / n))
        if not e1 <= 1e-9:
            k = int(ks[np.argmax(np.abs(ones[2:n, 0] - 1.0))])
            res.violations.append(Violation("recursion-mass-not-one",
                                            f"_marginalize_over_ancestors: Pr(. | k={k}, n={n}) sums to {ones[k, 0]!r}",
                                            dict(kind="mass", n=n, k=k)))
        elif not e2 <= 1e-9:
            k = int(ks[np.argmax(np.abs(mom[2:n, 0] - (ks - 1) / n) / ((ks - 1) / n))])
            res.violations.append(Violation("recursion-mean-not-tau-expect",
                                            f"first-moment column at k={k}, n={n} is {mom[k, 0]!r}, tau_expect = {(k - 1) / n!r}",
                                            dict(kind="mass", n=n, k=k)))
    res.rule = ("B: Lean model at Rat vs conditional_coalescent_variance / _marginalize_over_ancestors (incl. arbitrary "
                "columns) / tau_expect / tau_var_mrca / gamma_approx / lognorm_approx, all k for every n listed, rtol 1e-9; "
                "C: every row k=2..n of ConditionalCoalescentTimes[n] (gamma and lognorm) vs the closed form in Python "
                "fractions and the moment-matching equations; for a few n up to 4000 total mass 1 and first moment = tau_expect on the "
                "implementation's own recursion. Non-trivial = (n,k) with k<n and at least two admissible "
                "ancestor counts (n-k>=2); distinct by (n,k).")
    stats["hypotheses"] = dict(rows_2_le_k_lt_n=stats["nonroot"], rows_k_eq_n=stats["root"], hit_rate=1.0)
    res.nontrivial = {common.canon_key(x) for x in res.nontrivial}
    res.extra = dict(input_distribution=stats)
    return res


def search(ctx):
    """Deeper implementation-side search: more n, closed form only."""
    res = Result()
    from tsdate import prior
    rng = ctx.rng(4)
    stats = dict(rows=0)
    for n in sorted(set(int(x) for x in rng.integers(2, 500, size=ctx.n(3, 10)))):
        closed = cc.closed_form(n)
        for distr in ("gamma", "lognorm"):
            cct = prior.ConditionalCoalescentTimes(None, distr)
            cct.add(n)
            check_rows(n, distr, cct[n], closed, None, res, stats)
    res.nontrivial = {common.canon_key(x) for x in res.nontrivial}
    return res


def replay(ctx, payload):
    from tsdate import prior
    d = payload["input"] if "input" in payload else payload.get("correspondence_input")
    kind = d["kind"]
    if kind == "row":
        n, k, distr = d["n"], d["k"], d["distr"]
        cct = prior.ConditionalCoalescentTimes(None, distr)
        cct.add(n)
        row = [float(x) for x in cct[n][k]]
        cm, cv = cc.closed_form(n)[k]
        md = cc.model_ccv([n])[n]
        print(f"implementation row [{n}][{k}] ({distr}): alpha={row[0]!r} beta={row[1]!r} mean={row[2]!r} var={row[3]!r}")
        print(f"closed form                 : mean={float(cm)!r} var={float(cv)!r}")
        print(f"Lean model (Rat)            : mean={float(md[k][0])!r} var={float(md[k][1])!r}")
        res = Result()
        check_rows(n, distr, cct[n], cc.closed_form(n), md, res, dict(rows=0))
        bad = [v for v in res.violations + res.corr_failures if v.replay.get("k") == k]
        print("violations at this row:", [(v.kind, v.what) for v in bad])
        return not bad
    if kind == "mass":
        n, k = d["n"], d["k"]
        ones = prior._marginalize_over_ancestors(np.ones((n, 2)))
        mom = cc.impl_moments(n)
        print(f"n={n} k={k}: sum_a Pr(a|k,n) = {ones[k, 0]!r} (must be 1); first moment = {mom[k, 0]!r}, tau_expect = {(k - 1) / n!r}")
        return abs(ones[k, 0] - 1) <= 1e-9 and abs(mom[k, 0] - (k - 1) / n) <= 1e-9 * (k - 1) / n
    if kind == "ccv":
        n = d["n"]
        _, fails = cc.corr_ccv([n], {})
        print(f"conditional_coalescent_variance({n}) vs Lean model:", "differs: " + fails[0].what if fails else "agrees (rtol 1e-9)")
        return not fails
    if kind == "marg":
        n = d["n"]
        val = np.array([h2f(x) for x in d["val"]])
        out = prior._marginalize_over_ancestors(np.stack((val, val), 1))[:, 0]
        t = cc.run_driver(cc.blocks_marg([("", n, val, "")]))["m"]
        md = {int(t[j]): float(common.q2frac(t[j + 1])) for j in range(0, len(t), 2)}
        print("implementation:", [float(out[k]) for k in range(2, n + 1)])
        print("model         :", [md[k] for k in range(2, n + 1)])
        return all(cc.rel(md[k], out[k]) <= cc.RTOL for k in range(2, n + 1))
    if kind == "tau":
        fails = cc.corr_tau([d["n"]], {})
        print("tau_expect / tau_var_mrca vs model:", "differs" if fails else "agrees")
        return not fails
    if kind == "approx":
        fails = cc.corr_approx([(h2f(d["m"]), h2f(d["v"]))], {})
        print("gamma_approx / lognorm_approx vs model:", "differs" if fails else "agrees")
        return not fails
    print("unknown replay kind", kind)
    return False
