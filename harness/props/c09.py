"""
C09 — results are deterministic and independent of thread count and prior reuse.

A  theorems in Props/C09 over Model/LikCache.lean: the filled likelihood cache is the same association
   list (values AND key order) for every completion order of the process pool
   (cache_fill_perm, cache_value_pure, precalculate_order_irrelevant, precalculate_complete), the
   positional gather is order dependent (counter-example), and the in-place probability-space switch
   is idempotent and gives the data back after LIN→LOG→LIN (force_idem, force_same, force_roundtrip).
B  real `precalculate_mutation_likelihoods` with num_threads in {None, 1, 2, 4}: the four caches are
   bit-identical to each other and to the model's cache (built from the edge table, under several
   completion orders); real `force_probability_space` sequences vs the model at Float.
C  oracle: the statement on the implementation — repeated date() in one process, num_threads
   variants, fresh processes with PYTHONHASHSEED in {0, 1, 2}: identical table digests; one prior
   object reused LIN→LOG→LIN vs a fresh prior each time: results equal up to tolerance.

Partial by nature: CPython set/dict iteration order, OS scheduling, pickling and numpy reduction
order are not modelled; they are only exercised by the real runs of B and C.
"""

import json
import os
import shutil
import subprocess
import sys

import numpy as np

from .. import common, dating, gen
from .. import likcache_corr as lc
from ..common import Result, Violation, f2h, h2f

META = dict(
    level='Lean theorems over a model of the likelihood cache (finite map created from the edge table, filled from (key, value) results in arbitrary completion order) and of the in-place LIN/LOG switch of prior objects: the filled cache — values and key order — is the same for every completion order and depends only on the set of keys processed; positional gathering is proved order dependent; force_probability_space is idempotent and LIN→LOG→LIN restores the data for any log/exp pair with exp(log x)=x on non-zero entries (0 ↦ -inf ↦ 0). Tied to the code by comparing the real cache for num_threads in {None,1,2,4} bit-for-bit with the model cache, and real force sequences with the model at Float. Partial by nature: CPython hashing/iteration order, OS scheduling, pickling, numpy reduction order are outside the model and covered only by repeated real executions (in-process repeats, thread counts, fresh processes with 3 hash seeds).',
    note='Lean kernel + {propext, Classical.choice, Quot.sound}; scipy.stats.poisson.pmf is a parameter of the model; multiprocessing by contract; exp/log of Lean Float vs numpy compared within 4 ulp',
    technique='characterisation of the filled map + permutation lemma; bitwise cache correspondence; digest comparison across processes and hash seeds',
    ref='§3 C09',
)
LEAN_PROPS = ["TsdateVerif.Props.C09"]
LEAN_BUILD = ["TsdateVerif.Model.Proto", "TsdateVerif.Model.LikCache"]
ASSUMPTIONS = [
    "`Likelihoods._lik` is a pure function of (muts, span) for fixed grid/rate (parameter of the model)",
    "CPython set/dict iteration, OS scheduling, pickling and numpy reduction order are not modelled (only executed)",
]

THREADS = [None, 1, 2, 4]


def discrete_input(rng, **kw):
    """contemporaneous, simplified input with mutations (valid for every method)"""
    for _ in range(50):
        ts, info = gen.gen_ts(rng, **kw)
        if ts.num_mutations > 0 and ts.num_edges > 0 and np.all(ts.nodes_time[ts.samples()] == 0):
            return ts, info
    raise RuntimeError("no input")


def cache_correspondence(ctx, res, stats, rng, n_inputs):
    import tsdate
    blocks, expect = [], {}
    for ii in range(n_inputs):
        ts, info = discrete_input(rng, n=int(rng.integers(3, 9)), trees=int(rng.choice([1, 3, 8, 15])),
                                  polytomy=0.3)
        pri = tsdate.build_prior_grid(ts, population_size=info["Ne"], timepoints=int(rng.choice([6, 10, 20])))
        log_space = bool(rng.integers(0, 2))
        caches = {}
        lik0 = None
        for nt in THREADS:
            c, lik = lc.real_cache(ts, pri.timepoints, info["mu"], nt, log_space)
            caches[nt] = c
            lik0 = lik0 or lik
            res.evaluations += 1
        ref = caches[None]
        replay = dict(kind="cache", ts=gen.ts_to_jsonable(ts), mu=repr(info["mu"]), Ne=info["Ne"],
                      timepoints=[f2h(x) for x in pri.timepoints], log_space=log_space)
        for nt in THREADS[1:]:
            if caches[nt] != ref:
                kd = [i for i, (a, b) in enumerate(zip(caches[nt], ref)) if a != b][:3]
                res.violations.append(Violation(
                    "thread-count-changes-cache",
                    f"unfixed_likelihood_cache differs between num_threads=None and num_threads={nt} "
                    f"({len(ref)} keys; first differing positions {kd}; sizes {len(caches[nt])}/{len(ref)})",
                    dict(replay, num_threads=nt)))
        values = {(m, s): d for m, s, d in ref}
        keys = [(m, s) for m, s, _ in ref]
        orders = [keys, keys[::-1]] + [[keys[j] for j in rng.permutation(len(keys))] for _ in range(2)]
        cid = f"cache{ii}"
        blocks.append(lc.model_cache_block(cid, ts, lik0, values, orders))
        expect[cid] = dict(caches=caches, replay=replay, nkeys=len(keys))
        stats["cache_keys"].append(len(keys))
        dup = len([1 for m, e in zip(lik0.mut_edges, ts.edges()) if e.child not in lik0.fixednodes]) - len(keys)
        stats["edges_sharing_a_key"] += dup
        if len(keys) >= 2:
            res.nontrivial.add(common.canon_key(["cache", replay["ts"], log_space]))
    return blocks, expect


def check_cache_replies(res, replies, expect):
    for cid, e in expect.items():
        ln = replies.get(cid)
        if ln is None or ln.strip() == "bad-op":
            res.corr_failures.append(Violation("likcache-driver-rejected", f"{cid}: model rejected the case", e["replay"], stage="B"))
            continue
        outs = [o.strip() for o in ln.split(" | ")]
        want = {nt: ";".join(f"{lc.key_str(m, s)}={d}" for m, s, d in c) for nt, c in e["caches"].items()}
        if len(set(outs)) != 1:
            res.corr_failures.append(Violation("likcache-model-order-dependent",
                                               f"{cid}: the model cache differs between completion orders", e["replay"], stage="B"))
        for nt, w in want.items():
            if outs[0] != w:
                res.corr_failures.append(Violation(
                    "likcache-model-differs",
                    f"{cid}: real cache with num_threads={nt} ({e['nkeys']} keys) differs from the model's cache "
                    f"(model {outs[0][:60]}…, real {w[:60]}…)", dict(e["replay"], num_threads=nt), stage="B"))


def force_correspondence(ctx, res, stats, rng, n_inputs):
    """real NodeTimeValues.force_probability_space sequences vs the model at Float"""
    import tsdate
    blocks, expect = [], {}
    for ii in range(n_inputs):
        ts, info = discrete_input(rng, n=int(rng.integers(3, 7)))
        pri = tsdate.build_prior_grid(ts, population_size=info["Ne"], timepoints=int(rng.choice([5, 10])))
        data0 = np.array(pri.grid_data, copy=True).ravel()
        seq = [str(x) for x in rng.choice(["lin", "log"], size=int(rng.integers(1, 6)))]
        names = dict(lin="linear", log="logarithmic")
        for t in seq:
            pri.force_probability_space(names[t])
        data1 = np.array(pri.grid_data, copy=True).ravel()
        space1 = "lin" if pri.probability_space == "linear" else "log"
        cid = f"force{ii}"
        blocks.append("\n".join([f"case {cid}", "kind force", "space lin", "data " + " ".join(f2h(x) for x in data0),
                                 "seq " + " ".join(seq), "end"]) + "\n")
        expect[cid] = dict(space=space1, data=data1, seq=seq, zeros=int(np.sum(data0 == 0)))
        stats["force_seqs"] += 1
        stats["force_zero_entries"] += int(np.sum(data0 == 0))
        res.evaluations += 1
        if "log" in seq:
            res.nontrivial.add(common.canon_key(["force", [f2h(x) for x in data0[:8]], seq]))
    return blocks, expect


def check_force_replies(res, stats, replies, expect):
    for cid, e in expect.items():
        ln = replies.get(cid)
        rp = dict(kind="force", seq=e["seq"])
        if ln is None or ln.strip() == "bad-op":
            res.corr_failures.append(Violation("likcache-driver-rejected", f"{cid}: model rejected the case", rp, stage="B"))
            continue
        parts = ln.split()
        vals = np.array([h2f(x) for x in parts[1:]])
        ok = parts[0] == e["space"] and vals.shape == e["data"].shape
        if ok:
            for a, b in zip(vals, e["data"]):
                if a == b or (np.isnan(a) and np.isnan(b)):
                    continue
                if np.isinf(a) or np.isinf(b) or common.ulps(float(a), float(b)) > 4:
                    ok = False
                    break
                stats["force_max_ulp"] = max(stats["force_max_ulp"], common.ulps(float(a), float(b)))
        if not ok:
            res.corr_failures.append(Violation("force-model-differs",
                                               f"{cid}: force_probability_space sequence {e['seq']} differs from the model "
                                               f"(space {parts[0]} vs {e['space']})", rp, stage="B"))


def jobs_for(rng, info):
    mu, Ne = info["mu"], info["Ne"]
    jobs = [
        dict(method="variational_gamma", kw=dict(mutation_rate=mu, max_iterations=3, rescaling_intervals=int(rng.choice([0, 2])))),
        dict(method="variational_gamma", kw=dict(mutation_rate=mu, max_iterations=2, rescaling_intervals=0, singletons_phased=False)),
        dict(method="inside_outside", kw=dict(mutation_rate=mu, population_size=Ne)),
        dict(method="inside_outside", kw=dict(mutation_rate=mu, population_size=Ne, probability_space="linear", num_threads=1)),
        dict(method="maximization", kw=dict(mutation_rate=mu, population_size=Ne, return_likelihood=True)),
        dict(method="inside_outside", kw=dict(mutation_rate=mu, probability_space=str(rng.choice(["linear", "logarithmic"]))),
             prior=dict(Ne=Ne)),
    ]
    return jobs


def determinism_oracle(ctx, res, stats, rng, n_inputs):
    import tskit
    work = common.CACHE / f"c09-{os.getpid()}"
    shutil.rmtree(work, ignore_errors=True)
    work.mkdir(parents=True)
    try:
        items, local = [], {}
        for ii in range(n_inputs):
            ts, info = discrete_input(rng, n=int(rng.integers(3, 8)), trees=int(rng.choice([1, 4, 10])),
                                      polytomy=0.2, rootmuts=0.2, muts_per_edge=float(rng.choice([2, 5, 8])))
            path = str(work / f"in{ii}.trees")
            ts.dump(path)
            jobs = jobs_for(rng, info)
            items.append(dict(id=f"in{ii}", ts=path, jobs=jobs))
            for j, job in enumerate(jobs):
                a = lc.run_job(ts, job)
                b = lc.run_job(ts, job)
                res.evaluations += 2
                key = f"in{ii}/{j}"
                local[key] = a
                replay = dict(kind="job", ts=gen.ts_to_jsonable(ts), job=job)
                stats["job_outcomes"][a.split(":")[0] if a.startswith("EXC") else "ok"] = \
                    stats["job_outcomes"].get(a.split(":")[0] if a.startswith("EXC") else "ok", 0) + 1
                if a != b:
                    res.violations.append(Violation("nondeterministic-repeat",
                                                    f"two identical date() calls in one process differ ({job['method']} {job['kw']})", replay))
                if not a.startswith("EXC"):
                    res.nontrivial.add(common.canon_key(["job", replay["ts"], job]))
                # thread counts (discrete methods): every num_threads value gives the same tables
                if job["method"] != "variational_gamma" and not a.startswith("EXC"):
                    if ctx.tier == "quick" and ctx.boost == 1:
                        # one discrete job per input gets {1, 2}; the first input also 4
                        nts = (1, 2, 4) if (ii == 0 and j == 2) else ((1, 2) if j == 2 else (1,))
                    else:
                        nts = (1, 2, 4)
                    base = lc.run_job(ts, dict(job, kw=dict(job["kw"], num_threads=None))) if "num_threads" in job["kw"] else a
                    for nt in nts:
                        c = lc.run_job(ts, dict(job, kw=dict(job["kw"], num_threads=nt)))
                        res.evaluations += 1
                        stats["thread_runs"][str(nt)] = stats["thread_runs"].get(str(nt), 0) + 1
                        if c != base:
                            res.violations.append(Violation(
                                "thread-count-changes-result",
                                f"{job['method']} gives different tables with num_threads={nt} than with num_threads=None",
                                dict(replay, num_threads=nt)))
        # fresh processes, different hash seeds
        spec = work / "jobs.json"
        spec.write_text(json.dumps(dict(items=items)))
        procs = []
        for hs in (0, 1, 2):
            env = dict(os.environ, PYTHONHASHSEED=str(hs))
            procs.append((hs, subprocess.Popen([sys.executable, "-m", "harness.likcache_corr", str(spec)],
                                               cwd=str(common.VERIF), env=env, stdout=subprocess.PIPE,
                                               stderr=subprocess.PIPE, text=True)))
        for hs, p in procs:
            out, err = p.communicate(timeout=3000)
            if p.returncode != 0:
                raise RuntimeError(f"worker with PYTHONHASHSEED={hs} failed: {err[-600:]}")
            got = json.loads(out[out.index("{"):])
            stats["fresh_processes"] += 1
            for key, dig in got["digests"].items():
                res.evaluations += 1
                if dig != local[key]:
                    ii, j = key.split("/")
                    item = [x for x in items if x["id"] == ii][0]
                    res.violations.append(Violation(
                        "hashseed-changes-result",
                        f"fresh process with PYTHONHASHSEED={hs} gives a different result than the in-process run "
                        f"({item['jobs'][int(j)]['method']} {item['jobs'][int(j)]['kw']})",
                        dict(kind="job", ts=gen.ts_to_jsonable(tskit.load(item["ts"])), job=item["jobs"][int(j)], hashseed=hs)))
    finally:
        shutil.rmtree(work, ignore_errors=True)


def prior_reuse_oracle(ctx, res, stats, rng, n_inputs):
    import tsdate
    for ii in range(n_inputs):
        ts, info = discrete_input(rng, n=int(rng.integers(3, 8)), trees=int(rng.choice([1, 4, 10])))
        mu, Ne = info["mu"], info["Ne"]
        shared = tsdate.build_prior_grid(ts, population_size=Ne)
        g0 = np.array(shared.grid_data, copy=True)
        seq = ["linear", "logarithmic", "linear", "logarithmic"]
        meths = [str(rng.choice(["inside_outside", "maximization"])) for _ in seq]
        replay = dict(kind="reuse", ts=gen.ts_to_jsonable(ts), mu=repr(mu), Ne=Ne, seq=seq, methods=meths)
        for step, (space, meth) in enumerate(zip(seq, meths)):
            def call(pri):
                try:
                    return tsdate.date(ts, method=meth, mutation_rate=mu, priors=pri, probability_space=space), None
                except Exception as e:  # noqa: BLE001
                    return None, f"{type(e).__name__}: {str(e)[:100]}"
            # the SAME object on every step vs a prior built afresh for this step
            a, ea = call(shared)
            b, eb = call(tsdate.build_prior_grid(ts, population_size=Ne))
            res.evaluations += 2
            rp = dict(replay, step=step, space=space, method=meth)
            if eb is not None:
                # the fresh-prior run itself raises: data, but the reuse run must then raise the same way
                stats["reuse_exceptions"][eb.split(":")[0]] = stats["reuse_exceptions"].get(eb.split(":")[0], 0) + 1
                if ea is None or ea.split(":")[0] != eb.split(":")[0]:
                    res.violations.append(Violation(
                        "prior-reuse-changes-result",
                        f"step {step} {meth}({space}): fresh prior raises {eb} but the reused prior object gives {ea or 'a result'}", rp))
                continue
            if ea is not None:
                res.violations.append(Violation(
                    "prior-reuse-run-raises",
                    f"step {step} of {list(zip(meths, seq))}: {meth}(probability_space={space}) with the reused prior object "
                    f"(left in {'LOG' if step and seq[step - 1] == 'logarithmic' else 'LIN'} space by the previous run) raises {ea}, "
                    "while the same call with a fresh prior returns normally", rp))
                # put the shared object back into a defined state so that later steps are still informative
                shared = tsdate.build_prior_grid(ts, population_size=Ne)
                continue
            # B: BeliefPropagation.__init__ forces the prior object into the likelihood's space (model: force_space)
            if shared.probability_space != space:
                res.corr_failures.append(Violation(
                    "prior-space-not-forced",
                    f"after {meth}(probability_space={space}) the prior object is in {shared.probability_space} space; "
                    "the model's force always ends in the target space", rp, stage="B"))
            ta, tb = a.nodes_time, b.nodes_time
            err = float(np.max(np.abs(ta - tb) / np.maximum(np.abs(tb), 1e-300))) if ta.size else 0.0
            stats["reuse_max_rel_err"] = max(stats["reuse_max_rel_err"], err)
            if not np.allclose(ta, tb, rtol=1e-9, atol=0):
                res.violations.append(Violation(
                    "prior-reuse-changes-result",
                    f"{meth}({space}) with a reused prior object differs from a fresh prior by rel. {err:.3g}", rp))
        shared.force_probability_space("linear")
        g1 = np.array(shared.grid_data)
        gerr = float(np.max(np.abs(g1 - g0) / np.maximum(np.abs(g0), 1e-300)))
        stats["reuse_grid_rel_err"] = max(stats["reuse_grid_rel_err"], gerr)
        if not np.allclose(g1, g0, rtol=1e-12, atol=0):
            res.violations.append(Violation("prior-object-drifts",
                                            f"prior grid after LIN/LOG reuse differs from the original by rel. {gerr:.3g}", replay))
        res.nontrivial.add(common.canon_key(["reuse", replay["ts"], meths]))


def run(ctx):
    res = Result()
    import tsdate  # noqa: F401
    dating.quiet()
    stats = dict(cache_keys=[], edges_sharing_a_key=0, force_seqs=0, force_zero_entries=0, force_max_ulp=0,
                 job_outcomes={}, fresh_processes=0, reuse_exceptions={}, reuse_max_rel_err=0.0,
                 reuse_grid_rel_err=0.0, thread_runs={})
    import time
    t0 = time.time()
    tm = stats.setdefault("time_s", {})

    def tick(name):
        nonlocal t0
        tm[name] = round(time.time() - t0, 1)
        t0 = time.time()
    b1, e1 = cache_correspondence(ctx, res, stats, ctx.rng(1), ctx.n(2, 20))
    tick("cache")
    b2, e2 = force_correspondence(ctx, res, stats, ctx.rng(2), ctx.n(6, 60))
    replies = {}
    for ln in common.lean_driver("LikCache", "".join(b1 + b2)):
        if ln.strip():
            cid, _, rest = ln.partition(" ")
            replies[cid] = rest
    check_cache_replies(res, replies, e1)
    check_force_replies(res, stats, replies, e2)
    tick("force+model")
    determinism_oracle(ctx, res, stats, ctx.rng(3), ctx.n(2, 10))
    tick("determinism")
    prior_reuse_oracle(ctx, res, stats, ctx.rng(4), ctx.n(3, 25))
    tick("reuse")
    res.sample(dict(kind="cache", keys=stats["cache_keys"], threads=[str(t) for t in THREADS]))
    res.sample(dict(kind="force", sequences=stats["force_seqs"], max_ulp=stats["force_max_ulp"]))
    res.sample(dict(kind="jobs", outcomes=stats["job_outcomes"], fresh_processes=stats["fresh_processes"]))
    res.rule = ("B: real precalculate_mutation_likelihoods for num_threads in {None,1,2,4} (linear and log classes) vs each "
                "other and vs the model cache under 4 completion orders, bit-for-bit incl. key order; real "
                "force_probability_space sequences vs the model at Float (<= 4 ulp). C: every job (3 methods, options, "
                "user priors) twice in-process, with num_threads in {None,1,2,4}, and in 3 fresh processes with "
                "PYTHONHASHSEED 0/1/2: identical digests of all tables (provenance timestamp/resources stripped); prior "
                "object reused LIN/LOG/LIN/LOG vs fresh (rtol 1e-9). Non-trivial = cache with >= 2 keys, force sequence "
                "containing a LOG step, job that returned a result, reuse sequence; distinct by canonical hash.")
    res.extra = dict(input_distribution=stats)
    return res


def replay(ctx, payload):
    d = payload.get("input") or payload.get("correspondence_input")
    dating.quiet()
    if d["kind"] == "job":
        ts = gen.ts_from_jsonable(d["ts"])
        a, b = lc.run_job(ts, d["job"]), lc.run_job(ts, d["job"])
        print("run 1:", a[:40], " run 2:", b[:40])
        return a == b
    if d["kind"] == "cache":
        ts = gen.ts_from_jsonable(d["ts"])
        tp = np.array([h2f(x) for x in d["timepoints"]])
        outs = {nt: lc.real_cache(ts, tp, float(d["mu"]), nt, d["log_space"])[0] for nt in THREADS}
        for nt in THREADS:
            print(f"num_threads={nt}: {len(outs[nt])} keys, equal to None: {outs[nt] == outs[None]}")
        return all(outs[nt] == outs[None] for nt in THREADS)
    if d["kind"] == "reuse":
        import tsdate
        ts = gen.ts_from_jsonable(d["ts"])
        mu, Ne = float(d["mu"]), d["Ne"]
        shared = tsdate.build_prior_grid(ts, population_size=Ne)
        ok = True
        for step, (space, meth) in enumerate(zip(d["seq"], d["methods"])):
            outs = []
            for pri in (shared, tsdate.build_prior_grid(ts, population_size=Ne)):
                try:
                    r = tsdate.date(ts, method=meth, mutation_rate=mu, priors=pri, probability_space=space)
                    outs.append(r.nodes_time)
                except Exception as e:  # noqa: BLE001
                    outs.append(f"{type(e).__name__}: {str(e)[:80]}")
            same = (isinstance(outs[0], str) == isinstance(outs[1], str)) and \
                (isinstance(outs[0], str) or np.allclose(outs[0], outs[1], rtol=1e-9, atol=0))
            print(f"step {step} {meth}({space}): reused -> {outs[0] if isinstance(outs[0], str) else 'result'}; "
                  f"fresh -> {outs[1] if isinstance(outs[1], str) else 'result'}; agree: {same}; prior object now in {shared.probability_space}")
            ok = ok and same
            if isinstance(outs[0], str):
                shared = tsdate.build_prior_grid(ts, population_size=Ne)
        return ok
    print("replay of", d["kind"], "is not supported; rerun the check with the same VERIF_SEED")
    return False
