"""
C31 — site-time estimates follow their documented definition.

A  theorems in Props/C31 (per-site fold = max of the chosen summaries floored at min_time, NaN iff no mutation;
   node above = the covering edge's parent; unconstrained reads mn; add_sampledata = max with the oldest
   historical derived carrier).
B  Lean model at Float vs `sites_time_from_ts` / `add_sampledata_times`, bit-for-bit, on dated outputs of the
   three methods, hand-written `mn` metadata, tsinfer SampleData files.
C  the statement evaluated from tskit's own tree API / numpy on the implementation's return values.
"""

import numpy as np

from .. import common, dating, sitetimes_corr as st
from ..common import Result, Violation

META = dict(
    level='Lean theorems over the executable model of sites_time_from_ts / nodes_time_unconstrained / add_sampledata_times (all inputs, any linear order, any sqrt): each site time is the maximum over the site\'s mutations of the chosen node-age summary (child; child above a root; parent; arithmetic; geometric), raised to min_time, none(NaN) iff the site has no mutation; the node above is the parent of the edge covering the site; unconstrained=True takes sample ages from the tree sequence and all others from mn and fails iff an mn is missing; add_sampledata_times is max(estimate, oldest historical derived carrier). Model tied bit-for-bit (Float, same IEEE operations) to the code on dated outputs of all three methods and tsinfer SampleData. Partial: JSON decoding, tskit tree traversal and tsinfer file handling by contract.',
    note='Lean kernel + {propext, Classical.choice, Quot.sound}; sampled bit-exact correspondence; json/tskit/tsinfer by contract',
    technique='fold = max characterisation by induction + bit-exact model/implementation correspondence',
    ref='§3 C31',
)
LEAN_PROPS = ["TsdateVerif.Props.C31"]
LEAN_BUILD = ["TsdateVerif.Model.Proto"]
ASSUMPTIONS = [
    "tskit: tree.parent(u) at a site is the parent of the unique edge with child u covering the site's position",
    "json.loads decodes the mn field to the same double the harness decodes",
    "tsinfer SampleData.min_site_times / copy / finalise by contract (min_site_times(individuals_only=True) is modelled)",
]

MIN_TIMES = [1.0, 0.0, 1e-6, 50.0, 1e9]


def dated_inputs(ctx, rng, n, stats):
    """Real dated tree sequences from the three methods."""
    out = []
    tries = 0
    while len(out) < n and tries < 4 * n:
        tries += 1
        ts, info = st.crowded_ts(rng)
        if ts.num_mutations == 0 or ts.num_sites == 0:
            continue
        method = ["variational_gamma", "inside_outside", "maximization"][len(out) % 3]
        if method != "variational_gamma" and info["historical"]:
            continue
        kw = dict(mutation_rate=info["mu"])
        if method == "variational_gamma":
            kw.update(max_iterations=3, rescaling_intervals=0)
        else:
            kw.update(population_size=info["Ne"])
        r = dating.run_date(ts, method=method, **kw)
        if not r["ok"]:
            stats["date_raised"][r["exc"]] = stats["date_raised"].get(r["exc"], 0) + 1
            continue
        stats["dated"][method] = stats["dated"].get(method, 0) + 1
        out.append((r["out"], f"dated:{method}", info))
    return out


def run_batch(ctx, n_dated, n_fake, n_sd, stream, res, stats):
    import tsdate  # noqa: F401
    st.quiet()
    rng = ctx.rng(stream)
    inputs = dated_inputs(ctx, rng, n_dated, stats)
    for _ in range(n_fake):
        ts, info = st.crowded_ts(rng)
        if ts.num_sites == 0:
            continue
        mode = str(rng.choice(["all", "all", "all", "missing-key", "empty-bytes", "undated"]))
        if mode != "undated":
            ts = st.with_fake_mn(ts, rng, mode)
        inputs.append((ts, f"fake-mn:{mode}", info))
    cases = []
    for ts, origin, info in inputs:
        combos = [(s, float(rng.choice(MIN_TIMES)), bool(u)) for s in st.SELS for u in (True, False)]
        idx = rng.choice(len(combos), size=min(len(combos), 4 if origin.startswith("dated") else 3), replace=False)
        for k in idx:
            sel, mt, unc = combos[int(k)]
            c = st.make_case(ts, sel, mt, unc)
            c["origin"] = origin
            cases.append(c)
    for _ in range(n_sd):
        try:
            cases.append(st.gen_sampledata(rng))
        except ImportError:
            stats["tsinfer_missing"] = True
            break
    impls = []
    for c in cases:
        res.evaluations += 1
        if c["kind"] == "sites":
            r = st.run_impl_sites(c)
            impls.append(r)
            ts = c["ts"]
            stats["origins"][c["origin"]] = stats["origins"].get(c["origin"], 0) + 1
            stats["sel"][c["sel"]] = stats["sel"].get(c["sel"], 0) + 1
            if not r["ok"]:
                stats["raised"][r["exc"]] = stats["raised"].get(r["exc"], 0) + 1
            else:
                per_site = np.bincount(ts.mutations_site, minlength=ts.num_sites)
                # hypothesis of `parent_above`: at most one edge with child u covers the site of a mutation on u
                mp = ts.sites_position[ts.mutations_site]
                for x, u in zip(mp, ts.mutations_node):
                    k = int(np.sum((ts.edges_child == u) & (ts.edges_left <= x) & (x < ts.edges_right)))
                    stats["hyp_unique_parent_edge"][0] += int(k <= 1)
                    stats["hyp_unique_parent_edge"][1] += 1
                    stats["mutations_above_root_or_isolated"] += int(k == 0)
                stats["multi_mut_sites"] += int(np.sum(per_site > 1))
                stats["empty_sites"] += int(np.sum(per_site == 0))
                floored = int(np.sum(r["out"] == c["min_time"]))
                stats["floored_sites"] += floored
                if np.any(per_site > 1) or floored:
                    res.nontrivial.add(common.canon_key([common.f2h(x) for x in r["out"]] + [c["sel"], c["unc"], c["min_time"]]))
                for kind, what in st.oracle_sites(c, r):
                    res.violations.append(Violation(kind, what, st.replay_of(c)))
                res.sample(dict(kind="sites", origin=c["origin"], sel=c["sel"], min_time=c["min_time"], unconstrained=c["unc"],
                                sites=ts.num_sites, mutations=ts.num_mutations, trees=ts.num_trees,
                                multi_mutation_sites=int(np.sum(per_site > 1))))
        else:
            r = st.run_impl_sampledata(c)
            impls.append(r)
            stats["sampledata"] += 1
            for kind, what in st.oracle_sampledata(c, r):
                res.violations.append(Violation(kind, what, st.replay_of(c)))
            if r["ok"] and np.any(r["out"][~np.isnan(c["est"])] != c["est"][~np.isnan(c["est"])]):
                stats["sampledata_raised_by_bound"] += 1
                res.nontrivial.add(common.canon_key(st.replay_of(c)))
    fails, findings = st.compare(cases, impls)
    res.corr_failures += fails
    for kind, what, rp in findings:
        res.violations.append(Violation(kind, what, rp))


def new_stats():
    return dict(dated={}, date_raised={}, origins={}, sel={}, raised={}, multi_mut_sites=0, empty_sites=0, floored_sites=0,
                sampledata=0, sampledata_raised_by_bound=0, hyp_unique_parent_edge=[0, 0], mutations_above_root_or_isolated=0)


RULE = ("B: sites_time_from_ts on dated outputs of variational_gamma / inside_outside / maximization and on tree sequences with "
        "hand-written mn metadata (complete, one key missing, empty bytes, undated), x node_selection x min_time x unconstrained; "
        "add_sampledata_times on tsinfer SampleData with historical individuals, missing data, NaN estimates; Lean model at Float "
        "compared bit-for-bit. C: the statement recomputed from tskit's tree API. Non-trivial = some site has several mutations "
        "or was raised to min_time / to the historical bound; distinct by hash of the outputs and options.")


def run(ctx):
    res = Result()
    stats = new_stats()
    run_batch(ctx, ctx.n(9, 90), ctx.n(40, 1000), ctx.n(40, 1000), 1, res, stats)
    res.rule = RULE
    res.extra = dict(input_distribution=stats)
    return res


def search(ctx):
    res = Result()
    stats = new_stats()
    run_batch(ctx, ctx.n(1, 3), ctx.n(10, 30), ctx.n(10, 30), 5, res, stats)
    res.corr_failures = []
    return res


def replay(ctx, payload):
    import tsdate  # noqa: F401
    st.quiet()
    d = payload["input"] if "input" in payload else payload.get("correspondence_input")
    c = st.case_from_replay(d)
    r = st.run_impl_sites(c) if c["kind"] == "sites" else st.run_impl_sampledata(c)
    print("implementation:", [common.f2h(x) for x in r["out"]] if r["ok"] else f"raised {r['exc']}: {r['msg']}")
    m = st.run_model([c]).get(0)
    print("model         :", m)
    fails, findings = st.compare([c], [r])
    bad = st.oracle_sites(c, r) if c["kind"] == "sites" else st.oracle_sampledata(c, r)
    print("statement:", bad or "holds", "| findings:", [f[0] for f in findings] or "none")
    return not fails and not bad and not findings
