"""
C01 — dated output is a valid tree sequence with enforced branch lengths.

A  theorems in Props/C01 (forced pass establishes fadd(out c) <= out p on every edge; strictness iff
   the rounded addition does not absorb; tskit's edge order is topological; Float absorbs at 2^28).
B  bit-exact correspondence `_constrain_ages` (numba) == Lean model at Float.
C  oracle on real date() outputs over methods x options x time scales.
"""

import numpy as np

from .. import common, constrain_corr as cc, dating, gen
from ..common import Result, Violation, f2h

META = dict(
    level='Lean theorems over the `_constrain_ages` model (all edge lists, time vectors, iteration counts, any rounded addition): every output edge meets the minimum length; parents strictly older whenever the assigned value exceeds the child (true of the repaired max(x+eps, nextafter x)); tskit edge order is topological. Model tied to numba code bit-for-bit at Float on generated inputs; date() outputs checked against the statement across methods/options/time scales. Partial: tskit validity and mutation-time placement are by contract.',
    note='Lean kernel + {propext, Classical.choice, Quot.sound}; sampled bit-exact correspondence; tskit by contract; exact-arithmetic LS phase',
    technique='invariant by induction over the edge list + bit-exact model/implementation correspondence',
    ref='§3 C01',
)
LEAN_PROPS = ["TsdateVerif.Props.C01"]
LEAN_BUILD = ["TsdateVerif.Model.Proto"]
ASSUMPTIONS = [
    "tskit's table validation and compute_mutation_times are taken by contract",
    "theorems are over an ordered field with an abstract rounded addition `fadd`; the Float model is tied bit-for-bit",
]


def check_output(ts_in, out, eps, rec):
    """The statement of C01 on a returned tree sequence. Returns list of (kind, what)."""
    import tskit
    bad = []
    t = out.nodes_time
    ep, ec = out.edges_parent, out.edges_child
    if np.any(~(t[ep] > t[ec])):
        k = int(np.sum(~(t[ep] > t[ec])))
        bad.append(("parent-not-older", f"{k} edge(s) with parent not strictly older than child"))
    lo = t[ec] + eps
    if np.any(t[ep] < lo):
        bad.append(("below-min-branch-length", f"{int(np.sum(t[ep] < lo))} edge(s) shorter than fl(child+min_branch_length)"))
    # mutation times between node and the node above
    mt = out.mutations_time
    mn = out.mutations_node
    if out.num_mutations:
        if np.any(np.isnan(mt)):
            bad.append(("mutation-time-unknown", "mutation with unknown time in output"))
        else:
            if np.any(mt < t[mn]):
                bad.append(("mutation-below-node", "mutation younger than its node"))
            # node above at the mutation's position
            pos = out.sites_position[out.mutations_site]
            for tree in out.trees():
                l, r = tree.interval
                idx = np.where((pos >= l) & (pos < r))[0]
                for m in idx:
                    par = tree.parent(mn[m])
                    if par != tskit.NULL and mt[m] > t[par]:
                        bad.append(("mutation-above-parent", f"mutation {m} older than the node above"))
                        break
    return bad


def classify_failure(r, rec, eps):
    """date() raised.  Decide whether this is the C01 mechanism (constraint not strict)."""
    if r["exc"] == "LibraryError" and ("TIME" in r["msg"].upper() or "time" in r["msg"]):
        absorbed = False
        if rec and rec[-1]["out"] is not None:
            o = rec[-1]["out"]
            absorbed = bool(np.any((o + eps) == o) and np.max(o) > 0)
        if absorbed and "mutation" in r["msg"].lower():
            return ("mutation-time-rounds-onto-parent-at-large-times",
                    f"date() raised {r['exc']}: {r['msg'][:100]} — node times so large that the forced pass can only "
                    "separate parent and child by one ulp; tskit's evenly spaced mutation time then rounds onto the parent")
        if absorbed:
            return ("absorption-at-large-times",
                    f"date() raised {r['exc']}: {r['msg'][:120]} — constrained times contain t with fl(t+eps)==t")
        return ("invalid-times-written", f"date() raised {r['exc']}: {r['msg'][:160]}")
    return None


def one_date(rng, ts, info, res, stats, targeted=False):
    method = str(rng.choice(["variational_gamma", "inside_outside", "maximization"]))
    if targeted:
        # ancestral samples + a minimum branch length comparable to the node spacing: the forced pass has to
        # move sample parents and whole chains of ancestors (only variational_gamma accepts such inputs)
        method = "variational_gamma"
    kw = dating.method_options(rng, method, info)
    scale = float(rng.choice([1, 1, 1e-3, 1e-6, 1e3, 1e-8]))   # mutation-rate scale -> time scale 1/scale
    if targeted:
        scale = 1.0
    kw["mutation_rate"] = info["mu"] * scale
    if method != "variational_gamma":
        kw["population_size"] = info["Ne"] / scale
    eps = None
    if targeted:
        tpos = ts.nodes_time[ts.nodes_time > 0]
        eps = float(rng.choice([0.02, 0.1, 0.5])) * float(np.median(tpos) if tpos.size else 1.0)
        kw["min_branch_length"] = eps
    elif rng.random() < 0.5:
        eps = float(rng.choice([1e-8, 1e-6, 1e-3, 1.0, 1.0, 20.0]))
        kw["min_branch_length"] = eps
    if rng.random() < 0.4:
        kw["constr_iterations"] = int(rng.choice([0, 1, 10, 100]))
    eps_eff = 1e-8 if eps is None else eps
    with dating.record_constrain() as rec:
        r = dating.run_date(ts, method=method, **kw)
    res.evaluations += 1
    stats["methods"][method] = stats["methods"].get(method, 0) + 1
    key = dict(ts=gen.ts_to_jsonable(ts), method=method, kw=kw)
    replay = dict(kind="date", **key)
    if not r["ok"]:
        stats["raised"][r["exc"]] = stats["raised"].get(r["exc"], 0) + 1
        cl = classify_failure(r, rec, eps_eff)
        if cl:
            res.violations.append(Violation(cl[0], cl[1], replay))
        return
    out = r["out"]
    # glue of get_modified_ts (model: `nodes.time := constrain_ages(ts, posterior mean, eps, iters)`, nothing
    # else writes node times): the returned node times are bit-for-bit the recorded output of constrain_ages
    if rec and rec[-1]["out"] is not None and not np.array_equal(out.nodes_time, rec[-1]["out"]):
        k = int(np.sum(out.nodes_time != rec[-1]["out"]))
        res.corr_failures.append(Violation("node-times-not-constrain-output",
                                           f"{method}: {k} returned node time(s) differ from what constrain_ages returned "
                                           "(get_modified_ts model: nodes.time := constrain_ages(...))", replay, stage="B"))
    if rec and rec[-1]["eps"] != eps_eff:
        res.corr_failures.append(Violation("min-branch-length-not-passed",
                                           f"{method}: constrain_ages was called with epsilon={rec[-1]['eps']!r}, "
                                           f"expected min_branch_length={eps_eff!r}", replay, stage="B"))
    bad = check_output(ts, out, eps_eff, rec)
    for kind, what in bad:
        res.violations.append(Violation(kind, f"{method}: {what}", replay))
    if rec and rec[-1]["out"] is not None:
        fired = bool(np.any(rec[-1]["out"] != rec[-1]["tin"]))
        if fired:
            res.nontrivial.add(common.canon_key([f2h(x) for x in rec[-1]["tin"]] + [method]))
            stats["forced_fired"] += 1
        stats["max_time"] = max(stats["max_time"], float(np.max(out.nodes_time)))
    res.sample(dict(method=method, kw={k: (v if not isinstance(v, float) else repr(v)) for k, v in kw.items()},
                    nodes=ts.num_nodes, trees=ts.num_trees, max_time=float(np.max(out.nodes_time))))


def run(ctx):
    res = Result()
    import tsdate  # noqa: F401  (JIT warm-up happens here)
    stats = dict(methods={}, raised={}, forced_fired=0, max_time=0.0, modes={}, hyp_topo=0, iters={})
    # ---- B: model vs numba, bit exact
    cases = cc.make_cases(ctx, ctx.n(300, 6000))
    impl, fails = cc.correspondence(ctx, cases)
    res.corr_failures += fails
    for c, o in zip(cases, impl):
        if o is None:      # implementation raised: already reported as a correspondence failure
            res.evaluations += 1
            continue
        res.evaluations += 1
        stats["modes"][c["mode"]] = stats["modes"].get(c["mode"], 0) + 1
        stats["iters"][c["iters"]] = stats["iters"].get(c["iters"], 0) + 1
        topo = cc.topo_ordered(c["ep"], c["ec"])
        stats["hyp_topo"] += int(topo)
        if np.any(o != c["t"]):
            res.nontrivial.add(common.canon_key(cc.case_replay(c)))
        # the theorem's conclusion, evaluated on the implementation's output (floats)
        if topo:
            early = c["iters"] > 0 and np.all(o[c["ep"]] - o[c["ec"]] > c["eps"])
            okc = np.all(o[c["ep"]] >= o[c["ec"]] + c["eps"]) or early
            if not okc:
                res.violations.append(Violation("constrain-output-violates-min-length",
                                                "_constrain_ages output has an edge shorter than fl(child+eps)",
                                                cc.case_replay(c)))
    if cases:
        res.sample(dict(kind="constrain", nodes=int(cases[0]["t"].size), edges=int(cases[0]["ep"].size),
                        iters=cases[0]["iters"], eps=cases[0]["eps"], mode=cases[0]["mode"]))
    # ---- C: oracle on date()
    rng = ctx.rng(2)
    for _ in range(ctx.n(40, 800)):
        ploidy = 2 if rng.random() < 0.3 else 1
        ts, info = gen.gen_ts(rng, historical=0.3, polytomy=0.15, rootmuts=0.2, ploidy=ploidy, extra_flags=0.2,
                              internal_samples=0.3,
                              n=int(rng.integers(2, 7)))
        if ts.num_mutations == 0:
            continue
        one_date(rng, ts, info, res, stats)
    for _ in range(ctx.n(25, 400)):
        ts, info = gen.gen_ts(rng, historical=0.5, internal_samples=1.0, extra_flags=0.2, n=int(rng.integers(3, 8)),
                              muts_per_edge=float(rng.choice([1, 3, 8])))
        if ts.num_mutations == 0:
            continue
        stats["targeted"] = stats.get("targeted", 0) + 1
        one_date(rng, ts, info, res, stats, targeted=True)
    res.rule = ("B: (edges, sample flags) of generated tree sequences x adversarial unconstrained time vectors x eps x "
                "iterations, `_constrain_ages` vs Lean model at Float, compared bit-for-bit; C: date() over 3 methods x "
                "options x mutation-rate scales 1e-8..1e3, output checked against the statement. Non-trivial = the "
                "constraint changed at least one time; distinct by canonical hash of the input.")
    res.extra = dict(input_distribution=stats)
    return res


def search(ctx):
    res = Result()
    stats = dict(methods={}, raised={}, forced_fired=0, max_time=0.0)
    rng = ctx.rng(3)
    for _ in range(ctx.n(30, 100)):
        ts, info = gen.gen_ts(rng, historical=0.3, polytomy=0.15, rootmuts=0.2, internal_samples=0.5, extra_flags=0.2,
                              n=int(rng.integers(2, 7)))
        if ts.num_mutations:
            one_date(rng, ts, info, res, stats)
    return res


def replay(ctx, payload):
    d = payload["input"] if "input" in payload else payload.get("correspondence_input")
    if d["kind"] == "constrain":
        c = cc.case_from_replay(d)
        impl, fails = cc.correspondence(ctx, [c])
        print("implementation:", [f2h(x) for x in impl[0]])
        print("model         :", "differs" if fails else "identical (bit-for-bit)")
        ok = np.all(impl[0][c["ep"]] >= impl[0][c["ec"]] + c["eps"])
        print("min-branch-length holds on implementation output:", bool(ok))
        return bool(ok) and not fails
    ts = gen.ts_from_jsonable(d["ts"])
    with dating.record_constrain() as rec:
        r = dating.run_date(ts, method=d["method"], **d["kw"])
    print("date():", "returned" if r["ok"] else f"raised {r['exc']}: {r['msg']}")
    if r["ok"]:
        bad = check_output(ts, r["out"], d["kw"].get("min_branch_length", 1e-8), rec)
        print("violations:", bad)
        return not bad
    return False
