"""
C37 — standalone tree-sequence rescaling works (`tsdate.rescaling.rescale_tree_sequence`).

A  theorems in Props/C37 (reusing C25): `samples_untouched`, `nonsample_order_preserved`, `rescale_step_strict`,
   `mutation_midpoint`.
B  the Lean model of the whole function (iteration loop over `mutational_timescale` + `piecewise_scale_point_estimate`,
   then mutation midpoints) at Float against the real function: node times and mutation times bit-for-bit, and the same
   inputs assert.
C  the statement on the real function over contemporaneous-sample inputs x num_intervals x num_iterations x
   match_segregating_sites: returns a valid tree sequence, sample times unchanged, non-sample order preserved, topology /
   sites / mutations unchanged, every mutation at the midpoint of its branch (node time above a root); ancient samples are
   rejected with ValueError.  Since /repo fa21a50 (repair of F5) intervals without mutations are merged, so an
   AssertionError of the rescaling step is a violation; the inputs on which merging matters are counted.
"""

import numpy as np

from .. import common, dating, gen, rescale_corr as rc
from ..common import Result, Violation, f2h

META = dict(
    level='Lean theorems over the model of rescale_tree_sequence (iteration of mutational_timescale + piecewise_scale_point_estimate, then mutation midpoints), for every edge list, likelihood table, sample mask, interval and iteration count, whenever no assertion of the code fires (exact arithmetic): sample times unchanged; non-sample times transformed by a non-decreasing map (order of any two free nodes with non-negative times preserved); each step strictly increasing up to the oldest node time, so strict parent>child order survives; mutation on an edge gets the midpoint of the edge (between child and parent), mutation above a root its node time. Model tied to the real function bit-for-bit (node and mutation times, and which inputs assert). Known finding F16: no constraint step after rescaling, so a branch squeezed below one ulp can collapse in doubles (LibraryError), reproduced by the Float model. Outside: tskit table validity/sort/compute_mutation_parents by contract; "same topology" is tied by the oracle only (the code does not touch edges); that no assertion fires is C25.timescale_breaks_strict under its hypothesis (two node times differ) and is checked on every input.',
    note='Lean kernel + {propext, Classical.choice, Quot.sound}; sampled bit-exact correspondence at Float; count_mutations (C24) and tskit by contract',
    technique='loop invariant by induction over iterations on top of the C25 interpolant lemmas; bit-exact model/implementation correspondence on the whole function',
    ref='§3 C37',
)
LEAN_PROPS = ["TsdateVerif.Props.C37"]
LEAN_BUILD = ["TsdateVerif.Model.Proto", "TsdateVerif.Model.Rescale"]
ASSUMPTIONS = [
    "count_mutations (edge statistics and the edge of every mutation) is property C24's; its output is an input of this model",
    "tskit: tables.sort / build_index / compute_mutation_parents / tree_sequence() validation by contract",
]


def run_real(ts, mu, kw):
    from tsdate.rescaling import rescale_tree_sequence
    dating.quiet()
    try:
        with np.errstate(all="ignore"):
            return dict(ok=True, out=rescale_tree_sequence(ts, mu, **kw))
    except BaseException as e:  # noqa: BLE001
        if isinstance(e, (KeyboardInterrupt, MemoryError)):
            raise
        return dict(ok=False, exc=type(e).__name__, msg=str(e)[:200])


def independent_mutation_edges(ts):
    """the edge above every mutation, computed with tskit alone: the edge whose child is the mutation's node in the tree at the
    site's position, -1 when the node is a root (or isolated) there.  Nothing of tsdate's sweep is trusted here."""
    out = np.full(ts.num_mutations, -1, dtype=np.int64)
    pos = ts.sites_position[ts.mutations_site]
    node = ts.mutations_node
    for tree in ts.trees():
        l, r = tree.interval
        for m in np.where((pos >= l) & (pos < r))[0]:
            out[m] = tree.edge(int(node[m]))
    return out


def model_inputs(ts, mu, kw):
    """the edge statistics are property C24's (`count_mutations`, taken as data); the edge of every mutation is computed
    independently, so a wrong edge map of the implementation shows up as a model/implementation difference"""
    from tsdate.rescaling import count_mutations
    lik, medge_impl = count_mutations(ts, size_biased=not kw["match_segregating_sites"])
    lik = lik.copy()
    lik[:, 1] *= mu
    fixed = np.zeros(ts.num_nodes, dtype=bool)
    fixed[list(ts.samples())] = True
    return dict(times=ts.nodes_time.astype(float), lik=np.ascontiguousarray(lik), parent=ts.edges_parent.astype(np.int32),
                child=ts.edges_child.astype(np.int32), fixed=fixed, medge=independent_mutation_edges(ts),
                medge_impl=np.asarray(medge_impl, dtype=np.int64))


def enc_iter(i, c, kw, mnodes, num="f"):
    v = rc._v
    med = []
    for e in c["medge"]:
        med += ["-1", "-1"] if e < 0 else [str(int(c["parent"][e])), str(int(c["child"][e]))]
    return "\n".join([f"case {i}", "op iter", f"num {num}"] + rc._tree_lines(c, num) + [
        "fixed " + " ".join("1" if b else "0" for b in c["fixed"]), f"maxint {int(kw['num_intervals'])}",
        f"iters {int(kw['num_iterations'])}", "medges " + " ".join(med), "mnodes " + " ".join(str(int(u)) for u in mnodes),
        "end"]) + "\n"


def empty_interval(c, kw):
    """does some rescaling interval of the first iteration carry no mutations (exact)?"""
    from ..props import c25
    want_c, _, _, _ = rc.direct_overlap(c)
    try:
        iv, _ = c25.interval_counts(c, kw["num_intervals"], want_c)
    except Exception:  # noqa: BLE001
        return None
    return any(y <= 0 for y, n, z in iv) or any(n <= 0 for y, n, z in iv)


def mutation_key(ts):
    return sorted((int(m.site), int(m.node), m.derived_state) for m in ts.mutations())


def check_output(ts, out, replay):
    """the statement of C37 on a returned tree sequence; -> list of (kind, what)"""
    import tskit
    bad = []
    t0, t1 = ts.nodes_time, out.nodes_time
    samples = np.array(list(ts.samples()), dtype=int)
    if out.num_nodes != ts.num_nodes or not np.array_equal(out.nodes_flags, ts.nodes_flags):
        return [("node-table-changed", "number of nodes or node flags changed")]
    if not np.array_equal(t1[samples], t0[samples]):
        bad.append(("sample-time-changed", f"{int(np.sum(t1[samples] != t0[samples]))} sample time(s) changed"))
    free = np.ones(ts.num_nodes, dtype=bool)
    free[samples] = False
    order = np.argsort(t0[free], kind="stable")
    if np.any(np.diff(t1[free][order]) < 0):
        bad.append(("nonsample-order-reversed", "two non-sample nodes swapped their time order"))
    e0 = sorted(zip(ts.edges_left, ts.edges_right, ts.edges_parent, ts.edges_child))
    e1 = sorted(zip(out.edges_left, out.edges_right, out.edges_parent, out.edges_child))
    if e0 != e1:
        bad.append(("topology-changed", "the edge table differs as a set"))
    if np.any(t1[out.edges_parent] <= t1[out.edges_child]):
        bad.append(("parent-not-older", "an output edge has parent not strictly older than child"))
    if not np.array_equal(out.sites_position, ts.sites_position) or mutation_key(out) != mutation_key(ts):
        bad.append(("sites-or-mutations-changed", "sites or the (site, node, derived state) multiset of mutations changed"))
    # mutation times: midpoint of the branch above the node at the site's position, or node time above a root
    pos = out.sites_position[out.mutations_site]
    mt, mn = out.mutations_time, out.mutations_node
    for tree in out.trees():
        l, r = tree.interval
        for m in np.where((pos >= l) & (pos < r))[0]:
            par = tree.parent(mn[m])
            want = t1[mn[m]] if par == tskit.NULL else (t1[par] + t1[mn[m]]) / 2
            if f2h(mt[m]) != f2h(want):
                kind = "root-mutation-not-at-node" if par == tskit.NULL else "mutation-not-at-midpoint"
                bad.append((kind, f"mutation {int(m)} on node {int(mn[m])} has time {mt[m]!r}, expected {want!r}"))
                return bad
    return bad


def make_forest(rng, ts):
    """cut the edges above one or two nodes from some position rightwards (clades missing on the right: multi-root trees there),
    then simplify so that the input is a simplified tree sequence again"""
    import tskit
    tables = ts.dump_tables()
    L = ts.sequence_length
    for _ in range(int(rng.integers(1, 3))):
        cand = np.unique(tables.edges.child)
        if cand.size == 0:
            break
        c = int(rng.choice(cand))
        x = float(np.floor(rng.uniform(0.2, 0.8) * L))
        rows = list(tables.edges)
        tables.edges.clear()
        for e in rows:
            if e.child == c and e.left >= x:
                continue
            right = min(e.right, x) if (e.child == c and e.right > x) else e.right
            if e.left < right:
                tables.edges.add_row(e.left, right, e.parent, e.child)
    tables.sort()
    tables.build_index()
    tables.compute_mutation_parents()
    if not np.all(np.isnan(tables.mutations.time)):
        tables.mutations.time = np.full(tables.mutations.num_rows, tskit.UNKNOWN_TIME)
    try:
        tables.simplify(filter_sites=False)
        out = tables.tree_sequence()
    except Exception:  # noqa: BLE001
        return ts
    return out if out.num_edges > 0 and np.all(out.nodes_time[list(out.samples())] == 0) else ts


def gen_case(rng):
    fam = str(rng.choice(["plain", "polytomy", "rootmuts", "local-roots", "forest", "scaled", "sparse", "dated-badly"]))
    kw = dict(num_intervals=int(rng.choice([1, 2, 5, 20, 100, 1000])), num_iterations=int(rng.choice([0, 1, 3, 10])),
              match_segregating_sites=bool(rng.random() < 0.4))
    mpe = float(rng.choice([1, 3, 8]))
    if fam == "sparse":
        mpe = float(rng.choice([0.1, 0.3]))
    many = fam in ("local-roots", "forest")
    ts, info = gen.gen_ts(rng, n=int(rng.integers(3 if many else 2, 9)),
                          trees=int(rng.choice([3, 5, 10, 20] if many else [1, 2, 3, 5, 10])), muts_per_edge=mpe,
                          polytomy=1.0 if fam == "polytomy" else 0.0, rootmuts=1.0 if fam == "rootmuts" else 0.0,
                          ploidy=int(rng.choice([1, 1, 2])))
    mu = info["mu"]
    if fam == "forest":
        ts = make_forest(rng, ts)
    if many:
        # mutations above *local* roots: nodes that are roots (or isolated) in the tree at the site but children further left/right
        ts, _ = gen.add_root_mutations(ts, rng, k=int(rng.integers(4, 10)))
    if fam == "scaled":
        c = float(rng.choice([1e-6, 1e-3, 1e3, 1e6]))
        ts = gen.scale_times(ts, c)
        mu = mu / c
    if fam == "dated-badly":
        # internal node times distorted by an order-preserving but very uneven map: the thing rescaling is for
        tables = ts.dump_tables()
        t = tables.nodes.time
        tables.nodes.time = np.where(t > 0, t.max() * (t / t.max()) ** float(rng.choice([0.3, 3.0])), 0.0)
        import tskit
        tables.mutations.time = np.full(ts.num_mutations, tskit.UNKNOWN_TIME)
        ts = tables.tree_sequence()
    return ts, mu, kw, fam


def run(ctx):
    import tskit
    res = Result()
    import tsdate  # noqa: F401
    stats = dict(families={}, outcomes={}, options={}, empty_interval_cases=0, rounding_collapse=0, mutations_above_local_roots=0, ancient_rejected=0,
                 hyp_fixed_len=0, mutations_checked=0, root_mutations=0)
    rng = ctx.rng(1)
    cases = []
    n_target = ctx.n(60, 600)
    while len(cases) < n_target:
        ts, mu, kw, fam = gen_case(rng)
        if ts.num_mutations == 0 or ts.num_edges == 0:
            continue
        cases.append(dict(ts=ts, mu=mu, kw=kw, fam=fam))
        if fam in ("local-roots", "forest", "rootmuts"):      # both settings of match_segregating_sites on the same input
            cases.append(dict(ts=ts, mu=mu, kw=dict(kw, match_segregating_sites=not kw["match_segregating_sites"]), fam=fam))
    batch = rc.Batch()
    for c in cases:
        c["real"] = run_real(c["ts"], c["mu"], c["kw"])
        c["inp"] = model_inputs(c["ts"], c["mu"], c["kw"])
        c["id"] = batch.add(enc_iter, c["inp"], c["kw"], c["ts"].mutations_node)
    batch.run()
    for c in cases:
        res.evaluations += 1
        ts, kw, r, m = c["ts"], c["kw"], c["real"], batch.get(c["id"])
        stats["families"][c["fam"]] = stats["families"].get(c["fam"], 0) + 1
        okey = f"iv{kw['num_intervals']}/it{kw['num_iterations']}/seg{int(kw['match_segregating_sites'])}"
        stats["options"][okey] = stats["options"].get(okey, 0) + 1
        stats["hyp_fixed_len"] += 1
        replay = dict(kind="rescale_ts", ts=gen.ts_to_jsonable(ts), times=[f2h(x) for x in ts.nodes_time], mu=c["mu"], kw=kw)
        if not r["ok"]:
            key = f"{r['exc']}: {r['msg'][:40]}"
            stats["outcomes"][key] = stats["outcomes"].get(key, 0) + 1
            if r["exc"] == "AssertionError":
                # since fix fa21a50 (repair of F5) intervals without mutations are merged: no assertion may fire
                if m != "assert":
                    res.corr_failures.append(Violation("standalone-assert-differs", f"rescale_tree_sequence raised {r['msg']!r}, the model returns times", replay, "B"))
                res.violations.append(Violation(
                    "standalone-rescale-asserts",
                    f"rescale_tree_sequence(num_intervals={kw['num_intervals']}, num_iterations={kw['num_iterations']}) raised "
                    f"AssertionError: {r['msg']} ({ts.num_mutations} mutations on {ts.num_edges} edges)", replay))
            elif r["exc"] == "LibraryError" and "TIME" in r["msg"].upper():
                # the rescaled times are not valid for the edge table.  In exact arithmetic every step is strictly increasing
                # (theorem rescale_step_strict); in doubles a branch squeezed by a nearly mutation-free interval can end up
                # shorter than one ulp and the next step maps parent and child to the same float.  The Float model replays it.
                collapsed = isinstance(m, dict) and bool(np.any(
                    np.asarray(m["t"])[c["inp"]["parent"]] <= np.asarray(m["t"])[c["inp"]["child"]]))
                stats["rounding_collapse"] += int(collapsed)
                kind = "standalone-rescale-rounding-collapses-branch" if collapsed else "standalone-rescale-invalid-times"
                res.violations.append(Violation(
                    kind, f"rescale_tree_sequence({kw}) raised {r['exc']}: {r['msg']} ({ts.num_nodes} nodes, max time "
                    f"{float(ts.nodes_time.max())!r})", replay))
            else:
                res.violations.append(Violation("standalone-rescale-raises", f"rescale_tree_sequence raised {r['exc']}: {r['msg']}", replay))
            continue
        stats["outcomes"]["returned"] = stats["outcomes"].get("returned", 0) + 1
        out = r["out"]
        stats["empty_interval_cases"] += int(bool(empty_interval(c["inp"], kw)))      # inputs on which the merging step matters
        # mutations above a node that is a root in its own tree but has a parent edge somewhere else
        has_parent_somewhere = np.isin(ts.mutations_node, ts.edges_child)
        stats["mutations_above_local_roots"] += int(np.sum((c["inp"]["medge"] < 0) & has_parent_somewhere))
        if not np.array_equal(c["inp"]["medge"], c["inp"]["medge_impl"]):
            k = int(np.sum(c["inp"]["medge"] != c["inp"]["medge_impl"]))
            res.corr_failures.append(Violation(
                "mutation-edge-map-differs", f"count_mutations maps {k} mutation(s) to another edge than the tree at the site's position "
                f"does (match_segregating_sites={kw['match_segregating_sites']})", replay, "B"))
        # B: whole-function correspondence
        if not isinstance(m, dict):
            res.corr_failures.append(Violation("standalone-assert-differs", f"the model answers {m}, rescale_tree_sequence returns", replay, "B"))
        else:
            if not rc.bits_equal(m["t"], out.nodes_time):
                res.corr_failures.append(Violation(
                    "standalone-node-times-differ", f"node times differ from the Lean model by up to {rc.max_ulps(m['t'], out.nodes_time)} "
                    f"ulp(s) ({kw})", replay, "B"))
            a = sorted((int(s), int(n), f2h(t)) for s, n, t in zip(ts.mutations_site, ts.mutations_node, m["mt"]))
            b = sorted((int(s), int(n), f2h(t)) for s, n, t in zip(out.mutations_site, out.mutations_node, out.mutations_time))
            if a != b:
                res.corr_failures.append(Violation("standalone-mutation-times-differ", "mutation times differ from the Lean model", replay, "B"))
        # C: the statement
        for kind, what in check_output(ts, out, replay):
            res.violations.append(Violation(kind, f"rescale_tree_sequence({kw}): {what}", replay))
        stats["mutations_checked"] += out.num_mutations
        stats["root_mutations"] += int(np.sum(c["inp"]["medge"] < 0))
        if kw["num_iterations"] > 0 and np.any(out.nodes_time != ts.nodes_time):
            res.nontrivial.add(common.canon_key(dict(kw=kw, t=[f2h(x) for x in ts.nodes_time], n=ts.num_mutations)))
        res.sample(dict(family=c["fam"], nodes=ts.num_nodes, trees=ts.num_trees, mutations=ts.num_mutations, kw=kw,
                        max_time_before=float(ts.nodes_time.max()), max_time_after=float(out.nodes_time.max())))
    # ancient samples must be rejected with ValueError
    for _ in range(ctx.n(6, 60)):
        ts, info = gen.gen_ts(rng, historical=1.0, n=int(rng.integers(3, 8)))
        if ts.num_mutations == 0:
            continue
        res.evaluations += 1
        r = run_real(ts, info["mu"], dict(num_intervals=5, num_iterations=2, match_segregating_sites=False))
        if r["ok"] or r["exc"] != "ValueError":
            res.violations.append(Violation("ancient-samples-not-rejected",
                                            f"rescale_tree_sequence with ancient samples: {'returned' if r['ok'] else r['exc'] + ': ' + r['msg']}",
                                            dict(kind="rescale_ts", ts=gen.ts_to_jsonable(ts), times=[f2h(x) for x in ts.nodes_time],
                                                 mu=info["mu"], kw=dict(num_intervals=5, num_iterations=2, match_segregating_sites=False))))
        else:
            stats["ancient_rejected"] += 1
    res.rule = ("msprime tree sequences with all samples at time 0 (haploid/diploid; 1-10 trees; families: plain, polytomies, "
                "mutations above roots, mutations above local roots of recombining tree sequences, multi-root forests (clades missing "
                "on the right; both match_segregating_sites values on the same input), times scaled by 1e-6..1e6, sparse mutations, badly calibrated node times) x num_intervals "
                "1..1000 x num_iterations 0..10 x match_segregating_sites; whole function vs Lean model bit-for-bit, statement checked "
                "on every returned tree sequence. Non-trivial = at least one iteration and some node time changed; distinct by "
                "canonical hash of (options, input times).")
    res.extra = dict(input_distribution=stats)
    return res


def search(ctx):
    res = Result()
    rng = ctx.rng(5)
    for _ in range(ctx.n(40, 120)):
        ts, mu, kw, fam = gen_case(rng)
        if ts.num_mutations == 0 or fam == "sparse":
            continue
        res.evaluations += 1
        r = run_real(ts, mu, kw)
        replay = dict(kind="rescale_ts", ts=gen.ts_to_jsonable(ts), times=[f2h(x) for x in ts.nodes_time], mu=mu, kw=kw)
        if r["ok"]:
            for kind, what in check_output(ts, r["out"], replay):
                res.violations.append(Violation(kind, what, replay))
    return res


def replay(ctx, payload):
    from ..common import h2f
    import tsdate  # noqa: F401
    d = payload.get("input") or payload.get("correspondence_input")
    ts = gen.ts_from_jsonable(d["ts"])
    if "times" in d:          # ts_to_jsonable keeps times as hex already; this is belt and braces
        tables = ts.dump_tables()
        tables.nodes.time = np.array([h2f(x) for x in d["times"]])
        ts = tables.tree_sequence()
    r = run_real(ts, d["mu"], d["kw"])
    c = model_inputs(ts, d["mu"], d["kw"])
    batch = rc.Batch()
    i = batch.add(enc_iter, c, d["kw"], ts.mutations_node)
    batch.run()
    m = batch.get(i)
    print("options:", d["kw"], " nodes", ts.num_nodes, "mutations", ts.num_mutations)
    if not r["ok"]:
        print("implementation: raised", r["exc"], r["msg"])
        print("model         :", m if isinstance(m, str) else "returns times")
        print("interval without mutations (exact):", empty_interval(c, d["kw"]))
        return False
    print("implementation: node times", list(r["out"].nodes_time))
    print("model         : node times", m["t"] if isinstance(m, dict) else m)
    bad = check_output(ts, r["out"], d)
    print("statement violations:", bad)
    return not bad and isinstance(m, dict) and rc.bits_equal(m["t"], r["out"].nodes_time)
