"""
C15 — node span tables behind the mixture prior are exact.

A  theorems in Props/C15: for every list of local trees and every adequate choice of flush sets the run-length
   accumulator's buckets equal the direct per-tree tally; node_spans = span where present; buckets sum to
   node_spans; mixture_expect_and_var = mixture moments (and the law of total variance).
B  Lean model (Rat) fed with per-tree records extracted with tskit and with three flush-set choices
   (minimal / the code's own, observed with sys.setprofile / random superset) vs the real
   SpansBySamples(ts).get_spans(u), node_spans; the model's mixture moments vs mixture_expect_and_var.
   The theorem's hypothesis `Adequate` is evaluated on the code's own flush sets (hit rate in the evidence).
C  oracle: get_spans / node_spans vs an independent direct tally with tskit; MixturePrior.prior_params vs the
   span-weighted mixture moments (moment-matching equations, gamma and lognorm).
"""

import numpy as np

from .. import common, gen, spans_corr as sc
from ..common import Result, Violation

META = dict(
    level='Lean theorems over the run-length accumulator model of SpansBySamples.first_pass (any additive commutative group; every list of local-tree records; every flush-set choice containing the nodes whose (presence, T, k) changes): bucket (u,T,k) = total length of trees with T samples where u has k descendant samples; node_spans[u] = length where u is present; buckets sum to node_spans. The flush RULE of first_pass (walk up the previous tree from every node whose parent changes and from the new parents; everything when the sample total changes) is proved to cover every node whose record changes (trees as parent functions, path argument), so flush sets containing the executable rule set satisfy the hypothesis. get_mixture_prior_params with its small-mixture cache gives every node the parameters determined by its own (T, k, span) records only (cache transparency); mixture_expect_and_var returns mean = sum(w m)/sum(w) and var = sum(w (v+m^2))/sum(w) - mean^2 = law-of-total-variance form, non-negative. PARTIAL: that the code bookkeeping (num_children counters, disappearing_nodes, visited_nodes, running sample count, num_tracked_samples) implements that rule and those counts is NOT proved; it is tied by I/O correspondence on generated inputs (polytomies, missing samples, gaps) and by comparing, per input, the flush sets the real code is observed to use with the rule run on the real trees. Unary-node paths (second/third pass) are outside.',
    note='Lean kernel + {propext, Classical.choice, Quot.sound}; per-tree records extracted with tskit (trusted); sampled correspondence; flush sets observed via sys.setprofile',
    technique='refinement proof of a run-length accumulator against a per-tree tally, parametric in the flush sets + model/implementation correspondence with observed flush sets',
    ref='§3 C15',
)
LEAN_PROPS = ["TsdateVerif.Props.C15"]
LEAN_BUILD = ["TsdateVerif.Model.Proto", "TsdateVerif.Model.Spans"]
ASSUMPTIONS = [
    "tskit tree iteration, num_samples, edge_diffs are taken by contract; records (T, k per node) are extracted with tskit",
    "that first_pass visits at least the nodes named by the (proved adequate) flush rule is checked per generated input, not proved",
    "inputs: simplified, all samples at time 0, one root per tree, no unary nodes (others are rejected by the code; rejections are counted)",
]


def nonsample_nodes(ts):
    s = set(int(x) for x in ts.samples())
    return [u for u in range(ts.num_nodes) if u not in s]


def prepare(ctx, ts, info, idx, rng, stats):
    """Run the implementation on one input and build the driver blocks. Returns a case dict or None."""
    from tsdate import prior
    case = dict(ts=ts, info=info, idx=idx)
    recs = sc.tree_records(ts)
    case["recs"] = recs
    try:
        sp, calls = sc.run_impl(ts)
    except Exception as e:  # rejected input: data
        key = f"{type(e).__name__}: {str(e)[:50]}"
        stats["rejected"][key] = stats["rejected"].get(key, 0) + 1
        return None
    case["sp"] = sp
    case["impl"], zeros = sc.impl_spans(sp, ts)
    stats["zero_entries"] += zeros
    mf = sc.minimal_flush(recs)
    cf = sc.code_flush(calls, ts)
    nodes = nonsample_nodes(ts)
    sup = [sorted(set(f) | set(int(x) for x in rng.choice(nodes, size=min(len(nodes), 3)))) for f in mf] if nodes else mf
    case["flush"] = dict(minimal=mf, code=cf, superset=sup)
    case["adequate_code"] = sc.adequate(recs, cf)
    stats["extra_flushed"] += sum(len(set(a) - set(b)) for a, b in zip(cf, mf))
    stats["min_flushed"] += sum(len(b) for b in mf)
    blocks = [sc.spans_block(f"s{idx}_{name}", ts.num_nodes, recs, fl) for name, fl in case["flush"].items()]
    # the flush rule (Props/C15 flush_rule_covers_changes / rule_flush_complete) run on the real trees
    case["observed_all"] = sc.code_flush_all(calls, ts)
    case["rank_ok"] = bool(np.all(ts.nodes_time[ts.edges_parent] > ts.nodes_time[ts.edges_child]))
    if ts.num_trees > 1:
        blocks.append(sc.rule_block(f"f{idx}", ts, sc.parent_arrays(ts)))
    # mixture: for every node the (w, m, v) components, weights from the implementation's spans
    mix = {}
    for distr in ("gamma", "lognorm"):
        try:
            mp = prior.MixturePrior(ts, prior_distribution=distr)
        except Exception as e:
            key = f"MixturePrior {type(e).__name__}: {str(e)[:50]}"
            stats["rejected"][key] = stats["rejected"].get(key, 0) + 1
            continue
        mix[distr] = mp
    case["mix"] = mix
    if mix:
        bp = next(iter(mix.values())).base_priors

        def table_of(T, k):
            row = bp[T][k]
            return float(row[2]), float(row[3])
        case["table_of"] = table_of
        for u in nodes:
            if case["impl"].get(u):
                groups = sc.mixture_groups(case["impl"][u], table_of)
                blocks.append(sc.mix_block(f"x{idx}_{u}", groups))
        # the whole get_mixture_prior_params stage (incl. its cache) for every node, in the code's loop order
        case["order"] = [int(u) for u in sp.nodes_to_date]
        if "gamma" in mix and case["order"]:
            blocks.append(sc.params_block(f"p{idx}", sp, table_of, case["order"]))
    case["collisions"] = sc.colliding_pairs(sp, ts)
    case["blocks"] = blocks
    return case


def evaluate(ctx, case, out, res, stats):
    from tsdate import prior
    ts, idx, recs = case["ts"], case["idx"], case["recs"]
    nodes = nonsample_nodes(ts)
    replay = dict(kind="spans", ts=gen.ts_to_jsonable(ts))
    res.evaluations += 1
    for f in case["info"]["fired"]:
        stats["fired"][f] = stats["fired"].get(f, 0) + 1
    stats["trees"].append(ts.num_trees)
    # ---- hypothesis of the theorem on the code's own flush sets
    stats["adequate_code"] += int(case["adequate_code"])
    if not case["adequate_code"]:
        res.corr_failures.append(Violation("code-flush-set-not-adequate",
                                           "the flush sets used by first_pass miss a node whose (presence, T, k) changes: "
                                           "hypothesis of accumulate_eq_tally not met", replay, stage="B"))
    # ---- the observed flush sets contain the proved-adequate rule's set (and usually equal it)
    stats["rank_ok"] += int(case["rank_ok"])
    if ts.num_trees > 1:
        t = out.get(f"f{idx}")
        rule = None if t is None else sc.parse_rule(t)
        obs = case["observed_all"]
        if rule is None or len(rule) != len(obs):
            res.corr_failures.append(Violation("flush-rule-bad-op", "flush-rule model rejected the input", replay, stage="B"))
        else:
            missing = [(i, sorted(r - o)) for i, (r, o) in enumerate(zip(rule, obs)) if not r <= o]
            stats["rule_transitions"] += len(rule)
            stats["rule_equal"] += sum(int(r == o) for r, o in zip(rule, obs))
            if missing:
                res.corr_failures.append(Violation("code-flush-set-misses-rule",
                                                   f"first_pass does not flush node(s) {missing[0][1]} at transition {missing[0][0]} "
                                                   "although the flush rule (walk up the previous tree from the changed nodes) names them",
                                                   replay, stage="B"))
    # ---- B: model under three flush choices vs implementation
    impl = case["impl"]
    for name in case["flush"]:
        t = out.get(f"s{idx}_{name}")
        if t is None:
            res.corr_failures.append(Violation("spans-model-bad-op", f"model rejected the input ({name} flush sets)", replay, stage="B"))
            continue
        mb, ms = sc.parse_spans(t)
        ok, u = sc.same_spans(mb, impl, nodes)
        if ok:
            for v in nodes:
                if sc.rel(ms.get(v, 0), case["sp"].node_spans[v]) > sc.RTOL:
                    ok, u = False, v
                    break
        if not ok:
            res.corr_failures.append(Violation(f"spans-model-differs-{name}",
                                               f"get_spans/node_spans of node {u} differ from the Lean model run with the {name} flush sets",
                                               dict(replay, node=u), stage="B"))
    # ---- C: statement on the implementation: spans = direct tally, sum = node span
    tally = sc.direct_tally(recs)
    ok, u = sc.same_spans(tally, impl, nodes)
    if not ok:
        a, b = tally.get(u, {}), impl.get(u, {})
        kinds = "missing-bucket" if set(a) - set(b) else ("extra-bucket" if set(b) - set(a) else "wrong-span")
        res.violations.append(Violation(f"span-table-{kinds}",
                                        f"get_spans({u}) = { {k: v for k, v in sorted(b.items())} } but the per-tree tally is "
                                        f"{ {k: float(v) for k, v in sorted(a.items())} }", dict(replay, node=u)))
    for v in nodes:
        tot = sum(tally.get(v, {}).values())
        if sc.rel(tot, case["sp"].node_spans[v]) > sc.RTOL or sc.rel(sum(impl.get(v, {}).values()), tot) > sc.RTOL:
            res.violations.append(Violation("node-span-total-wrong",
                                            f"node_spans[{v}]={case['sp'].node_spans[v]!r}, spans sum to "
                                            f"{sum(impl.get(v, {}).values())!r}, node is present over {float(tot)!r}",
                                            dict(replay, node=v)))
            break
    if set(int(x) for x in case["sp"].nodes_to_date) != set(nodes):
        res.violations.append(Violation("nodes-to-date-wrong", "nodes_to_date is not the set of non-sample nodes", replay))
    multi = sum(1 for v in nodes if len(tally.get(v, {})) > 1)
    if multi:
        res.nontrivial.add(common.canon_key(replay["ts"]))
    stats["mixture_nodes"] += multi
    stats["single_nodes"] += len(nodes) - multi
    # ---- B: every node's gamma parameters vs the model of get_mixture_prior_params (own records only)
    stats["inputs_with_colliding_pair"] += int(bool(case.get("collisions")))
    stats["colliding_pairs"] += len(case.get("collisions") or [])
    if "gamma" in case["mix"] and case.get("order"):
        t = out.get(f"p{idx}")
        pp = case["mix"]["gamma"].prior_params
        if t is None or len(t) != 2 * len(case["order"]):
            res.corr_failures.append(Violation("params-model-bad-op", "mixture-parameter model rejected the input", replay, stage="B"))
        else:
            for j, u in enumerate(case["order"]):
                a, b = common.q2frac(t[2 * j]), common.q2frac(t[2 * j + 1])
                stats["params_nodes"] += 1
                if sc.rel(a, pp[u][0]) > 1e-9 or sc.rel(b, pp[u][1]) > 1e-9:
                    res.corr_failures.append(Violation("mixture-params-model-differs",
                                                       f"prior_params[{u}] (gamma) = ({float(pp[u][0])!r}, {float(pp[u][1])!r}) but the model of "
                                                       f"get_mixture_prior_params on the node's own span records gives ({float(a)!r}, {float(b)!r})",
                                                       dict(replay, node=u), stage="B"))
                    break
    # ---- mixture moments
    for distr, mp in case["mix"].items():
        table_of = case["table_of"]
        for u in nodes:
            if not impl.get(u):
                continue
            groups = sc.mixture_groups(impl[u], table_of)
            # B: model mixture vs mixture_expect_and_var on the implementation's own span table
            t = out.get(f"x{idx}_{u}")
            mean_i, var_i = mp.base_priors.mixture_expect_and_var(case["sp"].get_spans(u))
            if distr == "gamma":
                stats["mix_calls"] += 1
                if t is None or sc.rel(common.q2frac(t[0]), mean_i) > 1e-12 or sc.rel(common.q2frac(t[1]), var_i) > 1e-9:
                    res.corr_failures.append(Violation("mixture-model-differs",
                                                       f"mixture_expect_and_var for node {u} differs from the Lean model",
                                                       dict(replay, node=u), stage="B"))
            # C: prior_params are moment-matched to the span-weighted mixture of the tally
            sm, sv = sc.spec_mixture(sc.mixture_groups({k: v for k, v in tally[u].items()}, table_of))
            alpha, beta = (float(x) for x in mp.prior_params[u])
            if distr == "gamma":
                pm, pv = alpha / beta, alpha / beta**2
            else:
                pm, pv = np.exp(alpha + beta / 2), np.expm1(beta) * np.exp(2 * alpha + beta)
            if sc.rel(pm, sm) > 1e-9 or sc.rel(pv, sv) > 1e-7:
                res.violations.append(Violation(f"mixture-prior-not-moment-matched-{distr}",
                                                f"prior_params[{u}] ({distr}) has mean {pm!r}, var {pv!r}; span-weighted mixture "
                                                f"has mean {float(sm)!r}, var {float(sv)!r}", dict(replay, node=u, distr=distr)))
                break
    res.sample(dict(samples=ts.num_samples, trees=ts.num_trees, nodes=ts.num_nodes, fired=case["info"]["fired"],
                    mixture_nodes=multi))


def new_stats():
    return dict(rejected={}, fired={}, trees=[], zero_entries=0, extra_flushed=0, min_flushed=0, adequate_code=0,
                mixture_nodes=0, single_nodes=0, mix_calls=0, rank_ok=0, rule_transitions=0, rule_equal=0,
                inputs_with_colliding_pair=0, colliding_pairs=0, params_nodes=0, family={})


def run_cases(ctx, n_cases, stream, res, stats, nmax=9):
    rng = ctx.rng(stream)
    cases = []
    for i in range(n_cases):
        if rng.random() < 0.4:
            ts, info = sc.mirror_ts(rng)          # mirrored topologies under different sample totals
        else:
            ts, info = sc.gen_span_ts(rng, nmax=nmax)
        fam = "mirror" if "mirror" in info["fired"] else "random"
        stats["family"][fam] = stats["family"].get(fam, 0) + 1
        c = prepare(ctx, ts, info, i, rng, stats)
        if c is not None:
            cases.append(c)
    out = sc.run_driver([b for c in cases for b in c["blocks"]])
    for c in cases:
        evaluate(ctx, c, out, res, stats)
    return cases


def finish(res, stats, n_ok):
    tr = stats.pop("trees")
    stats["tree_count_hist"] = {str(k): int(v) for k, v in zip(*np.unique(tr, return_counts=True))} if tr else {}
    stats["hypotheses"] = dict(adequate_on_code_flush_sets=f"{stats['adequate_code']}/{n_ok}", first_left_zero=f"{n_ok}/{n_ok}",
                               parents_older_rank=f"{stats['rank_ok']}/{n_ok}",
                               observed_flush_equals_rule=f"{stats['rule_equal']}/{stats['rule_transitions']}")
    stats["colliding_pair_hit_rate"] = f"{stats['inputs_with_colliding_pair']}/{n_ok} inputs contain two nodes with byte-identical (k, span) records under different sample totals"
    res.extra = dict(input_distribution=stats)


def run(ctx):
    res = Result()
    import tsdate  # noqa: F401
    stats = new_stats()
    cases = run_cases(ctx, ctx.n(70, 1000), 1, res, stats, nmax=9 if ctx.tier == "quick" else 14)
    res.rule = ("60%: msprime tree sequences (2..9 samples, 1..30 trees) x polytomies x missing (isolated) samples over "
                "intervals x deleted intervals x non-integer coordinates; 40%: mirrored family (a base topology laid down twice with fresh node ids, one "
                "sample missing in one half: equal (k, span) records under different sample totals); B: Lean accumulator at Rat under minimal / observed / "
                "superset flush sets, Lean mixture moments vs SpansBySamples / mixture_expect_and_var, and the Lean model of "
                "get_mixture_prior_params (cache included) vs prior_params of every node; C: get_spans, "
                "node_spans vs direct tskit tally, MixturePrior.prior_params vs span-weighted mixture moments (gamma, lognorm). "
                "Non-trivial = at least one node is a genuine mixture (more than one (T,k) bucket); distinct by input hash.")
    finish(res, stats, len(cases))
    return res


def search(ctx):
    res = Result()
    stats = new_stats()
    cases = run_cases(ctx, ctx.n(20, 60), 2, res, stats, nmax=12)
    finish(res, stats, len(cases))
    return res


def replay(ctx, payload):
    d = payload["input"] if "input" in payload else payload.get("correspondence_input")
    ts = gen.ts_from_jsonable(d["ts"])
    res = Result()
    stats = new_stats()
    rng = ctx.rng(9)
    c = prepare(ctx, ts, dict(fired=[]), 0, rng, stats)
    if c is None:
        print("implementation rejected the input:", stats["rejected"])
        return False
    out = sc.run_driver(c["blocks"])
    evaluate(ctx, c, out, res, stats)
    u = d.get("node")
    tally = sc.direct_tally(c["recs"])
    for v in ([u] if u is not None else nonsample_nodes(ts)):
        print(f"node {v}: implementation get_spans = {c['impl'].get(v)}")
        print(f"node {v}: per-tree tally        = { {k: float(x) for k, x in tally.get(v, {}).items()} }")
        mb, _ = sc.parse_spans(out[f"s0_minimal"])
        print(f"node {v}: Lean model (minimal)  = { {k: float(x) for k, x in mb.get(v, {}).items()} }")
    print("violations:", [(v.kind, v.what[:100]) for v in res.violations])
    print("correspondence failures:", [(v.kind, v.what[:100]) for v in res.corr_failures])
    return not res.violations and not res.corr_failures
