"""
C06 — changing time units rescales all outputs exactly.

A  theorems in Props/C06 (degree discipline; likelihood-argument / prior-grid / view invariance; mean_var,
   inside_outside, maximization, `_constrain_ages`, mutational_area/timescale/piecewise rescale loop, EP
   skeleton equivariance for every c > 0 over any ordered field).
B  the executable models (Driver/Scale.lean, Float) against the real code on generated inputs, base AND
   rescaled: Poisson parameters recorded by rebinding scipy.stats.poisson, fill_priors arguments and time
   grid, spans, mean_var, `_constrain_ages` (bit-for-bit), mutational_area / mutational_timescale /
   piecewise_scale_point_estimate / the rescale loop (bit-for-bit).
C  metamorphic oracle on tsdate.date: the transformation of the statement for c in decades 1e-6..1e6 and
   non-powers of two, all three methods, outputs compared with the tolerances of DESIGN.md §2.2.
"""

import numpy as np

from .. import common, constrain_corr as cc, gen, scale_corr as sc
from ..common import Result, Violation, f2h

META = dict(
    level='Lean theorems, for every c > 0 over any linear ordered field: discrete methods — every Poisson parameter, every prior-cdf argument, span fractions and maximization arguments are unchanged and the time grid scales, hence posterior means x c and variances x c^2 for ANY inside/outside/maximization recursion reading only that view, and the full statement for the model of a whole inside_outside run (grid, tables, recursion, mean_var, constraint); `_constrain_ages` equivariant (same exits, same forced assignments); mutational_area / mutational_timescale / piecewise rescale loop equivariant; EP edge update, full pass, propagate_prior (the penalty is a rate) and node moments equivariant for any equivariant projection kernels, and (C06_vgamma) for the translator-generated projection kernels of approx.py/hypergeo.py, whose equivariance is proved by the kernels cluster for every interpretation of exp/log/sqrt/lgamma, with no remaining hypothesis on the projections; the translator-generated _damp/_rescale are proved equal to the hand models and scale-free. Partial: piecewise_scale_posterior, mutation posteriors and the inside/outside recursions are not modelled (they are arbitrary functions of proved-invariant arguments); floating point by tolerance only. Models tied to the code bit-for-bit at Float on base and rescaled inputs; date() checked metamorphically over 16 scale factors.',
    note='Lean kernel + {propext, Classical.choice, Quot.sound}; exact arithmetic; sampled correspondence of the models; scipy pmf/cdf as uninterpreted functions; isFinite assumed value-independent in the kernel theorems',
    technique='degree discipline: equivariance theorems by induction over edges/iterations + bit-exact model/code correspondence + metamorphic oracle',
    ref='§3 C06',
)
LEAN_PROPS = ["TsdateVerif.Props.C06"]
TRANSLATORS = ["kernels"]
LEAN_BUILD = ["TsdateVerif.Model.Proto", "TsdateVerif.Model.Scale", "TsdateVerif.Model.Constrain"]
ASSUMPTIONS = [
    "theorems are about exact arithmetic over an ordered field; floating-point agreement is checked with tolerances (discrete 1e-9, variational 1e-6 means / 1e-5 variances)",
    "the Poisson pmf, prior cdfs and the inside/outside/maximization recursions are arbitrary functions of arguments proved unchanged; that the real recursions read nothing else is checked by the oracle only",
    "EP projection kernels: equivariance imported from Proofs/KernelsScaleProj.lean (kernels cluster) for the translated kernels; np.isfinite is assumed value-independent there (no overflow)",
    "absolute-unit defaults (min_branch_length=1e-8, eps=1e-8) are scaled explicitly, as the statement says",
]

def scale_class(c):
    if c in (3.7, 0.37) or abs(c - 3.141592653589793) < 1e-12:
        return "nondyadic"
    return "small" if c < 1 else "large"


def classify_raise(r):
    return f"{r['exc']}"


# (method, historical samples, option flavour)
SCHEDULE = [("variational_gamma", True, None), ("inside_outside", None, None), ("maximization", None, None),
            ("variational_gamma", False, None), ("inside_outside", None, "epochs_tp"), ("variational_gamma", True, None),
            ("maximization", None, "epochs_tp"), ("inside_outside", None, None)]


def pick_scales(rng, n):
    """both extremes (absolute thresholds and unscaled constants show there), one non-power-of-two, the
    rest random"""
    cs = [1e-6, 1e6, float(rng.choice([3.7, 0.37, 3.141592653589793]))]
    rest = [c for c in sc.C06_SCALES if c not in cs]
    cs += [float(x) for x in rng.choice(rest, size=max(0, n - len(cs)), replace=False)]
    return cs[:max(n, 3)]


def one_case(ctx, rng, res, stats, batch, checks, scales_per_case, corr=True, idx=None):
    if idx is None:
        method, hist, flavour = str(rng.choice(["variational_gamma", "inside_outside", "maximization"])), None, None
    else:
        method, hist, flavour = SCHEDULE[idx % len(SCHEDULE)]
    ts, info = sc.draw_ts(rng, method, hist)
    if "historical" in info.get("fired", []):
        stats["historical"] = stats.get("historical", 0) + 1
    kw = sc.explicit_defaults(sc.draw_options(rng, ts, info, method, flavour))
    discrete = method != "variational_gamma"
    stats["methods"][method] = stats["methods"].get(method, 0) + 1
    for k in ("timepoints", "population_size"):
        if k in kw:
            v = kw[k]
            lab = f"{k}:{'int' if isinstance(v, int) else 'array' if isinstance(v, list) else 'epochs' if isinstance(v, dict) else 'scalar'}"
            stats["options"][lab] = stats["options"].get(lab, 0) + 1
    if discrete:
        kw["return_fit"] = True
        with sc.record_discrete() as rec:
            r0 = sc.run(ts, kw)
    else:
        r0 = sc.run(ts, kw)
    res.evaluations += 1
    if not r0["ok"]:
        cl = classify_raise(r0)
        stats["raised"][cl] = stats["raised"].get(cl, 0) + 1
        base = None
    else:
        out0 = r0["out"][0] if discrete else r0["out"]
        base = sc.outputs(out0)
        if corr and discrete:
            checks += [(c, None) for c in sc.corr_discrete(ts, kw, rec, r0["out"][1], batch, f"base:{method}")]
    tsj = None
    cs = pick_scales(rng, scales_per_case)
    for j, c in enumerate(cs):
        ts_c = sc.scale_times_ts(ts, c)
        kw_c = sc.c06_kwargs(kw, c)
        if discrete and j == 0:
            with sc.record_discrete() as rec_c:
                r1 = sc.run(ts_c, kw_c)
        else:
            r1 = sc.run(ts_c, kw_c)
        res.evaluations += 1
        stats["scales"][scale_class(c)] = stats["scales"].get(scale_class(c), 0) + 1
        if tsj is None:
            tsj = gen.ts_to_jsonable(ts)
        replay = dict(kind="date", ts=tsj, kw=sc.kw_jsonable({k: v for k, v in kw.items() if k != "return_fit"}),
                      c=float(c).hex(), ts_times=[float(x).hex() for x in ts.nodes_time])
        if base is None or not r1["ok"]:
            if (base is None) != (not r1["ok"]):
                who = r1 if base is not None else r0
                cl = classify_raise(who)
                res.violations.append(Violation(
                    f"raises-at-one-scale:{method}:{cl}",
                    f"{method}: date() {'raised' if base is not None else 'returned'} at c={c!r} but not at c=1: "
                        f"{who['exc']}: {who['msg'][:120]}", replay))
            continue
        out1 = r1["out"][0] if discrete else r1["out"]
        o1 = sc.outputs(out1)
        errs = sc.compare(base, o1, c, method)
        f13 = None
        if any(e > sc.field_tol(f, method) for f, e in errs.items()):
            f13 = sc.near_tie_rescaling(ts, {k: v for k, v in kw.items() if k != "return_fit"}, ts_c,
                                        {k: v for k, v in kw_c.items() if k != "return_fit"}, c)
            if f13:
                stats["f13_near_tie"] = stats.get("f13_near_tie", 0) + 1
                res.violations.append(Violation(
                    f"{sc.NEAR_TIE}:{method}",
                    f"{method}: outputs at c={c!r} differ from the rescaled unscaled outputs by rel. {max(errs.values()):.3g}; with "
                    f"rescaling_intervals=0 they agree; unrescaled posterior means have exact ties {f13['exact_ties']} / near ties "
                    f"{f13['near_ties']} in the two runs (mutational_timescale is discontinuous at ties)", replay))
        for f, e in errs.items():
            key = f"{method}:{f}"
            if not f13:
                stats["max_relerr"][key] = max(stats["max_relerr"].get(key, 0.0), e if np.isfinite(e) else 1e300)
            if e > sc.field_tol(f, method) and not f13:
                res.violations.append(Violation(
                    f"not-equivariant:{method}:{f}",
                    f"{method}: {f} at c={c!r} differs from c x (c^2 x) the unscaled output by rel. {e:.3g} "
                    f"(tolerance {sc.field_tol(f, method):g})", replay))
        if np.any(np.isfinite(base["node_mn"]) & (base["node_mn"] > 0)) or np.any(base["nodes_time"] > 0):
            res.nontrivial.add(common.canon_key([tsj["edges"], tsj["mutations"], method, float(c).hex(),
                                                 sorted((k, str(v)) for k, v in kw.items())]))
        if corr and discrete and j == 0:
            checks += [(ch, None) for ch in sc.corr_discrete(ts_c, kw_c, rec_c, r1["out"][1], batch, f"c={c!r}:{method}")]
    if len(res.samples) < 5 and base is not None:
        res.sample(dict(method=method, nodes=ts.num_nodes, trees=ts.num_trees, mutations=ts.num_mutations,
                        scales=cs, options={k: (v if isinstance(v, (int, str, bool)) else repr(v)[:60]) for k, v in kw.items()
                                            if k not in ("return_fit",)}))


def constrain_piece(ctx, res, stats, batch, checks, n):
    """`_constrain_ages`: model == numba bit-for-bit at both scales; function-level equivariance."""
    rng = ctx.rng(11)
    cases = cc.make_cases(ctx, n, stream=12)
    scaled = []
    for cse in cases:
        c = float(rng.choice(sc.C06_SCALES))
        d = dict(cse)
        d["t"] = cse["t"] * c
        d["eps"] = cse["eps"] * c
        d["c"] = c
        scaled.append(d)
    impl, chs = sc.corr_constrain(cases + scaled, batch, "constrain")
    checks += [(x, None) for x in chs]
    m = len(cases)
    for i, (a, b) in enumerate(zip(cases, scaled)):
        res.evaluations += 1
        o0, o1 = impl[i], impl[m + i]
        e = sc.relerr(o0 * b["c"], o1)
        stats["max_relerr"]["_constrain_ages"] = max(stats["max_relerr"].get("_constrain_ages", 0.0), e)
        stats["hyp_inrange"] += int(np.all(a["ep"] < a["t"].size) and np.all(a["ec"] < a["t"].size))
        # 'huge'/'tiny' modes sit where fl(t+eps) absorbs: nextafter is not equivariant (rounding, outside the theorem)
        tol = 1e-9
        if e > tol and a["mode"] not in ("huge",):
            res.violations.append(Violation(
                "constrain-not-equivariant",
                f"_constrain_ages(c t, c eps) differs from c x _constrain_ages(t, eps) by rel. {e:.3g} (c={b['c']!r}, "
                f"iters={a['iters']}, mode={a['mode']})", dict(cc.case_replay(a), c=float(b["c"]).hex())))
        if np.any(o0 != a["t"]):
            res.nontrivial.add(common.canon_key([cc.case_replay(a), float(b["c"]).hex()]))


def rescale_piece(ctx, res, stats, batch, checks, n):
    """mutational_area / mutational_timescale / piecewise / loop: model == numba at both scales, and
    function-level equivariance of the real functions."""
    from tsdate import rescaling
    rng = ctx.rng(13)
    done = 0
    while done < n:
        ts, info = sc.draw_ts(rng, "variational_gamma")
        mu = float(info["mu"])
        t = ts.nodes_time * rng.uniform(0.6, 1.8, size=ts.num_nodes)
        samples = list(ts.samples())
        t[samples] = ts.nodes_time[samples]
        k = int(rng.choice([1, 2, 3, 5, 10, 50, 1000]))
        iters = int(rng.choice([1, 3, 5]))
        sb = bool(rng.random() < 0.5)
        c = float(rng.choice(sc.C06_SCALES))
        ch0, br0 = sc.corr_rescale(ts, mu, t, k, iters, sb, batch, "rescale:base")
        ch1, br1 = sc.corr_rescale(ts, mu / c, t * c, k, iters, sb, batch, f"rescale:c={c!r}")
        checks += [(x, None) for x in ch0 + ch1]
        res.evaluations += 1
        done += 1
        stats["rescale_cases"] += 1
        if (br0 is None) != (br1 is None):
            stats["rescale_reject_flip"] += 1
            continue
        if br0 is None:
            stats["rescale_rejected"] += 1
            continue
        if br0[0].shape != br1[0].shape:
            stats["changepoint_flip"] += 1      # searchsorted on a rounding edge: counted, outside exact arithmetic
            continue
        e = max(sc.relerr(br0[0] * c, br1[0]), sc.relerr(br0[1] * c, br1[1]))
        stats["max_relerr"]["mutational_timescale"] = max(stats["max_relerr"].get("mutational_timescale", 0.0), e)
        replay = dict(kind="timescale", ts=gen.ts_to_jsonable(ts), mu=float(mu).hex(), t=[float(x).hex() for x in t],
                      k=k, iters=iters, size_biased=sb, c=float(c).hex())
        if e > 1e-9:
            res.violations.append(Violation(
                "timescale-not-equivariant",
                f"mutational_timescale(c t, lik/c) differs from c x mutational_timescale(t, lik) by rel. {e:.3g} (c={c!r}, k={k})",
                replay))
        res.nontrivial.add(common.canon_key(replay))


def corpus(ctx, res, stats):
    """Minimised inputs of earlier findings always run first (corpus/C06/*.json)."""
    import json
    for f in sorted((common.VERIF / "corpus" / "C06").glob("*.json")):
        d = json.loads(f.read_text())
        ts = gen.ts_from_jsonable(d["ts"])
        kw = sc.explicit_defaults(sc.kw_from_jsonable(d["kw"]))
        c = float.fromhex(d["c"])
        ts_c, kw_c = sc.scale_times_ts(ts, c), sc.c06_kwargs(kw, c)
        r0, r1 = sc.run(ts, kw), sc.run(ts_c, kw_c)
        res.evaluations += 2
        stats["corpus"] = stats.get("corpus", 0) + 1
        if not (r0["ok"] and r1["ok"]):
            continue
        errs = sc.compare(sc.outputs(r0["out"]), sc.outputs(r1["out"]), c, kw["method"])
        if any(e > sc.field_tol(fl, kw["method"]) for fl, e in errs.items()):
            f13 = sc.near_tie_rescaling(ts, kw, ts_c, kw_c, c)
            kind = f"{sc.NEAR_TIE}:{kw['method']}" if f13 else f"not-equivariant:{kw['method']}:{max(errs, key=errs.get)}"
            res.violations.append(Violation(kind, f"corpus {f.name}: {kw['method']} outputs at c={c!r} differ by rel. "
                                                  f"{max(errs.values()):.3g}" + (f" (near-tie pattern {f13})" if f13 else ""),
                                            dict(kind="date", ts=d["ts"], kw=d["kw"], c=d["c"])))


def new_stats():
    return dict(methods={}, options={}, raised={}, scales={}, max_relerr={}, hyp_inrange=0,
                rescale_cases=0, rescale_rejected=0, rescale_reject_flip=0, changepoint_flip=0, driver_cases={})


def finish_batch(res, stats, batch, checks):
    rep = batch.run()
    for m in batch.meta:
        stats["driver_cases"][m["op"]] = stats["driver_cases"].get(m["op"], 0) + 1
    for chk, _ in checks:
        for kind, what in chk(rep):
            res.corr_failures.append(Violation(kind, what, dict(kind="correspondence", what=what), stage="B"))


def run(ctx):
    res = Result()
    import tsdate  # noqa: F401
    stats = new_stats()
    batch = sc.Batch()
    checks = []
    corpus(ctx, res, stats)
    rng = ctx.rng(1)
    n_cases = ctx.n(24, 160)
    per = 4 if ctx.tier == "quick" else 13
    for i in range(n_cases):
        one_case(ctx, rng, res, stats, batch, checks, per, corr=(i % 2 == 0), idx=i)
    constrain_piece(ctx, res, stats, batch, checks, ctx.n(60, 1500))
    rescale_piece(ctx, res, stats, batch, checks, ctx.n(12, 200))
    sc.ep_piece(ctx, res, stats, batch, checks, ctx.n(8, 120), time_scales=(1.0, 1e-6, 1e6, 3.7))
    finish_batch(res, stats, batch, checks)
    stats["hypotheses"] = dict(c_positive="always (scale factors of the statement)",
                               InRange=f"{stats['hyp_inrange']} of {ctx.n(60, 1500)} constraint cases")
    res.rule = ("C: date() on msprime inputs (3-7 samples, 1-8 trees, >=5 mutations; historical samples and unphased "
                "singletons for the variational method; scalar / piecewise population size, default / integer / user "
                "timepoints, eps, min_branch_length, rescaling options) at c=1 and at 4 (quick) or 13 (thorough) of the 16 "
                "scale factors, always one non-power-of-two; B: the same runs' Poisson parameters, prior grids, spans, "
                "mean_var vs the Lean model at Float, `_constrain_ages` and the rescaling functions vs the model at base and "
                "rescaled inputs. Non-trivial = a run that dated at least one non-sample node (or a constraint/rescale "
                "case that changed a time); distinct by canonical hash of (input, method, options, c).")
    res.extra = dict(input_distribution=stats)
    return res


def search(ctx):
    res = Result()
    stats = new_stats()
    batch = sc.Batch()
    rng = ctx.rng(5)
    for j in range(ctx.n(10, 40)):
        one_case(ctx, rng, res, stats, batch, [], 8, corr=False, idx=j)
    return res


def replay(ctx, payload):
    d = payload["input"] if "input" in payload else payload.get("correspondence_input")
    if d.get("kind") == "date":
        ts = gen.ts_from_jsonable(d["ts"])
        tables = ts.dump_tables()
        if "ts_times" in d:
            tables.nodes.time = np.array([float.fromhex(x) for x in d["ts_times"]])
            ts = tables.tree_sequence()
        kw = sc.explicit_defaults(sc.kw_from_jsonable(d["kw"]))
        c = float.fromhex(d["c"])
        r0 = sc.run(ts, kw)
        r1 = sc.run(sc.scale_times_ts(ts, c), sc.c06_kwargs(kw, c))
        print("c =", c, "options:", kw)
        print("unscaled:", "returned" if r0["ok"] else f"raised {r0['exc']}: {r0['msg']}")
        print("scaled  :", "returned" if r1["ok"] else f"raised {r1['exc']}: {r1['msg']}")
        if not (r0["ok"] and r1["ok"]):
            return r0["ok"] == r1["ok"]
        errs = sc.compare(sc.outputs(r0["out"]), sc.outputs(r1["out"]), c, kw["method"])
        ok = True
        for f, e in errs.items():
            flag = e <= sc.field_tol(f, kw["method"])
            ok &= flag
            print(f"  {f}: rel. error {e:.3g} (tolerance {sc.field_tol(f, kw['method']):g}) {'ok' if flag else 'VIOLATED'}")
        return ok
    if d.get("kind") == "constrain":
        cse = cc.case_from_replay(d)
        c = float.fromhex(d["c"])
        o0 = cc.run_impl(cse)
        o1 = cc.run_impl(dict(cse, t=cse["t"] * c, eps=cse["eps"] * c))
        e = sc.relerr(o0 * c, o1)
        print("c =", c, "rel. error of _constrain_ages(c t, c eps) vs c x _constrain_ages(t, eps):", e)
        return e <= 1e-9
    if d.get("kind") == "timescale":
        from tsdate import rescaling
        ts = gen.ts_from_jsonable(d["ts"])
        mu, c = float.fromhex(d["mu"]), float.fromhex(d["c"])
        t = np.array([float.fromhex(x) for x in d["t"]])
        _, lik, fixed = sc.vg_inputs(ts, mu, d["size_biased"])
        _, lik_c, _ = sc.vg_inputs(ts, mu / c, d["size_biased"])
        a = rescaling.mutational_timescale(t, lik, fixed, ts.edges_parent, ts.edges_child, d["k"])
        b = rescaling.mutational_timescale(t * c, lik_c, fixed, ts.edges_parent, ts.edges_child, d["k"])
        e = max(sc.relerr(a[0] * c, b[0]), sc.relerr(a[1] * c, b[1]))
        print("c =", c, "rel. error of mutational_timescale:", e)
        return e <= 1e-9
    print("correspondence failure:", d)
    return False
